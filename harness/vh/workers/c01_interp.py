"""Worker for C01: run generated straight-line programs under the REAL pyscript AstEval and under CPython.

Every case is run up to four ways:
  * native      : values are plain Python values, `t(k, e)` logs (k, canon(e)) and returns e   -> the property's oracle
  * instrumented: every value is a recording object `Rec`; each dunder call is logged on a *tape*
                  (operator, arguments, result/exception).  Two behaviours:
                    - payload ("twin"): a Rec carries a real Python value and computes real results
                    - seeded          : results are fresh Recs / seeded booleans / seeded lengths / seeded exceptions
The same source text is executed by `AstEval.parse()+eval()` and by `exec(compile(...))`.
stdin JSON {"cases":[{"src","init":{name: literal source},"mode":"native"|"seeded","seed":int}]} -> 'RESULT <json>'.
"""
import asyncio
import dis
import json
import operator
import random
import shutil
import sys
import tempfile
import time as _time

BIN = {
    "add": operator.add, "sub": operator.sub, "mul": operator.mul, "truediv": operator.truediv, "mod": operator.mod,
    "pow": operator.pow, "lshift": operator.lshift, "rshift": operator.rshift, "or": operator.or_, "xor": operator.xor,
    "and": operator.and_, "floordiv": operator.floordiv,
}
IBIN = {
    "add": operator.iadd, "sub": operator.isub, "mul": operator.imul, "truediv": operator.itruediv, "mod": operator.imod,
    "pow": operator.ipow, "lshift": operator.ilshift, "rshift": operator.irshift, "or": operator.ior, "xor": operator.ixor,
    "and": operator.iand, "floordiv": operator.ifloordiv,
}
UN = {"neg": operator.neg, "pos": operator.pos, "invert": operator.invert}
CMP = {"lt": operator.lt, "le": operator.le, "gt": operator.gt, "ge": operator.ge, "eq": operator.eq, "ne": operator.ne}
SEEDED_EXC = [ValueError, KeyError, TypeError, ZeroDivisionError, IndexError, AttributeError]

_NO = object()


class Plain:
    """a plain object for attribute programs (native mode)"""

    def __repr__(self):
        return "Plain(" + ",".join(f"{k}={canon(v)}" for k, v in sorted(self.__dict__.items())) + ")"


class _Keep:
    def __init__(self, value):
        self.value = value


class Run:
    """one instrumented execution: id counter, tape, behaviour"""

    def __init__(self, seed, seeded):
        self.seed = seed
        self.seeded = seeded
        self.next_id = 1
        self.tape = []
        self.truths = []
        self.unhashable = set()
        self.bad = None  # set when something not encodable was seen

    def new_id(self):
        i = self.next_id
        self.next_id += 1
        return i

    def rnd(self, ident, op, n):
        return random.Random(f"{self.seed}/{ident}/{op}/{n}")

    def enc(self, v, depth=0):
        if depth > 12:
            self.bad = "value too deep"
            return {"x": "deep"}
        if isinstance(v, Rec):
            return {"o": v._id}
        if v is None:
            return {"c": "none"}
        if v is Ellipsis:
            return {"c": "ellipsis"}
        if isinstance(v, bool):
            return {"c": "bool", "v": v}
        if isinstance(v, int):
            return {"c": "int", "v": str(v)}
        if isinstance(v, float):
            return {"c": "float", "v": repr(v)}
        if isinstance(v, str):
            return {"c": "str", "v": v}
        if isinstance(v, bytes):
            return {"c": "bytes", "v": v.hex()}
        if isinstance(v, list):
            return {"l": [self.enc(x, depth + 1) for x in v]}
        if isinstance(v, tuple):
            return {"t": [self.enc(x, depth + 1) for x in v]}
        if isinstance(v, (set, frozenset)):
            return {"s": [self.enc(x, depth + 1) for x in v]}
        if isinstance(v, dict):
            return {"d": [[self.enc(k, depth + 1), self.enc(x, depth + 1)] for k, x in v.items()]}
        if isinstance(v, slice):
            return {"sl": [self.enc(v.start, depth + 1), self.enc(v.stop, depth + 1), self.enc(v.step, depth + 1)]}
        self.bad = f"cannot encode {type(v).__name__}"
        return {"x": type(v).__name__}


def unwrap(v, depth=0):
    """recording objects -> their payloads, through native containers"""
    if isinstance(v, Rec):
        return v._payload
    if depth > 12:
        return v
    if isinstance(v, list):
        return [unwrap(x, depth + 1) for x in v]
    if isinstance(v, tuple):
        return tuple(unwrap(x, depth + 1) for x in v)
    if isinstance(v, set):
        return {unwrap(x, depth + 1) for x in v}
    if isinstance(v, dict):
        return {unwrap(k, depth + 1): unwrap(x, depth + 1) for k, x in v.items()}
    if isinstance(v, slice):
        return slice(unwrap(v.start), unwrap(v.stop), unwrap(v.step))
    return v


class LStr(str):
    """result of a logged conversion (!s / !r / !a): formatting it with a non-empty format spec is str's business and
    would be invisible; this subclass puts that format() call on the tape (operator format, arguments: the text, the spec)"""

    def __new__(cls, run, text):
        obj = super().__new__(cls, text)
        obj._run = run
        return obj

    def __format__(self, spec):
        if spec == "":
            return str.__str__(self)
        run = self._run
        entry = {"op": "format", "args": [run.enc(str.__str__(self)), run.enc(spec)]}
        run.tape.append(entry)
        try:
            res = str.__format__(self, spec)
        except BaseException as exc:
            entry["exc"] = type(exc).__name__
            raise
        entry["ret"] = run.enc(res)
        return res


class Rec:
    """Recording object.  Rules (harness recipe): no reflected operators; `_`-prefixed attribute probes raise
    AttributeError unlogged; `== time.sleep` is answered False unlogged; __str__/__repr__/__hash__ unlogged."""

    __slots__ = ("_run", "_id", "_payload", "_kind", "_cnt", "_it")

    def __init__(self, run, payload=_NO, kind="obj"):
        object.__setattr__(self, "_run", run)
        object.__setattr__(self, "_id", run.new_id())
        object.__setattr__(self, "_payload", payload)
        object.__setattr__(self, "_kind", kind)
        object.__setattr__(self, "_cnt", 0)
        object.__setattr__(self, "_it", None)
        # truth value at creation (unlogged): lets the replay answer truth tests CPython's compiler optimised away
        try:
            if run.seeded:
                tv = run.rnd(self._id, "truth", 0).random() < 0.5
            else:
                tv = bool(payload) if payload is not _NO else True
        except Exception:  # pylint: disable=broad-except
            tv = True
        run.truths.append([self._id, tv])
        if not run.seeded and payload is not _NO:
            try:
                hash(payload)
            except TypeError:
                run.unhashable.add(self._id)
            except Exception:  # pylint: disable=broad-except
                pass

    # ---- machinery -------------------------------------------------------------------------------
    def _do(self, op, args, compute, wrap=True):
        run = self._run
        entry = {"op": op, "args": [run.enc(a) for a in args]}
        run.tape.append(entry)
        n = self._cnt
        object.__setattr__(self, "_cnt", n + 1)
        try:
            if run.seeded:
                r = run.rnd(self._id, op, 0 if op == "truth" else n)
                if op != "truth" and r.random() < 0.06:
                    raise r.choice(SEEDED_EXC)("seeded")
                res = compute(r, True)
            else:
                res = compute(None, False)
                if isinstance(res, _Keep):
                    res = res.value
                elif wrap and not isinstance(res, Rec):
                    res = Rec(run, res)
        except BaseException as exc:
            entry["exc"] = type(exc).__name__
            raise
        entry["ret"] = run.enc(res)
        return res

    def _fresh(self):
        return Rec(self._run)

    def _binary(self, tag, table, name, other):
        def comp(r, seeded):
            if seeded:
                return self._fresh()
            res = table[name](self._payload, unwrap(other))
            if tag == "cmp" and isinstance(res, bool):
                return _Keep(res)  # comparisons of builtin values yield plain bools (host hypothesis H2)
            return res

        return self._do(f"{tag}:{name}", [self, other], comp)

    # ---- unlogged ----------------------------------------------------------------------------------
    def __getattr__(self, name):
        if name.startswith("_"):
            raise AttributeError(name)
        return self._do(f"getattr:{name}", [self],
                        lambda r, seeded: self._fresh() if seeded else getattr(self._payload, name))

    def __setattr__(self, name, value):
        if name.startswith("_"):
            raise AttributeError(name)

        def comp(r, seeded):
            if not seeded:
                setattr(self._payload, name, unwrap(value))
            return None

        self._do(f"setattr:{name}", [self, value], comp, wrap=False)

    def __delattr__(self, name):
        if name.startswith("_"):
            raise AttributeError(name)

        def comp(r, seeded):
            if not seeded:
                delattr(self._payload, name)
            return None

        self._do(f"delattr:{name}", [self], comp, wrap=False)

    def __hash__(self):
        if self._id in self._run.unhashable:
            raise TypeError("unhashable payload")
        return self._id * 7919 + 13

    def _conv(self, tag, fn, text):
        # pyscript's call_func builds a debug string from every positional argument (str(arg)): not part of the program;
        # nor are the strings CPython builds for error messages: only conversions asked for by the program's own code
        # (CPython: the instruction being executed is the f-string conversion; pyscript: ast_formattedvalue) are logged
        frame = sys._getframe(2)  # pylint: disable=protected-access
        code = frame.f_code
        if code.co_filename == "<c01>":
            if dis.opname[code.co_code[frame.f_lasti]] not in ("FORMAT_VALUE", "CONVERT_VALUE"):
                return text
            if tag == "r" and dis.opname[code.co_code[frame.f_lasti]] == "FORMAT_VALUE" and code.co_code[frame.f_lasti + 1] & 3 == 3:
                tag = "a"  # ascii() asks __repr__
        elif code.co_name in ("ast_formattedvalue", "ast_joinedstr"):
            node = frame.f_locals.get("arg")
            if tag == "r" and getattr(node, "conversion", -1) == 97:
                tag = "a"
        else:
            return text
        run = self._run
        # the converted text is a str whose own __format__ is on the tape when a format spec is applied to it
        return self._do(f"conv:{tag}", [self], lambda r, seeded: LStr(run, text if seeded else fn(self._payload)), wrap=False)

    def __str__(self):
        return self._conv("s", str, f"<S{self._id}>")

    def __repr__(self):
        return self._conv("r", repr, f"<R{self._id}>")

    # ---- logged protocol -----------------------------------------------------------------------------
    def __bool__(self):
        return self._do("truth", [self],
                        lambda r, seeded: (r.random() < 0.5) if seeded else bool(self._payload), wrap=False)

    def __contains__(self, item):
        return self._do("contains", [self, item],
                        lambda r, seeded: (r.random() < 0.5) if seeded else (unwrap(item) in self._payload), wrap=False)

    def __getitem__(self, idx):
        return self._do("getitem", [self, idx],
                        lambda r, seeded: self._fresh() if seeded else self._payload[unwrap(idx)])

    def __setitem__(self, idx, val):
        def comp(r, seeded):
            if not seeded:
                self._payload[unwrap(idx)] = unwrap(val)
            return None

        self._do("setitem", [self, idx, val], comp, wrap=False)

    def __delitem__(self, idx):
        def comp(r, seeded):
            if not seeded:
                del self._payload[unwrap(idx)]
            return None

        self._do("delitem", [self, idx], comp, wrap=False)

    def __iter__(self):
        if self._kind == "iter":
            # an iterator returns itself (logged: list(it) / [*it] ask again)
            return self._do("iter", [self], lambda r, seeded: self, wrap=False)

        def comp(r, seeded):
            it = Rec(self._run, _NO, "iter")
            if seeded:
                object.__setattr__(it, "_it", [r.randint(0, 3)])
            else:
                object.__setattr__(it, "_it", iter(self._payload))
            return it

        return self._do("iter", [self], comp)

    def __next__(self):
        if self._kind != "iter":
            raise TypeError("not an iterator")

        def comp(r, seeded):
            if seeded:
                if self._it[0] <= 0:
                    raise StopIteration
                self._it[0] -= 1
                return self._fresh()
            return next(self._it)

        return self._do("next", [self], comp)

    def __call__(self, *args, **kwargs):
        def comp(r, seeded):
            if self._kind == "tracer":
                if len(args) != 2 or kwargs:
                    raise TypeError("t() takes exactly two positional arguments")
                e = args[1]
                if isinstance(e, Rec):
                    return e
                return Rec(self._run) if seeded else Rec(self._run, unwrap(e))
            if seeded:
                return self._fresh()
            return self._payload(*[unwrap(a) for a in args], **{k: unwrap(v) for k, v in kwargs.items()})

        return self._do("call", [self, tuple(args), dict(kwargs)], comp)

    def __format__(self, spec):
        def comp(r, seeded):
            if seeded:
                return f"<F{self._id}:{spec}>"
            return format(self._payload, spec)

        return self._do("format", [self, spec], comp, wrap=False)

    def __eq__(self, other):
        if other is _time.sleep:
            return False
        return self._binary("cmp", CMP, "eq", other)

    def __ne__(self, other):
        return self._binary("cmp", CMP, "ne", other)

    def __lt__(self, other):
        return self._binary("cmp", CMP, "lt", other)

    def __le__(self, other):
        return self._binary("cmp", CMP, "le", other)

    def __gt__(self, other):
        return self._binary("cmp", CMP, "gt", other)

    def __ge__(self, other):
        return self._binary("cmp", CMP, "ge", other)

    def __neg__(self):
        return self._do("un:neg", [self], lambda r, seeded: self._fresh() if seeded else -self._payload)

    def __pos__(self):
        return self._do("un:pos", [self], lambda r, seeded: self._fresh() if seeded else +self._payload)

    def __invert__(self):
        return self._do("un:invert", [self], lambda r, seeded: self._fresh() if seeded else ~self._payload)


def _mk_bin(name, tag, table):
    def meth(self, other):
        return self._binary(tag, table, name, other)

    return meth


def _mk_ibin(name):
    def meth(self, other):
        def comp(r, seeded):
            if seeded:
                return self._fresh()
            old = self._payload
            new = IBIN[name](old, unwrap(other))
            if new is old:
                return self  # mutated in place: the same object, as Python's in-place protocol does
            return new

        return self._do(f"ibin:{name}", [self, other], comp)

    return meth


for _n, _d in (("add", "add"), ("sub", "sub"), ("mul", "mul"), ("truediv", "truediv"), ("mod", "mod"), ("pow", "pow"),
               ("lshift", "lshift"), ("rshift", "rshift"), ("or", "or"), ("xor", "xor"), ("and", "and"), ("floordiv", "floordiv")):
    setattr(Rec, f"__{_d}__", _mk_bin(_n, "bin", BIN))
    setattr(Rec, f"__i{_d}__", _mk_ibin(_n))


# ------------------------------------------------------------------------------------------------
# native mode
# ------------------------------------------------------------------------------------------------
def canon(v, depth=0):
    """canonical text of a native value: type + repr at every level; sets sorted"""
    if depth > 12:
        return "<deep>"
    t = type(v).__name__
    if isinstance(v, (list, tuple)):
        return t + "[" + ",".join(canon(x, depth + 1) for x in v) + "]"
    if isinstance(v, (set, frozenset)):
        return t + "{" + ",".join(sorted(canon(x, depth + 1) for x in v)) + "}"
    if isinstance(v, dict):
        return t + "{" + ",".join(canon(k, depth + 1) + ":" + canon(x, depth + 1) for k, x in v.items()) + "}"
    if isinstance(v, slice):
        return f"slice({canon(v.start)},{canon(v.stop)},{canon(v.step)})"
    if isinstance(v, (type(None), bool, int, float, str, bytes, complex, Plain)) or v is Ellipsis:
        r = repr(v)
        if len(r) > 400:
            r = r[:400] + f"...#{len(r)}"
        return t + ":" + r
    if callable(v):
        return "callable:<object>"  # CPython functions / pyscript's function objects / Fn alike
    return t + ":<object>"


class Fn:
    """the callable f / g of generated programs: returns its first positional argument (or None); in native mode it
    also logs its arguments; stable repr (no address) so that f-strings mentioning it are reproducible"""

    def __init__(self, name, log=None):
        self._name = name
        self._log = log

    def __call__(self, *args, **kwargs):
        if self._log is not None:
            self._log.append([self._name, canon(args) + canon(kwargs)])
        return args[0] if args else None

    def __repr__(self):
        return f"<fn {self._name}>"


def lit(src, log=None, name=None):
    """initial bindings are given as literal source text"""
    if src == "Plain()":
        return Plain()
    if src == "<callable>":
        return Fn(name, log)
    return eval(src, {"__builtins__": {}}, {})  # pylint: disable=eval-used


async def run_ps(new_interp, src, table):
    a, _gc = new_interp("c01", table)
    a.parse(src)
    await a.eval()
    return a.global_sym_table


def run_py(src, table):
    code = compile(src, "<c01>", "exec")
    exec(code, table)  # pylint: disable=exec-used
    return table


def user_names(table, extra_skip=()):
    return [k for k in table if not k.startswith("__") and k not in ("t",) and k not in extra_skip]


async def one_native(new_interp, case, which):
    log = []

    def t(k, e):
        log.append([k, canon(e)])
        return e

    table = {"t": t}
    for name, src in case.get("init", {}).items():
        table[name] = lit(src, log, name)
    exc = None
    try:
        if which == "ps":
            table = await run_ps(new_interp, case["src"], table)
        else:
            table = run_py(case["src"], table)
    except Exception as e:  # pylint: disable=broad-except
        exc = type(e).__name__
    names = sorted(n for n in user_names(table) if case.get("init", {}).get(n) != "<callable>")
    return {"vars": [[n, canon(table[n])] for n in names], "log": log, "exc": exc}


async def one_tape(new_interp, case, which, seeded):
    run = Run(case.get("seed", 0), seeded)
    tr = Rec(run, _NO, "tracer")
    table = {"t": tr}
    init_env = [["t", {"o": tr._id}]]
    for name, src in case.get("init", {}).items():
        obj = Rec(run) if seeded else Rec(run, lit(src, None, name))
        table[name] = obj
        init_env.append([name, {"o": obj._id}])
    exc = None
    try:
        if which == "ps":
            table = await run_ps(new_interp, case["src"], table)
        else:
            table = run_py(case["src"], table)
    except Exception as e:  # pylint: disable=broad-except
        exc = type(e).__name__
    env = [[n, run.enc(table[n])] for n in table if not n.startswith("__")]
    return {"tape": run.tape, "env": env, "exc": exc, "init": init_env, "bad": run.bad, "truths": run.truths,
            "unhashable": sorted(run.unhashable)}


async def main():
    req = json.loads(sys.stdin.read())
    from pytest_homeassistant_custom_component.common import async_test_home_assistant

    from vh.hassenv import interp_env_setup, new_interp

    tmp = tempfile.mkdtemp(prefix="pv_c01_", dir="/var/tmp")
    out = []
    try:
        async with async_test_home_assistant(config_dir=tmp) as hass:
            interp_env_setup(hass)
            for case in req["cases"]:
                res = {}
                try:
                    compile(case["src"], "<c01>", "exec")
                except SyntaxError as e:
                    out.append({"error": f"SyntaxError: {e}"})
                    continue
                seeded = case.get("mode") == "seeded"
                try:
                    if not seeded:
                        res["nat_ps"] = await one_native(new_interp, case, "ps")
                        res["nat_py"] = await one_native(new_interp, case, "py")
                    if case.get("nomodel"):
                        # node types outside the Coq model (lambda): the native comparison alone (search oracle)
                        res["ps"] = res["py"] = {"tape": [], "env": [], "exc": None, "init": [], "bad": None, "truths": [],
                                                 "unhashable": []}
                    else:
                        res["ps"] = await one_tape(new_interp, case, "ps", seeded)
                        res["py"] = await one_tape(new_interp, case, "py", seeded)
                except BaseException as e:  # pylint: disable=broad-except
                    res = {"error": f"{type(e).__name__}: {e}"}
                out.append(res)
            await hass.async_stop(force=True)
    finally:
        shutil.rmtree(tmp, ignore_errors=True)
    print("RESULT " + json.dumps(out))


if __name__ == "__main__":
    from vh.hassenv import run_virtual

    run_virtual(main())
