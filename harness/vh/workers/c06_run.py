"""C06 running scenarios: a real @time_trigger function inside a real HomeAssistant on the virtual clock, with a wall
clock (dt_now) derived from virtual UTC through zoneinfo, so that daylight-saving transitions happen for real."""
import asyncio
import datetime as dt
from zoneinfo import ZoneInfo

from vh.hassenv import START, PyscriptEnv, run_virtual

EPOCH = dt.datetime(1970, 1, 1)
US = dt.timedelta(microseconds=1)
NYC = (40.7128, -74.0060)


def to_us(d):
    return (d - EPOCH) // US


def from_us(n):
    return EPOCH + dt.timedelta(microseconds=n)


class DstEnv(PyscriptEnv):
    """PyscriptEnv whose dt_now() is the naive local time, in the configured zone, of a wall clock that can be perturbed
    relative to the event loop's (monotonic, virtual) clock: wall = base + (mono - base) * (1 - ppm/10^6) + steps, all in
    integer microseconds (the same formula as rc_wall in coq/Time/NextCheck.v).  steps = [[elapsed_us, delta_us], ...]:
    at that monotonic time the wall clock is set by delta (negative = back), as NTP/an administrator does."""

    def __init__(self, base_utc_us, tz, ppm=0, steps=(), **kw):
        super().__init__(time_zone=tz, **kw)
        self._zone = ZoneInfo(tz)
        self._base_us = base_utc_us
        self._ppm = ppm
        self._steps = [(base_utc_us + a, d) for a, d in steps]
        self._last = None

    def mono_us(self):
        return self._base_us + round((asyncio.get_running_loop().time() - START) * 1e6)

    def utc_now_us(self):
        return self.mono_us()

    def wall_us(self, mono):
        off = sum(d for a, d in self._steps if a <= mono)
        return self._base_us + (mono - self._base_us) * (1000000 - self._ppm) // 1000000 + off

    def abs_steps(self):
        return [[a, d] for a, d in self._steps]

    def dt_now(self):
        mono = self.mono_us()
        nsteps = sum(1 for a, _d in self._steps if a <= mono)
        val = self.wall_us(mono)
        last = self._last
        if last is not None and last[1] == nsteps and val <= last[0]:
            val = last[0] + 1        # a real clock never returns the same microsecond twice to sequential callers
        self._last = (val, nsteps)
        return from_us(val).replace(tzinfo=dt.timezone.utc).astimezone(self._zone).replace(tzinfo=None)


def script_for(case):
    args = [repr(s) for s in case["specs"]]
    if case.get("startup"):
        args.insert(case.get("startup_pos", 0) % (len(args) + 1), repr("startup"))
    if case.get("shutdown"):
        args.append(repr("shutdown"))
    deco = "@time_trigger" if case.get("noargs") else "@time_trigger(%s)" % ", ".join(args)
    above, below = [], []
    if case.get("state_hold") is not None:       # a second trigger of the same function, with a hold period
        above.append("@state_trigger(\"pyscript.pv_hvar == '1'\", state_hold=%r)" % case["state_hold"])
    if case.get("event"):
        below.append('@event_trigger("c06_ev")')
    if case.get("mqtt"):                          # a sibling decorator whose stop can be made to fail
        (above if case["mqtt"]["pos"] == "above" else below).append('@mqtt_trigger("pv/c06")')
    lines = above + [deco] + below
    return "\n" + "\n".join(lines) + """
def pv_func(trigger_type=None, trigger_time=None, **kw):
    event.fire("pv_run", ty=str(trigger_type), tt=str(trigger_time))
"""


async def scenario(case, tz):
    from custom_components.pyscript import trigger
    from custom_components.pyscript.trigger import TrigTime

    from vh.workers.c06_time import SunRecorder

    calls = []
    holder = {}
    orig = TrigTime.__dict__["timer_trigger_next"]
    rec = SunRecorder(trigger.sun)

    async def wrapped(cls, time_spec, now, startup_time):
        mono = holder["env"].mono_us()
        try:
            res = await orig.__func__(cls, time_spec, now, startup_time)
        except Exception as exc:  # pylint: disable=broad-except
            calls.append({"mono": holder["env"].mono_us(), "now": to_us(now), "su": to_us(startup_time), "kind": "exc", "exc": repr(exc), "t": None, "adj": None})
            raise
        calls.append({"mono": mono, "now": to_us(now), "su": to_us(startup_time), "kind": "res",
                      "t": None if res[0] is None else to_us(res[0]), "adj": None if res[1] is None else to_us(res[1])})
        return res

    TrigTime.timer_trigger_next = classmethod(wrapped)
    trigger.sun = rec
    try:
        env = DstEnv(case["base_utc"], tz, ppm=case.get("ppm", 0), steps=case.get("steps", ()), files={}, legacy=case["legacy"])
        holder["env"] = env
        subs = {"sub": 0, "unsub": 0}

        async def fake_subscribe(hass, topic, msg_callback, qos=0, encoding="utf-8", **kwargs):
            subs["sub"] += 1

            def remove():
                subs["unsub"] += 1
                if case["mqtt"].get("fault"):
                    raise RuntimeError(f"MQTT client is not available: cannot unsubscribe {topic}")

            return remove

        import contextlib
        from unittest.mock import patch

        mq = patch("homeassistant.components.mqtt.async_subscribe", fake_subscribe) if case.get("mqtt") else contextlib.nullcontext()
        reload_exc = None
        async with env:
          with mq:
            env.hass.config.latitude, env.hass.config.longitude = NYC
            env.hass.states.async_set("pyscript.pv_hvar", "0")
            await env.advance(case.get("lead", 1.0))
            def_utc = env.utc_now_us()
            env.write("pv_case.py", script_for(case))
            await env.reload()
            done = 0.0
            for at, op, val in sorted(case.get("history", [])):      # state changes / events while the trigger waits
                if at > done:
                    await env.advance(at - done)
                    done = at
                if op == "set":
                    env.hass.states.async_set("pyscript.pv_hvar", val)
                else:
                    env.hass.bus.async_fire("c06_ev", {"n": val})
                await env.settle()
            await env.advance(case["horizon"] - done)
            rm_utc = env.utc_now_us()
            env.remove("pv_case.py")
            try:
                await env.reload()
            except Exception as exc:  # pylint: disable=broad-except
                reload_exc = repr(exc)
            await env.advance(case.get("tail", 2.0))
            end_utc = env.utc_now_us()
            runs = []
            other = []
            base = case["base_utc"]
            for vt, ety, data in env.events:
                if ety != "pv_run":
                    continue
                if data.get("ty") in ("state", "event", "mqtt"):    # runs of the sibling triggers (properties C05/C08)
                    other.append([base + round(vt * 1e6), data.get("ty")])
                    continue
                tt = data.get("tt")
                if tt in ("startup", "shutdown"):
                    k = tt
                else:
                    try:
                        k = to_us(dt.datetime.fromisoformat(tt))
                    except (TypeError, ValueError):
                        k = "bad:" + str(tt)
                runs.append([base + round(vt * 1e6), k, data.get("ty")])
            errs = [r for r in env.log.records if r[1] in ("ERROR", "WARNING")]
            return {"def_utc": def_utc, "remove_utc": rm_utc, "runs": runs, "calls": calls, "sun": rec.table,
                    "base": case["base_utc"], "ppm": case.get("ppm", 0), "steps": env.abs_steps(),
                    "walls": [env.wall_us(u) for u, _k, _t in runs], "other_runs": other, "subs": subs, "reload_exc": reload_exc, "end_utc": end_utc,
                    "errors": [list(e) for e in errs[:5]]}
    finally:
        TrigTime.timer_trigger_next = orig
        trigger.sun = rec._real


def run_all(req):
    out = []
    for case in req["cases"]:
        out.append(run_virtual(scenario(case, req["tz"])))
    return out
