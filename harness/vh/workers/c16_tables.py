"""C16 — identifier and value tables shared by the generator (props/c16.py) and the worker (workers/c16_statevar.py).

Identifiers (domains, entity names, attribute names) and Python values are shipped to Coq as small numbers; the
tables below are the id <-> string / id <-> Python-object maps.  Nothing here comes from /repo; the ids of the
virtual / callable StateVal attribute names are assigned by the translator in props/c16.py from the source.
"""

# ---- identifiers --------------------------------------------------------------------------------------------
IDENT = {
    1: "pvd",    # ordinary state domain
    2: "pvl",    # domain shadowed by a *local* Python variable (when a step binds it)
    3: "pvg",    # domain shadowed by a *global* Python variable (always bound)
    4: "state",  # domain of pyscript's own function names (state.get ...)
    10: "e0", 11: "e1", 12: "e2",
    13: "meth",  # pvd.meth : a service with an entity_id parameter (entity service method)
    14: "svc",   # pvd.svc  : a service registered / removed externally during the run
    15: "get",   # state.get : a pyscript function name
    16: "meth2",  # pvd.meth2 : a second entity service of the same domain (registered / removed externally)
    20: "a0", 21: "a1", 22: "a2",
    23: "value",  # attribute whose name collides with a parameter of State.set
    24: "count", 25: "title",   # attribute names that are also str methods (hasattr(str, name))
    # 100.. virtual attribute names, 120.. callable attribute names: assigned from the source by the translator
    100: "entity_id", 101: "last_changed", 102: "last_updated", 103: "last_reported",
}
VIRTUAL_BASE = 100
CALLABLE_BASE = 120
EXTRA_BASE = 150   # virtual names the translator finds in the source that are not in the table above

DOMAINS = [1, 2, 3, 4]
ENTITIES = [(1, 10), (1, 11), (1, 12), (1, 14), (2, 10), (3, 10), (3, 11), (4, 15)]
ATTRS = [20, 21, 22, 23, 100, 24]
SLOTS = [0, 1, 2]
GLOBAL_OBJ = 3          # ident of the global Python variable (an object with attributes e0/e1)
LOCAL_OBJ = 2           # ident of the local Python variable some steps bind
SVC_ARG = (1, 13)       # pvd.meth has an entity_id parameter (registered and refreshed before the first step)
METHOD_SVCS = [(1, 13), (1, 16), (2, 13)]   # entity services external steps may register / remove: pvd.meth, pvd.meth2, pvl.meth
DYN_SVC = (1, 14)       # pvd.svc is registered/removed by external steps
FUNC_NAME = (4, 15)     # state.get

# ---- values -------------------------------------------------------------------------------------------------
V_NONE, V_FUNC, V_BADTIME = 0, 2, 3
TIME_BASE = 100000   # a datetime stamped during step number t (1-based; 0 = before the first step) has id TIME_BASE + t
# pool of Python values: closed under str(); ids are positions + 10
_POOL = [
    "on", "off", "", "7", 7, "1", 1, 1.0, "1.0", True, "True", False, "False", 0, "0", 2.5, "2.5", "None",
    [1, 2], "[1, 2]", [], "[]", [True, 2], "[True, 2]", {"k": 1}, "{'k': 1}", {}, "{}", {"k": True}, "{'k': True}",
    [1.0, 2], "[1.0, 2]",
]
POOL_BASE = 10
DYN_BASE = 1000


def canon(v):
    """type-tagged canonical string of a plain Python value (nested containers keep element types via repr)"""
    if v is None:
        return "none"
    t = type(v).__name__
    return f"{t}:{v!r}"


POOL = {POOL_BASE + i: v for i, v in enumerate(_POOL)}
CANON2ID = {canon(v): i for i, v in POOL.items()}
CANON2ID["none"] = V_NONE
assert len(CANON2ID) == len(POOL) + 1, "pool values must be canonically distinct"
for _i, _v in POOL.items():
    assert canon(str(_v)) in CANON2ID, f"pool not closed under str(): {_v!r}"
assert canon(str(None)) in CANON2ID


def ent_str(e):
    return f"{IDENT[e[0]]}.{IDENT[e[1]]}"


# entity-id strings are values too (the virtual entity_id field): ids 500+
ENT_BASE = 500
ENT_ALL = sorted({(d, n) for d in DOMAINS for n in (10, 11, 12, 13, 14, 15)})
ENTSTR = {e: ENT_BASE + i for i, e in enumerate(ENT_ALL)}
for _e, _i in ENTSTR.items():
    CANON2ID[canon(ent_str(_e))] = _i

FIXED = dict(POOL)
for _e, _i in ENTSTR.items():
    FIXED[_i] = ent_str(_e)


def str_table():
    """id -> id of str(value) for every fixed id"""
    tab = {V_NONE: CANON2ID[canon("None")]}
    for i, v in FIXED.items():
        tab[i] = CANON2ID[canon(str(v))]
    return tab


def eq_table():
    """id -> smallest id of its Python-equality class (1 == 1.0 == True, [1, 2] == [1.0, 2] ...)"""
    ids = sorted(FIXED)
    tab = {}
    for i in ids:
        rep = i
        for j in ids:
            if j >= i:
                break
            if FIXED[j] == FIXED[i]:
                rep = j
                break
        tab[i] = rep
    return tab


def value_of(vid):
    if vid == V_NONE:
        return None
    return FIXED[vid]


def py_literal(vid):
    """source text of the literal with this id"""
    return repr(value_of(vid))


def str_attr_idents():
    """identifiers that every str (hence every StateVal) has as an attribute"""
    return sorted(i for i, n in IDENT.items() if hasattr(str, n))


def py_attr_pairs():
    """(value id, identifier) with hasattr(value, name) for the plain values of the fixed tables"""
    out = []
    for vid in [V_NONE] + sorted(FIXED):
        v = value_of(vid)
        for i, n in sorted(IDENT.items()):
            if hasattr(v, n):
                out.append((vid, i))
    return out
