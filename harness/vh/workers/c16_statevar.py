"""C16 worker: run generated operation sequences on the real pyscript inside a real HomeAssistant.

stdin: {"cases": [case, ...]}   ->   RESULT [[obs_step, ...] per case]
A case: {"mode": "func"|"live", "legacy": bool, "gobj": [[ident, vid], ...], "steps": [step, ...]} with
  step = {"t": "x", "x": ["set", [d, n], vid, [[k, vid], ...]] | ["rm", [d, n]] | ["reg", [d, n]] | ["unreg", [d, n]]
                         | ["regm", [d, n]] (service with an entity_id parameter) | ["refresh"] (State.get_service_params)}
       | {"t": "s", "loc": [[ident, [[k, vid], ...]], ...], "op": [...]}          (see gen_core for the op forms)
Script steps are executed by *script code*: in "func" mode each step is the body of its own pyscript function, run by
calling the script's `pyscript.pv_step` service; in "live" mode each step is evaluated at global level by a fresh
AstEval on the script's global context (as the Jupyter kernel does).  External steps call hass.states / hass.services
directly.  After every step the worker records what the script reported (vh.workers.c16_sink) and the complete
observable state: hass.states (value + attributes), the global shadowing object, the snapshot variables s0..s2 and
which of the candidate services exist.
"""
import json
import sys

from vh.hassenv import PyscriptEnv, run_virtual
from vh.workers import c16_sink as sink
from vh.workers import c16_tables as T

CTX = "file.pvscript"


def lit(v):
    return T.py_literal(v)


def dotted(parts):
    return ".".join(T.IDENT[p] for p in parts)


def attrs_src(attrs):
    return "{" + ", ".join(f"{T.IDENT[k]!r}: {lit(v)}" for k, v in attrs) + "}"


def vexpr(x):
    return lit(x[1]) if x[0] == "lit" else f"s{x[1]}"


def gen_core(op):
    """-> (statement lines computing r, report kind, fresh-snapshot flag)"""
    k = op[0]
    cap = []
    if k in ("rd", "get") and op[2] is not None:
        cap = [f"s{op[2]} = r if isinstance(r, str) else None"]
    if k == "rd":
        return [f"r = {dotted(op[1])}"] + cap, "val", True
    if k == "get":
        return [f"r = state.get({dotted(op[1])!r})"] + cap, "val", True
    if k == "asg":
        return [f"{dotted(op[1])} = {vexpr(op[2])}", "r = None"], "val", False
    if k == "set":
        _k, name, value, nattrs, kwargs, valkw = op
        args = [repr(dotted(name))]
        if value is not None:
            args.append(("value=" if valkw else "") + vexpr(value))
        if nattrs is not None:
            src = "None" if nattrs == "none" else attrs_src(nattrs)
            args.append(("new_attributes=" if (valkw or value is None) else "") + src)
        for kk, vv in kwargs:
            args.append(f"{T.IDENT[kk]}={lit(vv)}")
        return [f"state.set({', '.join(args)})", "r = None"], "val", False
    if k == "sattr":
        return [f"state.setattr({dotted(op[1])!r}, {lit(op[2])})", "r = None"], "val", False
    if k == "del":
        return [f"del {dotted(op[1])}", "r = None"], "val", False
    if k == "delete":
        return [f"state.delete({dotted(op[1])!r})", "r = None"], "val", False
    if k == "exist":
        return [f"r = state.exist({dotted(op[1])!r})"], "val", False
    if k == "gattr":
        return [f"r = state.getattr({dotted(op[1])!r})"], "attrs", False
    if k == "gattrs":
        return [f"r = state.getattr(s{op[1]})"], "attrs", False
    if k == "names":
        dom, kw = op[1], op[2]
        if dom is None:
            return ["r = state.names()"], "names", False
        return [f"r = state.names({'domain=' if kw else ''}{T.IDENT[dom]!r})"], "names", False
    if k == "rslot":
        return [f"r = s{op[1]}"], "val", False
    if k == "rslota":
        return [f"r = s{op[1]}.{T.IDENT[op[2]]}"], "val", False
    raise ValueError(f"unknown op {op}")


def gen_step_body(i, step, indent, live=False):
    pre = []
    for ident, attrs in step.get("loc", []):
        pre.append(f"{T.IDENT[ident]} = pvsink.mkobj({', '.join(f'{T.IDENT[k]}={lit(v)}' for k, v in attrs)})")
    core, kind, fresh = gen_core(step["op"])
    lines = pre + ["try:"] + ["    " + c for c in core] + [f"    pvsink.ok({i}, r, {kind!r}, {fresh})",
                                                           "except Exception as exc:", f"    pvsink.exc({i}, exc)"]
    if live:   # at global level the step's "local" variables would persist: remove them again
        lines += [f"del {T.IDENT[ident]}" for ident, _a in step.get("loc", [])]
    return [indent + ln for ln in lines]


def groups(case):
    """-> list of lists of step indices: consecutive script steps carrying the same "grp" run in ONE body"""
    out = []
    for i, step in enumerate(case["steps"]):
        if step["t"] != "s":
            continue
        g = step.get("grp")
        if g is not None and out and case["steps"][out[-1][-1]].get("grp") == g and out[-1][-1] == i - 1:
            out[-1].append(i)
        else:
            out.append([i])
    return out


def gen_group_body(case, idxs, indent, live=False):
    """body executing the steps `idxs` one after the other; a group (len > 1 or "nest" given) also contains a nested
    def / class / lambda / comprehension, or runs its statements inside a nested function"""
    first = case["steps"][idxs[0]]
    nest = first.get("nest")
    body = []
    for i in idxs:
        if nest is not None:
            body.append(f"pvsink.begin({i})")
        body += gen_step_body(i, case["steps"][i], "", live=live)
    if nest is None:
        lines = body
    elif nest == "def":
        lines = ["def pv_helper(x):", "    return x + 1"] + body + ["pv_helper(1)"]
    elif nest == "class":
        lines = ["class PvInner:", "    pv_x = 1"] + body
    elif nest == "lambda":
        lines = ["pv_lam = lambda x: x + 1"] + body + ["pv_lam(1)"]
    elif nest == "comp":
        lines = ["pv_lst = [pv_k + 1 for pv_k in range(3)]"] + body + ["pv_set = {pv_k for pv_k in pv_lst}"]
    elif nest == "inner":
        lines = ["def pv_inner():", "    global s0, s1, s2"] + ["    " + ln for ln in body] + ["pv_inner()"]
    else:
        raise ValueError(nest)
    return [indent + ln for ln in lines]


def gen_file(case):
    lines = ["import vh.workers.c16_sink as pvsink", "s0 = None", "s1 = None", "s2 = None",
             f"{T.IDENT[T.GLOBAL_OBJ]} = pvsink.mkobj({', '.join(f'{T.IDENT[k]}={lit(v)}' for k, v in case.get('gobj', []))})", ""]
    if case["mode"] == "func":
        idx = []
        for grp in groups(case):
            i = grp[0]
            lines.append(f"def pv_f{i}():")
            lines.append("    global s0, s1, s2")
            lines += gen_group_body(case, grp, "    ")
            lines.append("")
            idx.append(i)
        lines.append("PV_STEPS = {" + ", ".join(f"{i}: pv_f{i}" for i in idx) + "}")
        lines += ["", "@service", "def pv_step(i=None):", "    PV_STEPS[i]()", ""]
    return "\n".join(lines) + "\n"


def ename(e):
    return f"{T.IDENT[e[0]]}.{T.IDENT[e[1]]}"


def observe(hass, gst):
    ha = []
    for st in hass.states.async_all():
        ha.append([sink.name_of(st.entity_id), sink.vid(st.state) if isinstance(st.state, str) else -1, sink.attrs_of(dict(st.attributes)),
                   [sink.CLOCK[0].rank(st.last_changed), sink.CLOCK[0].rank(st.last_updated), sink.CLOCK[0].rank(st.last_reported)]])
    names = hass.states.async_entity_ids()
    if [sink.name_of(n) for n in names] != [h[0] for h in ha]:
        ha.append([[0], -1, [], [-1, -1, -1]])  # async_all and async_entity_ids disagree: poison the observation
    g = gst.get(T.IDENT[T.GLOBAL_OBJ])
    return {
        "ha": ha,
        "gobj": sink.attrs_of(g.__dict__) if isinstance(g, sink.PvObj) else None,
        "slots": [sink.pyval(gst.get(f"s{j}")) for j in T.SLOTS],
        "svcs": [list(e) for e in [T.DYN_SVC, T.FUNC_NAME, (1, 10), (3, 10)] + T.METHOD_SVCS if hass.services.has_service(T.IDENT[e[0]], T.IDENT[e[1]])],
        # ground truth kept by the worker: the entity services existing now, and those that existed at the last refresh
        "esvcs": [list(e) for e in T.METHOD_SVCS if e in ESVCS and hass.services.has_service(T.IDENT[e[0]], T.IDENT[e[1]])],
        "svcargs": [list(e) for e in sorted(AT_REFRESH)],
    }


ESVCS = set()        # entity services registered by the worker (with an entity_id field in their description)
AT_REFRESH = set()   # the entity services that existed when State.get_service_params() last ran


def register_entity_service(hass, e, handler):
    from homeassistant.helpers.service import async_set_service_schema

    hass.services.async_register(T.IDENT[e[0]], T.IDENT[e[1]], handler)
    async_set_service_schema(hass, T.IDENT[e[0]], T.IDENT[e[1]],
                             {"name": T.IDENT[e[1]], "description": "x", "fields": {"entity_id": {"description": "e", "example": "x"},
                                                                                    "amount": {"description": "a", "example": 1}}})
    ESVCS.add(tuple(e))


async def refresh_service_params(hass):
    """what the homeassistant_started handler and pyscript.reload run"""
    from custom_components.pyscript.state import State

    await State.get_service_params()
    AT_REFRESH.clear()
    AT_REFRESH.update(e for e in ESVCS if hass.services.has_service(T.IDENT[e[0]], T.IDENT[e[1]]))


async def run_case(case):
    src = gen_file(case)
    async with PyscriptEnv(files={"pvscript.py": src}, legacy=bool(case.get("legacy"))) as env:
        hass = env.hass
        sink.reset(hass)
        # Home Assistant's wall clock becomes a logical clock: constant within a step, 10 s later at every step
        import homeassistant.core as hacore

        clock = sink.LogicalClock()
        sink.CLOCK[0] = clock
        real_time_mod = hacore.time
        hacore.time = clock
        try:
            return await _run_steps(case, env, hass, clock)
        finally:
            hacore.time = real_time_mod


async def _run_steps(case, env, hass, clock):
    from homeassistant.helpers.service import async_set_service_schema

    from custom_components.pyscript.eval import AstEval
    from custom_components.pyscript.function import Function
    from custom_components.pyscript.global_ctx import GlobalContextMgr
    from custom_components.pyscript.state import State

    out = []
    if True:

        async def _noop(call):
            return None

        # a service with an entity_id parameter -> entity service method pvd.<entity>.meth
        ESVCS.clear()
        AT_REFRESH.clear()
        register_entity_service(hass, T.SVC_ARG, _noop)
        await refresh_service_params(hass)
        await env.settle()
        gctx = GlobalContextMgr.get(CTX)
        load_failed = None
        if gctx is None or (case["mode"] == "func" and "pv_step" not in gctx.global_sym_table):
            # the generated script did not load (e.g. a seeded change broke `pvsink.mkobj`): that is an observation,
            # not an infrastructure error - every script step reports it and the Model/Spec comparison fails
            load_failed = repr([r for r in env.log.records if r[1] == "ERROR"][-1:])[:300]
        gst = gctx.global_sym_table if gctx is not None else {}
        out.append({"res": None, **observe(hass, gst)})   # initial state
        sink.OBSERVER[0] = lambda: observe(hass, gst)
        first_of = {g[0]: g for g in groups(case)}
        member_of = {i: g for g in first_of.values() for i in g[1:]}
        for i, step in enumerate(case["steps"]):
            if i in member_of:
                # executed together with the first step of its group; the state was recorded when the step reported
                g = member_of[i]
                res = sink.RECORDS.get(i) or {"exc": "NoReport", "msg": "grouped step did not report"}
                st_i = sink.STATE_AT.get(i) if i != g[-1] else None
                out.append({"res": res, **(st_i or observe(hass, gst))})
                continue
            clock.tick = i + 1
            if step["t"] == "x":
                x = step["x"]
                if x[0] == "set":
                    hass.states.async_set(ename(x[1]), T.value_of(x[2]), {T.IDENT[k]: T.value_of(v) for k, v in x[3]})
                elif x[0] == "rm":
                    hass.states.async_remove(ename(x[1]))
                elif x[0] == "reg":
                    hass.services.async_register(T.IDENT[x[1][0]], T.IDENT[x[1][1]], _noop)
                elif x[0] == "regm":
                    register_entity_service(hass, x[1], _noop)
                elif x[0] == "refresh":
                    await refresh_service_params(hass)
                elif x[0] == "unreg":
                    if hass.services.has_service(T.IDENT[x[1][0]], T.IDENT[x[1][1]]):
                        hass.services.async_remove(T.IDENT[x[1][0]], T.IDENT[x[1][1]])
                    ESVCS.discard(tuple(x[1]))
                else:
                    raise ValueError(x)
                await env.settle()
                out.append({"res": None, **observe(hass, gst)})
                continue
            if load_failed is not None:
                out.append({"res": {"exc": "ScriptLoadFailed", "msg": load_failed}, **observe(hass, gst)})
                continue
            if case["mode"] == "func":
                await hass.services.async_call("pyscript", "pv_step", {"i": i}, blocking=True)
                await env.settle()
            else:
                a = AstEval(f"{CTX}.live{i}", gctx)
                Function.install_ast_funcs(a)
                a.parse("\n".join(gen_group_body(case, first_of[i], "", live=True)) + "\n")
                await a.eval()
                await env.settle()
            res = sink.RECORDS.get(i)
            if res is None:
                errs = [r for r in env.log.records if r[1] in ("ERROR", "WARNING")][-2:]
                res = {"exc": "NoReport", "msg": repr(errs)[:300]}
            st_i = sink.STATE_AT.get(i) if len(first_of[i]) > 1 else None
            out.append({"res": res, **(st_i or observe(hass, gst))})
    return out


def main():
    req = json.loads(sys.stdin.read())
    T.IDENT.update({int(k): v for k, v in req.get("idents", {}).items()})   # names allocated by the translator
    res = []
    for case in req["cases"]:
        try:
            res.append(run_virtual(run_case(case)))
        except Exception as exc:  # pylint: disable=broad-except
            import traceback

            res.append([{"res": {"exc": "WorkerError", "msg": (type(exc).__name__ + ": " + str(exc) + traceback.format_exc()[-600:])}, "ha": [], "gobj": None, "slots": [], "svcs": [], "esvcs": [], "svcargs": []}])
    print("RESULT " + json.dumps(res))


if __name__ == "__main__":
    main()
