"""Worker for C09: drive the real pyscript inside a real HomeAssistant (virtual clock) through life-cycle sequences of
trigger/service-decorated functions and report, after every step at quiescence, the real resource ledger and the runs
of each function generation.  stdin JSON {"cases": [...]} -> one line 'RESULT <json>'.  The process' PYTHONHASHSEED is
part of the case (set by the parent), because the iteration order of Python sets of watched names depends on it.

case  = {"legacy": bool, "hashseed": int, "steps": [step]}
step  = {"k":"cell","mode":"cell"|"rt","stmts":[stmt]}            statements executed in the live context jupyter_0
                                                                  ("cell": exactly as jupyter_kernel.py's execute_request:
                                                                   auto_start off, eval, waiter_sync, auto_start on, start();
                                                                   "rt": evaluated with auto_start on, as code running inside a
                                                                   function of a started context does)
      | {"k":"files","write":{"s1":[stmt]|null},"reload":"plain"|"all"}   write/delete script files, call pyscript.reload
      | {"k":"state","ent":e} | {"k":"event","ev":v} | {"k":"tick"} | {"k":"call","svc":n}      occurrences
      | {"k":"resume"}                                             open the gate (see "gate")
  a cell/files step may carry "gate": true: from then on every ServiceDecorator.start() waits inside its
  `await State.get_service_params()` until a "resume" step (the name State inside decorators/service.py is replaced by a
  stand-in whose get_service_params() waits for an asyncio.Event and then delegates to the real one)
      | {"k":"unload"}                                             hass.config_entries.async_unload(entry)
stmt  = {"s":"udef","slot":n,"gen":g,"spec":spec,"store":null|"l"|"d","key":k}   a user-written decorator dk_g whose inner
        wrapper carries the trigger decorators; it optionally stores the wrapper it returns in lst / dct[k]; `@dk_g def fn`
      | {"s":"def","slot":n,"gen":g,"spec":spec} | {"s":"del","slot":n} | {"s":"alias","dst":n,"src":m} | {"s":"none","slot":n}
      | {"s":"lnew","gen":g,"spec":spec} | {"s":"lslot","slot":n} | {"s":"lpop"} | {"s":"lclear"}
      | {"s":"dnew","key":k,"gen":g,"spec":spec} | {"s":"dslot","key":k,"slot":n} | {"s":"ddel","key":k}
      | {"s":"import","mod":k,"body":[stmt]|null}   `import mK`; when a body is given modules/mK.py is (re)written with it
        right before the step runs (the module is not loaded then; keys "mK": null of a files step delete the file)
spec  = {"states":[[ident]], "events":[v], "times":[{"p":bool,"su":bool,"sd":bool}], "svc":null|name id, "pos":k,
         "crash":bool}   (crash: @time_active("range(2/30, 3/1)") - every dispatch of the function raises ValueError)
        (@service("pvsvc.s<name id>") is placed in front of the k-th trigger decorator)
ident = {"e":ent,"k":0 plain|1 value|2 sub|3 deep,"t":tag,"any":bool}
"""
import asyncio
import gc
import json
import sys

from vh.hassenv import PyscriptEnv, run_virtual

LIVE_CTX = "jupyter_0"
TICK = 100.0
SUBTAGS = {0: "old", 1: "a1", 2: "a2", 3: "*"}


def ident_str(i):
    ent = f"pyscript.e{i['e']}"
    k = i["k"]
    if k == 0:
        return f"pvx{i['t']}"
    if k == 1:
        return ent
    if k == 2:
        return f"{ent}.{SUBTAGS[i['t']]}"
    return f"{ent}.old.a{1 + i['t'] % 2}"


def marker(gen, k):
    return f"pvgen_{gen}_{k}"


def dec_lines(spec, gen, gen_expr):
    """decorator lines of a function; gen_expr is the source text that evaluates to the generation number"""
    lines = []
    for k, ids in enumerate(spec.get("states", [])):
        anys = [ident_str(i) for i in ids if i.get("any")]
        exprs = [ident_str(i) for i in ids if not i.get("any")]
        terms = " or ".join([f"pvgen_%d_{k}"] + [f"{x} == 'never'" for x in exprs])
        args = [f'"True or ({terms})" % {gen_expr}'] + [repr(a) for a in anys]
        lines.append(f"@state_trigger({', '.join(args)})")
    for ev in spec.get("events", []):
        lines.append(f'@event_trigger("pv_ev{ev}")')
    for t in spec.get("times", []):
        a = []
        if t.get("su"):
            a.append('"startup"')
        if t.get("sd"):
            a.append('"shutdown"')
        if t.get("p"):
            a.append('"period(now + 60s, 100s)"')
        lines.append(f"@time_trigger({', '.join(a)})")
    if spec.get("svc") is not None:
        pos = max(0, min(int(spec.get("pos", len(lines))), len(lines)))
        lines.insert(pos, f'@service("pvsvc.s{spec["svc"]}")')
    if spec.get("crash"):
        lines.append('@time_active("range(2/30, 3/1)")')
    return lines


BODY = 'event.fire("pv_run", gen={g}, tt=kw.get("trigger_type"), ti=str(kw.get("trigger_time")))'


def def_src(name, gen, spec):
    return dec_lines(spec, gen, str(gen)) + [f"def {name}(**kw):", "    " + BODY.format(g=gen)]


def factory_src(gen, spec):
    """a factory whose inner function is a closure over its argument"""
    inner = dec_lines(spec, gen, "g") + ["def inner(**kw):", "    " + BODY.format(g="g"), "return inner"]
    return [f"def mk_{gen}(g):"] + ["    " + ln for ln in inner]


def stmts_src(stmts):
    lines = ["pass"]
    for st in stmts:
        s = st["s"]
        if s == "def":
            lines += def_src(f"f{st['slot']}", st["gen"], st["spec"])
        elif s == "udef":
            g = st["gen"]
            lines.append(f"def dk_{g}(func):")
            lines += ["    " + ln for ln in dec_lines(st["spec"], g, str(g))]
            lines += ["    def wrapper(**kw):", "        return func(**kw)"]
            if st.get("store") == "l":
                lines.append("    lst.append(wrapper)")
            elif st.get("store") == "d":
                lines.append(f"    dct['k{st['key']}'] = wrapper")
            lines += ["    return wrapper", f"@dk_{g}", f"def f{st['slot']}(**kw):", "    " + BODY.format(g=g)]
        elif s == "import":
            lines.append(f"import m{st['mod']}")
        elif s == "del":
            lines.append(f"del f{st['slot']}")
        elif s == "alias":
            lines.append(f"f{st['dst']} = f{st['src']}")
        elif s == "none":
            lines.append(f"f{st['slot']} = None")
        elif s == "lnew":
            lines += factory_src(st["gen"], st["spec"]) + [f"lst.append(mk_{st['gen']}({st['gen']}))"]
        elif s == "lslot":
            lines.append(f"lst.append(f{st['slot']})")
        elif s == "lpop":
            lines.append("pv_tmp = lst.pop(0)")
            lines.append("pv_tmp = None")
        elif s == "lclear":
            lines.append("lst.clear()")
        elif s == "dnew":
            lines += factory_src(st["gen"], st["spec"]) + [f"dct['k{st['key']}'] = mk_{st['gen']}({st['gen']})"]
        elif s == "dslot":
            lines.append(f"dct['k{st['key']}'] = f{st['slot']}")
        elif s == "ddel":
            lines.append(f"del dct['k{st['key']}']")
        else:
            raise ValueError(s)
    return "\n".join(lines) + "\n"


def def_lines(src):
    """{line number of a decorated `def`: generation} of a generated source text"""
    import ast as _ast

    out = {}
    for node in _ast.parse(src).body:
        if not isinstance(node, _ast.FunctionDef):
            continue
        if node.name.startswith("dk_"):
            for inner in node.body:
                if isinstance(inner, _ast.FunctionDef):
                    out[inner.lineno] = int(node.name[3:])
        elif node.name.startswith("mk_"):
            for inner in node.body:
                if isinstance(inner, _ast.FunctionDef):
                    out[inner.lineno] = int(node.name[3:])
        elif node.decorator_list:
            for sub in _ast.walk(node):
                if isinstance(sub, _ast.keyword) and sub.arg == "gen" and isinstance(sub.value, _ast.Constant):
                    out[node.lineno] = int(sub.value.value)
    return out


def ctx_id(name):
    if name == LIVE_CTX:
        return 0
    if name.startswith("file.s"):
        return int(name[len("file.s"):])
    if name.startswith("modules.m"):
        return 10 + int(name[len("modules.m"):])
    return None


def module_bodies(stmts):
    """[(k, body)] of the import statements that carry the module's source, nested ones first evaluated last"""
    out = []
    for st in stmts or []:
        if st.get("s") == "import" and st.get("body") is not None:
            out.append((st["mod"], st["body"]))
            out += module_bodies(st["body"])
    return out


KIND = {"state": 0, "event": 1, "time": 2, "service": 5}
TRIG_CORO = ("TrigInfo.trigger_watch", "StateTriggerDecorator._cycle", "TimeTriggerDecorator._cycle")
ACTION_CORO = ("do_func_call", "FunctionDecoratorManager._call", "do_service_call")


def task_names():
    names = []
    for t in asyncio.all_tasks():
        if t.done():
            continue
        co = t.get_coro()
        qn = getattr(co, "__qualname__", "")
        if qn == "Function.run_coro":
            fr = getattr(co, "cr_frame", None)
            inner = fr.f_locals.get("coro") if fr is not None else None
            qn = getattr(inner, "__qualname__", "?")
        names.append(qn)
    return names


class Gate:
    """stand-in for the name State in decorators/service.py: get_service_params() can be held back"""

    def __init__(self, real):
        self.real = real
        self.event = asyncio.Event()
        self.event.set()

    def __getattr__(self, name):
        return getattr(self.real, name)

    async def get_service_params(self):
        await self.event.wait()
        return await self.real.get_service_params()


class Driver:
    def __init__(self, case):
        self.case = case
        self.gate = None
        self.starts = []      # (context id, [def line numbers in iteration order of the delayed-start sets]) since the last snapshot
        self.lines = {}       # context id -> {def line: generation} of the source evaluated last
        self.orders = {}      # marker -> list of names in the iteration order State.notify_del saw
        self.mtime = 1000.0
        self.unloaded = False

    # -- observation ---------------------------------------------------------------------------
    def snapshot(self, env, n0):
        from custom_components.pyscript.event import Event
        from custom_components.pyscript.function import Function
        from custom_components.pyscript.state import State

        state = []
        for name, qs in State.notify.items():
            if not name.startswith("pyscript.e"):
                continue
            live = len([q for q in qs if len(q._getters) > 0])  # pylint: disable=protected-access
            dead = len(qs) - live
            if live or dead:
                state.append([int(name[len("pyscript.e"):]), live, dead])
        event = [[int(k[5:]), len(v)] for k, v in Event.notify.items() if k.startswith("pv_ev") and len(v)]
        listeners = env.hass.bus.async_listeners()
        bus = [[int(k[5:]), v] for k, v in listeners.items() if k.startswith("pv_ev") and v]
        names = task_names()
        tasks = len([n for n in names if n in TRIG_CORO])
        actions = len([n for n in names if any(n.endswith(a) for a in ACTION_CORO)])
        reg = sorted(int(s[1:]) for s in env.hass.services.async_services().get("pvsvc", {}))
        svcs = sorted([int(k[len("pvsvc.s"):]), v] for k, v in Function.service_cnt.items() if k.startswith("pvsvc.s") and v)
        runs = []
        for _t, typ, data in env.events[n0:]:
            if typ != "pv_run":
                continue
            tt, ti = data.get("tt"), data.get("ti")
            kind = KIND.get(tt, 9)
            if tt == "time" and ti == "startup":
                kind = 3
            elif tt == "time" and ti == "shutdown":
                kind = 4
            runs.append([int(data["gen"]), kind])
        extra = {"actions": actions, "task2cb": len(Function.task2cb), "task2context": len(Function.task2context),
                 "unique": len(Function.unique_name2task)}
        if self.unloaded:
            extra["state_changed"] = listeners.get("state_changed", 0)
            extra["our_tasks"] = len([t for t in Function.our_tasks if not t.done()])
            extra["contexts"] = len(__import__("custom_components.pyscript.global_ctx", fromlist=["x"]).GlobalContextMgr.contexts)
        extra_ok = all(v == 0 for v in extra.values())
        return {"state": sorted(state), "event": sorted(event), "bus": sorted(bus), "tasks": tasks, "svc": svcs, "reg": reg,
                "runs": sorted(runs), "extra_ok": extra_ok, "extra": extra, "t": round(env.now(), 3)}

    async def quiesce(self, env):
        gc.collect()
        await env.settle()
        gc.collect()
        await env.settle()

    # -- actions -------------------------------------------------------------------------------
    async def live_exec(self, env, mode, src):
        from custom_components.pyscript.eval import AstEval
        from custom_components.pyscript.function import Function
        from custom_components.pyscript.global_ctx import GlobalContext, GlobalContextMgr

        gctx = GlobalContextMgr.get(LIVE_CTX)
        if gctx is None:
            # as __init__.py jupyter_kernel_start creates a session context
            gctx = GlobalContext(LIVE_CTX, global_sym_table={"__name__": LIVE_CTX}, manager=GlobalContextMgr)
            gctx.set_auto_start(True)
            GlobalContextMgr.set(LIVE_CTX, gctx)
            init = AstEval(LIVE_CTX, gctx)
            Function.install_ast_funcs(init)
            init.parse("lst = []\ndct = {}\n")
            await init.eval()
            del init
        ast_ctx = AstEval(LIVE_CTX, gctx)
        Function.install_ast_funcs(ast_ctx)
        err = None
        if mode == "cell":
            # jupyter_kernel.py Kernel.shell_handler, execute_request
            gctx.set_auto_start(False)
            try:
                ast_ctx.parse(src)
                result = await ast_ctx.eval()
                del result
                await Function.waiter_sync()
            except Exception as exc:  # pylint: disable=broad-except
                err = f"{type(exc).__name__}: {exc}"
            gctx.set_auto_start(True)
            gctx.start()
        else:
            try:
                ast_ctx.parse(src)
                result = await ast_ctx.eval()
                del result
            except Exception as exc:  # pylint: disable=broad-except
                err = f"{type(exc).__name__}: {exc}"
        del ast_ctx
        return err

    async def do_step(self, env, st):
        k = st["k"]
        err = None
        if st.get("gate") and self.gate is not None:
            self.gate.event.clear()
        all_stmts = list(st.get("stmts") or [])
        for v in (st.get("write") or {}).values():
            all_stmts += v or []
        for mk, body in module_bodies(all_stmts):
            self.mtime += 10.0
            src = "lst = []\ndct = {}\n" + stmts_src(body)
            self.lines[10 + mk] = def_lines(src)
            env.write(f"modules/m{mk}.py", src, mtime=self.mtime)
        if k == "resume":
            if self.gate is not None:
                self.gate.event.set()
        elif k == "cell":
            src = stmts_src(st["stmts"])
            self.lines[0] = def_lines(src)
            err = await self.live_exec(env, st.get("mode", "cell"), src)
        elif k == "files":
            for name, stmts in sorted(st["write"].items()):
                if name.startswith("m"):
                    if stmts is None:
                        env.remove(f"modules/{name}.py")
                    continue
                if stmts is None:
                    env.remove(f"{name}.py")
                else:
                    self.mtime += 10.0
                    src = "lst = []\ndct = {}\n" + stmts_src(stmts)
                    self.lines[int(name[1:])] = def_lines(src)
                    env.write(f"{name}.py", src, mtime=self.mtime)
            if st.get("reload") == "all":
                await env.reload("*")
            else:
                await env.reload()
        elif k == "state":
            self.mtime += 1.0
            n = int(self.mtime)
            env.hass.states.async_set(f"pyscript.e{st['ent']}", f"v{n}", {"a1": n, "a2": -n})
        elif k == "event":
            env.hass.bus.async_fire(f"pv_ev{st['ev']}", {"x": 1})
        elif k == "tick":
            await self.quiesce(env)
            await env.advance(TICK)
        elif k == "call":
            if env.hass.services.has_service("pvsvc", f"s{st['svc']}"):
                try:
                    await env.hass.services.async_call("pvsvc", f"s{st['svc']}", {}, blocking=True)
                except Exception as exc:  # pylint: disable=broad-except
                    err = f"{type(exc).__name__}: {exc}"
        elif k == "unload":
            entries = env.hass.config_entries.async_entries("pyscript")
            ok = await env.hass.config_entries.async_unload(entries[0].entry_id)
            self.unloaded = True
            if not ok:
                err = "unload returned False"
        else:
            raise ValueError(k)
        return err

    async def run(self):
        from custom_components.pyscript.state import State

        drv = self
        orig_del = State.notify_del.__func__

        def rec_notify_del(cls, var_names, queue):
            if isinstance(var_names, set):
                order = list(var_names)
                for n in order:
                    if n.startswith("pvgen_"):
                        drv.orders.setdefault(n, order)
            return orig_del(cls, var_names, queue)

        from custom_components.pyscript.global_ctx import GlobalContext

        orig_start = GlobalContext.start

        def rec_start(gself):
            cid = ctx_id(gself.name)
            if cid is not None:
                linenos = [f.func_def.lineno for f in gself.triggers_delay_start] + [dm.eval_func.func_def.lineno for dm in gself.dms_delay_start]
                drv.starts.append((cid, linenos))
            return orig_start(gself)

        GlobalContext.start = rec_start
        out = []
        State.notify_del = classmethod(rec_notify_del)
        svcmod = None
        if not self.case["legacy"]:
            import custom_components.pyscript.decorators.service as svcmod

            self.gate = Gate(svcmod.State)
            svcmod.State = self.gate
        try:
            async with PyscriptEnv(files={}, legacy=bool(self.case["legacy"])) as env:
                await env.settle()
                # everything alive now (HomeAssistant core, imported modules) is not garbage of this case: keep the
                # collector from re-scanning it at every step (a full collection costs 0.15 s otherwise)
                gc.collect()
                gc.freeze()
                # cyclic garbage (closures kept alive by the symbol table they capture) is collected at the quiescent points only
                # (quiesce() calls gc.collect()): *when* the collector runs is the Python runtime, fixed here for determinism
                gc.disable()
                for st in self.case["steps"]:
                    n0 = len(env.events)
                    nlog = len(env.log.records)
                    err = await self.do_step(env, st)
                    await self.quiesce(env)
                    snap = self.snapshot(env, n0)
                    order = {}
                    for cid, linenos in self.starts:
                        l2g = self.lines.get(cid, {})
                        order.setdefault(str(cid), [])
                        order[str(cid)] += [l2g[ln] for ln in linenos if ln in l2g]
                    self.starts = []
                    snap["starts"] = order
                    if err:
                        snap["err"] = err
                    errs = [r[2][:300] for r in env.log.records[nlog:] if r[1] == "ERROR"]
                    if errs:
                        snap["log_errors"] = errs[:3]
                    out.append(snap)
        finally:
            State.notify_del = classmethod(orig_del)
            GlobalContext.start = orig_start
            gc.enable()
            if svcmod is not None:
                self.gate.event.set()
                svcmod.State = self.gate.real
            gc.unfreeze()
        return {"steps": out, "orders": self.orders}


def main():
    req = json.loads(sys.stdin.read())
    res = []
    for case in req["cases"]:
        try:
            res.append(run_virtual(Driver(case).run()))
        except Exception as exc:  # pylint: disable=broad-except
            import traceback

            res.append({"steps": [], "orders": {}, "crash": f"{type(exc).__name__}: {exc}", "tb": traceback.format_exc()[-1500:]})
    print("RESULT " + json.dumps(res))


main()
