"""C13 recorder: imported both by the worker (vh.workers.c13_unique) and by the generated pyscript scripts
(`import vh.workers.c13_rec as rec`).  Every call is synchronous, so a marker is atomic with the code around it.

A marker stores the global position (list order), the virtual time and a canonical snapshot of pyscript's
task.unique book-keeping taken at that very moment:
  n2t   : Function.unique_name2task            -> [[key, tid], ...]           (sorted)
  t2n   : Function.unique_task2name            -> [[tid, [key, ...]], ...]    (sorted, empty sets dropped)
  ours  : registered tasks in Function.our_tasks
  done  : registered tasks that are done       -> [[tid, "c"|"n"], ...]  (c = cancelled)
  views : what the real task.name2id() reports in each of the case's global contexts
Task objects are mapped to the small ints chosen by the case (tid); unknown tasks become 99.
"""
import asyncio

from custom_components.pyscript.function import Function

START = 1000.0
UNKNOWN = 99

seq = []          # recorded events
tasks = {}        # asyncio.Task -> tid
ctx_names = []    # global context names of the case, index = ctx id
shared = {}       # ctx id -> the pyscript helper function `hx` defined in that context (registered by the script itself)


class _Ctx:
    """minimal stand-in for an AstEval: the only thing the name2id/unique factories ask for"""

    def __init__(self, name):
        self._name = name

    def get_global_ctx_name(self):
        return self._name


def reset(names):
    seq.clear()
    tasks.clear()
    shared.clear()
    shared_s.clear()
    funcs.clear()
    facs.clear()
    ctx_names[:] = list(names)


shared_s = {}     # ctx id -> the sleeping helper `hs` of that context
funcs = {}        # tid -> pyscript function to be started with task.create()
facs = {}         # tid -> factory (defined in the task's context) that makes the task's trigger closure


def share(ci, func, sleeper=None):
    """a script/module publishes its helpers so that code of another global context can call them"""
    shared[ci] = func
    if sleeper is not None:
        shared_s[ci] = sleeper


def reg_func(tid, func):
    funcs[tid] = func


def reg_fac(tid, fac):
    facs[tid] = fac


def _tid(task):
    return tasks.get(task, UNKNOWN)


def _key(k):
    # canonical key: plain string keys (today's code) -> ["", key]; a (ctx, name) tuple -> [ctx, name]
    if isinstance(k, str):
        return ["", k]
    if isinstance(k, tuple) and len(k) == 2:
        return [str(k[0]), str(k[1])]
    return ["?", repr(k)]


def _view(d):
    if not isinstance(d, dict):
        return None
    return sorted([str(k), _tid(v)] for k, v in d.items())


def snapshot():
    n2t = sorted([_key(k), _tid(t)] for k, t in Function.unique_name2task.items())
    t2n = sorted([_tid(t), sorted(_key(k) for k in ks)] for t, ks in Function.unique_task2name.items() if len(ks) > 0)
    ours = sorted(tid for t, tid in tasks.items() if t in Function.our_tasks)
    done = sorted([tid, "c" if t.cancelled() else "n"] for t, tid in tasks.items() if t.done())
    views = []
    for name in ctx_names:
        try:
            views.append(_view(Function.task_name2id_factory(_Ctx(name))()))
        except Exception as exc:  # pylint: disable=broad-except
            views.append([["!" + type(exc).__name__, UNKNOWN]])
    return {"n2t": n2t, "t2n": t2n, "ours": ours, "done": done, "views": views}


def _now():
    try:
        return round(asyncio.get_running_loop().time() - START, 6)
    except RuntimeError:
        return -1.0


def who(x):
    """canonical form of a task.name2id(name) result: tid, or None for NameError (passed as None)"""
    return None if x is None else _tid(x)


def mark(tid, what, arg=None, own_view=None, ci=None):
    """called from a task of the scenario (script or foreign); ci = index of the global context whose code makes the call
    (own_view is what task.name2id() returned to that code)"""
    if what == "begin":
        cur = asyncio.current_task()
        if cur is not None and cur not in tasks:
            tasks[cur] = tid
    seq.append({"t": tid, "w": what, "a": arg, "time": _now(), "snap": snapshot(),
                "own": _view(own_view) if own_view is not None else None, "ci": ci})
    return None


def note(what, tid=UNKNOWN, arg=None):
    """called from the driver (fire / quiet)"""
    seq.append({"t": tid, "w": what, "a": arg, "time": _now(), "snap": snapshot(), "own": None, "ci": None})
