"""Worker for C08: drive the real pyscript (both decorator subsystems) with generated sets of event / MQTT / webhook
triggers and schedules of occurrences on the virtual clock, and record the trace of what can be observed from outside:
deliveries, `pyscript_running` (a run task was started), the function body's own report (`pv_run`), and every event,
state change and service call the runs make, each with the id and parent id of the HA context it carries.

stdin: {"cases": [case, ...]} -> 'RESULT [obs, ...]'.  Case format: see vh/props/c08.py."""
import asyncio
import json
import sys
from unittest.mock import patch

from vh.hassenv import PyscriptEnv, run_virtual

FILE_CTX = "file_hello_"


# ---------------------------------------------------------------------------------------------------
# script generation
# ---------------------------------------------------------------------------------------------------
def render_filter(f):
    op = f[0]
    if op == "var":
        return f[1]
    if op == "cmp":
        return f"{f[2]} {f[1]} {f[3]!r}"
    if op == "int":
        return f"int({f[2]}) {f[1]} {f[3]!r}"
    if op == "div":
        return f"6 // {f[2]} {f[1]} {f[3]!r}"
    if op == "lookup":
        return "{" + ", ".join(f"{k!r}: {b!r}" for k, b in f[2]) + "}[" + f[1] + "]"
    if op == "not":
        return f"(not {render_filter(f[1])})"
    if op == "and":
        return f"({render_filter(f[1])} and {render_filter(f[2])})"
    if op == "or":
        return f"({render_filter(f[1])} or {render_filter(f[2])})"
    raise ValueError(f)


DEC_NAME = {"event": "event_trigger", "mqtt": "mqtt_trigger", "webhook": "webhook_trigger"}


PVMOD = """pv_n = [0]


def next_rid():
    pv_n[0] = pv_n[0] + 1
    return pv_n[0]
"""


def render_set(fn_name, ai, act):
    """one state change of the run: function forms on a per-run entity, statement forms on a per-function entity
    (statement groups are created, used and removed without suspending in between, so runs cannot collide on them)"""
    step = act.get("step")
    if step is None:  # round-1 form
        return f"state.set('pyscript.pv_' + str(rid) + '_{ai}', 'v{ai}')"
    base = act["base"]
    if act.get("form", "func") == "stmt":
        name = f"pyscript.pvs_{fn_name}_{base}"
        return {"create": f"{name} = rid", "setattr": f"{name}.a1 = {ai}", "delattr": f"del {name}.a1", "delete": f"del {name}"}[step]
    ent = f"'pyscript.pv_' + str(rid) + '_{base}'"
    return {"create": f"state.set({ent}, str(rid))", "setattr": f"state.setattr({ent} + '.a1', {ai})",
            "delattr": f"state.delete({ent} + '.a1')", "delete": f"state.delete({ent})"}[step]


def render_files(case):
    """-> {relative path: source}; functions go to the file named by their "file" entry (default hello.py)"""
    files = {}
    for fn in case["funcs"]:
        files.setdefault(fn.get("file", "hello"), []).append(fn)
    out = {"modules/pvmod.py": PVMOD}
    for fname, fns in files.items():
        out[fname + ".py"] = render_script({"funcs": fns})
    return out


def render_script(case):
    lines = ["from pvmod import next_rid", ""]
    for fn in case["funcs"]:
        for dec in fn["decs"]:
            args = [repr(dec["key"])]
            if dec.get("filter") is not None:
                args.append(repr(render_filter(dec["filter"])))
            if dec.get("kwargs") is not None:
                args.append("kwargs=" + repr(dec["kwargs"]))
            lines.append(f"@{DEC_NAME[dec['kind']]}({', '.join(args)})")
        name = fn["name"]
        lines.append(f"def {name}(**kw):")
        lines.append("    rid = next_rid()")
        lines.append(f"    event.fire('pv_run', fn={name!r}, rid=rid, kw=kw)")
        for ai, act in enumerate(fn["acts"]):
            op = act["op"]
            if op == "sleep":
                lines.append(f"    task.sleep({act['d']!r})")
            elif op == "fire":
                parts = ["rid=rid", f"ai={ai}"] + [f"{k}={v!r}" for k, v in act["kw"].items()]
                ctx = act.get("ctx", "none")
                if ctx == "occ":
                    parts.append("context=kw.get('context')")
                elif isinstance(ctx, dict):
                    parts.append(f"context={ctx['val']!r}")
                lines.append(f"    event.fire({act['type']!r}, {', '.join(parts)})")
            elif op == "set":
                lines.append("    " + render_set(name, ai, act))
            elif op == "call":
                # natively registered test services of the three response kinds, both call forms
                svc = "svc_" + act.get("svc", "none")
                extra = "".join(f", {k}={act[k]!r}" for k in ("return_response", "blocking") if act.get(k) is not None)
                if act.get("form", "direct") == "call":
                    lines.append(f"    service.call('pvtest', {svc!r}, rid=rid, ai={ai}{extra})")
                else:
                    lines.append(f"    pvtest.{svc}(rid=rid, ai={ai}{extra})")
            else:
                raise ValueError(op)
        lines.append("")
    return "\n".join(lines) + "\n"


# ---------------------------------------------------------------------------------------------------
# canonical values
# ---------------------------------------------------------------------------------------------------
class Canon:
    def __init__(self):
        self.ctx = {}

    def cid(self, ctx_id):
        if ctx_id is None:
            return None
        if ctx_id not in self.ctx:
            self.ctx[ctx_id] = len(self.ctx) + 1
        return self.ctx[ctx_id]

    def val(self, v):
        from homeassistant.core import Context

        if isinstance(v, Context):
            return {"$ctx": self.cid(v.id)}
        if v is None or isinstance(v, (bool, int, str)):
            return v
        try:
            return {"$o": json.dumps(v, sort_keys=True, default=repr), "t": bool(v)}
        except Exception:  # pylint: disable=broad-except
            return {"$o": repr(v), "t": bool(v)}

    def kw(self, d):
        return {str(k): self.val(v) for k, v in d.items()}


def topic_matches(pattern, topic):
    pp, tp = pattern.split("/"), topic.split("/")
    for i, p in enumerate(pp):
        if p == "#":
            return True
        if i >= len(tp):
            return False
        if p != "+" and p != tp[i]:
            return False
    return len(pp) == len(tp)


class FakeRequest:
    """the three things pyscript's webhook handlers use of an aiohttp request"""

    def __init__(self, js=None, form=None):
        self._js, self._form = js, form
        self.headers = {"Content-Type": "application/json" if js is not None else "application/x-www-form-urlencoded"}

    async def json(self):
        return self._js

    async def post(self):
        from multidict import MultiDict

        return MultiDict([(k, v) for k, v in (self._form or [])])


# ---------------------------------------------------------------------------------------------------
# one case
# ---------------------------------------------------------------------------------------------------
async def run_case(case):
    import homeassistant.components.mqtt as mqtt_mod
    import homeassistant.components.webhook as webhook_mod
    from homeassistant.components.mqtt.models import ReceiveMessage
    from homeassistant.const import MATCH_ALL
    from homeassistant.core import Context, callback

    canon = Canon()
    trace = []
    subs = []  # (pattern, callback) in subscription order
    reg_attempts = []  # webhook registration attempts: {"fn":, "key":, "ok":}
    driver_firing = [None]
    pending_calls = {}
    epoch = [0]  # incremented by every reload step
    set_seen = {}  # (entity, rid) -> number of state changes seen
    real_register = webhook_mod.async_register
    real_unregister = webhook_mod.async_unregister

    async def fake_subscribe(hass, topic, msg_callback, qos=0, encoding="utf-8", **_kw):
        entry = (topic, msg_callback)
        subs.append(entry)

        def unsub():
            if entry in subs:
                subs.remove(entry)

        return unsub

    def rec_register(hass, domain, name, webhook_id, handler, **kw):
        owner = getattr(handler, "__self__", None)
        dm = getattr(owner, "dm", None)
        fn = getattr(dm, "func_name", None)
        att = {"op": "reg", "fn": fn, "key": webhook_id, "ok": True, "ep": epoch[0]}
        reg_attempts.append(att)
        try:
            return real_register(hass, domain, name, webhook_id, handler, **kw)
        except Exception:
            att["ok"] = False
            raise

    def rec_unregister(hass, webhook_id):
        reg_attempts.append({"op": "unreg", "key": webhook_id, "ep": epoch[0]})
        return real_unregister(hass, webhook_id)

    with patch.object(mqtt_mod, "async_subscribe", fake_subscribe), patch.object(webhook_mod, "async_register", rec_register), \
            patch.object(webhook_mod, "async_unregister", rec_unregister):
        async with PyscriptEnv(files=render_files(case), legacy=case["legacy"]) as env:
            hass = env.hass

            def cpair(ctx):
                return canon.cid(ctx.id), canon.cid(ctx.parent_id)

            @callback
            def rec(ev):
                et = ev.event_type
                if driver_firing[0] is not None and ev.context is driver_firing[0]:
                    return
                if et == "pyscript_running":
                    name = ev.data.get("name", "")
                    c, p = cpair(ev.context)
                    parts = name.split("_", 2)  # file_<file>_<function>
                    trace.append({"o": "running", "fn": parts[2] if len(parts) == 3 and parts[0] == "file" else name,
                                  "kw": canon.kw(ev.data.get("func_args", {})), "ctx": c, "par": p})
                elif et == "pv_run":
                    c, p = cpair(ev.context)
                    trace.append({"o": "begin", "rid": ev.data.get("rid"), "fn": ev.data.get("fn"),
                                  "kw": canon.kw(ev.data.get("kw", {})), "ctx": c, "par": p})
                elif et == "state_changed":
                    eid = ev.data.get("entity_id", "")
                    # the k-th change of an entity by a run is its scripted action base + k
                    st = ev.data.get("new_state") or ev.data.get("old_state")
                    rid = base = None
                    try:
                        if eid.startswith("pyscript.pv_"):
                            rid, base = (int(x) for x in eid[len("pyscript.pv_"):].split("_"))
                        elif eid.startswith("pyscript.pvs_"):
                            base = int(eid.rsplit("_", 1)[1])
                            rid = int(st.state)
                    except (ValueError, AttributeError):
                        rid = base = None
                    if base is not None:
                        k = set_seen.get((eid, rid), 0)
                        set_seen[(eid, rid)] = k + 1
                        c, p = cpair(ev.context)
                        trace.append({"o": "set", "rid": rid, "ai": base + k, "ctx": c, "par": p,
                                      "removed": ev.data.get("new_state") is None})
                elif et == "call_service":
                    # position in the trace = when the call was made; the context recorded is the one the SERVICE sees
                    # (ServiceCall.context, filled in by the handler below; None if the service was never invoked)
                    if ev.data.get("domain") == "pvtest":
                        sd = ev.data.get("service_data", {})
                        c, p = cpair(ev.context)
                        ent = {"o": "call", "rid": sd.get("rid"), "ai": sd.get("ai"), "ctx": None, "par": None,
                               "bus_ctx": c, "bus_par": p, "svc": ev.data.get("service")}
                        pending_calls[(sd.get("rid"), sd.get("ai"))] = ent
                        trace.append(ent)
                elif et.startswith("pv_"):
                    d = dict(ev.data)
                    c, p = cpair(ev.context)
                    trace.append({"o": "fire", "rid": d.get("rid"), "ai": d.get("ai"), "type": et, "data": canon.kw(d), "ctx": c, "par": p,
                                  "ep": epoch[0]})

            hass.bus.async_listen(MATCH_ALL, rec)

            from homeassistant.core import SupportsResponse

            async def svc(call):
                ent = pending_calls.get((call.data.get("rid"), call.data.get("ai")))
                c, p = cpair(call.context)
                if ent is None:
                    trace.append({"o": "call", "rid": call.data.get("rid"), "ai": call.data.get("ai"), "ctx": c, "par": p})
                elif ent["ctx"] is None:
                    ent["ctx"], ent["par"] = c, p
                else:  # invoked twice
                    trace.append({"o": "call", "rid": call.data.get("rid"), "ai": call.data.get("ai"), "ctx": c, "par": p})
                return {"ok": call.data.get("ai")} if call.return_response else None

            hass.services.async_register("pvtest", "svc_none", svc)
            hass.services.async_register("pvtest", "svc_opt", svc, supports_response=SupportsResponse.OPTIONAL)
            hass.services.async_register("pvtest", "svc_only", svc, supports_response=SupportsResponse.ONLY)
            await env.settle()

            for i, ent in enumerate(case["sched"]):
                if ent.get("wait"):
                    await env.advance(ent["wait"])
                if ent.get("settle"):
                    await env.settle()
                kind = ent["kind"]
                if kind == "reload":
                    # a partial reload: the triggers of that file stop and start again, everything else keeps running
                    await env.settle()
                    epoch[0] += 1
                    await hass.services.async_call("pyscript", "reload", {"global_ctx": "file." + ent["file"]}, blocking=True)
                    await env.settle()
                elif kind == "event":
                    ctx = Context()
                    trace.append({"o": "bus", "i": i, "key": ent["key"], "ctx": canon.cid(ctx.id), "ep": epoch[0]})
                    driver_firing[0] = ctx
                    try:
                        hass.bus.async_fire(ent["key"], dict(ent["data"]), context=ctx)
                    finally:
                        driver_firing[0] = None
                elif kind == "mqtt":
                    seen = []
                    for pattern, _cb in list(subs):
                        if pattern in seen or not topic_matches(pattern, ent["topic"]):
                            continue
                        seen.append(pattern)
                        trace.append({"o": "bus", "i": i, "key": pattern, "ctx": None, "ep": epoch[0]})
                        for pat2, cb in list(subs):
                            if pat2 != pattern:
                                continue
                            msg = ReceiveMessage(ent["topic"], ent["payload"], ent["qos"], ent["retain"], pattern, 0.0)
                            res = cb(msg)
                            if asyncio.iscoroutine(res):
                                await res
                elif kind == "webhook":
                    handlers = hass.data.get("webhook", {})
                    trace.append({"o": "bus", "i": i, "key": ent["key"], "ctx": None, "ep": epoch[0]})
                    if ent["key"] in handlers:
                        req = FakeRequest(js=ent.get("json"), form=ent.get("form"))
                        await handlers[ent["key"]]["handler"](hass, ent["key"], req)
                else:
                    raise ValueError(kind)
            await env.settle()
            await env.advance(case.get("tail", 600))
            await env.settle()
            errors = [m[:200] for (_n, lvl, m) in env.log.records if lvl == "ERROR"]
    return {"trace": trace, "reg": reg_attempts, "errors": errors[:6]}


def main():
    req = json.loads(sys.stdin.read())
    out = []
    for case in req["cases"]:
        try:
            out.append(run_virtual(run_case(case)))
        except Exception as exc:  # pylint: disable=broad-except
            import traceback

            out.append({"trace": [], "reg": [], "errors": [], "crash": f"{type(exc).__name__}: {exc}", "tb": traceback.format_exc()[-1500:]})
    print("RESULT " + json.dumps(out))


main()
