"""Worker for C13: run generated task.unique scenarios on the real pyscript (real HomeAssistant, virtual clock).

stdin JSON {"cases": [case, ...]} -> 'RESULT [obs, ...]'.

case = {"legacy": bool, "ctxs": ["scripts.a", "scripts.a.b"], "horizon": ticks,
        "tasks": [{"ctx": 0|1, "kind": "plain"|"dec"|"foreign", "dec": [name, kill_me]|None, "start": tick,
                   "ops": [["u", name, kill_me] | ["s", ticks] | ["f"] | ["r"]]}, ...]}
Task i (= tid i) is a function f<i> in the script file of its context, started by the event "pv_go_<i>" which the
driver fires at virtual second `start` ("dec": with @task_unique(name, kill_me=...) in front), or, for kind
"foreign", an asyncio task created directly by the driver (not by pyscript) that calls the real task.unique.
obs = {"seq": [marker, ...], "final": snapshot, "errors": [...]}; see c13_rec.py for the marker format.
"""
import asyncio
import json
import sys

from vh.hassenv import PyscriptEnv, run_virtual, settle, sleep_until
from vh.workers import c13_rec as rec

TICK = 1.0


def ctx_file(ctx_name):
    # "scripts.a.b" -> "scripts/a/b.py"
    return ctx_name.replace(".", "/") + ".py"


MODULE_CTX = "modules.pvh"


def norm_ctxs(case):
    """the two script contexts of the case + the context of the helper module"""
    ctxs = list(case["ctxs"])
    return ctxs if len(ctxs) >= 3 else ctxs + [MODULE_CTX]


def helper_src(ci):
    """functions defined in context ci that call task.unique / task.name2id / task.sleep themselves: when another context's
    task calls them, pyscript switches the task's global context to ci for the duration of the call (also while it sleeps)"""
    return [
        "def hx(tid, name, km):",
        f'    rec.mark(tid, "pre", [name, km, {ci}], task.name2id(), {ci})',
        "    task.unique(name, kill_me=km)",
        "    try:",
        "        w = task.name2id(name)",
        "    except NameError:",
        "        w = None",
        f'    rec.mark(tid, "post", [rec.who(w)], task.name2id(), {ci})',
        "",
        "def hs(tid, secs):",
        "    task.sleep(secs)",
        f'    rec.mark(tid, "wake", None, task.name2id(), {ci})',
        "",
        f"rec.share({ci}, hx, hs)",
        "",
    ]


def host_of(t):
    """the script whose code makes the trigger function exist (differs from ctx when a factory of ctx is called from it)"""
    return t.get("host", t["ctx"]) if t["ctx"] != 2 else t.get("host", 0)


def target_ctx(t, where):
    """context of the helper an op goes through: 0 = none (inline, the function's own context), 1 = the other script,
    2 = the imported module"""
    if not where:
        return t["ctx"]
    if where == 2:
        return 2
    return 1 - host_of(t)


def func_src(tid, t):
    """source lines (unindented) of the pyscript function of task tid, to be placed in the file of context t["ctx"]"""
    ci = t["ctx"]
    lines = []
    if t["kind"] != "created":
        lines.append(f'@event_trigger("pv_go_{tid}")')
    if t["kind"] == "dec":
        name, km = t["dec"]
        lines.append(f"@task_unique({name!r}, kill_me={bool(km)!r})")
    lines.append(f"def f{tid}():")
    mk = lambda what, arg: f'rec.mark({tid}, "{what}", {arg}, task.name2id(), {ci})'
    body = [mk("begin", None)]
    ended = False
    for op in t["ops"]:
        where = op[3] if op[0] == "u" and len(op) > 3 else op[2] if op[0] == "s" and len(op) > 2 else 0
        if op[0] == "u":
            name, km = op[1], bool(op[2])
            if not where:
                body.append(mk("pre", f"[{name!r}, {km!r}, {ci}]"))
                body.append(f"task.unique({name!r}, kill_me={km!r})")
                body += ["try:", f"    w = task.name2id({name!r})", "except NameError:", "    w = None"]
                body.append(mk("post", "[rec.who(w)]"))
            else:
                body.append(f"rec.shared[{target_ctx(t, where)}]({tid}, {name!r}, {km!r})")
                body.append(mk("ret", None))
        elif op[0] == "s":
            secs = op[1] * TICK if op[1] > 0 else 0
            if not where:
                body.append(f"task.sleep({secs!r})")
                body.append(mk("wake", None))
            else:
                body.append(f"rec.shared_s[{target_ctx(t, where)}]({tid}, {secs!r})")
                body.append(mk("ret", None))
        elif op[0] == "c":
            body.append(f"task.create(rec.funcs[{op[1]}])")
            body.append(mk("ret", None))
        elif op[0] == "r":
            body.append(mk("end", '"r"'))
            body.append('raise ValueError("pv")')
            ended = True
            break
        elif op[0] == "f":
            body.append(mk("end", '"f"'))
            body.append("return")
            ended = True
            break
    if not ended:
        body.append(mk("end", '"f"'))
    lines += ["    " + b for b in body]
    return lines


def file_src(case, ci):
    """source of the file of context ci (0/1: the scripts, 2: the module)"""
    lines = ["import vh.workers.c13_rec as rec"] + (["import pvh"] if ci != 2 else []) + [""] + helper_src(ci)
    setup = []
    for tid, t in enumerate(case["tasks"]):
        if t["kind"] == "foreign":
            continue
        host = host_of(t)
        if t["ctx"] == ci:
            if host == ci:
                lines += func_src(tid, t) + [""]
                if t["kind"] == "created":
                    lines += [f"rec.reg_func({tid}, f{tid})", ""]
            else:
                # a trigger closure made by a factory of this context; the factory is called by code of context `host`
                lines += [f"def make_{tid}():"] + ["    " + x for x in func_src(tid, t)] + [f"    return f{tid}", "",
                                                                                         f"rec.reg_fac({tid}, make_{tid})", ""]
        elif host == ci:
            if t["ctx"] == 2:
                lines += [f"keep_{tid} = pvh.make_{tid}()", ""]          # at load time, like a script using a module's factory
            else:
                setup.append(f"    keep.append(rec.facs[{tid}]())")        # from a task of this script, once everything is loaded
    if ci != 2:
        lines += ["keep = []", "", '@event_trigger("pv_setup")', "def pv_setup():"] + (setup or ["    pass"]) + [""]
    return "\n".join(lines) + "\n"


async def foreign_task(tid, t, ctx_name, ci):
    from custom_components.pyscript.function import Function

    ctx = rec._Ctx(ctx_name)  # pylint: disable=protected-access
    unique = Function.task_unique_factory(ctx)
    name2id = Function.task_name2id_factory(ctx)
    rec.mark(tid, "begin", None, name2id(), ci)
    for op in t["ops"]:
        if op[0] == "u":
            rec.mark(tid, "pre", [op[1], bool(op[2]), ci], name2id(), ci)
            await unique(op[1], kill_me=bool(op[2]))
            try:
                w = name2id(op[1])
            except NameError:
                w = None
            rec.mark(tid, "post", [rec.who(w)], name2id(), ci)
        elif op[0] == "s":
            await asyncio.sleep(op[1] * TICK)
            rec.mark(tid, "wake", None, name2id(), ci)
        elif op[0] == "r":
            rec.mark(tid, "end", "r", name2id(), ci)
            raise ValueError("pv")
        elif op[0] == "f":
            break
    else:
        rec.mark(tid, "end", "f", name2id(), ci)
        return
    rec.mark(tid, "end", "f", name2id(), ci)


async def run_case(case):
    ctxs = norm_ctxs(case)
    files = {ctx_file(c): file_src(case, i) for i, c in enumerate(ctxs[:3])}
    errors = []
    rec.reset(ctxs)
    async with PyscriptEnv(files=files, legacy=bool(case["legacy"])) as env:
        await env.settle()
        loop = asyncio.get_running_loop()
        from custom_components.pyscript.global_ctx import GlobalContextMgr

        for c in ctxs:
            if GlobalContextMgr.get(c) is None:
                errors.append(f"global context {c} not loaded")
        env.hass.bus.async_fire("pv_setup", {})
        await env.settle()
        rec.seq.clear()
        base = loop.time()
        rec.START = base
        foreign = []

        def fire(tid):
            rec.note("fire", tid)
            env.hass.bus.async_fire(f"pv_go_{tid}", {})

        def spawn(tid, t):
            rec.note("fire", tid)
            task = loop.create_task(foreign_task(tid, t, ctxs[t["ctx"]], t["ctx"]))
            rec.tasks[task] = tid
            foreign.append(task)

        for tid, t in enumerate(case["tasks"]):
            when = base + t["start"] * TICK
            if t["kind"] == "foreign":
                loop.call_at(when, spawn, tid, t)
            elif t["kind"] == "created":
                pass                      # started by its creator's task.create()
            else:
                loop.call_at(when, fire, tid)
        for tick in range(0, int(case["horizon"]) + 1):
            await sleep_until(base + tick * TICK)
            await settle()
            rec.note("quiet", rec.UNKNOWN, tick)
        final = rec.snapshot()
        for task in foreign:
            if not task.done():
                task.cancel()
        for task in foreign:
            try:
                await task
            except BaseException:  # pylint: disable=broad-except
                pass
        all_err = [r for r in env.log.records if r[1] in ("ERROR", "CRITICAL")]
        if case.get("debug_log"):
            errors += [f"debug {r[0]}: {r[2][:300]}" for r in all_err]
        # the scenario's own `raise ValueError("pv")` is logged by pyscript; anything else is unexpected
        bad_log = [r for r in all_err if "ValueError: pv" not in r[2]]
        errors += [f"log {r[0]}: {r[2][:200]}" for r in bad_log[:5]]
    return {"seq": list(rec.seq), "final": final, "errors": errors}


def main():
    req = json.loads(sys.stdin.read())
    out = []
    for case in req["cases"]:
        try:
            out.append(run_virtual(run_case(case)))
        except Exception as exc:  # pylint: disable=broad-except
            import traceback

            out.append({"seq": [], "final": None, "errors": ["driver: " + repr(exc) + traceback.format_exc()[-800:]]})
    print("RESULT " + json.dumps(out))


if __name__ == "__main__":
    main()
