"""Worker for C13: run generated task.unique scenarios on the real pyscript (real HomeAssistant, virtual clock).

stdin JSON {"cases": [case, ...]} -> 'RESULT [obs, ...]'.

case = {"legacy": bool, "ctxs": ["scripts.a", "scripts.a.b"], "horizon": ticks,
        "tasks": [{"ctx": 0|1, "kind": "plain"|"dec"|"foreign", "dec": [name, kill_me]|None, "start": tick,
                   "ops": [["u", name, kill_me] | ["s", ticks] | ["f"] | ["r"]]}, ...]}
Task i (= tid i) is a function f<i> in the script file of its context, started by the event "pv_go_<i>" which the
driver fires at virtual second `start` ("dec": with @task_unique(name, kill_me=...) in front), or, for kind
"foreign", an asyncio task created directly by the driver (not by pyscript) that calls the real task.unique.
obs = {"seq": [marker, ...], "final": snapshot, "errors": [...]}; see c13_rec.py for the marker format.
"""
import asyncio
import json
import sys

from vh.hassenv import PyscriptEnv, run_virtual, settle, sleep_until
from vh.workers import c13_rec as rec

TICK = 1.0


def ctx_file(ctx_name):
    # "scripts.a.b" -> "scripts/a/b.py"
    return ctx_name.replace(".", "/") + ".py"


MODULE_CTX = "modules.pvh"


def norm_ctxs(case):
    """the two script contexts of the case + the context of the helper module"""
    ctxs = list(case["ctxs"])
    return ctxs if len(ctxs) >= 3 else ctxs + [MODULE_CTX]


def helper_src(fname, ci):
    """a function defined in context ci that calls task.unique / task.name2id itself: when another context's task calls it,
    pyscript switches the global context to ci for the duration of the call"""
    return [
        f"def {fname}(tid, name, km):",
        f'    rec.mark(tid, "pre", [name, km, {ci}], task.name2id(), {ci})',
        "    task.unique(name, kill_me=km)",
        "    try:",
        "        w = task.name2id(name)",
        "    except NameError:",
        "        w = None",
        f'    rec.mark(tid, "post", [rec.who(w)], task.name2id(), {ci})',
        "",
    ]


def module_src():
    return "\n".join(["import vh.workers.c13_rec as rec", ""] + helper_src("hu", 2)) + "\n"


def script_for(case, ctx_id):
    lines = ["import vh.workers.c13_rec as rec", "import pvh", ""] + helper_src("hx", ctx_id) + [f"rec.share({ctx_id}, hx)", ""]
    for tid, t in enumerate(case["tasks"]):
        if t["ctx"] != ctx_id or t["kind"] == "foreign":
            continue
        lines.append(f'@event_trigger("pv_go_{tid}")')
        if t["kind"] == "dec":
            name, km = t["dec"]
            lines.append(f"@task_unique({name!r}, kill_me={bool(km)!r})")
        lines.append(f"def f{tid}():")
        mk = lambda what, arg: f'rec.mark({tid}, "{what}", {arg}, task.name2id(), {ctx_id})'
        body = [mk("begin", None)]
        ended = False
        for op in t["ops"]:
            if op[0] == "u":
                where = op[3] if len(op) > 3 else 0
                name, km = op[1], bool(op[2])
                if where == 0:
                    body.append(mk("pre", f"[{name!r}, {km!r}, {ctx_id}]"))
                    body.append(f"task.unique({name!r}, kill_me={km!r})")
                    body += ["try:", f"    w = task.name2id({name!r})", "except NameError:", "    w = None"]
                    body.append(mk("post", "[rec.who(w)]"))
                else:
                    if where == 1:
                        body.append(f"rec.shared[{1 - ctx_id}]({tid}, {name!r}, {km!r})")
                    else:
                        body.append(f"pvh.hu({tid}, {name!r}, {km!r})")
                    body.append(mk("ret", None))
            elif op[0] == "s":
                body.append(f"task.sleep({op[1] * TICK!r})" if op[1] > 0 else "task.sleep(0)")
                body.append(mk("wake", None))
            elif op[0] == "r":
                body.append(mk("end", '"r"'))
                body.append('raise ValueError("pv")')
                ended = True
                break
            elif op[0] == "f":
                body.append(mk("end", '"f"'))
                body.append("return")
                ended = True
                break
        if not ended:
            body.append(mk("end", '"f"'))
        lines += ["    " + b for b in body]
        lines.append("")
    return "\n".join(lines) + "\n"


async def foreign_task(tid, t, ctx_name, ci):
    from custom_components.pyscript.function import Function

    ctx = rec._Ctx(ctx_name)  # pylint: disable=protected-access
    unique = Function.task_unique_factory(ctx)
    name2id = Function.task_name2id_factory(ctx)
    rec.mark(tid, "begin", None, name2id(), ci)
    for op in t["ops"]:
        if op[0] == "u":
            rec.mark(tid, "pre", [op[1], bool(op[2]), ci], name2id(), ci)
            await unique(op[1], kill_me=bool(op[2]))
            try:
                w = name2id(op[1])
            except NameError:
                w = None
            rec.mark(tid, "post", [rec.who(w)], name2id(), ci)
        elif op[0] == "s":
            await asyncio.sleep(op[1] * TICK)
            rec.mark(tid, "wake", None, name2id(), ci)
        elif op[0] == "r":
            rec.mark(tid, "end", "r", name2id(), ci)
            raise ValueError("pv")
        elif op[0] == "f":
            break
    else:
        rec.mark(tid, "end", "f", name2id(), ci)
        return
    rec.mark(tid, "end", "f", name2id(), ci)


async def run_case(case):
    ctxs = norm_ctxs(case)
    files = {ctx_file(c): script_for(case, i) for i, c in enumerate(ctxs[:2])}
    files[ctx_file(ctxs[2])] = module_src()
    errors = []
    rec.reset(ctxs)
    async with PyscriptEnv(files=files, legacy=bool(case["legacy"])) as env:
        await env.settle()
        loop = asyncio.get_running_loop()
        from custom_components.pyscript.global_ctx import GlobalContextMgr

        for c in ctxs:
            if GlobalContextMgr.get(c) is None:
                errors.append(f"global context {c} not loaded")
        base = loop.time()
        rec.START = base
        foreign = []

        def fire(tid):
            rec.note("fire", tid)
            env.hass.bus.async_fire(f"pv_go_{tid}", {})

        def spawn(tid, t):
            rec.note("fire", tid)
            task = loop.create_task(foreign_task(tid, t, ctxs[t["ctx"]], t["ctx"]))
            rec.tasks[task] = tid
            foreign.append(task)

        for tid, t in enumerate(case["tasks"]):
            when = base + t["start"] * TICK
            if t["kind"] == "foreign":
                loop.call_at(when, spawn, tid, t)
            else:
                loop.call_at(when, fire, tid)
        for tick in range(0, int(case["horizon"]) + 1):
            await sleep_until(base + tick * TICK)
            await settle()
            rec.note("quiet", rec.UNKNOWN, tick)
        final = rec.snapshot()
        for task in foreign:
            if not task.done():
                task.cancel()
        for task in foreign:
            try:
                await task
            except BaseException:  # pylint: disable=broad-except
                pass
        all_err = [r for r in env.log.records if r[1] in ("ERROR", "CRITICAL")]
        if case.get("debug_log"):
            errors += [f"debug {r[0]}: {r[2][:300]}" for r in all_err]
        # the scenario's own `raise ValueError("pv")` is logged by pyscript; anything else is unexpected
        bad_log = [r for r in all_err if "ValueError: pv" not in r[2]]
        errors += [f"log {r[0]}: {r[2][:200]}" for r in bad_log[:5]]
    return {"seq": list(rec.seq), "final": final, "errors": errors}


def main():
    req = json.loads(sys.stdin.read())
    out = []
    for case in req["cases"]:
        try:
            out.append(run_virtual(run_case(case)))
        except Exception as exc:  # pylint: disable=broad-except
            import traceback

            out.append({"seq": [], "final": None, "errors": ["driver: " + repr(exc) + traceback.format_exc()[-800:]]})
    print("RESULT " + json.dumps(out))


if __name__ == "__main__":
    main()
