"""Worker for C13: run generated task.unique scenarios on the real pyscript (real HomeAssistant, virtual clock).

stdin JSON {"cases": [case, ...]} -> 'RESULT [obs, ...]'.

case = {"legacy": bool, "ctxs": ["scripts.a", "scripts.a.b"], "horizon": ticks,
        "tasks": [{"ctx": 0|1, "kind": "plain"|"dec"|"foreign", "dec": [name, kill_me]|None, "start": tick,
                   "ops": [["u", name, kill_me] | ["s", ticks] | ["f"] | ["r"]]}, ...]}
Task i (= tid i) is a function f<i> in the script file of its context, started by the event "pv_go_<i>" which the
driver fires at virtual second `start` ("dec": with @task_unique(name, kill_me=...) in front), or, for kind
"foreign", an asyncio task created directly by the driver (not by pyscript) that calls the real task.unique.
obs = {"seq": [marker, ...], "final": snapshot, "errors": [...]}; see c13_rec.py for the marker format.
"""
import asyncio
import json
import sys

from vh.hassenv import PyscriptEnv, run_virtual, settle, sleep_until
from vh.workers import c13_rec as rec

TICK = 1.0


def ctx_file(ctx_name):
    # "scripts.a.b" -> "scripts/a/b.py"
    return ctx_name.replace(".", "/") + ".py"


def script_for(case, ctx_id):
    lines = ["import vh.workers.c13_rec as rec", ""]
    for tid, t in enumerate(case["tasks"]):
        if t["ctx"] != ctx_id or t["kind"] == "foreign":
            continue
        lines.append(f'@event_trigger("pv_go_{tid}")')
        if t["kind"] == "dec":
            name, km = t["dec"]
            lines.append(f"@task_unique({name!r}, kill_me={bool(km)!r})")
        lines.append(f"def f{tid}():")
        body = [f'rec.mark({tid}, "begin", None, task.name2id())']
        ended = False
        for op in t["ops"]:
            if op[0] == "u":
                body.append(f'rec.mark({tid}, "pre", [{op[1]!r}, {bool(op[2])!r}], task.name2id())')
                body.append(f"task.unique({op[1]!r}, kill_me={bool(op[2])!r})")
                body.append(f'rec.mark({tid}, "post", None, task.name2id())')
            elif op[0] == "s":
                body.append(f"task.sleep({op[1] * TICK!r})" if op[1] > 0 else "task.sleep(0)")
                body.append(f'rec.mark({tid}, "wake", None, task.name2id())')
            elif op[0] == "r":
                body.append(f'rec.mark({tid}, "end", "r", task.name2id())')
                body.append('raise ValueError("pv")')
                ended = True
                break
            elif op[0] == "f":
                body.append(f'rec.mark({tid}, "end", "f", task.name2id())')
                body.append("return")
                ended = True
                break
        if not ended:
            body.append(f'rec.mark({tid}, "end", "f", task.name2id())')
        lines += ["    " + b for b in body]
        lines.append("")
    return "\n".join(lines) + "\n"


async def foreign_task(tid, t, ctx_name):
    from custom_components.pyscript.function import Function

    ctx = rec._Ctx(ctx_name)  # pylint: disable=protected-access
    unique = Function.task_unique_factory(ctx)
    name2id = Function.task_name2id_factory(ctx)
    rec.mark(tid, "begin", None, name2id())
    for op in t["ops"]:
        if op[0] == "u":
            rec.mark(tid, "pre", [op[1], bool(op[2])], name2id())
            await unique(op[1], kill_me=bool(op[2]))
            rec.mark(tid, "post", None, name2id())
        elif op[0] == "s":
            await asyncio.sleep(op[1] * TICK)
            rec.mark(tid, "wake", None, name2id())
        elif op[0] == "r":
            rec.mark(tid, "end", "r", name2id())
            raise ValueError("pv")
        elif op[0] == "f":
            break
    else:
        rec.mark(tid, "end", "f", name2id())
        return
    rec.mark(tid, "end", "f", name2id())


async def run_case(case):
    ctxs = case["ctxs"]
    files = {ctx_file(c): script_for(case, i) for i, c in enumerate(ctxs)}
    errors = []
    rec.reset(ctxs)
    async with PyscriptEnv(files=files, legacy=bool(case["legacy"])) as env:
        await env.settle()
        loop = asyncio.get_running_loop()
        from custom_components.pyscript.global_ctx import GlobalContextMgr

        for c in ctxs:
            if GlobalContextMgr.get(c) is None:
                errors.append(f"global context {c} not loaded")
        base = loop.time()
        rec.START = base
        foreign = []

        def fire(tid):
            rec.note("fire", tid)
            env.hass.bus.async_fire(f"pv_go_{tid}", {})

        def spawn(tid, t):
            rec.note("fire", tid)
            task = loop.create_task(foreign_task(tid, t, ctxs[t["ctx"]]))
            rec.tasks[task] = tid
            foreign.append(task)

        for tid, t in enumerate(case["tasks"]):
            when = base + t["start"] * TICK
            if t["kind"] == "foreign":
                loop.call_at(when, spawn, tid, t)
            else:
                loop.call_at(when, fire, tid)
        for tick in range(0, int(case["horizon"]) + 1):
            await sleep_until(base + tick * TICK)
            await settle()
            rec.note("quiet", rec.UNKNOWN, tick)
        final = rec.snapshot()
        for task in foreign:
            if not task.done():
                task.cancel()
        for task in foreign:
            try:
                await task
            except BaseException:  # pylint: disable=broad-except
                pass
        all_err = [r for r in env.log.records if r[1] in ("ERROR", "CRITICAL")]
        if case.get("debug_log"):
            errors += [f"debug {r[0]}: {r[2][:300]}" for r in all_err]
        # the scenario's own `raise ValueError("pv")` is logged by pyscript; anything else is unexpected
        bad_log = [r for r in all_err if "ValueError: pv" not in r[2]]
        errors += [f"log {r[0]}: {r[2][:200]}" for r in bad_log[:5]]
    return {"seq": list(rec.seq), "final": final, "errors": errors}


def main():
    req = json.loads(sys.stdin.read())
    out = []
    for case in req["cases"]:
        try:
            out.append(run_virtual(run_case(case)))
        except Exception as exc:  # pylint: disable=broad-except
            import traceback

            out.append({"seq": [], "final": None, "errors": ["driver: " + repr(exc) + traceback.format_exc()[-800:]]})
    print("RESULT " + json.dumps(out))


if __name__ == "__main__":
    main()
