(* Req/Spec.v — property C20 as short executable predicates over what was observed (no reference to the
   fold of process_all_requirements, to the decision cascade of install_requirements or to Gen constants other
   than the white-space set used by [strip] and the spelling of the unpinned marker in observed tables).
   A package is identified by its name with surrounding white space removed. *)
From PV Require Import Common.Util Gen.ReqConsts Req.Merge Req.Install.

(* ---------- how the property reads one line ---------- *)
(* text before '#', stripped; nothing / a line with one of , < > (>=, <=, ranges) / more than one "==" is ignored;
   `name==version` is a pin, anything else an unpinned requirement *)
Definition spec_line (line : str) : option (str * option str) :=
  let s := strip (cut_at 35 line) in
  match s with
  | [] => None
  | _ =>
    if contains 44 s || contains 60 s || contains 62 s then None
    else match split [61; 61]%N s with
         | [n] => Some (n, None)
         | [n; v] => Some (strip n, Some (strip v))
         | _ => None
         end
  end.

(* the places where a requirements.txt counts: <pyscript>/, apps/X/, modules/X/, scripts/X/ (X not hidden) *)
Definition s_apps : str := [97; 112; 112; 115]%N.
Definition s_modules : str := [109; 111; 100; 117; 108; 101; 115]%N.
Definition s_scripts : str := [115; 99; 114; 105; 112; 116; 115]%N.
Definition spec_counts (dir : list str) : bool :=
  match dir with
  | [] => true
  | [top; sub] =>
      (str_eqb top s_apps || str_eqb top s_modules || str_eqb top s_scripts)
      && match sub with [] => false | c :: _ => negb (N.eqb c 46) end
  | _ => false
  end.
Definition spec_lines (files : list rfile) : list str :=
  concat (map (fun f => if spec_counts (f_dir f) then f_lines f else []) files).

(* an observed requirement table, reduced to what the property talks about: package key -> version
   ([None] = the unpinned marker) *)
Definition otable := list (str * option str).
Definition over (v : str) : option str := if str_eqb v unpinned_version then None else Some v.

Section Spec.
  Variable vvalid : str -> bool.
  Variable vle : str -> str -> bool.
  Local Notation veq := (veq vle).

  Definition same_ver (a b : str) : bool := str_eqb a b || (vvalid a && vvalid b && veq a b).
  Definition ver_equiv (a b : option str) : bool :=
    match a, b with
    | None, None => true
    | Some x, Some y => same_ver x y
    | _, _ => false
    end.

  Definition pins_of (n : str) (reqs : list (str * option str)) : list str :=
    flat_map (fun r => if str_eqb (fst r) n then match snd r with Some v => [v] | None => [] end else []) reqs.
  Definition has_req (n : str) (reqs : list (str * option str)) : bool := existsb (fun r => str_eqb (fst r) n) reqs.
  Definition is_max (w : str) (pins : list str) : bool :=
    existsb (fun v => veq w v) pins && forallb (fun v => vle v w) pins.

  (* package n: exactly one entry; the highest pin if there is a pin, the unpinned marker only if there is none.
     When one of its pins is not a version at all the property does not say which one is "highest": only order
     independence ([tables_equiv] below) is demanded then. *)
  Definition spec_name_ok (reqs : list (str * option str)) (t : otable) (n : str) : bool :=
    let ents := filter (fun kv => str_eqb (strip (fst kv)) n) t in
    let pins := pins_of n reqs in
    if existsb (fun v => negb (vvalid v)) pins then true
    else match ents with
         | [(_, v)] =>
             match pins, v with
             | [], None => true
             | _ :: _, Some w => vvalid w && is_max w pins
             | _, _ => false
             end
         | _ => false
         end.

  Definition spec_table_ok (lines : list str) (t : otable) : bool :=
    let reqs := flat_map (fun l => match spec_line l with Some r => [r] | None => [] end) lines in
    forallb (fun r => spec_name_ok reqs t (fst r)) reqs          (* every required package: one entry, highest pin *)
    && forallb (fun kv => has_req (strip (fst kv)) reqs) t.      (* comments, blanks, unsupported lines add nothing *)

  (* order independence: two readings of the same multiset of lines select equivalent versions *)
  Definition table_sub (t1 t2 : otable) : bool :=
    forallb (fun kv => existsb (fun kv' => str_eqb (strip (fst kv)) (strip (fst kv')) && ver_equiv (snd kv) (snd kv')) t2) t1.
  Definition tables_equiv (t1 t2 : otable) : bool := table_sub t1 t2 && table_sub t2 t1.

  Fixpoint count_str (x : str) (l : list str) : nat :=
    match l with [] => 0 | y :: r => (if str_eqb x y then 1 else 0) + count_str x r end.
  Definition same_multiset (a b : list str) : bool :=
    Nat.eqb (length a) (length b) && forallb (fun x => Nat.eqb (count_str x a) (count_str x b)) a.

  (* ---------- one run of install_requirements, as observed ---------- *)
  Record run_obs := {
    ro_allow : bool;                   (* allow_all_imports as the user had set it when the run passed its gate *)
    ro_required : list str;            (* the packages the requirement files of this run ask for (keys of the table) *)
    ro_env_before : alist;             (* installed packages when the run starts *)
    ro_rec_before : alist;             (* pyscript's record when the run starts *)
    ro_done : bool;                    (* ran to the end (neither the early return nor an exception) *)
    ro_args : option (list str);       (* what the installer was called with, if it was called *)
    ro_rec_after : alist;
    ro_env_after : alist
  }.

  Definition arg_req (a : str) : str * option str :=
    match split [61; 61]%N a with
    | [n; v] => (n, Some v)
    | _ => (a, None)
    end.
  Definition dict_same (a b : alist) : bool :=
    forallb (fun kv => match alookup (fst kv) b with Some v => str_eqb v (snd kv) | None => false end) a
    && forallb (fun kv => match alookup (fst kv) a with Some v => str_eqb v (snd kv) | None => false end) b.
  (* pyscript's record claims the installed version of package p *)
  Definition owned (rec : alist) (p iv : str) : bool :=
    existsb (fun kv => str_eqb (strip (fst kv)) p && same_ver (snd kv) iv) rec.

  Definition spec_run_ok (o : run_obs) : bool :=
    let args := match ro_args o with Some l => map arg_req l | None => [] end in
    (* nothing is installed unless allow_all_imports is set *)
    (ro_allow o || match ro_args o with None => true | Some _ => false end)
    (* a run that ended in an exception (also: a failing installer) records nothing *)
    && (ro_done o || dict_same (ro_rec_after o) (ro_rec_before o))
    (* an installed package is handed to the installer only if pyscript installed that very version itself
       and a different version is pinned now *)
    && forallb (fun a =>
         let p := strip (fst a) in
         match truthy (alookup p (ro_env_before o)) with
         | None => true
         | Some iv =>
             owned (ro_rec_before o) p iv
             && match snd a with Some w => negb (same_ver (strip w) iv) | None => false end
         end) args
    (* the record only ever contains what was actually installed: an entry that is new or changed names a package
       that is installed, at that version, when the run ends *)
    && forallb (fun kv =>
         match alookup (fst kv) (ro_rec_before o) with
         | Some v => str_eqb v (snd kv)
         | None => false
         end
         || match truthy (alookup (strip (fst kv)) (ro_env_after o)) with
            | Some iv => same_ver (strip (snd kv)) iv
            | None => false
            end) (ro_rec_after o)
    (* the record matches what was installed: after a completed run every package handed to the installer is recorded
       with the version that was installed ... *)
    && forallb (fun a => negb (ro_done o) ||
         match snd a with
         | Some w => match alookup (fst a) (ro_rec_after o) with Some v => str_eqb v w | None => false end
         | None => match truthy (alookup (fst a) (ro_env_after o)), alookup (fst a) (ro_rec_after o) with
                   | Some iv, Some v => str_eqb v iv
                   | None, None => true
                   | _, _ => false
                   end
         end) args
    (* ... and after a completed run that was allowed to install, the record tracks what is installed for every package
       the files require: an entry whose package now has another version (someone else took it over) or is gone must
       have been dropped - otherwise pyscript would later mistake the host's package for its own *)
    && (negb (ro_done o) || negb (ro_allow o)
        || forallb (fun kv =>
             negb (existsb (str_eqb (fst kv)) (ro_required o))
             || match truthy (alookup (strip (fst kv)) (ro_env_after o)) with
                | Some iv => same_ver (strip (snd kv)) iv
                | None => false
                end) (ro_rec_after o))
    (* ... and nothing else enters the record *)
    && forallb (fun kv =>
         match alookup (fst kv) (ro_rec_before o) with
         | Some v => str_eqb v (snd kv) || existsb (fun a => str_eqb (fst a) (fst kv)) args
         | None => existsb (fun a => str_eqb (fst a) (fst kv)) args
         end) (ro_rec_after o).
End Spec.
