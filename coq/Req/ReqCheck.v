(* Req/ReqCheck.v — what the generated correspondence files evaluate for C20.
   [*_model_ok cfg]: the Model (under the measured deviation switches) reproduces what the real
   process_all_requirements / install_requirements did (tie T2).
   [*_spec_ok]: what the real code did satisfies the property (Req/Spec.v).
   Versions are ordered by the real packaging.Version: the harness ships, per case, the rank of every
   version string that occurs (equal versions share a rank; strings that are no version have none). *)
From PV Require Import Common.Util Gen.ReqConsts Req.Merge Req.Install Req.Spec.
From Coq Require Ascii String.

(* ---------- transport encoding of strings in the generated case files ----------
   A Python str is shipped as a Coq string literal (fast to parse): printable ASCII as is, every other code point,
   the double quote and the backslash as `\HEX;`.  [U] decodes it to the list of code points. *)
Definition hexval (n : N) : N :=
  if (n <? 58)%N then (n - 48)%N else if (n <? 71)%N then (n - 55)%N else (n - 87)%N.
Fixpoint udec (l : list Ascii.ascii) (esc : option N) : list N :=
  match l with
  | [] => []
  | c :: r =>
    let n := Ascii.N_of_ascii c in
    match esc with
    | None => if N.eqb n 92 then udec r (Some 0%N) else n :: udec r None
    | Some acc => if N.eqb n 59 then acc :: udec r None else udec r (Some (acc * 16 + hexval n)%N)
    end
  end.
Definition U (s : String.string) : str := udec (String.list_ascii_of_string s) None.

(* ---------- the version order of a case ---------- *)
Definition ranks := list (str * N).
Fixpoint rank_of (rs : ranks) (s : str) : option N :=
  match rs with
  | [] => None
  | (k, n) :: r => if str_eqb s k then Some n else rank_of r s
  end.
Definition rk_valid (rs : ranks) (s : str) : bool := match rank_of rs s with Some _ => true | None => false end.
Definition rk_le (rs : ranks) (a b : str) : bool :=
  match rank_of rs a, rank_of rs b with
  | Some x, Some y => (x <=? y)%N
  | _, _ => false
  end.

Definition ostr_eqb := option_eqb str_eqb.
Definition alist_eqb (a b : alist) : bool := list_eqb (fun x y => str_eqb (fst x) (fst y) && str_eqb (snd x) (snd y)) a b.

(* a requirement table as observed: key, version string, source file ids, installed version *)
Definition obs_row := (str * (str * list N * option str))%type.
Definition obs_table := list obs_row.
Definition row_eqb (a b : obs_row) : bool :=
  let '(k, (v, s, i)) := a in let '(k', (v', s', i')) := b in
  str_eqb k k' && str_eqb v v' && list_eqb N.eqb s s' && ostr_eqb i i'.
Definition table_rows (t : table) : obs_table := map (fun ke => (fst ke, (ver_str (e_ver (snd ke)), e_src (snd ke), e_inst (snd ke)))) t.
Definition rows_otable (t : obs_table) : otable := map (fun r => (fst r, over (fst (fst (snd r))))) t.
Definition table_otable (t : table) : otable := map (fun ke => (fst ke, e_ver (snd ke))) t.

(* ================= stream "merge": arrangements of one multiset of lines ================= *)
Record mobs := { mo_order : list N; mo_table : obs_table }.
Record mcase := {
  mc_ranks : ranks;
  mc_env : alist;                           (* installed packages (importlib.metadata, patched) *)
  mc_arrs : list (list rfile * mobs)        (* files in directory-listing order + what the code returned *)
}.

Definition m_table (cfg : deviations) (c : mcase) (files : list rfile) : table :=
  process_all (rk_valid (mc_ranks c)) (rk_le (mc_ranks c)) (fun k => alookup k (mc_env c)) cfg files.

Definition mcase_model_ok (cfg : deviations) (c : mcase) : bool :=
  forallb (fun a =>
    list_eqb N.eqb (map f_id (discover (fst a))) (mo_order (snd a))
    && list_eqb row_eqb (table_rows (m_table cfg c (fst a))) (mo_table (snd a))) (mc_arrs c).

(* the property on a list of (files, selected versions) *)
Fixpoint pairwise {A} (f : A -> A -> bool) (l : list A) : bool :=
  match l with
  | [] => true
  | x :: r => forallb (f x) r && pairwise f r
  end.
Definition mspec_on (rs : ranks) (l : list (list rfile * otable)) : bool :=
  forallb (fun a => spec_table_ok (rk_valid rs) (rk_le rs) (spec_lines (fst a)) (snd a)) l
  && pairwise (fun a b =>
       negb (same_multiset (spec_lines (fst a)) (spec_lines (fst b)))
       || tables_equiv (rk_valid rs) (rk_le rs) (snd a) (snd b)) l.

Definition mcase_spec_ok (c : mcase) : bool :=
  mspec_on (mc_ranks c) (map (fun a => (fst a, rows_otable (mo_table (snd a)))) (mc_arrs c)).
Definition mcase_model_spec (cfg : deviations) (c : mcase) : bool :=
  mspec_on (mc_ranks c) (map (fun a => (fst a, table_otable (m_table cfg c (fst a)))) (mc_arrs c)).

(* which open findings explain a Spec failure: the Model with the measured switches reproduces the observation, and
   switching the named deviations off makes the Model satisfy the Spec on this input *)
Definition attrib_with (cfg : deviations) (model_ok : bool) (model_spec : deviations -> bool) : list nat :=
  if negb model_ok then []
  else if d24_unvalidated cfg && model_spec {| d24_unvalidated := false; d25_no_strip := d25_no_strip cfg |} then [24%nat]
  else if d25_no_strip cfg && model_spec {| d24_unvalidated := d24_unvalidated cfg; d25_no_strip := false |} then [25%nat]
  else if d24_unvalidated cfg && d25_no_strip cfg && model_spec all_off then [24%nat; 25%nat]
  else [].
Definition mcase_attrib (cfg : deviations) (c : mcase) : list nat :=
  attrib_with cfg (mcase_model_ok cfg c) (fun cfg' => mcase_model_spec cfg' c).

Definition mcase_explain (cfg : deviations) (c : mcase) :=
  map (fun a => (map f_id (discover (fst a)), table_rows (m_table cfg c (fst a)),
                 spec_table_ok (rk_valid (mc_ranks c)) (rk_le (mc_ranks c)) (spec_lines (fst a)) (rows_otable (mo_table (snd a)))))
      (mc_arrs c).

(* ================= stream "install": histories of runs ================= *)
Record hstep := {
  hs_in : step_in;
  hs_table : obs_table;
  hs_env_before : alist;
  hs_kind : N;                        (* 1 = an exception propagated, 2 = returned (early at the gate, or at the end) *)
  hs_args : option (list str);        (* installer arguments, if the installer was called *)
  hs_rec_start : alist;               (* live / persisted record when the pass starts, i.e. after the restarts, YAML *)
  hs_pers_start : alist;              (* re-imports and reloads that the history puts before this pass *)
  hs_rec_after : alist;               (* CONF_INSTALLED_PACKAGES of the live config entry object after the run *)
  hs_persisted : alist;               (* the record as last handed to async_update_entry (what survives a restart) *)
  hs_updated : bool;                  (* async_update_entry was called *)
  hs_allow_user : bool;               (* allow_all_imports as the user last set it (possibly while the run was suspended) *)
  hs_allow_live : bool;               (* ... as the live entry and the persisted entry data say after the run *)
  hs_allow_pers : bool;
  hs_env_after : alist
}.
Record hcase := { hc_ranks : ranks; hc_env0 : alist; hc_rec0 : alist; hc_steps : list hstep }.

Definition h_run (cfg : deviations) (c : hcase) : list step_out :=
  run_steps (rk_valid (hc_ranks c)) (rk_le (hc_ranks c)) cfg {| w_env := hc_env0 c; w_rec := hc_rec0 c |} (map hs_in (hc_steps c)).

Definition step_matches (o : step_out) (h : hstep) : bool :=
  list_eqb row_eqb (table_rows (so_table o)) (hs_table h)
  && alist_eqb (so_env_before o) (hs_env_before h)
  && alist_eqb (so_rec o) (hs_rec_after h)
  && alist_eqb (so_rec o) (hs_persisted h)
  && alist_eqb (so_env_after o) (hs_env_after h)
  && match so_out o with
     | OGated => N.eqb (hs_kind h) 2 && negb (hs_updated h) && match hs_args h with None => true | Some _ => false end
     | ORaised => N.eqb (hs_kind h) 1 && negb (hs_updated h) && match hs_args h with None => true | Some _ => false end
     | OFailed todo => N.eqb (hs_kind h) 1 && negb (hs_updated h)
                       && match hs_args h with Some l => list_eqb str_eqb (map req_string todo) l | None => false end
     | ODone todo _ u =>
         N.eqb (hs_kind h) 2 && Bool.eqb u (hs_updated h)
         && match todo, hs_args h with
            | [], None => true
            | _ :: _, Some l => list_eqb str_eqb (map req_string todo) l
            | _, _ => false
            end
     end.

Fixpoint forallb2 {A B} (f : A -> B -> bool) (a : list A) (b : list B) : bool :=
  match a, b with
  | [], [] => true
  | x :: a', y :: b' => f x y && forallb2 f a' b'
  | _, _ => false
  end.
Definition hcase_model_ok (cfg : deviations) (c : hcase) : bool := forallb2 step_matches (h_run cfg c) (hc_steps c).

(* the property on a history given as (files, allow, table, run observation) per step *)
Definition hspec_on (rs : ranks) (l : list (list rfile * otable * run_obs)) : bool :=
  forallb (fun x =>
    spec_table_ok (rk_valid rs) (rk_le rs) (spec_lines (fst (fst x))) (snd (fst x))
    && spec_run_ok (rk_valid rs) (rk_le rs) (snd x)) l.

(* the record is judged twice per pass: as the live entry object shows it, and as it was persisted *)
Fixpoint h_obs_with (get : hstep -> alist) (rec : alist) (steps : list hstep) : list (list rfile * otable * run_obs) :=
  match steps with
  | [] => []
  | h :: r =>
      (si_files (hs_in h), rows_otable (hs_table h),
       {| ro_allow := si_allow (hs_in h); ro_required := map fst (hs_table h);
          ro_env_before := hs_env_before h; ro_rec_before := rec;
          ro_done := N.eqb (hs_kind h) 2; ro_args := hs_args h; ro_rec_after := get h;
          ro_env_after := hs_env_after h |}) :: h_obs_with get (get h) r
  end.
Definition h_obs (rec : alist) (steps : list hstep) : list (list rfile * otable * run_obs) :=
  h_obs_with hs_rec_after rec steps ++ h_obs_with hs_persisted rec steps.
Fixpoint m_obs (rec : alist) (ins : list step_in) (outs : list step_out) : list (list rfile * otable * run_obs) :=
  match ins, outs with
  | i :: ins', o :: outs' =>
      (si_files i, table_otable (so_table o),
       {| ro_allow := si_allow i; ro_required := map fst (so_table o); ro_env_before := so_env_before o; ro_rec_before := rec;
          ro_done := match so_out o with ODone _ _ _ => true | _ => false end;
          ro_args := match so_out o with
                     | ODone (p :: todo) _ _ => Some (map req_string (p :: todo))
                     | OFailed todo => Some (map req_string todo)
                     | _ => None
                     end;
          ro_rec_after := so_rec o; ro_env_after := so_env_after o |}) :: m_obs (so_rec o) ins' outs'
  | _, _ => []
  end.

(* the record survives whatever happens between two passes (Home Assistant restart with the YAML import flow, reload
   of the YAML configuration): when a pass starts, the live and the persisted record are what the previous pass left *)
Fixpoint h_survives (rec : alist) (steps : list hstep) : bool :=
  match steps with
  | [] => true
  | h :: r => dict_same (hs_rec_start h) rec && dict_same (hs_pers_start h) rec && h_survives (hs_persisted h) r
  end.
(* the user's allow_all_imports survives every run, also when it was changed while the run was suspended in an await *)
Definition h_allow_ok (steps : list hstep) : bool :=
  forallb (fun h => Bool.eqb (hs_allow_live h) (hs_allow_user h) && Bool.eqb (hs_allow_pers h) (hs_allow_user h)) steps.
Definition hcase_spec_ok (c : hcase) : bool :=
  hspec_on (hc_ranks c) (h_obs (hc_rec0 c) (hc_steps c)) && h_survives (hc_rec0 c) (hc_steps c) && h_allow_ok (hc_steps c).
Definition hcase_model_spec (cfg : deviations) (c : hcase) : bool :=
  hspec_on (hc_ranks c) (m_obs (hc_rec0 c) (map hs_in (hc_steps c)) (h_run cfg c)).
Definition hcase_attrib (cfg : deviations) (c : hcase) : list nat :=
  attrib_with cfg (hcase_model_ok cfg c) (fun cfg' => hcase_model_spec cfg' c).

Definition show_out (o : outcome) :=
  match o with
  | OGated => (0%N, @nil str, false)
  | ORaised => (1%N, [], false)
  | ODone todo _ u => (2%N, map req_string todo, u)
  | OFailed todo => (4%N, map req_string todo, false)
  end.
Definition hcase_explain (cfg : deviations) (c : hcase) :=
  map (fun o => (table_rows (so_table o), show_out (so_out o), so_rec o, so_env_after o)) (h_run cfg c).
