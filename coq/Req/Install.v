(* Req/Install.v — executable model of requirements.py install_requirements (l.188-310) and
   update_unpinned_versions (l.35-50), plus a small world model (installed packages + pyscript's record)
   for repeated runs.  The record CONF_INSTALLED_PACKAGES and the installed-package environment are
   insertion-ordered association lists with unique keys (Python dicts).  No proofs here
   (see Proofs/ReqInstall.v). *)
From PV Require Import Common.Util Gen.ReqConsts Req.Merge.

Definition alist := list (str * str).
Fixpoint alookup (k : str) (a : alist) : option str :=
  match a with
  | [] => None
  | (k', v) :: r => if str_eqb k k' then Some v else alookup k r
  end.
(* d.pop(k) *)
Definition aremove (k : str) (a : alist) : alist := filter (fun kv => negb (str_eqb k (fst kv))) a.
(* d[k] = v *)
Fixpoint aset (k v : str) (a : alist) : alist :=
  match a with
  | [] => [(k, v)]
  | (k', v') :: r => if str_eqb k k' then (k', v) :: r else (k', v') :: aset k v r
  end.

(* the version string as stored in tables and records *)
Definition ver_str (v : option str) : str := match v with None => unpinned_version | Some s => s end.
(* `if x:` for an optional string *)
Definition truthy (o : option str) : option str := match o with Some (c :: r) => Some (c :: r) | _ => None end.

Definition plan_t := list (str * option str).        (* requirements_to_install: package -> version *)
(* the string handed to Home Assistant's installer (l.286-290) *)
Definition req_string (p : str * option str) : str :=
  match snd p with None => fst p | Some v => fst p ++ req_fmt_sep ++ v end.

Section Install.
  Variable vvalid : str -> bool.
  Variable vle : str -> str -> bool.

  Inductive pdec := DInstall | DKeep | DDrop | DRaise.

  (* l.214-275 for one package: recorded version (if tracked), installed version as read with the
     requirements, wanted version ([None] = unpinned) *)
  Definition decide_pkg (recv inst want : option str) : pdec :=
    match truthy inst with
    | None => DInstall                                   (* not installed: can be installed *)
    | Some iv =>
      match want with
      | None =>                                          (* unpinned: defer to what is installed *)
        match recv with
        | Some rv => if negb (str_eqb rv iv) then DDrop else DKeep
        | None => DKeep
        end
      | Some w =>
        match recv with
        | None => DKeep                                  (* installed by someone else: never touched *)
        | Some rv =>
          if negb (vvalid rv) || negb (vvalid iv) then DRaise          (* Version(...) raises InvalidVersion *)
          else if negb (veq vle rv iv) then DDrop                      (* externally managed now: stop tracking *)
          else if negb (vvalid w) then DRaise
          else if negb (veq vle w iv) then DInstall                    (* ours, and the pin differs: update *)
          else DKeep
        end
      end
    end.

  (* the loop l.214-275; [None] = an exception propagated out of install_requirements *)
  Fixpoint plan (rec : alist) (t : table) (todo : plan_t) : option (alist * plan_t) :=
    match t with
    | [] => Some (rec, todo)
    | (n, e) :: r =>
      match decide_pkg (alookup n rec) (e_inst e) (e_ver e) with
      | DRaise => None
      | DInstall => plan rec r (todo ++ [(n, e_ver e)])
      | DKeep => plan rec r todo
      | DDrop => plan (aremove n rec) r todo
      end
    end.

  Inductive pre_outcome :=
    | PGated                                  (* requirements found but allow_all_imports is off: return *)
    | PRaised
    | PPlan (rec1 : alist) (todo : plan_t).   (* installer is called iff todo <> [] *)

  Definition install_plan (allow : bool) (rec0 : alist) (t : table) : pre_outcome :=
    match t with
    | _ :: _ => if negb allow then PGated
                else match plan rec0 t [] with None => PRaised | Some (r, todo) => PPlan r todo end
    | [] => match plan rec0 t [] with None => PRaised | Some (r, todo) => PPlan r todo end
    end.

  (* update_unpinned_versions, with the installed versions as they are after the installer ran *)
  Definition update_unpinned (inst_after : str -> option str) (a : alist) : alist :=
    flat_map (fun kv =>
      if str_eqb (snd kv) unpinned_version
      then match truthy (inst_after (fst kv)) with Some v => [(fst kv, v)] | None => [] end
      else [kv]) a.

  (* dict equality; both association lists have unique keys, so it is mutual inclusion *)
  Definition dict_sub (a b : alist) : bool :=
    forallb (fun kv => match alookup (fst kv) b with Some v' => str_eqb (snd kv) v' | None => false end) a.
  Definition dict_eqb (a b : alist) : bool := dict_sub a b && dict_sub b a.

  (* l.297-310: the record after the run, and whether the config entry was updated *)
  Definition install_finish (inst_after : str -> option str) (rec0 rec1 : alist) (todo : plan_t) : alist * bool :=
    let rec2 := fold_left (fun a p => aset (fst p) (ver_str (snd p)) a) todo rec1 in
    let rec3 := if existsb (fun kv => str_eqb (snd kv) unpinned_version) rec2 then update_unpinned inst_after rec2 else rec2 in
    if dict_eqb rec3 rec0 then (rec0, false) else (rec3, true).

  Inductive outcome :=
    | OGated
    | ORaised
    | ODone (todo : plan_t) (rec' : alist) (updated : bool)
    | OFailed (todo : plan_t).   (* world model only: the installer was called and raised RequirementsNotFound; the
                                    exception propagates, the record is not touched *)

  Definition install (allow : bool) (inst_after : str -> option str) (rec0 : alist) (t : table) : outcome :=
    match install_plan allow rec0 t with
    | PGated => OGated
    | PRaised => ORaised
    | PPlan rec1 todo => let '(r, u) := install_finish inst_after rec0 rec1 todo in ODone todo r u
    end.

  (* ---------- world model for repeated runs ---------- *)
  (* Home Assistant's installer, as far as this property is concerned: a pinned requirement installs exactly that
     version; an unpinned one installs what the package index offers, if anything *)
  Definition env_install (index : alist) (env : alist) (todo : plan_t) : alist :=
    fold_left (fun e p =>
      match snd p with
      | Some v => aset (strip (fst p)) (strip v) e
      | None => match alookup (strip (fst p)) index with Some v => aset (strip (fst p)) v e | None => e end
      end) todo env.

  (* something other than pyscript installs / changes / removes a package *)
  Definition apply_ext (env : alist) (x : str * option str) : alist :=
    match snd x with Some v => aset (fst x) v env | None => aremove (fst x) env end.

  Record world := { w_env : alist; w_rec : alist }.
  Record step_in := {
    si_ext : list (str * option str); si_allow : bool; si_files : list rfile; si_index : alist;
    si_fail : list str               (* packages whose installation fails in this run (pip error) *)
  }.
  (* Home Assistant installs the requested requirements one by one and raises RequirementsNotFound if any failed *)
  Definition fails (s : step_in) (p : str * option str) : bool := existsb (str_eqb (strip (fst p))) (si_fail s).
  Record step_out := {
    so_table : table;
    so_env_before : alist;
    so_out : outcome;
    so_rec : alist;                 (* pyscript's record after the run *)
    so_env_after : alist
  }.

  Definition run_step (cfg : deviations) (w : world) (s : step_in) : world * step_out :=
    let env0 := fold_left apply_ext (si_ext s) (w_env w) in
    let t := process_all vvalid vle (fun k => alookup k env0) cfg (si_files s) in
    match install_plan (si_allow s) (w_rec w) t with
    | PGated => ({| w_env := env0; w_rec := w_rec w |},
                 {| so_table := t; so_env_before := env0; so_out := OGated; so_rec := w_rec w; so_env_after := env0 |})
    | PRaised => ({| w_env := env0; w_rec := w_rec w |},
                  {| so_table := t; so_env_before := env0; so_out := ORaised; so_rec := w_rec w; so_env_after := env0 |})
    | PPlan rec1 todo =>
        if existsb (fails s) todo then
          let env1 := env_install (si_index s) env0 (filter (fun p => negb (fails s p)) todo) in
          ({| w_env := env1; w_rec := w_rec w |},
           {| so_table := t; so_env_before := env0; so_out := OFailed todo; so_rec := w_rec w; so_env_after := env1 |})
        else
        let env1 := env_install (si_index s) env0 todo in
        let '(r, u) := install_finish (fun k => alookup k env1) (w_rec w) rec1 todo in
        ({| w_env := env1; w_rec := r |},
         {| so_table := t; so_env_before := env0; so_out := ODone todo r u; so_rec := r; so_env_after := env1 |})
    end.

  Fixpoint run_steps (cfg : deviations) (w : world) (ss : list step_in) : list step_out :=
    match ss with
    | [] => []
    | s :: r => let '(w', o) := run_step cfg w s in o :: run_steps cfg w' r
    end.
End Install.
