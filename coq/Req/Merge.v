(* Req/Merge.v — executable model of requirements.py process_all_requirements (l.54-184).
   Strings are lists of Unicode code points ([N]), exactly what a Python [str] is.  Constants (comment
   marker, "==" separator, rejected specifier characters, REQUIREMENTS_PATHS, the unpinned sentinel,
   Python's white space set) come from Gen/ReqConsts.v, regenerated from /repo on every run.
   packaging.Version enters only as the Section variables [vvalid] / [vle].  No proofs here
   (see Proofs/ReqMerge.v). *)
From PV Require Import Common.Util Gen.ReqConsts.

Definition str := list N.
Definition str_eqb : str -> str -> bool := list_eqb N.eqb.

(* ---------- deviation switches (on = what the code does today; all off = conformant) ---------- *)
Record deviations := {
  d24_unvalidated : bool;  (* D24: a version string is recorded without being validated when it is the first for
                              its package (or replaces an unpinned entry); only later comparisons notice *)
  d25_no_strip : bool      (* D25: the two sides of "==" are used raw: `foo == 1.0` gives key "foo " *)
}.
Definition all_off : deviations := {| d24_unvalidated := false; d25_no_strip := false |}.
Definition as_is : deviations := {| d24_unvalidated := true; d25_no_strip := true |}.

(* ---------- str.find / str.strip / `c in s` / str.split ---------- *)
Definition is_ws (c : N) : bool := existsb (N.eqb c) py_whitespace.
Fixpoint lstrip (s : str) : str :=
  match s with
  | [] => []
  | c :: r => if is_ws c then lstrip r else s
  end.
Definition rstrip (s : str) : str := rev (lstrip (rev s)).
Definition strip (s : str) : str := rstrip (lstrip s).

(* i = s.find(c); if i >= 0: s = s[:i] *)
Fixpoint cut_at (c : N) (s : str) : str :=
  match s with
  | [] => []
  | x :: r => if N.eqb x c then [] else x :: cut_at c r
  end.
Definition contains (c : N) (s : str) : bool := existsb (N.eqb c) s.

Fixpoint is_prefix (p s : str) : bool :=
  match p, s with
  | [], _ => true
  | a :: p', b :: s' => N.eqb a b && is_prefix p' s'
  | _ :: _, [] => false
  end.
(* s.split(sep) for a non-empty separator: non-overlapping occurrences, left to right.
   [skip] = characters of an already matched separator still to be dropped; [cur] = current part, reversed *)
Fixpoint split_go (sep : str) (skip : nat) (cur : str) (s : str) : list str :=
  match s with
  | [] => [rev cur]
  | c :: r =>
    match skip with
    | S k => split_go sep k cur r
    | O => if is_prefix sep s then rev cur :: split_go sep (length sep - 1) [] r
           else split_go sep 0 (c :: cur) r
    end
  end.
Definition split (sep : str) (s : str) : list str := split_go sep 0 [] s.

(* ---------- one line of a requirements file (l.72-102) ---------- *)
Inductive parsed :=
  | PBlank                                   (* empty after removing the comment and stripping: skipped silently *)
  | PReject                                  (* more than one "==", or one of , > < : logged and skipped *)
  | PReq (name : str) (ver : option str).    (* [None] = no "==": unpinned; [Some v] = the text after "==" *)

Definition parse_line (strip_parts : bool) (line : str) : parsed :=
  let s := strip (cut_at req_comment_char line) in
  match s with
  | [] => PBlank
  | _ =>
    let parts := split req_sep s in
    if (req_max_parts <? N.of_nat (length parts))%N || existsb (fun c => contains c s) req_reject_chars then PReject
    else match parts with
         | [] => PBlank                                        (* unreachable: split never returns [] *)
         | [n] => PReq n None
         | n :: v :: _ =>
             let n' := if strip_parts then strip n else n in
             let v' := if strip_parts then strip v else v in
             PReq n' (Some v')
         end
  end.

(* ---------- file discovery: glob.glob(os.path.join(folder, root, file)) for root in REQUIREMENTS_PATHS ---------- *)
Definition comp_match (p : pcomp) (c : str) : bool :=
  match p with
  | PLit s => str_eqb s c
  | PStar => match c with [] => false | x :: _ => negb (N.eqb x 46) end       (* `*` never matches a hidden name *)
  end.
Fixpoint dir_match (pat : list pcomp) (dir : list str) : bool :=
  match pat, dir with
  | [], [] => true
  | p :: pat', c :: dir' => comp_match p c && dir_match pat' dir'
  | _, _ => false
  end.

Record rfile := { f_id : N; f_dir : list str; f_lines : list str }.

(* files in the order they are read: patterns in order, directory-listing order within a pattern (the
   listing order is an input: [files] is given in that order); a path found twice is read once *)
Fixpoint dedup_files (seen : list N) (l : list rfile) : list rfile :=
  match l with
  | [] => []
  | f :: r => if existsb (N.eqb (f_id f)) seen then dedup_files seen r else f :: dedup_files (f_id f :: seen) r
  end.
Definition discover_with (pats : list (list pcomp)) (files : list rfile) : list rfile :=
  dedup_files [] (concat (map (fun pat => filter (fun f => dir_match pat (f_dir f)) files) pats)).
Definition discover := discover_with req_paths.

(* ---------- the requirement table ---------- *)
Record entry := { e_ver : option str; e_src : list N; e_inst : option str }.
Definition table := list (str * entry).          (* insertion ordered, like the dict *)

Fixpoint tlookup (k : str) (t : table) : option entry :=
  match t with
  | [] => None
  | (k', e) :: r => if str_eqb k k' then Some e else tlookup k r
  end.
(* d[k] = e : replaces in place, or appends *)
Fixpoint tset (k : str) (e : entry) (t : table) : table :=
  match t with
  | [] => [(k, e)]
  | (k', e') :: r => if str_eqb k k' then (k', e) :: r else (k', e') :: tset k e r
  end.

Section Merge.
  Variable vvalid : str -> bool.           (* packaging.version.Version(s) does not raise *)
  Variable vle : str -> str -> bool.       (* Version(a) <= Version(b) *)
  Variable installed : str -> option str.  (* get_installed_version at the time the files are read *)

  Definition veq (a b : str) : bool := vle a b && vle b a.
  Definition vlt (a b : str) : bool := vle a b && negb (vle b a).

  (* `if not current_pinned_version`: no entry, or the recorded version string is empty *)
  Definition ver_falsy (v : option str) : bool := match v with Some [] => true | _ => false end.
  Definition add_src (e : entry) (file : N) : entry :=
    {| e_ver := e_ver e; e_src := e_src e ++ [file]; e_inst := e_inst e |}.

  (* new_version as the code compares it: the text after "==" is UNPINNED_VERSION when it is spelt like that marker *)
  Definition norm_ver (nv : option str) : option str :=
    match nv with
    | Some v => if str_eqb v unpinned_version then None else Some v
    | None => None
    end.

  (* l.104-182 for one requirement; [nv = None] means unpinned *)
  Definition merge_core (t : table) (file : N) (name : str) (nv : option str) : table :=
    let fresh := {| e_ver := nv; e_src := [file]; e_inst := installed name |} in
    match tlookup name t with
    | None => tset name fresh t
    | Some e =>
      if ver_falsy (e_ver e) then tset name fresh t
      else
        match nv, e_ver e with
        | None, Some _ => t                                  (* unpinned ignored in favour of the pin *)
        | Some _, None => tset name fresh t                  (* pin replaces unpinned *)
        | None, None => tset name (add_src e file) t
        | Some v, Some c =>
          if negb (vvalid c) || negb (vvalid v) then t       (* Version() raises ValueError: line skipped *)
          else if veq c v then tset name (add_src e file) t
          else if vlt c v then tset name {| e_ver := Some v; e_src := [file]; e_inst := e_inst e |} t
          else t                                             (* recorded version is higher *)
        end
    end.

  (* one parsed line.  Conformant (D24 off): the text after "==" must be a version, otherwise the line is skipped
     before anything else happens.  As is (D24 on): no such check. *)
  Definition merge_req (d24 : bool) (t : table) (file : N) (name : str) (nv : option str) : table :=
    if negb d24 && match nv with Some v => negb (vvalid v) | None => false end then t
    else merge_core t file name (norm_ver nv).

  Definition merge_line (cfg : deviations) (t : table) (fl : N * str) : table :=
    match parse_line (negb (d25_no_strip cfg)) (snd fl) with
    | PReq n v => merge_req (d24_unvalidated cfg) t (fst fl) n v
    | _ => t
    end.

  (* all lines of all files, in reading order, tagged with their file *)
  Definition flat_lines (files : list rfile) : list (N * str) :=
    concat (map (fun f => map (fun l => (f_id f, l)) (f_lines f)) files).

  Definition merge_lines (cfg : deviations) (ls : list (N * str)) : table := fold_left (merge_line cfg) ls [].

  Definition process_all (cfg : deviations) (files : list rfile) : table :=
    merge_lines cfg (flat_lines (discover files)).
End Merge.
