(* Policy/Imports.v — executable model of pyscript's import and builtin-name policy (C17).
     eval.py      AstEval.ast_import (l.951-965), ast_importfrom (l.967-1002), ast_name (l.1534-1547),
                  ast_eval_exec_factory (l.98: a fresh AstEval on the same global context runs the same code)
     global_ctx.py GlobalContext.module_import (l.160-243): which pyscript file a module name denotes
     function.py  Function.init / install_ast_funcs: the names installed in every evaluator's local table
   Module names are real Coq [string]s: the rule is a predicate over all names.  The literal sets
   (ALLOWED_IMPORTS, BUILTIN_EXCLUDE, BUILTIN_AST_FUNCS_FACTORY keys, the logger functions) come from
   Gen/ImportConsts.v, regenerated from /repo on every run.  No proofs here (see Proofs/PolicyImports.v). *)
From Coq Require Import String Ascii.
From PV Require Import Common.Util Gen.ImportConsts.
Local Open Scope string_scope.
Local Open Scope list_scope.

(* ---------- strings ---------- *)
Definition str_mem (s : string) (l : list string) : bool := existsb (String.eqb s) l.
Definition cat (l : list string) : string := String.concat "" l.

Fixpoint map_char (f : ascii -> ascii) (s : string) : string :=
  match s with
  | EmptyString => EmptyString
  | String c r => String (f c) (map_char f r)
  end.
(* module_name.replace(".", "/") *)
Definition dot_to_slash (s : string) : string :=
  map_char (fun c => if Ascii.eqb c "."%char then "/"%char else c) s.

(* s.split(c) *)
Fixpoint split_on (c : ascii) (s : string) : list string :=
  match s with
  | EmptyString => [EmptyString]
  | String a r =>
      if Ascii.eqb a c then EmptyString :: split_on c r
      else match split_on c r with
           | h :: t => String a h :: t
           | [] => [String a EmptyString]
           end
  end.

(* arg.id[0] == "_" *)
Definition starts_underscore (s : string) : bool :=
  match s with
  | String c _ => Ascii.eqb c "_"%char
  | EmptyString => false
  end.

Fixpoint assoc {A} (k : string) (l : list (string * A)) : option A :=
  match l with
  | [] => None
  | (k', v) :: r => if String.eqb k k' then Some v else assoc k r
  end.

(* arg.module == "stubs" or arg.module.startswith("stubs.") *)
Definition is_stubs (m : string) : bool := String.eqb m "stubs" || String.prefix "stubs." m.

(* ---------- the world a statement runs in ---------- *)
Record sysinfo := {
  si_importable : bool;         (* importlib.import_module(m) succeeds *)
  si_has : list string;         (* names n (among those asked for) with hasattr(module, n) *)
  si_public : list string       (* keys of module.__dict__ not starting with "_" (only supplied for `*`) *)
}.
Record pyfile := { pf_path : string; pf_names : list string }.   (* a file under <config>/pyscript and its globals *)

Record world := {
  w_allow_all : bool;                   (* config entry allow_all_imports *)
  w_ctx : string;                       (* name of the global context executing the statement *)
  w_rel : option string;                (* its rel_import_path *)
  w_defs : list pyfile;                 (* contents of every pyscript file of the scenario *)
  w_present : list string;              (* paths existing now *)
  w_loaded : list (string * string);    (* module contexts already loaded: ctx name -> file it came from *)
  w_sys : list (string * sysinfo)       (* facts about installed modules (only consulted past the check) *)
}.

(* ---------- module_import: which pyscript file does a name denote ---------- *)
Inductive ps_result :=
  | PsHit (ctx file : string) (fresh : bool)   (* a pyscript module; fresh = loaded from its file just now *)
  | PsNone                                     (* return None *)
  | PsRelNoParent                              (* ImportError: relative import with no known parent package *)
  | PsRelAbove.                                (* ImportError: relative import above parent package *)

Inductive cands := Cands (l : list (string * string)) | CNoParent | CAbove.

Definition is_app_rel (rel : option string) : bool :=
  match rel with Some p => String.prefix "apps/" p | None => false end.

(* import_level == 0 *)
Definition cands0 (rel : option string) (m : string) : list (string * string) :=
  let mp := dot_to_slash m in
  (if is_app_rel rel
   then [(cat ["apps."; m], cat ["apps/"; mp; "/__init__.py"]); (cat ["apps."; m], cat ["apps/"; mp; ".py"])]
   else [])
  ++ [(cat ["modules."; m], cat ["modules/"; mp; "/__init__.py"]); (cat ["modules."; m], cat ["modules/"; mp; ".py"])].

(* for _ in range(import_level - 1): path = dirname(path); idx = ctx_name.rfind(".");
       if path.find("/") < 0 or idx < 0: raise ImportError; ctx_name = ctx_name[0:idx] *)
Fixpoint climb (n : nat) (path ctx : list string) : option (list string * list string) :=
  match n with
  | O => Some (path, ctx)
  | S n' =>
      let path' := removelast path in
      if Nat.ltb (length path') 2 || Nat.ltb (length ctx) 2 then None
      else climb n' path' (removelast ctx)
  end.

(* import_level > 0.  The number of climbing steps is capped by the path length + 1: more steps than
   that always end in "above parent package", so no data-dependent [N] becomes a large [nat]. *)
Definition candsN (rel : option string) (ctx m : string) (level : N) : cands :=
  match rel with
  | None => CNoParent
  | Some p =>
      let segs0 := split_on "/"%char p in
      let segs := if String.eqb (last segs0 "") "__init__" && Nat.leb 2 (length segs0)
                  then removelast segs0 else segs0 in
      let steps := N.to_nat (N.min (level - 1) (N.of_nat (length segs) + 1)) in
      match climb steps segs (split_on "."%char ctx) with
      | None => CAbove
      | Some (path, cx) =>
          let ps := String.concat "/" path in
          let cn := cat [String.concat "." cx; "."; m] in
          let mp := dot_to_slash m in
          Cands [(cn, cat [ps; "/"; mp; "/__init__.py"]); (cn, cat [ps; "/"; mp; ".py"])]
      end
  end.

Definition candidates (w : world) (m : string) (level : N) : cands :=
  if N.eqb level 0 then Cands (cands0 (w_rel w) m) else candsN (w_rel w) (w_ctx w) m level.

Definition ps_lookup (w : world) (m : string) (level : N) : ps_result :=
  match candidates w m level with
  | CNoParent => PsRelNoParent
  | CAbove => PsRelAbove
  | Cands l =>
      (* "now see if we have loaded it already" *)
      match find (fun c => match assoc (fst c) (w_loaded w) with Some _ => true | None => false end) l with
      | Some (cn, _) => PsHit cn (match assoc cn (w_loaded w) with Some f => f | None => "" end) false
      | None =>
          (* find_first_file *)
          match find (fun c => str_mem (snd c) (w_present w)) l with
          | Some (cn, f) => PsHit cn f true
          | None => PsNone
          end
      end
  end.

Definition file_names (w : world) (f : string) : list string :=
  match find (fun p => String.eqb (pf_path p) f) (w_defs w) with
  | Some p => pf_names p
  | None => []
  end.

Definition mark_loaded (w : world) (cn f : string) : world :=
  {| w_allow_all := w_allow_all w; w_ctx := w_ctx w; w_rel := w_rel w; w_defs := w_defs w;
     w_present := w_present w; w_loaded := w_loaded w ++ [(cn, f)]; w_sys := w_sys w |}.

(* ---------- the policy kernel: the `if not mod: if not allow_all and name not in ALLOWED_IMPORTS` test ---------- *)
Inductive verdict := VPyscript | VDenied | VSystem.
Definition decide (allow_all is_pyscript_module : bool) (m : string) : verdict :=
  if is_pyscript_module then VPyscript
  else if negb allow_all && negb (str_mem m allowed_imports) then VDenied
  else VSystem.

(* ---------- statements ---------- *)
Record alias := { al_name : string; al_as : option string }.
Definition bind_name (a : alias) : string := match al_as a with Some x => x | None => al_name a end.

Inductive stmt :=
  | SImport (names : list alias)                                 (* import a, b.c as d *)
  | SFrom (m : option string) (level : N) (names : list alias).  (* from ..m import n as x, * ; m = None: from . import n *)

Inductive origin := OPs (file : string) | OSys (m : string) | OOther.

Inductive status :=
  | SOk
  | SIgnored          (* from stubs... import: skipped *)
  | SDenied           (* ModuleNotFoundError "import of/from X not allowed" *)
  | SRelNotFound      (* ModuleNotFoundError "module 'x' not found" (from . import x) *)
  | SStubAs           (* ModuleNotFoundError "... *as y* not supported for stubs" *)
  | SSysMissing       (* the exception importlib raised (the module is not installed / fails to import) *)
  | SImportErr        (* ImportError of a relative import without/above the parent package *)
  | SAttrErr          (* AttributeError: the module has no such name *)
  | SSyntax           (* SyntaxError: eval() of a statement *)
  | SUnknown.         (* the world does not say (excluded by theorems; a mismatch in the correspondence) *)

(* the Python exception type of a status ("" = no exception; None = whatever importlib raised) *)
Definition status_exc (s : status) : option string :=
  match s with
  | SOk | SIgnored => Some ""
  | SDenied | SRelNotFound | SStubAs => Some "ModuleNotFoundError"
  | SImportErr => Some "ImportError"
  | SAttrErr => Some "AttributeError"
  | SSyntax => Some "SyntaxError"
  | SSysMissing | SUnknown => None
  end.

Record result := { r_status : status; r_bound : list (string * origin) }.
Definition res (s : status) (b : list (string * origin)) : result := {| r_status := s; r_bound := b |}.
Definition res_cons (b : list (string * origin)) (r : result) : result := res (r_status r) (b ++ r_bound r).

Inductive resolved :=
  | RMod (o : origin) (has : list string) (public : list string)
  | RFail (s : status).

(* mod = module_import(m, level); if not mod: <check>; mod = importlib / sys.modules *)
Definition resolve (w : world) (m : string) (level : N) : resolved * world :=
  match ps_lookup w m level with
  | PsHit cn f fresh =>
      let names := file_names w f in
      (RMod (OPs f) names (filter (fun n => negb (starts_underscore n)) names),
       if fresh then mark_loaded w cn f else w)
  | PsRelNoParent | PsRelAbove => (RFail SImportErr, w)
  | PsNone =>
      match decide (w_allow_all w) false m with
      | VDenied => (RFail SDenied, w)
      | _ =>
          match assoc m (w_sys w) with
          | Some si => if si_importable si then (RMod (OSys m) (si_has si) (si_public si), w)
                       else (RFail SSysMissing, w)
          | None => (RFail SUnknown, w)
          end
      end
  end.

(* ast_import: for imp in arg.names *)
Fixpoint import_aliases (w : world) (l : list alias) : result :=
  match l with
  | [] => res SOk []
  | a :: r =>
      match resolve w (al_name a) 0 with
      | (RMod o _ _, w') => res_cons [(bind_name a, o)] (import_aliases w' r)
      | (RFail s, _) => res s []
      end
  end.

(* ast_importfrom, arg.module is None: for imp in arg.names: module_import(imp.name, level) or raise *)
Fixpoint from_dot_aliases (w : world) (level : N) (l : list alias) : result :=
  match l with
  | [] => res SOk []
  | a :: r =>
      match ps_lookup w (al_name a) level with
      | PsHit cn f fresh =>
          res_cons [(bind_name a, OPs f)] (from_dot_aliases (if fresh then mark_loaded w cn f else w) level r)
      | PsNone => res SRelNotFound []
      | PsRelNoParent | PsRelAbove => res SImportErr []
      end
  end.

(* the final loop of ast_importfrom *)
Fixpoint bind_names (o : origin) (has public : list string) (l : list alias) : result :=
  match l with
  | [] => res SOk []
  | a :: r =>
      if String.eqb (al_name a) "*" then res_cons (map (fun n => (n, o)) public) (bind_names o has public r)
      else if str_mem (al_name a) has then res_cons [(bind_name a, o)] (bind_names o has public r)
      else res SAttrErr []
  end.

Definition has_as (a : alias) : bool := match al_as a with Some _ => true | None => false end.

Definition run_stmt (w : world) (s : stmt) : result :=
  match s with
  | SImport names => import_aliases w names
  | SFrom None level names => from_dot_aliases w level names
  | SFrom (Some m) level names =>
      if is_stubs m then (if existsb has_as names then res SStubAs [] else res SIgnored [])
      else match resolve w m level with
           | (RMod o has public, _) => bind_names o has public names
           | (RFail s, _) => res s []
           end
  end.

(* how the statement reaches the interpreter.  eval()/exec() build a fresh AstEval on the same global
   context (ast_eval_exec_factory), which runs the very same ast_import/ast_importfrom. *)
Inductive via := VDirect | VExec | VEvalExec | VExecDict | VFunc | VEvalRaw.
Definition run_via (v : via) (w : world) (s : stmt) : result :=
  match v with
  | VEvalRaw => res SSyntax []            (* eval("import x"): a statement is not an expression *)
  | _ => run_stmt w s
  end.

(* the final content of the target table: a later binding of the same name wins *)
Fixpoint final_bindings (l : list (string * origin)) : list (string * origin) :=
  match l with
  | [] => []
  | (n, o) :: r => if existsb (fun p => String.eqb (fst p) n) r then final_bindings r else (n, o) :: final_bindings r
  end.

(* ---------- plain-name lookup (ast_name, Load context) ---------- *)
(* deviations of the current code from the property (switch on = what the code does today; all off = conformant) *)
Record deviations := {
  d_native_builtins : bool;   (* D170: lambda bodies and @pyscript_compile/@pyscript_executor functions are compiled natively
                                 (ast_lambda l.1204, ast_functiondef l.1125-1161: exec(code, global_sym_table, sym_table)) and
                                 therefore see Python's real builtins: no BUILTIN_EXCLUDE, no underscore rule, real __import__ *)
  d_builtins_leak : bool      (* D171: that exec() inserts "__builtins__" into the script's global table, where interpreted
                                 code then finds it as an ordinary global *)
}.
Definition dev_off : deviations := {| d_native_builtins := false; d_builtins_leak := false |}.

Record nenv := {
  ne_sym : bool;        (* bound in the current symbol table (module level: the global table) *)
  ne_global : bool;     (* bound in the global table while a function's table is current *)
  ne_local : bool;      (* the evaluator's local table still holds the functions installed by install_ast_funcs;
                           false inside trigger string expressions: AstEval.eval(new_state_vars) REPLACES that table
                           by the trigger variables *)
  ne_pybuiltin : bool;  (* hasattr(builtins, name) *)
  ne_gdecl : bool;      (* the enclosing function declares the name `global` (curr_func.global_names) *)
  ne_unbound : bool;    (* the current table holds a cell (EvalLocalVar) for the name that is unset (deleted) *)
  ne_localname : bool;  (* the name is a local of the current function (curr_func.local_names) but absent from its table *)
  ne_native : bool;     (* the name is read inside a natively compiled body (lambda, @pyscript_compile) *)
  ne_leaked : bool      (* a native body was compiled in this global context before *)
}.
Inductive nkind :=
  | KUser               (* the script's own binding *)
  | KLogger (level : string)   (* bound method <script logger>.<level> *)
  | KAstFunc            (* another function installed by install_ast_funcs *)
  | KFactory            (* pyscript's own eval/exec/globals/locals *)
  | KBuiltin            (* getattr(builtins, name): the real builtin *)
  | KBuiltinsNs         (* the real builtins namespace itself (builtins.__dict__) *)
  | KUndefined          (* none of these (a function/service/state name or NameError) *)
  | KOther.             (* another exception (UnboundLocalError, SyntaxError of an unresolvable nonlocal) *)

(* AstEval.ast_name, Load context, l.1527-1562 *)
Definition interp_lookup (cfg : deviations) (e : nenv) (n : string) : nkind :=
  if ne_gdecl e then (if ne_global e then KUser else KUndefined)     (* global declaration: only the global table *)
  else if ne_unbound e then KUndefined                                 (* EvalLocalVar.get() of an unset cell *)
  else if ne_sym e then KUser
  else match (if ne_local e then assoc n logger_funcs else None) with
       | Some lvl => KLogger lvl                      (* local_sym_table, installed per evaluator *)
       | None =>
         if ne_local e && str_mem n other_ast_funcs then KAstFunc
         else if ne_global e then (if ne_localname e then KOther else KUser)    (* UnboundLocalError *)
         else if d_builtins_leak cfg && ne_leaked e && String.eqb n "__builtins__" then KBuiltinsNs
         else if str_mem n ast_factory_funcs then KFactory
         else if ne_pybuiltin e && negb (str_mem n builtin_exclude) && negb (starts_underscore n) then KBuiltin
         else KUndefined
       end.

Definition name_lookup (cfg : deviations) (e : nenv) (n : string) : nkind :=
  if ne_native e && d_native_builtins cfg then
    (* CPython's LOAD_GLOBAL: the script's global table, then the builtins module *)
    if ne_sym e || ne_global e then KUser
    else if String.eqb n "__builtins__" then KBuiltinsNs
    else if ne_pybuiltin e then KBuiltin else KUndefined
  else interp_lookup cfg e n.
