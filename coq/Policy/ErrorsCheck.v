(* Policy/ErrorsCheck.v — what the generated correspondence files evaluate for the containment and load streams of C18.
   [ccase_model_ok dv] / [lcase_model_ok dv]: under the measured switches the Model reproduces what the real entry
                        points did, occurrence by occurrence / file by file (tie T2);
   [ccase_spec_ok] / [lcase_spec_ok]: what they did is what the property demands;
   [ccase_attrib dv] / [lcase_attrib dv]: which open findings explain a Spec failure. *)
From PV Require Import Common.Util Gen.ErrorConsts Policy.Errors.

(* ---------- containment: a history of occurrences ---------- *)
Record ccase := mkCCase {
  cc_sub : subsystem;
  cc_hist : list occ;
  cc_obs : list oobs;          (* observed, one per occurrence (a sink the harness cannot see, SkHeld, is reported as SkNone) *)
  cc_others_ok : bool          (* a trigger of the same file that never raised, and one of another file, still run at the end *)
}.

Definition sink_obs_eqb (model obs : sink) : bool :=
  match model, obs with
  | SkNone, SkNone | SkHeld, SkNone | SkAsyncio, SkAsyncio | SkHA, SkHA => true
  | _, _ => false
  end.
Definition oobs_eqb (m o : oobs) : bool :=
  Bool.eqb (ob_served m) (ob_served o) && N.eqb (ob_script_logs m) (ob_script_logs o)
  && N.eqb (ob_other_logs m) (ob_other_logs o) && sink_obs_eqb (ob_sink m) (ob_sink o)
  && list_eqb Bool.eqb (ob_cb_ran m) (ob_cb_ran o).

Definition model_obs (dv : deviations) (c : ccase) : list oobs := snd (run_history dv (cc_sub c) all_alive (cc_hist c)).

Definition ccase_model_ok (dv : deviations) (c : ccase) : bool := list_eqb oobs_eqb (model_obs dv c) (cc_obs c).
Definition ccase_spec_ok (c : ccase) : bool := history_ok (cc_hist c) (cc_obs c) && cc_others_ok c.

Definition switches (dv : deviations) : list (nat * bool) :=
  [(181%nat, d_base_escapes dv); (180%nat, d_dm_trig_nowrap dv); (22%nat, d_cb_break dv)].
Definition with_off (k : nat) (dv : deviations) : deviations :=
  mkDev (d_base_escapes dv && negb (Nat.eqb k 181)) (d_dm_trig_nowrap dv && negb (Nat.eqb k 180)) (d_cb_break dv && negb (Nat.eqb k 22)).

Definition ccase_attrib (dv : deviations) (c : ccase) : list nat :=
  if ccase_model_ok dv c && history_ok (cc_hist c) (model_obs all_off c) && cc_others_ok c then
    let basep := model_obs dv c in
    let on := filter (fun p => snd p) (switches dv) in
    let act := filter (fun p => negb (list_eqb oobs_eqb (model_obs (with_off (fst p) dv) c) basep)) on in
    match act with
    | [] => map fst on
    | _ => map fst act
    end
  else [].

Definition show_sink (s : sink) : N := match s with SkNone => 0 | SkHeld => 1 | SkAsyncio => 2 | SkHA => 3 end%N.
Definition show_obs (o : oobs) := (ob_served o, ob_script_logs o, ob_other_logs o, show_sink (ob_sink o), ob_cb_ran o).
Definition ccase_explain (dv : deviations) (c : ccase) := (map show_obs (model_obs dv c), map show_obs (cc_obs c), cc_others_ok c).

(* ---------- load: script files loaded at start-up, then rewritten and loaded again by pyscript.reload: all of them
   (lp_files = all files) or one named file through the targeted path (lp_files = that file) ---------- *)
(* every file defines a @service and a trigger before the statement that may fail and another pair after it *)
Record lphase := mkLPhase {
  lp_files : list outcome;     (* in load order *)
  lp_escaped : bool;           (* pyscript's setup / the reload service raised into Home Assistant *)
  lp_loaded : list bool;       (* observed: all four pieces of the file are registered and run when called / triggered *)
  lp_residue : list bool;      (* observed: at least one piece of the file is registered (hass.services, service_cnt) or runs *)
  lp_logs : list N;            (* observed: error records on the file's logger during this phase *)
  lp_others_ok : bool          (* observed: every file NOT (re)loaded in this phase is exactly as live as before and logged nothing,
                                  and a service name claimed by two files still belongs to, and runs, the first one *)
}.
Record lcase := mkLCase { lc_phases : list lphase }.

Definition lphase_model_ok (dv : deviations) (c : lphase) : bool :=
  let r := load_scripts dv (lp_files c) in
  if sink_none (l_sink r)
  then negb (lp_escaped c) && list_eqb Bool.eqb (l_loaded r) (lp_loaded c) && list_eqb Bool.eqb (l_loaded r) (lp_residue c)
       && list_eqb N.eqb (l_script_logs r) (lp_logs c) && lp_others_ok c
  else lp_escaped c.

(* a file that failed to load is reported once and nothing of it stays registered or runs; every other file is complete *)
Definition lphase_spec_ok (c : lphase) : bool :=
  load_ok (lp_files c) (mkL (lp_loaded c) (lp_logs c) (if lp_escaped c then SkHA else SkNone))
  && list_eqb Bool.eqb (lp_residue c) (map (fun o => negb (raises o)) (lp_files c))
  && lp_others_ok c.

Definition lcase_model_ok (dv : deviations) (c : lcase) : bool := forallb (lphase_model_ok dv) (lc_phases c).
Definition lcase_spec_ok (c : lcase) : bool := forallb lphase_spec_ok (lc_phases c).

(* in the load stream the only switch is d_base_escapes, listed there as D188 *)
Definition lcase_attrib (dv : deviations) (c : lcase) : list nat :=
  if lcase_model_ok dv c && forallb (fun p => load_ok (lp_files p) (load_scripts all_off (lp_files p))) (lc_phases c)
     && d_base_escapes dv
  then [188%nat] else [].

Definition lcase_explain (dv : deviations) (c : lcase) :=
  map (fun p => let r := load_scripts dv (lp_files p) in
                (l_loaded r, l_script_logs r, show_sink (l_sink r), (lp_escaped p, lp_loaded p, lp_residue p, lp_logs p, lp_others_ok p))) (lc_phases c).
