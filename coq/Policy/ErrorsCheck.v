(* Policy/ErrorsCheck.v — what the generated correspondence files evaluate for the containment and load streams of C18.
   [ccase_model_ok dv] / [lcase_model_ok dv]: under the measured switches the Model reproduces what the real entry
                        points did, occurrence by occurrence / file by file (tie T2);
   [ccase_spec_ok] / [lcase_spec_ok]: what they did is what the property demands;
   [ccase_attrib dv] / [lcase_attrib dv]: which open findings explain a Spec failure. *)
From PV Require Import Common.Util Gen.ErrorConsts Policy.Errors.

(* ---------- containment: a history of occurrences ---------- *)
Record ccase := mkCCase {
  cc_sub : subsystem;
  cc_hist : list occ;
  cc_obs : list oobs;          (* observed, one per occurrence (a sink the harness cannot see, SkHeld, is reported as SkNone) *)
  cc_others_ok : bool          (* a trigger of the same file that never raised, and one of another file, still run at the end *)
}.

Definition sink_obs_eqb (model obs : sink) : bool :=
  match model, obs with
  | SkNone, SkNone | SkHeld, SkNone | SkAsyncio, SkAsyncio | SkHA, SkHA => true
  | _, _ => false
  end.
Definition oobs_eqb (m o : oobs) : bool :=
  Bool.eqb (ob_served m) (ob_served o) && N.eqb (ob_script_logs m) (ob_script_logs o)
  && N.eqb (ob_other_logs m) (ob_other_logs o) && sink_obs_eqb (ob_sink m) (ob_sink o)
  && list_eqb Bool.eqb (ob_cb_ran m) (ob_cb_ran o).

Definition model_obs (dv : deviations) (c : ccase) : list oobs := snd (run_history dv (cc_sub c) all_alive (cc_hist c)).

Definition ccase_model_ok (dv : deviations) (c : ccase) : bool := list_eqb oobs_eqb (model_obs dv c) (cc_obs c).
Definition ccase_spec_ok (c : ccase) : bool := history_ok (cc_hist c) (cc_obs c) && cc_others_ok c.

Definition switches (dv : deviations) : list (nat * bool) :=
  [(181%nat, d_base_escapes dv); (180%nat, d_dm_trig_nowrap dv); (22%nat, d_cb_break dv)].
Definition with_off (k : nat) (dv : deviations) : deviations :=
  mkDev (d_base_escapes dv && negb (Nat.eqb k 181)) (d_dm_trig_nowrap dv && negb (Nat.eqb k 180)) (d_cb_break dv && negb (Nat.eqb k 22)).

Definition ccase_attrib (dv : deviations) (c : ccase) : list nat :=
  if ccase_model_ok dv c && history_ok (cc_hist c) (model_obs all_off c) && cc_others_ok c then
    let basep := model_obs dv c in
    let on := filter (fun p => snd p) (switches dv) in
    let act := filter (fun p => negb (list_eqb oobs_eqb (model_obs (with_off (fst p) dv) c) basep)) on in
    match act with
    | [] => map fst on
    | _ => map fst act
    end
  else [].

Definition show_sink (s : sink) : N := match s with SkNone => 0 | SkHeld => 1 | SkAsyncio => 2 | SkHA => 3 end%N.
Definition show_obs (o : oobs) := (ob_served o, ob_script_logs o, ob_other_logs o, show_sink (ob_sink o), ob_cb_ran o).
Definition ccase_explain (dv : deviations) (c : ccase) := (map show_obs (model_obs dv c), map show_obs (cc_obs c), cc_others_ok c).

(* ---------- load: a list of script files ---------- *)
Record lcase := mkLCase {
  lc_files : list outcome;     (* in load order *)
  lc_escaped : bool;           (* pyscript's setup raised into Home Assistant *)
  lc_loaded : list bool;       (* observed: the file's trigger answers afterwards *)
  lc_logs : list N             (* observed: error records on the file's logger *)
}.

Definition lcase_model_ok (dv : deviations) (c : lcase) : bool :=
  let r := load_scripts dv (lc_files c) in
  if sink_none (l_sink r)
  then negb (lc_escaped c) && list_eqb Bool.eqb (l_loaded r) (lc_loaded c) && list_eqb N.eqb (l_script_logs r) (lc_logs c)
  else lc_escaped c.

Definition lcase_spec_ok (c : lcase) : bool :=
  load_ok (lc_files c) (mkL (lc_loaded c) (lc_logs c) (if lc_escaped c then SkHA else SkNone)).

(* in the load stream the only switch is d_base_escapes, listed there as D188 *)
Definition lcase_attrib (dv : deviations) (c : lcase) : list nat :=
  if lcase_model_ok dv c && load_ok (lc_files c) (load_scripts all_off (lc_files c)) && d_base_escapes dv
  then [188%nat] else [].

Definition lcase_explain (dv : deviations) (c : lcase) :=
  let r := load_scripts dv (lc_files c) in (l_loaded r, l_script_logs r, show_sink (l_sink r), (lc_escaped c, lc_loaded c, lc_logs c)).
