(* Policy/Errors.v — C18, containment core.  Executable model, NO proofs (see Proofs/PolicyErrors.v).

   Every place where pyscript runs user code is a stack of try/except layers around a [user : outcome]; the
   exception classes named by the except clauses are read from the source on every run (Gen/ErrorConsts.v:
   0 = no try/except at the site, 1 = except Exception, 2 = except BaseException).

   legacy subsystem (trigger.py TrigInfo)                    default subsystem (decorator*.py, decorators/*.py)
   trigger function   call_action.do_func_call               FunctionDecoratorManager._call   (no try today: D180)
   trigger expression trigger_watch -> _call_expression      ExpressionDecorator.check_expression_vars -> handle_exception
                      (inline in the serving loop)           (event: in HA's listener task; state: in the _cycle task)
   @state_active      trigger_watch (inline try)             check_expression_vars (in the dispatching task)
   task.create body   user_task_create.func_call             same code
   service call       pyscript_service_handler.do_service_call   ServiceDecorator._service_callback.do_service_call
   done callbacks     Function.run_coro finally-loop         same code
   script load        GlobalContextMgr.load_file, load_scripts   same code
   all tasks are wrapped by Function.run_coro (except Exception -> error on the function.py logger). *)
From PV Require Import Common.Util Gen.ErrorConsts.

Inductive exckind := KExc | KBase.        (* isinstance(e, Exception) / any other BaseException (GeneratorExit, SystemExit,
                                              KeyboardInterrupt, user subclasses of BaseException) *)
Inductive outcome := ORet | ORaise (k : exckind).
Inductive subsystem := Legacy | Dm.
Inductive entry := ETrigFunc | EExprState | EExprEvent | EActive | ETaskCreate | EService.
Inductive logger := LScript | LOther.     (* the script's logger or a child of it / any other pyscript logger *)
Inductive sink :=
  | SkNone                                (* contained *)
  | SkHeld                                (* stored in a finished task nobody awaits and something still references *)
  | SkAsyncio                             (* 'Task exception was never retrieved' in the event loop's exception handler *)
  | SkHA.                                 (* raised into Home Assistant code awaiting the call *)

Record deviations := mkDev {
  d_base_escapes : bool;     (* D181 (cf. D10): the entry points catch Exception only *)
  d_dm_trig_nowrap : bool;   (* D180: default subsystem runs the trigger function without try/except *)
  d_cb_break : bool          (* D22: run_coro leaves the done-callback loop after a callback that raised *)
}.
Definition all_off : deviations := mkDev false false false.
Definition as_is : deviations := mkDev true true true.

(* the except classes of all sites; [gen_classes] is what the source says now, [today_classes] what it said when the
   findings were recorded (used only by the refutation lemmas, so that a repair of the source never breaks a proof) *)
Record classes := mkCl {
  c_do_func_call : N; c_call_expression : N; c_active_expr : N; c_trigger_watch : N; c_task_create : N;
  c_service_legacy : N; c_run_coro : N; c_done_callback : N; c_cb_breaks : bool; c_check_expression : N;
  c_service_dm : N; c_dm_call : N; c_load_file : N; c_load_scripts : N
}.
Definition gen_classes : classes :=
  mkCl cc_do_func_call cc_call_expression cc_active_expr cc_trigger_watch cc_task_create cc_service_legacy cc_run_coro
       cc_done_callback cb_loop_breaks cc_check_expression cc_service_dm cc_dm_call cc_load_file cc_load_scripts.
Definition today_classes : classes := mkCl 1 1 1 1 1 1 1 1 true 1 1 0 1 1.

(* does an except clause of class c (0/1/2, from the source) stop an exception of kind k *)
Definition catches (dv : deviations) (c : N) (k : exckind) : bool :=
  match k with
  | KExc => (1 <=? c)%N
  | KBase => (2 <=? c)%N || ((1 <=? c)%N && negb (d_base_escapes dv))
  end.

Inductive layer :=
  | LCatchLog (c : N)        (* try: user code  except <c> as e: <interpreter>.log_exception(e)          - swallowed *)
  | LCatchLogRaise (c : N)   (* load_file: log_exception(e), then re-raise *)
  | LCatchOther (c : N)      (* except <c>: error on some other logger - swallowed *)
  | LLoop                    (* the body of the trigger's serving loop: an exception passing through ends serving *)
  | LEnd (s : sink)          (* where an exception that got this far ends up *)
  | LEndLog.                 (* the _cycle task's done-callback retrieves the exception and logs it on the function's logger *)

Record ostate := mkO { o_pending : option exckind; o_logs : list logger; o_alive : bool; o_sink : sink }.

Definition layer_step (dv : deviations) (st : ostate) (ly : layer) : ostate :=
  match o_pending st with
  | None => st
  | Some k =>
    match ly with
    | LCatchLog c => if catches dv c k then mkO None (o_logs st ++ [LScript]) (o_alive st) (o_sink st) else st
    | LCatchLogRaise c => if catches dv c k then mkO (Some k) (o_logs st ++ [LScript]) (o_alive st) (o_sink st) else st
    | LCatchOther c => if catches dv c k then mkO None (o_logs st ++ [LOther]) (o_alive st) (o_sink st) else st
    | LLoop => mkO (Some k) (o_logs st) false (o_sink st)
    | LEnd s => mkO None (o_logs st) (o_alive st) s
    | LEndLog => mkO None (o_logs st ++ [LScript]) (o_alive st) (o_sink st)
    end
  end.

(* the class of the default subsystem's trigger-function wrapper: what the source has, or (conformant) at least Exception *)
Definition dm_call_class (cl : classes) (dv : deviations) : N := if d_dm_trig_nowrap dv then c_dm_call cl else N.max 1 (c_dm_call cl).

(* layers from the user code outwards *)
Definition site_c (cl : classes) (dv : deviations) (sub : subsystem) (e : entry) : list layer :=
  match sub, e with
  | Legacy, ETrigFunc => [LCatchLog (c_do_func_call cl); LCatchOther (c_run_coro cl); LEnd SkAsyncio]
  | Legacy, EExprState => [LCatchLog (c_call_expression cl); LLoop; LCatchOther (c_trigger_watch cl); LCatchOther (c_run_coro cl); LEnd SkHeld]
  | Legacy, EExprEvent => [LCatchLog (c_call_expression cl); LLoop; LCatchOther (c_trigger_watch cl); LCatchOther (c_run_coro cl); LEnd SkHeld]
  | Legacy, EActive => [LCatchLog (c_active_expr cl); LLoop; LCatchOther (c_trigger_watch cl); LCatchOther (c_run_coro cl); LEnd SkHeld]
  | Legacy, ETaskCreate => [LCatchLog (c_task_create cl); LCatchOther (c_run_coro cl); LEnd SkAsyncio]
  | Legacy, EService => [LCatchLog (c_service_legacy cl); LCatchOther (c_run_coro cl); LEnd SkHA]
  | Dm, ETrigFunc => [LCatchLog (dm_call_class cl dv); LCatchOther (c_run_coro cl); LEnd SkAsyncio]
  | Dm, EExprState => [LCatchLog (c_check_expression cl); LLoop; LEndLog]
  | Dm, EExprEvent => [LCatchLog (c_check_expression cl); LEnd SkAsyncio]
  | Dm, EActive => [LCatchLog (c_check_expression cl); LEnd SkAsyncio]
  | Dm, ETaskCreate => [LCatchLog (c_task_create cl); LCatchOther (c_run_coro cl); LEnd SkAsyncio]
  | Dm, EService => [LCatchLog (c_service_dm cl); LCatchOther (c_run_coro cl); LEnd SkHA]
  end.

Definition start_of (o : outcome) : ostate :=
  mkO (match o with ORet => None | ORaise k => Some k end) [] true SkNone.

Definition run_site_c (cl : classes) (dv : deviations) (sub : subsystem) (e : entry) (o : outcome) : ostate :=
  fold_left (layer_step dv) (site_c cl dv sub e) (start_of o).
Definition site := site_c gen_classes.
Definition run_site := run_site_c gen_classes.

(* ---------- done-callbacks: Function.run_coro's finally loop ---------- *)
Record cbres := mkCb { cb_ran : list bool; cb_logs : list logger; cb_sink : sink }.

Fixpoint run_callbacks_c (cl : classes) (dv : deviations) (outs : list outcome) : cbres :=
  match outs with
  | [] => mkCb [] [] SkNone
  | o :: rest =>
      let skip := mkCb (map (fun _ => false) rest) [] SkNone in
      match o with
      | ORet => let r := run_callbacks_c cl dv rest in mkCb (true :: cb_ran r) (cb_logs r) (cb_sink r)
      | ORaise k =>
          if catches dv (c_done_callback cl) k then
            let r := if c_cb_breaks cl && d_cb_break dv then skip else run_callbacks_c cl dv rest in
            mkCb (true :: cb_ran r) (LScript :: cb_logs r) (cb_sink r)
          else mkCb (true :: cb_ran skip) [] SkHeld
      end
  end.

Definition run_callbacks := run_callbacks_c gen_classes.

(* ---------- a history of occurrences against the triggers of one script ---------- *)
Inductive occ :=
  | OUser (e : entry) (o : outcome)
  | OCallbacks (outs : list outcome)
  | OReload                              (* the script file is edited and reloaded (or removed, unloaded, restored, reloaded): every
                                            trigger is created afresh *)
  | OLate (e : entry) (o : outcome).     (* the user code of an occurrence at e suspends (task.wait_until); while it is suspended the
                                            file is reloaded as in OReload; then the old code resumes and ends with o *)

(* what one occurrence looked like from outside *)
Record oobs := mkObs {
  ob_served : bool;            (* the user code ran *)
  ob_script_logs : N;          (* error records on the script's logger *)
  ob_other_logs : N;           (* error records on other pyscript loggers *)
  ob_sink : sink;
  ob_cb_ran : list bool        (* callbacks only *)
}.

Definition entry_eqb (a b : entry) : bool :=
  match a, b with
  | ETrigFunc, ETrigFunc | EExprState, EExprState | EExprEvent, EExprEvent | EActive, EActive
  | ETaskCreate, ETaskCreate | EService, EService => true
  | _, _ => false
  end.

Definition alive_map := entry -> bool.
Definition all_alive : alive_map := fun _ => true.
Definition set_alive (m : alive_map) (e : entry) (b : bool) : alive_map := fun e' => if entry_eqb e e' then b else m e'.

Definition count_logger (l : logger) (ls : list logger) : N :=
  N.of_nat (length (filter (fun x => match x, l with LScript, LScript | LOther, LOther => true | _, _ => false end) ls)).

Definition occ_step_c (cl : classes) (dv : deviations) (sub : subsystem) (m : alive_map) (oc : occ) : alive_map * oobs :=
  match oc with
  | OUser e o =>
      if m e then
        let r := run_site_c cl dv sub e o in
        (set_alive m e (o_alive r), mkObs true (count_logger LScript (o_logs r)) (count_logger LOther (o_logs r)) (o_sink r) [])
      else (m, mkObs false 0 0 SkNone [])
  | OCallbacks outs =>
      let r := run_callbacks_c cl dv outs in
      (m, mkObs true (count_logger LScript (cb_logs r)) 0 (cb_sink r) (cb_ran r))
  | OReload => (all_alive, mkObs true 0 0 SkNone [])
  | OLate e o =>
      if m e then
        (* the run that was under way keeps its own interpreter and its own try/except layers; the reload in between
           replaces the triggers, so whatever the old run does to "its" serving loop no longer matters *)
        let r := run_site_c cl dv sub e o in
        (all_alive, mkObs true (count_logger LScript (o_logs r)) (count_logger LOther (o_logs r)) (o_sink r) [])
      else (all_alive, mkObs false 0 0 SkNone [])
  end.

Fixpoint run_history_c (cl : classes) (dv : deviations) (sub : subsystem) (m : alive_map) (h : list occ) : alive_map * list oobs :=
  match h with
  | [] => (m, [])
  | oc :: r =>
      let '(m1, ob) := occ_step_c cl dv sub m oc in
      let '(m2, obs) := run_history_c cl dv sub m1 r in
      (m2, ob :: obs)
  end.

Definition occ_step := occ_step_c gen_classes.
Definition run_history := run_history_c gen_classes.

(* ---------- Spec: what the property demands of one occurrence ---------- *)
Definition raises (o : outcome) : bool := match o with ORet => false | ORaise _ => true end.
Definition sink_none (s : sink) : bool := match s with SkNone => true | _ => false end.

Definition occ_ok (oc : occ) (ob : oobs) : bool :=
  match oc with
  | OUser _ o =>
      ob_served ob && N.eqb (ob_script_logs ob) (if raises o then 1 else 0) && sink_none (ob_sink ob)
  | OCallbacks outs =>
      ob_served ob && N.eqb (ob_script_logs ob) (N.of_nat (length (filter raises outs))) && sink_none (ob_sink ob)
      && list_eqb Bool.eqb (ob_cb_ran ob) (map (fun _ => true) outs)
  | OReload => N.eqb (ob_script_logs ob) 0 && sink_none (ob_sink ob)
  | OLate _ o =>
      ob_served ob && N.eqb (ob_script_logs ob) (if raises o then 1 else 0) && sink_none (ob_sink ob)
  end.

Fixpoint history_ok (h : list occ) (obs : list oobs) : bool :=
  match h, obs with
  | [], [] => true
  | oc :: r, ob :: obs' => occ_ok oc ob && history_ok r obs'
  | _, _ => false
  end.

(* ---------- script load: __init__.py load_scripts over GlobalContextMgr.load_file ---------- *)
Record lres := mkL { l_loaded : list bool; l_script_logs : list N; l_sink : sink }.

Fixpoint load_scripts_c (cl : classes) (dv : deviations) (files : list outcome) : lres :=
  match files with
  | [] => mkL [] [] SkNone
  | o :: rest =>
      let r := fold_left (layer_step dv) [LCatchLogRaise (c_load_file cl); LCatchOther (c_load_scripts cl); LEnd SkHA] (start_of o) in
      let n := count_logger LScript (o_logs r) in
      if sink_none (o_sink r) then
        let t := load_scripts_c cl dv rest in
        mkL (negb (raises o) :: l_loaded t) (n :: l_script_logs t) (l_sink t)
      else mkL (false :: map (fun _ => false) rest) (n :: map (fun _ => 0%N) rest) (o_sink r)
  end.

Definition load_scripts := load_scripts_c gen_classes.

Definition load_ok (files : list outcome) (r : lres) : bool :=
  sink_none (l_sink r)
  && list_eqb Bool.eqb (l_loaded r) (map (fun o => negb (raises o)) files)
  && list_eqb N.eqb (l_script_logs r) (map (fun o => if raises o then 1%N else 0%N) files).
