(* Policy/ImportsCheck.v — what the generated correspondence files evaluate for C17.
   [icase]: one import statement run by the real AstEval.   [ncase]: one plain-name lookup.   [lcase]: one
   print/log call.  [*_model_ok]: the Model reproduces the implementation (tie T2);
   [*_spec_ok]: what the implementation did satisfies the property text (independent of the Model's functions
   [run_stmt]/[name_lookup]; the Spec only uses the regenerated literal sets and string helpers). *)
From Coq Require Import String Ascii.
From PV Require Import Common.Util Gen.ImportConsts Policy.Imports.
Local Open Scope string_scope.
Local Open Scope list_scope.

(* ---------- equality on observations ---------- *)
Definition origin_eqb (a b : origin) : bool :=
  match a, b with
  | OPs f, OPs g => String.eqb f g
  | OSys m, OSys n => String.eqb m n
  | OOther, OOther => true
  | _, _ => false
  end.
Definition status_eqb (a b : status) : bool :=
  match a, b with
  | SOk, SOk | SIgnored, SIgnored | SDenied, SDenied | SRelNotFound, SRelNotFound | SStubAs, SStubAs
  | SSysMissing, SSysMissing | SImportErr, SImportErr | SAttrErr, SAttrErr | SSyntax, SSyntax | SUnknown, SUnknown => true
  | _, _ => false
  end.
Definition binding_eqb (a b : string * origin) : bool := String.eqb (fst a) (fst b) && origin_eqb (snd a) (snd b).
Definition bmem (x : string * origin) (l : list (string * origin)) : bool := existsb (binding_eqb x) l.
Definition same_bindings (a b : list (string * origin)) : bool :=
  forallb (fun x => bmem x b) a && forallb (fun x => bmem x a) b.

(* ---------- one import statement ---------- *)
Record icase := {
  ic_allow_all : bool;
  ic_ctx : string;                       (* global context that executes the statement *)
  ic_rel : option string;                (* its rel_import_path, as assigned by the real loader *)
  ic_files : list pyfile;                (* files written under <config>/pyscript before start *)
  ic_pre : list string;                  (* modules imported beforehand by another (file) context *)
  ic_rm : list string;                   (* files removed after those imports *)
  ic_sys : list (string * sysinfo);      (* environment facts about installed modules *)
  ic_via : via;
  ic_stmt : stmt;
  (* observed on the real AstEval *)
  ic_status : status;                    (* classified exception (type + message family) *)
  ic_exc : string;                       (* exception type name, "" if none *)
  ic_bound : list (string * origin);     (* names new or changed in the target table, with where the value came from *)
  ic_stray : list string                 (* names changed in any other table *)
}.

Definition world0 (c : icase) : world :=
  {| w_allow_all := ic_allow_all c; w_ctx := "file.pvpre"; w_rel := None; w_defs := ic_files c;
     w_present := map pf_path (ic_files c); w_loaded := []; w_sys := ic_sys c |}.

(* the preparatory imports, run through the same model; they only matter through [w_loaded] *)
Fixpoint run_pre (w : world) (pre : list string) : world :=
  match pre with
  | [] => w
  | m :: r => run_pre (snd (resolve w m 0)) r
  end.

Definition world_of (c : icase) : world :=
  let w := run_pre (world0 c) (ic_pre c) in
  {| w_allow_all := ic_allow_all c; w_ctx := ic_ctx c; w_rel := ic_rel c; w_defs := ic_files c;
     w_present := filter (fun f => negb (str_mem f (ic_rm c))) (map pf_path (ic_files c));
     w_loaded := w_loaded w; w_sys := ic_sys c |}.

Definition icase_model (c : icase) : result := run_via (ic_via c) (world_of c) (ic_stmt c).

Definition icase_model_ok (c : icase) : bool :=
  let r := icase_model c in
  status_eqb (r_status r) (ic_status c)
  && match status_exc (r_status r) with Some e => String.eqb e (ic_exc c) | None => true end
  && same_bindings (final_bindings (r_bound r)) (ic_bound c)
  && match ic_stray c with [] => true | _ => false end.

Definition icase_explain (c : icase) := (r_status (icase_model c), final_bindings (r_bound (icase_model c))).

(* ---------- the Spec of one statement (property text; no use of run_stmt / ps_lookup / decide) ---------- *)
(* "a pyscript module/app package": a file modules/<p>.py, modules/<p>/__init__.py, apps/<p>.py or
   apps/<p>/__init__.py (the importing context decides which of them it may see) *)
Definition shadow_paths (m : string) : list string :=
  let mp := dot_to_slash m in
  [cat ["modules/"; mp; ".py"]; cat ["modules/"; mp; "/__init__.py"]; cat ["apps/"; mp; ".py"]; cat ["apps/"; mp; "/__init__.py"]].
Definition module_paths (m : string) : list string :=
  let mp := dot_to_slash m in [cat ["modules/"; mp; ".py"]; cat ["modules/"; mp; "/__init__.py"]].
Definition ever_files (c : icase) : list string := map pf_path (ic_files c).
Definition now_files (c : icase) : list string := filter (fun f => negb (str_mem f (ic_rm c))) (ever_files c).
(* certainly not a pyscript module: no such file was ever there *)
Definition never_ps (c : icase) (m : string) : bool := negb (existsb (fun f => str_mem f (ever_files c)) (shadow_paths m)).
(* certainly a pyscript module for every context: a file below modules/ exists now *)
Definition surely_ps (c : icase) (m : string) : bool := existsb (fun f => str_mem f (now_files c)) (module_paths m).
Definition sys_ok (c : icase) (m : string) : bool :=
  match assoc m (ic_sys c) with Some si => si_importable si | None => false end.
Definition no_files (c : icase) : bool := match ic_files c with [] => true | _ => false end.

Definition is_import_error (e : string) : bool := String.eqb e "ModuleNotFoundError" || String.eqb e "ImportError".
Definition bound_names (c : icase) : list string := map fst (ic_bound c).
Definition from_ps_only (c : icase) (m : string) : bool :=
  forallb (fun b => match snd b with OPs f => str_mem f (shadow_paths m) | _ => false end) (ic_bound c).

(* names an alias list binds when every module is importable *)
Definition expected_import (l : list alias) : list (string * origin) :=
  final_bindings (map (fun a => (bind_name a, OSys (al_name a))) l).
Definition expected_from (m : string) (si : sysinfo) (l : list alias) : list (string * origin) :=
  final_bindings (concat (map (fun a => if String.eqb (al_name a) "*" then map (fun n => (n, OSys m)) (si_public si)
                                        else [(bind_name a, OSys m)]) l)).

(* S1 (safety, every form): nothing that comes from an installed module outside the allow-list is ever bound,
   and nothing of unknown provenance *)
Definition spec_safety (c : icase) : bool :=
  forallb (fun b => match snd b with
                    | OSys m => ic_allow_all c || str_mem m allowed_imports
                    | OPs _ => true
                    | OOther => false
                    end) (ic_bound c)
  && match ic_stray c with [] => true | _ => false end.

(* S2: an import statement with a denied module fails with ModuleNotFoundError; that alias and the ones after
   it bind nothing *)
Fixpoint spec_import_denied (c : icase) (l : list alias) (before : list string) : bool :=
  match l with
  | [] => true
  | a :: r =>
      if negb (str_mem (al_name a) allowed_imports) && never_ps c (al_name a)
      then String.eqb (ic_exc c) "ModuleNotFoundError" && forallb (fun n => str_mem n before) (bound_names c)
      else if str_mem (al_name a) allowed_imports && never_ps c (al_name a) && sys_ok c (al_name a)
           then spec_import_denied c r (bind_name a :: before)
           else true          (* a pyscript module or an uninstalled one is involved: S1/S4 only *)
  end.

Definition all_importable (c : icase) (l : list alias) : bool :=
  forallb (fun a => never_ps c (al_name a) && sys_ok c (al_name a) && (ic_allow_all c || str_mem (al_name a) allowed_imports)) l.

Definition from_names_ok (si : sysinfo) (l : list alias) : bool :=
  forallb (fun a => String.eqb (al_name a) "*" || str_mem (al_name a) (si_has si)) l.

Definition spec_stmt (c : icase) : bool :=
  match ic_stmt c with
  | SImport l =>
      (if ic_allow_all c then true else spec_import_denied c l [])
      && (* S3/S6: allow-listed modules (or, with the option, installed ones) import normally *)
         (if all_importable c l
          then String.eqb (ic_exc c) "" && same_bindings (ic_bound c) (expected_import l)
          else true)
      && (* S4: a pyscript module of that name is what gets imported, whatever the lists say *)
         match l with
         | [a] => if surely_ps c (al_name a)
                  then String.eqb (ic_exc c) "" && String.eqb (String.concat "," (bound_names c)) (bind_name a)
                       && from_ps_only c (al_name a)
                  else true
         | _ => true
         end
  | SFrom (Some m) level l =>
      if is_stubs m then
        (* S5: from-imports below stubs are ignored *)
        if existsb has_as l then true
        else String.eqb (ic_exc c) "" && match ic_bound c with [] => true | _ => false end
      else if N.eqb level 0 then
        (if negb (ic_allow_all c) && negb (str_mem m allowed_imports) && never_ps c m
         then String.eqb (ic_exc c) "ModuleNotFoundError" && match ic_bound c with [] => true | _ => false end
         else true)
        && (if (ic_allow_all c || str_mem m allowed_imports) && never_ps c m && sys_ok c m
            then match assoc m (ic_sys c) with
                 | Some si => if from_names_ok si l
                              then String.eqb (ic_exc c) "" && same_bindings (ic_bound c) (expected_from m si l)
                              else true
                 | None => true
                 end
            else true)
        && (if surely_ps c m then from_ps_only c m else true)
      else
        (* relative: never reaches an installed module outside the allow-list (S1); with no pyscript file at all
           it must fail as an import error and bind nothing *)
        if no_files c && negb (str_mem m allowed_imports) && negb (ic_allow_all c)
        then is_import_error (ic_exc c) && match ic_bound c with [] => true | _ => false end
        else true
  | SFrom None level l =>
      (* from . import x only ever yields pyscript modules *)
      forallb (fun b => match snd b with OPs _ => true | _ => false end) (ic_bound c)
      && (if no_files c then is_import_error (ic_exc c) && match ic_bound c with [] => true | _ => false end else true)
  end.

Definition icase_spec_ok (c : icase) : bool :=
  spec_safety c
  && match ic_via c with
     | VEvalRaw => match ic_bound c with [] => true | _ => false end     (* eval() of a statement imports nothing *)
     | _ => spec_stmt c
     end.

(* ---------- one plain-name lookup ---------- *)
Inductive nscope := NModule | NFunc | NEval | NExec | NFuncEval | NComp | NClass
  (* inside the string expression of @state_trigger / @event_trigger / @state_active / task.wait_until(state_trigger=) *)
  | NTrigState | NTrigEvent | NTrigActive | NTrigWait
  (* the enclosing function declares the name global: never assigned / assigned / assigned then deleted; read in an inner function *)
  | NGDecl | NGAssign | NGDel | NGDeclNested
  (* inner function declares it nonlocal: outer assigns / assigns then deletes / never binds; plain closure read; deleted local *)
  | NNlAssign | NNlDel | NNlNever | NClosure | NClosureDel | NLocalDel
  (* nested function, method, comprehension / class body inside a function, dict comprehension at module level *)
  | NNested | NMethod | NFuncComp | NFuncClass | NDictComp
  (* natively compiled bodies: lambda (module level / inside a function), @pyscript_compile function *)
  | NLambda | NLambdaFunc | NCompiled
  (* interpreted code (module level / function) after a lambda was defined in the same global context *)
  | NAfterLambda | NAfterLambdaFunc
  (* source text run with EXPLICIT namespaces: exec(src, {}) / exec(src, {name: v}) / eval(src, {}) / exec(src, {}, {}) /
     exec(src, {name: v}, {}) at module level, eval(src, {}) / exec(src, {}) inside a function.  The script's own globals are not
     visible there; the evaluator's local table (print and the log functions) still is (ast_eval_exec_factory l.104) *)
  | NExecG | NExecGS | NEvalG | NExecGL | NExecGLS | NFuncEvalG | NFuncExecG.
Definition scope_explicit_ns (s : nscope) : bool :=
  match s with NExecG | NExecGS | NEvalG | NExecGL | NExecGLS | NFuncEvalG | NFuncExecG => true | _ => false end.
Definition scope_is_trig (s : nscope) : bool :=
  match s with NTrigState | NTrigEvent | NTrigActive | NTrigWait => true | _ => false end.
Definition scope_is_native (s : nscope) : bool :=
  match s with NLambda | NLambdaFunc | NCompiled => true | _ => false end.
(* the script itself declares/binds/deletes the looked-up name in that scope *)
Definition scope_script_binds (s : nscope) : bool :=
  match s with
  | NGDecl | NGAssign | NGDel | NNlAssign | NNlDel | NNlNever | NClosure | NClosureDel | NLocalDel | NExecGS | NExecGLS => true
  | _ => false
  end.
Record ncase := {
  nc_name : string;
  nc_scope : nscope;
  nc_shadow : bool;          (* the script's global table binds the name *)
  nc_pybuiltin : bool;       (* environment fact: hasattr(builtins, name) *)
  nc_kind : nkind;           (* observed *)
  nc_logger_ok : bool        (* observed, for KLogger: the logger is the script's (custom_components.pyscript.<ctx>) *)
}.
Definition nkind_eqb (a b : nkind) : bool :=
  match a, b with
  | KUser, KUser | KAstFunc, KAstFunc | KFactory, KFactory | KBuiltin, KBuiltin | KBuiltinsNs, KBuiltinsNs
  | KUndefined, KUndefined | KOther, KOther => true
  | KLogger x, KLogger y => String.eqb x y
  | _, _ => false
  end.
(* in which table the lookup starts: module-like scopes start in the global table itself *)
Definition scope_is_modlike (s : nscope) : bool :=
  match s with
  | NModule | NEval | NExec | NComp | NDictComp | NTrigState | NTrigEvent | NTrigActive | NTrigWait | NAfterLambda => true
  | _ => false
  end.
Definition nenv_of (c : ncase) : nenv :=
  let s := nc_scope c in
  let sh := nc_shadow c in
  {| ne_sym := match s with NNlAssign | NClosure | NExecGS => true | _ => sh && scope_is_modlike s && negb (scope_explicit_ns s) end;
     ne_global := match s with
                  | NGAssign | NExecGLS => true
                  | NGDel => false
                  | _ => sh && negb (scope_is_modlike s) && negb (scope_explicit_ns s)
                  end;
     ne_local := negb (scope_is_trig s);
     ne_pybuiltin := nc_pybuiltin c;
     ne_gdecl := match s with NGDecl | NGAssign | NGDel => true | _ => false end;
     ne_unbound := match s with NNlDel | NClosureDel => true | _ => false end;
     ne_localname := match s with NLocalDel => true | _ => false end;
     ne_native := scope_is_native s;
     ne_leaked := match s with NAfterLambda | NAfterLambdaFunc => true | _ => false end |}.
(* an unresolvable `nonlocal x` is only rejected (SyntaxError) when nothing else defines x *)
Definition ncase_model (cfg : deviations) (c : ncase) : nkind :=
  let k := name_lookup cfg (nenv_of c) (nc_name c) in
  match nc_scope c with
  | NNlNever => if nkind_eqb k KUndefined then KOther else k
  | _ => k
  end.
Definition ncase_model_ok (cfg : deviations) (c : ncase) : bool :=
  nkind_eqb (ncase_model cfg c) (nc_kind c)
  && match nc_kind c with KLogger _ => nc_logger_ok c | _ => true end.
Definition ncase_explain (cfg : deviations) (c : ncase) := ncase_model cfg c.

(* the six names of the property statement (literally, not from Gen) *)
Definition six_names : list string := ["open"; "compile"; "input"; "breakpoint"; "memoryview"; "print"].
Definition log_names : list (string * string) :=
  [("log.debug", "debug"); ("log.info", "info"); ("log.warning", "warning"); ("log.error", "error")].
Definition ncase_spec_ok (c : ncase) : bool :=
  (* never the real builtin for the six names and for underscore names *)
  (if str_mem (nc_name c) six_names || starts_underscore (nc_name c)
   then negb (nkind_eqb (nc_kind c) KBuiltin) && negb (nkind_eqb (nc_kind c) KBuiltinsNs) else true)
  && (* print and log.* resolve to the script's logger unless the script rebinds them *)
  (if nc_shadow c || scope_is_trig (nc_scope c) || scope_script_binds (nc_scope c)
   then true   (* trigger expressions only see the trigger variables; or the script declares/binds the name itself *)
   else if String.eqb (nc_name c) "print"
        then match nc_kind c with KLogger _ => nc_logger_ok c | _ => false end
        else match assoc (nc_name c) log_names with
             | Some lvl => nkind_eqb (nc_kind c) (KLogger lvl) && nc_logger_ok c
             | None => true
             end).

(* which open findings explain a Spec failure: the Model with the switch on differs from the Model with it off, and the
   latter's answer satisfies the Spec (the framework separately requires that the Model reproduces the observation) *)
Definition ncase_with (c : ncase) (k : nkind) : ncase :=
  {| nc_name := nc_name c; nc_scope := nc_scope c; nc_shadow := nc_shadow c; nc_pybuiltin := nc_pybuiltin c;
     nc_kind := k; nc_logger_ok := true |}.
Definition explains (cfg off : deviations) (c : ncase) : bool :=
  negb (nkind_eqb (ncase_model cfg c) (ncase_model off c)) && ncase_spec_ok (ncase_with c (ncase_model off c)).
Definition ncase_attrib (cfg : deviations) (c : ncase) : list nat :=
  (if d_native_builtins cfg && explains cfg {| d_native_builtins := false; d_builtins_leak := d_builtins_leak cfg |} c
   then [170%nat] else [])
  ++ (if d_builtins_leak cfg && explains cfg {| d_native_builtins := d_native_builtins cfg; d_builtins_leak := false |} c
      then [171%nat] else []).

(* ---------- one print / log call ---------- *)
Record lcase := {
  lc_func : string;                          (* "print", "log.info", ... *)
  lc_records : list (bool * string * bool);  (* observed log records: (on the script's logger, level, message intact) *)
  lc_stdout : bool                           (* observed: something was written to the real stdout *)
}.
Definition lcase_model_ok (c : lcase) : bool :=
  match assoc (lc_func c) logger_funcs with
  | Some lvl => match lc_records c with
                | [(true, l, true)] => String.eqb l lvl && negb (lc_stdout c)
                | _ => false
                end
  | None => false
  end.
Definition lcase_spec_ok (c : lcase) : bool :=
  negb (lc_stdout c)
  && match lc_records c with
     | [(true, l, true)] => match assoc (lc_func c) log_names with Some lvl => String.eqb l lvl | None => true end
     | _ => false
     end.
