(* Life/Modules.v — file trees, loaded global contexts and the lazy import machinery:
   global_ctx.py GlobalContext.module_import (candidate list, lookup-before-load, import-edge recording) and
   GlobalContextMgr.load_file, as far as C10 observes them.  Executing a loaded file = firing its load event and
   performing its import statements in order.  No proofs here (see Proofs/LifeReload.v). *)
From PV Require Import Common.Util Life.ReloadBase Gen.ReloadConsts.

(* ---------- deviations of the unchanged code (on = current behaviour; all off = conformant) ---------- *)
Record deviations := {
  d_deleted_no_propagate : bool;  (* D100: a deleted/'#'-renamed file is only unloaded; its package and importers stay *)
  d_sibling_rel_name : bool;      (* D101: `from . import x` in a package sibling names the context <pkg>.<sibling>.x *)
  d_null_cfg : bool;              (* D102: an app configured with a null value is not seen as (un)configured *)
  d_named_start : bool            (* D103: reload(name) starts only name and name.*, not the other re-executed contexts *)
}.
Definition all_off : deviations :=
  {| d_deleted_no_propagate := false; d_sibling_rel_name := false; d_null_cfg := false; d_named_start := false |}.

(* ---------- files ---------- *)
Inductive imp :=
  | ImpAbs (m : list N)      (* import a.b                *)
  | ImpRel (m : list N).     (* from . import a   /  from .a import x   (level 1) *)

Record file := { f_gen : N; f_mtime : N; f_imps : list imp }.
Definition tree := list (path * file).      (* in the order of sorted(glob.glob(...)) *)

Fixpoint tree_get (t : tree) (p : path) : option file :=
  match t with
  | [] => None
  | (q, f) :: r => if nl_eqb q p then Some f else tree_get r p
  end.

(* ---------- loaded contexts ---------- *)
Record gctx := {
  c_name : cname;
  c_gen : N;                  (* source generation it runs *)
  c_mtime : N;
  c_cfg : option N;           (* app configuration it was created with (None: not an app / not configured) *)
  c_imports : list cname;     (* GlobalContext.imports *)
  c_ismod : bool;             (* GlobalContext.module is set (created by module_import) *)
  c_rel : option path;        (* rel_import_path *)
  c_born : N;                 (* index of the reload that executed it: identity of the context object *)
  c_started : bool;           (* auto_start: its triggers are armed *)
  c_cnt : N                   (* the per-context counter variable *)
}.
Definition state := list gctx.  (* GlobalContextMgr.contexts *)

Definition st_get (st : state) (n : cname) : option gctx := find (fun c => nl_eqb (c_name c) n) st.
Definition st_del (st : state) (n : cname) : state := filter (fun c => negb (nl_eqb (c_name c) n)) st.
Definition st_set (st : state) (c : gctx) : state := st_del st (c_name c) ++ [c].
Definition st_names (st : state) : list cname := map c_name st.

Definition event := (cname * N)%type.     (* a file's preamble ran: (context name, source generation) *)

(* ---------- module_import: candidate list ---------- *)
Record cand := { cd_name : cname; cd_path : path; cd_rel : option path }.

Definition rel_under_apps (r : option path) : bool :=
  match r with Some (x :: _) => (x =? s_apps)%N | _ => false end.

Definition abs_cands (self_rel : option path) (m : list N) : list cand :=
  flat_map (fun row =>
    if mr_gated row && negb (rel_under_apps self_rel) then []
    else [ {| cd_name := mr_root row :: m;
              cd_path := if mr_pkg row then mr_root row :: m ++ [s_init] else mr_root row :: m;
              cd_rel := if mr_rel row then Some (mr_root row :: m) else None |} ]) mi_abs.

(* None = ImportError("attempted relative import with no known parent package") *)
Definition candidates (dv : deviations) (self_name : cname) (self_rel : option path) (i : imp) : option (list cand) :=
  match i with
  | ImpAbs m => Some (abs_cands self_rel m)
  | ImpRel m =>
    match self_rel with
    | None => None
    | Some rp =>
      let p := if ends_slash_init rp then removelast rp else rp in
      let base := if d_sibling_rel_name dv then self_name else p in
      let cn := base ++ m in
      Some [ {| cd_name := cn; cd_path := p ++ m ++ [s_init]; cd_rel := Some (p ++ m) |};
             {| cd_name := cn; cd_path := p ++ m; cd_rel := Some p |} ]
    end
  end.

(* "now see if we have loaded it already" *)
Fixpoint find_loaded (st : state) (cs : list cand) : option cname :=
  match cs with
  | [] => None
  | c :: r =>
    match st_get st (cd_name c) with
    | Some x => if c_ismod x then Some (c_name x) else find_loaded st r
    | None => find_loaded st r
    end
  end.

(* find_first_file *)
Fixpoint find_file (t : tree) (cs : list cand) : option (cand * file) :=
  match cs with
  | [] => None
  | c :: r => match tree_get t (cd_path c) with Some f => Some (c, f) | None => find_file t r end
  end.

(* ---------- executing a file ---------- *)
Inductive xres :=
  | XOk (st : state) (ev : list event) (imports : list cname)
  | XFail (st : state) (ev : list event)       (* an import raised: the file is not registered *)
  | XFuel.                                     (* model out of fuel (import cycle); excluded by the theorems *)

(* the import statements of one file, in order; [load] loads a module file at the lower fuel *)
Fixpoint imports_loop (load : cand -> file -> state -> list event -> xres)
         (dv : deviations) (t : tree) (self_name : cname) (self_rel : option path)
         (imps : list imp) (st : state) (ev : list event) (acc : list cname) : xres :=
  match imps with
  | [] => XOk st ev acc
  | i :: rest =>
    match candidates dv self_name self_rel i with
    | None => XFail st ev
    | Some cs =>
      match find_loaded st cs with
      | Some n => imports_loop load dv t self_name self_rel rest st ev (nl_add n acc)
      | None =>
        match find_file t cs with
        | None => XFail st ev                     (* module_import -> None -> ModuleNotFoundError *)
        | Some (c, f) =>
          match load c f st ev with
          | XOk st2 ev2 _ => imports_loop load dv t self_name self_rel rest st2 ev2 (nl_add (cd_name c) acc)
          | XFail st2 ev2 => XFail st2 ev2
          | XFuel => XFuel
          end
        end
      end
    end
  end.

(* module_import's "not loaded already" half + GlobalContextMgr.load_file for a module file *)
Fixpoint load_module (fuel : nat) (dv : deviations) (t : tree) (born : N) (started : bool)
         (c : cand) (f : file) (st : state) (ev : list event) : xres :=
  match fuel with
  | O => XFuel
  | S fuel' =>
    let st1 := st_del st (cd_name c) in            (* load_file: an existing context of that name is destroyed *)
    match imports_loop (load_module fuel' dv t born started) dv t (cd_name c) (cd_rel c) (f_imps f) st1
                       (ev ++ [(cd_name c, f_gen f)]) [] with
    | XOk st2 ev2 imps =>
      XOk (st_set st2 {| c_name := cd_name c; c_gen := f_gen f; c_mtime := f_mtime f; c_cfg := None;
                         c_imports := imps; c_ismod := true; c_rel := cd_rel c; c_born := born;
                         c_started := started; c_cnt := 0 |}) ev2 imps
    | r => r
    end
  end.

(* the body of an auto-loaded file (load_scripts' final loop calls this through load_file) *)
Definition exec_body (fuel : nat) (dv : deviations) (t : tree) (born : N) (started : bool)
           (self_name : cname) (self_rel : option path) (imps : list imp) (st : state) (ev : list event) : xres :=
  imports_loop (load_module fuel dv t born started) dv t self_name self_rel imps st ev [].

Definition exec_fuel (t : tree) : nat := S (length t).
