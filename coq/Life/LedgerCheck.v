(* Life/LedgerCheck.v — what the generated correspondence files evaluate for C09.
   A case is a list of steps; a step is the model operations a harness action compiles to, together with what the
   real pyscript showed at the following quiescent point (ledger snapshot + runs of the generated functions).
   [lcase_model_ok cfg]: the Model (with the measured deviation switches) reproduces every snapshot and every run.
   [lcase_spec_ok]     : what the real code did is what the property demands (= the conformant Model, plus the
                         direct clauses: nothing runs that is not referenced, startup/shutdown at most once per
                         trigger, empty ledger after unload). *)
From Coq Require Import List NArith Bool.
From PV Require Import Common.Util Life.Ledger.
Import ListNotations.
Local Open Scope N_scope.

Record lobs := {
  o_state : list (N * (N * N));   (* entity -> (queues with a live consumer, queues without) ; zero rows omitted *)
  o_event : list (N * N);         (* Event.notify: event type -> number of queues *)
  o_bus : list (N * N);           (* hass.bus: script event type -> number of listeners *)
  o_tasks : N;                    (* live trigger tasks (trigger_watch / _cycle) *)
  o_svc : list (N * N);           (* Function.service_cnt: service name -> count ; zero rows omitted *)
  o_reg : list N;                 (* service names registered in hass.services *)
  o_runs : list (N * N);          (* (generation, kind code) of every run since the previous snapshot *)
  o_extra_ok : bool               (* non-modelled residue is clean (integration listeners/tasks after unload, task tables) *)
}.
Record lstep := {
  st_ops : list op;
  st_alive : list N;              (* generations referenced by the script at some moment of this step (reference model of the harness) *)
  st_final : bool;                (* this step unloaded everything *)
  st_obs : lobs
}.
Record lcase := { lc_ents : list N; lc_evs : list N; lc_svcs : list N; lc_steps : list lstep }.

Definition count_p {A} (f : A -> bool) (l : list A) : N := N.of_nat (length (filter f l)).

(* canonical projection of the model ledger, same shape as [lobs] *)
Definition proj_state (ents : list N) (L : ledger) : list (N * (N * N)) :=
  filter (fun r => negb (N.eqb (fst (snd r)) 0 && N.eqb (snd (snd r)) 0))
    (map (fun e => (e, (count_p (fun p => N.eqb (fst p) e && memn (snd p) (l_tasks L)) (l_state L),
                        count_p (fun p => N.eqb (fst p) e && negb (memn (snd p) (l_tasks L))) (l_state L)))) ents).
Definition proj_count (keys : list N) (l : list (N * N)) : list (N * N) :=
  filter (fun r => negb (N.eqb (snd r) 0)) (map (fun k => (k, count_p (fun p => N.eqb (fst p) k) l)) keys).
Definition proj_runs (rs : list run) : list (N * N) := map (fun r => (r_gen r, rkind_code (r_kind r))) rs.

Definition n2_eqb (a b : N * N) : bool := N.eqb (fst a) (fst b) && N.eqb (snd a) (snd b).
Definition n3_eqb (a b : N * (N * N)) : bool := N.eqb (fst a) (fst b) && n2_eqb (snd a) (snd b).
(* equality of two lists as multisets *)
Definition count_eq {A} (eqb : A -> A -> bool) (a b : list A) : bool :=
  Nat.eqb (length a) (length b) &&
  forallb (fun x => Nat.eqb (length (filter (eqb x) a)) (length (filter (eqb x) b))) a.

Definition proj_svc (svcs : list N) (W : world) : list (N * N) :=
  filter (fun r => negb (N.eqb (snd r) 0)) (map (fun n => (n, N.of_nat (svc_count W n))) svcs).

Definition obs_matches (ents evs svcs : list N) (W : world) (logged : nat) (o : lobs) : bool :=
  let L := w_led W in
  list_eqb n3_eqb (proj_state ents L) (o_state o) &&
  list_eqb n2_eqb (proj_count evs (l_event L)) (o_event o) &&
  list_eqb n2_eqb (proj_count evs (l_bus L)) (o_bus o) &&
  N.eqb (N.of_nat (length (l_tasks L))) (o_tasks o) &&
  list_eqb n2_eqb (proj_svc svcs W) (o_svc o) &&
  list_eqb N.eqb (map fst (proj_svc svcs W)) (o_reg o) &&
  count_eq n2_eqb (proj_runs (skipn logged (w_log W))) (o_runs o).

Fixpoint steps_ok (cfg : deviations) (ents evs svcs : list N) (W : world) (sts : list lstep) : bool :=
  match sts with
  | [] => true
  | s :: r =>
      let W' := run_ops cfg (st_ops s) W in
      obs_matches ents evs svcs W' (length (w_log W)) (st_obs s) && steps_ok cfg ents evs svcs W' r
  end.

Definition lcase_model_ok (cfg : deviations) (c : lcase) : bool :=
  steps_ok cfg (lc_ents c) (lc_evs c) (lc_svcs c) world0 (lc_steps c).

(* ---- direct clauses of the property on the observations --------------------------------------- *)
Definition step_runs_alive (s : lstep) : bool :=
  forallb (fun r => memn (fst r) (st_alive s)) (o_runs (st_obs s)).
Definition obs_empty (o : lobs) : bool :=
  match o_state o, o_event o, o_bus o, o_svc o, o_reg o with [], [], [], [], [] => N.eqb (o_tasks o) 0 | _, _, _, _, _ => false end.
Definition step_final_clean (s : lstep) : bool := if st_final s then obs_empty (st_obs s) else true.
Definition all_runs (c : lcase) : list (N * N) := flat_map (fun s => o_runs (st_obs s)) (lc_steps c).
Definition final_world (c : lcase) : world := fold_left (fun W s => run_ops cfg_off (st_ops s) W) (lc_steps c) world0.
Definition once_ok (c : lcase) : bool :=
  let rs := all_runs c in
  forallb (fun f =>
    Nat.leb (length (filter (n2_eqb (f_gen f, rkind_code RStartup)) rs)) (length (filter u_startup (f_units f))) &&
    Nat.leb (length (filter (n2_eqb (f_gen f, rkind_code RShutdown)) rs)) (length (filter u_shutdown (f_units f))))
    (w_funcs (final_world c)).

Definition lcase_spec_ok (c : lcase) : bool :=
  forallb (fun s => step_runs_alive s && step_final_clean s && o_extra_ok (st_obs s)) (lc_steps c) &&
  once_ok c &&
  steps_ok cfg_off (lc_ents c) (lc_evs c) (lc_svcs c) world0 (lc_steps c).

(* ---- attribution of a Spec failure to deviation switches -------------------------------------- *)
Definition without (k : nat) (cfg : deviations) : deviations :=
  {| d16_notify_del_return := if Nat.eqb k 16 then false else d16_notify_del_return cfg;
     d90_dropped_dm_started := if Nat.eqb k 90 then false else d90_dropped_dm_started cfg;
     d91_pending_subscribes := if Nat.eqb k 91 then false else d91_pending_subscribes cfg;
     d21_handler_stays := if Nat.eqb k 21 then false else d21_handler_stays cfg;
     d92_cell_import_not_started := if Nat.eqb k 92 then false else d92_cell_import_not_started cfg;
     d93_fault_pins_function := if Nat.eqb k 93 then false else d93_fault_pins_function cfg |}.
Definition switch_on (k : nat) (cfg : deviations) : bool :=
  if Nat.eqb k 16 then d16_notify_del_return cfg else if Nat.eqb k 90 then d90_dropped_dm_started cfg
  else if Nat.eqb k 91 then d91_pending_subscribes cfg else if Nat.eqb k 21 then d21_handler_stays cfg
  else if Nat.eqb k 92 then d92_cell_import_not_started cfg else if Nat.eqb k 93 then d93_fault_pins_function cfg else false.
(* A failure is attributed to Dk when the Model with the measured switches reproduces the observation and switch k is
   needed for that (without it the Model no longer reproduces it).  Nothing is attributed when the Model does not
   reproduce the observation, or when a direct clause other than the ledger/run comparison fails for another reason. *)
Definition lcase_attrib (cfg : deviations) (c : lcase) : list nat :=
  if lcase_model_ok cfg c then
    filter (fun k => switch_on k cfg && negb (lcase_model_ok (without k cfg) c)) [16%nat; 90%nat; 91%nat; 21%nat; 92%nat; 93%nat]
  else [].

(* ---- replay explanation: the model's projection after every step ------------------------------ *)
Fixpoint explain_steps (cfg : deviations) (ents evs svcs : list N) (W : world) (sts : list lstep) :=
  match sts with
  | [] => []
  | s :: r =>
      let W' := run_ops cfg (st_ops s) W in
      let L := w_led W' in
      (obs_matches ents evs svcs W' (length (w_log W)) (st_obs s),
       (proj_state ents L, proj_count evs (l_event L), proj_count evs (l_bus L)),
       (N.of_nat (length (l_tasks L)), proj_svc svcs W', proj_runs (skipn (length (w_log W)) (w_log W'))))
      :: explain_steps cfg ents evs svcs W' r
  end.
Definition lcase_explain (cfg : deviations) (c : lcase) := explain_steps cfg (lc_ents c) (lc_evs c) (lc_svcs c) world0 (lc_steps c).
