(* Life/ReloadLoaded.v — the by-source specification of the table of loaded contexts (C10, first sentence):
   [spec_loaded t k] is the least set containing the existing auto-loaded files and closed under
   "its source imports m and m resolves to an existing file".  A node is a load descriptor (context name,
   rel_import_path, path); resolution is module_import's candidate list + first existing file, applied to the tree
   alone: no table, no lookup-before-load, no execution order.  Definitions only. *)
From PV Require Import Common.Util Life.ReloadBase Gen.ReloadConsts Life.Modules Life.Reload Life.ReloadPlanSpec.

Record desc := { d_name : cname; d_rel : option path; d_path : path; d_mod : bool }.

Definition desc_of_cand (c : cand) : desc := {| d_name := cd_name c; d_rel := cd_rel c; d_path := cd_path c; d_mod := true |}.
Definition root_desc (s : sfile) : desc := {| d_name := sf_name s; d_rel := sf_rel s; d_path := sf_path s; d_mod := false |}.

(* the file an import statement of the file described by [d] resolves to *)
Definition child (t : tree) (d : desc) (i : imp) : option desc :=
  match candidates all_off (d_name d) (d_rel d) i with
  | None => None
  | Some cs => match find_file t cs with Some (cnd, _) => Some (desc_of_cand cnd) | None => None end
  end.

Section Loaded.
  Variable t : tree.
  Variable k : apps_config.

  Inductive Reach : desc -> Prop :=
    | R_root s : In s (discover t k) -> sf_auto s = true -> Reach (root_desc s)
    | R_imp d f i d' : Reach d -> tree_get t (d_path d) = Some f -> In i (f_imps f) -> child t d i = Some d' -> Reach d'.

  Inductive Desc : desc -> desc -> Prop :=
    | D_refl d : Desc d d
    | D_step d f i d' d'' : tree_get t (d_path d) = Some f -> In i (f_imps f) -> child t d i = Some d' -> Desc d' d'' -> Desc d d''.

  Definition spec_loaded (n : cname) : Prop := exists d, Reach d /\ d_name d = n.

  (* a context of the table is the loaded form of a descriptor, at the tree's current source *)
  Definition ctx_matches (c : gctx) (d : desc) : Prop :=
    c_name c = d_name d /\ c_rel c = d_rel d /\ c_ismod c = d_mod d /\
    exists f, tree_get t (d_path d) = Some f /\ c_gen c = f_gen f /\ c_mtime c = f_mtime f.

  Definition has (st : state) (n : cname) : Prop := In n (st_names st).

  (* every context is a reachable descriptor at current source and everything it transitively imports is loaded *)
  Definition consistent (st : state) : Prop :=
    uniq_ctx st /\ forall c, In c st -> exists d, Reach d /\ ctx_matches c d /\ forall d', Desc d d' -> has st (d_name d').

  (* the trees the theorem is about *)
  Record good_tree : Prop := {
    gt_nodup : NoDup (map fst t);
    (* names are managed context names ("file." / "apps." / "modules." / "scripts." + something) *)
    gt_roots : forall d, Reach d -> in_ctx_roots (d_name d) = true;
    (* every import of every reachable file resolves (otherwise the file fails to load) *)
    gt_closed : forall d, Reach d -> exists f, tree_get t (d_path d) = Some f /\ forall i, In i (f_imps f) -> exists d', child t d i = Some d';
    (* unambiguous: one name, one way to load it (same file, same rel_import_path, module or auto-loaded) *)
    gt_coherent : forall d d', Reach d -> Reach d' -> d_name d = d_name d' -> d = d';
    (* unambiguous: no other candidate of an import statement names a different reachable file *)
    gt_unique : forall d f i cs c', Reach d -> tree_get t (d_path d) = Some f -> In i (f_imps f) ->
        candidates all_off (d_name d) (d_rel d) i = Some cs -> In c' cs -> spec_loaded (cd_name c') ->
        exists d', child t d i = Some d' /\ cd_name c' = d_name d';
    (* the import graph of the tree is acyclic (chains are shorter than the number of files) *)
    gt_rank : exists rank : desc -> nat,
        (forall d f i d', Reach d -> tree_get t (d_path d) = Some f -> In i (f_imps f) -> child t d i = Some d' -> (rank d' < rank d)%nat)
        /\ (forall d, Reach d -> (rank d <= length t)%nat) }.
End Loaded.
