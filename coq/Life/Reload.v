(* Life/Reload.v — __init__.py load_scripts, mirrored step by step:
     discover   = glob_read_files driven by the regenerated [load_paths] (naming, '#' skipping, app gating,
                  duplicate suppression, autoload flags);
     plan       = l.611-706: changed-set, will_reload, import_recurse (visited / memo), package widening;
     apply_plan = l.711-741: delete-then-load (loading executes files, Life/Modules.v);
     reload     = reload_scripts_handler: load_scripts + start_global_contexts;
   followed by the harness' ping (every started context bumps its counter).  No proofs here. *)
From PV Require Import Common.Util Life.ReloadBase Gen.ReloadConsts Life.Modules.

Definition apps_config := list (N * N).       (* app -> configuration value id (0 = YAML null) *)
Fixpoint cfg_get (k : apps_config) (a : N) : option N :=
  match k with
  | [] => None
  | (b, v) :: r => if (a =? b)%N then Some v else cfg_get r a
  end.

(* ---------- SourceFile ---------- *)
Record sfile := {
  sf_name : cname; sf_path : path; sf_rel : option path; sf_cfg : option N;
  sf_gen : N; sf_mtime : N; sf_imps : list imp; sf_auto : bool; sf_force : bool }.

Definition sf_set_force (b : bool) (s : sfile) : sfile :=
  {| sf_name := sf_name s; sf_path := sf_path s; sf_rel := sf_rel s; sf_cfg := sf_cfg s; sf_gen := sf_gen s;
     sf_mtime := sf_mtime s; sf_imps := sf_imps s; sf_auto := sf_auto s; sf_force := b |}.

Definition sf_find (fs : list sfile) (n : cname) : option sfile := find (fun s => nl_eqb (sf_name s) n) fs.
Definition sf_has (fs : list sfile) (n : cname) : bool := existsb (fun s => nl_eqb (sf_name s) n) fs.
Definition sf_force_name (n : cname) (b : bool) (fs : list sfile) : list sfile :=
  map (fun s => if nl_eqb (sf_name s) n then sf_set_force b s else s) fs.

(* ---------- discover (glob_read_files) ---------- *)
(* app_name: first component of fq_mod_name *)
Definition app_of (base : option N) (name : cname) : N :=
  match base, name with
  | Some _, _ :: a :: _ => a
  | _, a :: _ => a
  | _, [] => 0%N
  end.

Definition glob_entry (lp : load_path) (k : apps_config) (acc : list sfile) (pf : path * file) : list sfile :=
  let '(p, f) := pf in
  if negb (lp_match lp p) then acc else
  if hashed p then acc else                                   (* "commented" files and directories *)
  let modp := strip_init p in
  let rel := if ends_slash_init p then Some p else None in
  let name := match lp_base lp with None => top_root :: modp | Some _ => modp end in
  if sf_has acc name then acc else                            (* duplicate suppression *)
  let mk := fun cfg => {| sf_name := name; sf_path := p; sf_rel := rel; sf_cfg := cfg; sf_gen := f_gen f;
                          sf_mtime := f_mtime f; sf_imps := f_imps f; sf_auto := lp_auto lp; sf_force := false |} in
  if lp_check lp then
    match cfg_get k (app_of (lp_base lp) name) with
    | None => acc                                             (* app gating *)
    | Some v => acc ++ [mk (Some v)]
    end
  else acc ++ [mk None].

Definition discover (t : tree) (k : apps_config) : list sfile :=
  fold_left (fun acc lp => fold_left (glob_entry lp k) t acc) load_paths [].

(* ---------- plan ---------- *)
Inductive rarg := RNone | RAll | RName (n : cname).

Definition in_ctx_roots (n : cname) : bool := under_roots ctx_roots n.
(* "get current global contexts": GlobalContextMgr.items() is sorted *)
Definition ctx_all (st : state) : list gctx := filter (fun c => in_ctx_roots (c_name c)) (sort_by c_name st).

Definition cfg_val (c : option N) : N := match c with Some v => v | None => 0%N end.
Definition cfg_same (dv : deviations) (a b : option N) : bool :=
  if d_null_cfg dv then (cfg_val a =? cfg_val b)%N else option_eqb N.eqb a b.

Definition changed (dv : deviations) (s : sfile) (c : gctx) : bool :=
  (cmp_source && negb (sf_gen s =? c_gen c)%N) || (cmp_cfg && negb (cfg_same dv (sf_cfg s) (c_cfg c)))
  || (cmp_mtime && negb (sf_mtime s =? c_mtime c)%N).

Record pstate := { ps_del : list cname; ps_files : list sfile }.

(* step 1: what is considered changed *)
Definition changed_step (dv : deviations) (all : list gctx) (ps : pstate) (s : sfile) : pstate :=
  match find (fun c => nl_eqb (c_name c) (sf_name s)) all with
  | Some c => if changed dv s c
              then {| ps_del := nl_add (sf_name s) (ps_del ps); ps_files := ps_files ps ++ [sf_set_force true s] |}
              else {| ps_del := ps_del ps; ps_files := ps_files ps ++ [s] |}
  | None => {| ps_del := ps_del ps; ps_files := ps_files ps ++ [sf_set_force (sf_auto s) s] |}
  end.

Definition plan_changed (dv : deviations) (all : list gctx) (fs : list sfile) (a : rarg) : option pstate :=
  match a with
  | RName n =>
    let in_all := existsb (fun c => nl_eqb (c_name c) n) all in
    if negb in_all && negb (sf_has fs n) then None                      (* "no global context to reload" *)
    else if negb (sf_has fs n) then Some {| ps_del := [n]; ps_files := fs |}
    else Some {| ps_del := []; ps_files := sf_force_name n true fs |}
  | RAll => Some {| ps_del := map c_name all; ps_files := map (sf_set_force true) fs |}
  | RNone =>
    let del0 := map c_name (filter (fun c => negb (sf_has fs (c_name c))) all) in
    Some (fold_left (changed_step dv all) fs {| ps_del := del0; ps_files := [] |})
  end.

(* step 2: module roots that are being reloaded *)
Definition will_reload (dv : deviations) (ps : pstate) : list cname :=
  let from_files := map (fun s => root2 (sf_name s))
        (filter (fun s => under_roots wr_roots (sf_name s) && (nl_mem (sf_name s) (ps_del ps) || sf_force s)) (ps_files ps)) in
  let from_deleted := if d_deleted_no_propagate dv then []
        else map root2 (filter (fun n => under_roots wr_roots n && negb (sf_has (ps_files ps) n)) (ps_del ps)) in
  fold_left (fun acc r => nl_add r acc) (from_files ++ from_deleted) [].

(* step 3: import_recurse(ctx_name, visited, ctx2imports) *)
Definition memo := list (cname * list cname).
Fixpoint memo_get (m : memo) (n : cname) : option (list cname) :=
  match m with
  | [] => None
  | (k, v) :: r => if nl_eqb k n then Some v else memo_get r n
  end.
Definition memo_set (m : memo) (n : cname) (v : list cname) : memo :=
  filter (fun kv => negb (nl_eqb (fst kv) n)) m ++ [(n, v)].
Definition memo_or_empty (m : memo) (n : cname) : list cname := match memo_get m n with Some v => v | None => [] end.

Inductive irres := IROk (res : list cname) (visited : list cname) (m : memo) | IRFuel.

(* the loop `for imp_name in ctx.get_imports()`; [rec] is import_recurse at the lower fuel *)
Fixpoint ir_loop (rec : cname -> list cname -> memo -> irres) (self : cname) (imps : list cname)
         (visited : list cname) (m : memo) : irres :=
  match imps with
  | [] => IROk (memo_or_empty m self) visited m
  | i :: rest =>
    let m1 := memo_set m self (nl_add i (memo_or_empty m self)) in
    match rec i visited m1 with
    | IROk sub visited2 m2 =>
        ir_loop rec self rest visited2 (memo_set m2 self (nl_union (memo_or_empty m2 self) sub))
    | IRFuel => IRFuel
    end
  end.

Fixpoint import_recurse (fuel : nat) (st : state) (n : cname) (visited : list cname) (m : memo) : irres :=
  match fuel with
  | O => IRFuel
  | S fuel' =>
    if nl_mem n visited || (match memo_get m n with Some _ => true | None => false end)
    then IROk (memo_or_empty m n) visited m
    else
      let visited1 := visited ++ [n] in
      match st_get st n with
      | None => IROk [] visited1 m
      | Some c => ir_loop (import_recurse fuel' st) n (c_imports c) visited1 (memo_set m n [])
      end
  end.
Definition ir_fuel (st : state) : nat := S (S (length st)).

Record istate := { is_ps : pstate; is_memo : memo; is_fuel_ok : bool }.

Definition imports_step (st : state) (wr : list cname) (acc : istate) (c : gctx) : istate :=
  let n := c_name c in
  let '(m1, ok1) :=
    match memo_get (is_memo acc) n with
    | Some _ => (is_memo acc, true)
    | None => match import_recurse (ir_fuel st) st n [] (is_memo acc) with
              | IROk _ _ m' => (m', true)
              | IRFuel => (is_memo acc, false)
              end
    end in
  let hit := existsb (fun modn => nl_mem (root2 modn) wr) (memo_or_empty m1 n) in
  let ps0 := is_ps acc in
  let ps1 := if hit then {| ps_del := nl_add n (ps_del ps0); ps_files := sf_force_name n true (ps_files ps0) |} else ps0 in
  {| is_ps := ps1; is_memo := m1; is_fuel_ok := is_fuel_ok acc && ok1 |}.

Definition plan_imports (dv : deviations) (st : state) (all : list gctx) (ps : pstate) : pstate * bool :=
  let wr := will_reload dv ps in
  match wr with
  | [] => (ps, true)
  | _ =>
    let r := fold_left (imports_step st wr) all {| is_ps := ps; is_memo := []; is_fuel_ok := true |} in
    (is_ps r, is_fuel_ok r)
  end.

(* step 4: package widening *)
Record wstate := { w_files : list sfile; w_del : list cname; w_done : list cname }.

Definition widen_one (dv : deviations) (loaded : list cname) (w : wstate) (n : cname) (forced : bool) : wstate :=
  if negb forced then w else
  if negb (under_roots widen_roots n) then w else
  let root := root2 n in
  if nl_mem root (w_done w) then w else
  let pkg_path := root ++ [s_init] in
  let fs' := map (fun s => if prefix_of root (sf_name s)
                           then sf_set_force (nl_eqb (sf_path s) pkg_path || nl_eqb (sf_path s) root) s else s) (w_files w) in
  let del' := fold_left (fun acc s => if prefix_of root (sf_name s) then nl_add (sf_name s) acc else acc) (w_files w) (w_del w) in
  (* conformant: package mates whose file is gone are discarded with their package as well *)
  let del'' := if d_deleted_no_propagate dv then del'
               else fold_left (fun acc m => if prefix_of root m then nl_add m acc else acc) loaded del' in
  {| w_files := fs'; w_del := del''; w_done := root :: w_done w |}.

Definition widen_file_step (dv : deviations) (loaded : list cname) (w : wstate) (n : cname) : wstate :=
  match sf_find (w_files w) n with
  | Some s => widen_one dv loaded w n (sf_force s)
  | None => w
  end.
(* conformant: a deleted context's package counts as containing a change (its root file is re-executed) *)
Definition widen_del_step (dv : deviations) (loaded : list cname) (fs : list sfile) (w : wstate) (n : cname) : wstate :=
  if sf_has fs n then w else widen_one dv loaded w n true.

Definition plan_widen (dv : deviations) (loaded : list cname) (ps : pstate) : pstate :=
  let w0 := {| w_files := ps_files ps; w_del := ps_del ps; w_done := [] |} in
  let w1 := fold_left (widen_file_step dv loaded) (map sf_name (ps_files ps)) w0 in
  let w2 := if d_deleted_no_propagate dv then w1
            else fold_left (widen_del_step dv loaded (ps_files ps)) (ps_del ps) w1 in
  {| ps_del := w_del w2; ps_files := w_files w2 |}.

Record plan_res := { p_ok : bool; p_fuel_ok : bool; p_del : list cname; p_files : list sfile }.

Definition plan (dv : deviations) (st : state) (fs : list sfile) (a : rarg) : plan_res :=
  let all := ctx_all st in
  match plan_changed dv all fs a with
  | None => {| p_ok := false; p_fuel_ok := true; p_del := []; p_files := fs |}
  | Some ps1 =>
    let '(ps2, fok) := plan_imports dv st all ps1 in
    let ps3 := plan_widen dv (map c_name all) ps2 in
    {| p_ok := true; p_fuel_ok := fok; p_del := ps_del ps3; p_files := ps_files ps3 |}
  end.

Definition load_list (fs : list sfile) : list sfile := filter (fun s => sf_auto s && sf_force s) (sort_by sf_name fs).

(* ---------- apply: delete, then load ---------- *)
Record world := { w_st : state; w_ev : list event; w_fuel : bool }.

Definition delete_phase (st : state) (del : list cname) : state :=
  let all := map c_name (ctx_all st) in
  fold_left (fun s n => if nl_mem n all then st_del s n else s) del st.

Definition load_one (dv : deviations) (t : tree) (born : N) (w : world) (s : sfile) : world :=
  let st1 := st_del (w_st w) (sf_name s) in          (* load_file destroys the current context of that name *)
  match exec_body (exec_fuel t) dv t born false (sf_name s) (sf_rel s) (sf_imps s) st1 (w_ev w ++ [(sf_name s, sf_gen s)]) with
  | XOk st2 ev2 imps =>
      {| w_st := st_set st2 {| c_name := sf_name s; c_gen := sf_gen s; c_mtime := sf_mtime s; c_cfg := sf_cfg s;
                               c_imports := imps; c_ismod := false; c_rel := sf_rel s; c_born := born;
                               c_started := false; c_cnt := 0 |};
         w_ev := ev2; w_fuel := w_fuel w |}
  | XFail st2 ev2 => {| w_st := st2; w_ev := ev2; w_fuel := w_fuel w |}       (* "Failed to load" *)
  | XFuel => {| w_st := st1; w_ev := w_ev w ++ [(sf_name s, sf_gen s)]; w_fuel := false |}
  end.

(* start_global_contexts(global_ctx_only) *)
Definition set_started (c : gctx) : gctx :=
  {| c_name := c_name c; c_gen := c_gen c; c_mtime := c_mtime c; c_cfg := c_cfg c; c_imports := c_imports c;
     c_ismod := c_ismod c; c_rel := c_rel c; c_born := c_born c; c_started := true; c_cnt := c_cnt c |}.
Definition start_phase (dv : deviations) (a : rarg) (st : state) : state :=
  map (fun c =>
    if negb (in_ctx_roots (c_name c)) then c else
    match a with
    | RName n => if d_named_start dv then (if prefix_of n (c_name c) then set_started c else c) else set_started c
    | _ => set_started c
    end) st.

Record step_res := { r_st : state; r_ev : list event; r_fuel : bool; r_plan : plan_res }.

(* one pyscript.reload service call (also: start-up, from the empty state with RNone) *)
Definition reload (dv : deviations) (born : N) (st : state) (t : tree) (k : apps_config) (a : rarg) : step_res :=
  let fs := discover t k in
  let pl := plan dv st fs a in
  if negb (p_ok pl) then {| r_st := start_phase dv a st; r_ev := []; r_fuel := true; r_plan := pl |} else
  let st1 := delete_phase st (p_del pl) in
  let w := fold_left (load_one dv t born) (load_list (p_files pl)) {| w_st := st1; w_ev := []; w_fuel := true |} in
  {| r_st := start_phase dv a (w_st w); r_ev := w_ev w; r_fuel := w_fuel w && p_fuel_ok pl; r_plan := pl |}.

(* the harness fires one "pv_ping" after every step: every context whose triggers are armed counts it *)
Definition ping (st : state) : state :=
  map (fun c => if c_started c then
    {| c_name := c_name c; c_gen := c_gen c; c_mtime := c_mtime c; c_cfg := c_cfg c; c_imports := c_imports c;
       c_ismod := c_ismod c; c_rel := c_rel c; c_born := c_born c; c_started := true; c_cnt := (c_cnt c + 1)%N |} else c) st.

(* a history: the tree and configuration found by each successive reload, and its argument.
   Any sequence of modify / touch / create / delete / rename / config steps between two reloads is
   summarised by the tree and configuration the second one finds. *)
Record rstep := { rs_tree : tree; rs_cfg : apps_config; rs_arg : rarg;
                  rs_opts : N  (* the global options hass_is_global / allow_all_imports found in the YAML *) }.

(* reload_scripts_handler: update_yaml_config() compares the global options with those remembered by the previous
   reload (CONFIG_ENTRY_OLD; nothing is remembered before the first reload) and turns the reload into '*' on a change *)
Definition eff_arg (old : option N) (s : rstep) : rarg :=
  match old with
  | Some o => if (o =? rs_opts s)%N then rs_arg s else RAll
  | None => rs_arg s
  end.
(* step 0 is the start-up (async_setup_entry does not call update_yaml_config the first time) *)
Definition next_old (born : N) (s : rstep) : option N := if (born =? 0)%N then None else Some (rs_opts s).

Fixpoint run_from (dv : deviations) (born : N) (old : option N) (st : state) (steps : list rstep) : list step_res :=
  match steps with
  | [] => []
  | s :: rest =>
    let r := reload dv born st (rs_tree s) (rs_cfg s) (eff_arg old s) in
    let st' := ping (r_st r) in
    {| r_st := st'; r_ev := r_ev r; r_fuel := r_fuel r; r_plan := r_plan r |}
      :: run_from dv (born + 1)%N (next_old born s) st' rest
  end.
Definition run (dv : deviations) (steps : list rstep) : list step_res := run_from dv 0%N None [] steps.
