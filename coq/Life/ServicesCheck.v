(* Life/ServicesCheck.v — what the generated correspondence files evaluate for C12 (life-cycle stream).
   [lcase_model_ok cfg]: the Model under the measured switches reproduces what the real pyscript+HA did (tie T2).
   [lcase_spec_ok]     : what the real code did satisfies the property (reference semantics of ServicesSpec.v).
   [lcase_attrib cfg]  : which open findings explain a Spec failure. *)
From PV Require Import Common.Util Gen.ServiceConsts Life.Services Life.ServicesSpec.

(* observation of one service name after one operation *)
Record kobs := mk_kobs {
  ko_has : bool;                 (* hass.services.has_service *)
  ko_cnt : N;                    (* Function.service_cnt.get(name, 0) *)
  ko_owner : option cid;         (* Function.service2global_ctx.get(name) *)
  ko_r0 : outc;                  (* async_call(..., blocking=True, return_response=False) *)
  ko_r1 : outc                   (* async_call(..., blocking=True, return_response=True) *)
}.

Record lcase := mk_lcase {
  lc_legacy : bool;
  lc_keys : list key;                       (* the names probed after every operation *)
  lc_ops : list (op * kwargs);              (* operation, data used by the probe calls after it *)
  lc_obs : list (list kobs)                 (* per operation, per key *)
}.

Definition outc_eqb (a b : outc) : bool :=
  match a, b with
  | OcNone, OcNone | OcErr, OcErr => true
  | OcRun g kw r, OcRun g' kw' r' => N.eqb g g' && kwargs_eqb kw kw' && option_eqb N.eqb r r'
  | _, _ => false
  end.

Definition model_kobs (s : st) (data : kwargs) (k : key) : kobs :=
  {| ko_has := match s_reg s k with Some _ => true | None => false end;
     ko_cnt := s_cnt s k;
     ko_owner := s_owner s k;
     ko_r0 := model_call s k data false;
     ko_r1 := model_call s k data true |}.

(* the owner table is compared only for names with a positive count (a rejected foreign registration and a final
   removal leave different but unobservable residues) *)
Definition kobs_eqb (a b : kobs) : bool :=
  Bool.eqb (ko_has a) (ko_has b) && N.eqb (ko_cnt a) (ko_cnt b)
  && (if N.eqb (ko_cnt a) 0 then true else option_eqb N.eqb (ko_owner a) (ko_owner b))
  && outc_eqb (ko_r0 a) (ko_r0 b) && outc_eqb (ko_r1 a) (ko_r1 b).

Definition model_steps (cfg : deviations) (c : lcase) : list (list kobs) :=
  map (fun '(s, d) => map (model_kobs s d) (lc_keys c))
      (combine (run_trace cfg (lc_legacy c) (map fst (lc_ops c)) init_st) (map snd (lc_ops c))).

Definition lcase_model_ok (cfg : deviations) (c : lcase) : bool :=
  list_eqb (list_eqb kobs_eqb) (model_steps cfg c) (lc_obs c).

(* ---------- Spec ---------- *)
Definition spec_kobs (t : rst) (data : kwargs) (k : key) (o : kobs) : bool :=
  match ref_handler t k with
  | None => negb (ko_has o)                                       (* no undeclared service remains *)
  | Some r => ko_has o && spec_call r data false (ko_r0 o) && spec_call r data true (ko_r1 o)   (* none missing; current definition *)
  end.

Fixpoint all2 {A B} (f : A -> B -> bool) (a : list A) (b : list B) : bool :=
  match a, b with
  | [], [] => true
  | x :: a', y :: b' => f x y && all2 f a' b'
  | _, _ => false
  end.

Definition lcase_spec_ok (c : lcase) : bool :=
  all2 (fun '(t, d) obs => all2 (spec_kobs t d) (lc_keys c) obs)
       (combine (ref_trace (map fst (lc_ops c)) init_rst) (map snd (lc_ops c))) (lc_obs c).

(* ---------- attribution of a Spec failure to open findings ---------- *)
Definition vis_kobs_eqb (a b : kobs) : bool :=
  Bool.eqb (ko_has a) (ko_has b) && outc_eqb (ko_r0 a) (ko_r0 b) && outc_eqb (ko_r1 a) (ko_r1 b).
Definition same_run (cfg cfg' : deviations) (c : lcase) : bool :=
  list_eqb (list_eqb vis_kobs_eqb) (model_steps cfg c) (model_steps cfg' c).

Definition switch_off (n : nat) (cfg : deviations) : deviations :=
  {| d_stale_handler := if Nat.eqb n 21 then false else d_stale_handler cfg;
     d_no_alias := if Nat.eqb n 23 then false else d_no_alias cfg;
     d_dup_set := if Nat.eqb n 26 then false else d_dup_set cfg;
     d_alias_abort := if Nat.eqb n 120 then false else d_alias_abort cfg;
     d_start_order := if Nat.eqb n 121 then false else d_start_order cfg;
     d_pending_zombie := if Nat.eqb n 122 then false else d_pending_zombie cfg;
     d_limit_kw := if Nat.eqb n 123 then false else d_limit_kw cfg;
     d_rt_owner := if Nat.eqb n 124 then false else d_rt_owner cfg;
     d_stack_rollback := if Nat.eqb n 125 then false else d_stack_rollback cfg;
     d_interleave := if Nat.eqb n 127 then false else d_interleave cfg;
     d_spurious_remove := if Nat.eqb n 126 then false else d_spurious_remove cfg |}.
Definition switch_on (n : nat) (cfg : deviations) : bool :=
  match n with
  | 21 => d_stale_handler cfg | 23 => d_no_alias cfg | 26 => d_dup_set cfg | 120 => d_alias_abort cfg
  | 121 => d_start_order cfg | 122 => d_pending_zombie cfg | 123 => d_limit_kw cfg | 124 => d_rt_owner cfg | 125 => d_stack_rollback cfg | 126 => d_spurious_remove cfg | 127 => d_interleave cfg | _ => false
  end.
Definition life_switches : list nat := [21; 23; 26; 120; 121; 122; 124; 125; 127]%nat.

(* a finding explains the failure iff its switch is on and switching it off changes what the Model predicts on this
   case; if no single switch matters but the conformant Model differs, all switches that are on are named *)
Definition lcase_attrib (cfg : deviations) (c : lcase) : list nat :=
  let single := filter (fun n => switch_on n cfg && negb (same_run cfg (switch_off n cfg) c)) life_switches in
  match single with
  | _ :: _ => single
  | [] => if same_run cfg all_off c then [] else filter (fun n => switch_on n cfg) life_switches
  end.

(* ---------- replay help: first step/key where the implementation leaves the Spec, with Model and reference views ---------- *)
Definition show_outc (o : outc) : (N * N * N) :=
  match o with
  | OcNone => (0, 0, 0) | OcErr => (1, 0, 0)
  | OcRun g _ r => (2, g, match r with Some x => x | None => 0 end)
  end%N.
Definition show_kobs (o : kobs) := (ko_has o, ko_cnt o, ko_owner o, show_outc (ko_r0 o), show_outc (ko_r1 o)).
Definition lcase_explain (cfg : deviations) (c : lcase) :=
  let refs := ref_trace (map fst (lc_ops c)) init_rst in
  (map (map show_kobs) (model_steps cfg c),
   map (fun t => map (fun k => option_map (fun r => (r_gen r, r_ctx r)) (ref_handler t k)) (lc_keys c)) refs).

(* ================= outgoing calls (stream "out") ================= *)
From PV Require Import Life.ServiceCalls.

Record ocase := mk_ocase {
  oc_site : site; oc_task_ctx : bool;
  oc_target : srm;                               (* how HA's async_call validates calls of the target (`is` tests) *)
  oc_honly : bool;                               (* supports_response(target) == ONLY *)
  oc_decl_only : bool;                           (* the target was declared with supports_response only *)
  oc_nargs : N; oc_nparams : N; oc_kws : list kwarg;
  oc_res : oresult;                              (* observed at the target service / as exception in the script *)
  oc_passed : option (bool * bool * bool);       (* observed at hass.services.async_call: context given, blocking, return_response *)
  oc_ret : option bool                           (* what the calling script got: Some true = the target's response, Some false = None, None = exception *)
}.

Definition kwarg_eqb (a b : kwarg) : bool :=
  N.eqb (kw_key a) (kw_key b) && N.eqb (kw_ty a) (kw_ty b) && Z.eqb (kw_val a) (kw_val b).
Definition oresult_eqb (a b : oresult) : bool :=
  match a, b with
  | ODelivered d r, ODelivered d' r' => list_eqb kwarg_eqb d d' && Bool.eqb r r'
  | OTypeError, OTypeError | OValidation, OValidation => true
  | _, _ => false
  end.

(* the control arguments the Model hands to async_call (None: the call raises before reaching it) *)
Definition model_passed (c : ocase) : option (bool * bool * bool) :=
  let '(_, h) := split (oc_site c) (oc_task_ctx c) (oc_kws c) in
  let h := match oc_site c with SiteEntity => if entity_via_helper then helper (oc_honly c) h else h | _ => helper (oc_honly c) h end in
  if args_misuse (oc_site c) (oc_nargs c) (oc_nparams c) then None
  else Some (match harg_find 1 h with Some _ => true | None => false end, harg_true (harg_find 2 h), harg_true (harg_find 3 h)).

Definition passed_eqb (a b : option (bool * bool * bool)) : bool :=
  option_eqb (fun '(x, y, z) '(x', y', z') => Bool.eqb x x' && Bool.eqb y y' && Bool.eqb z z') a b.

Definition ocase_run (cfg : deviations) (c : ocase) : oresult :=
  outgoing cfg (oc_site c) (oc_task_ctx c) (oc_target c) (oc_honly c) (oc_nargs c) (oc_nparams c) (oc_kws c).

Definition ocase_model_ok (cfg : deviations) (c : ocase) : bool :=
  oresult_eqb (ocase_run cfg c) (oc_res c) && passed_eqb (model_passed c) (oc_passed c)
  && option_eqb Bool.eqb (script_ret (ocase_run cfg c)) (oc_ret c).

(* "returns its result when a response is supported": the script asked for it (recognised return_response=True), or the
   target is response-only and the script did not say otherwise (service.call / d.s() forms) *)
Definition wants_response (c : ocase) : bool :=
  match kw_find 3%N (oc_kws c) with
  | Some x => recognised (oc_site c) x && negb (Z.eqb (kw_val x) 0)
  | None => oc_decl_only c && match oc_site c with SiteEntity => false | _ => true end
  end.
Definition ocase_spec_ok (c : ocase) : bool :=
  match oc_res c with
  | ODelivered d _ => list_eqb kwarg_eqb d (expected_data (oc_site c) (oc_nargs c) (oc_nparams c) (oc_kws c))
                      && (if wants_response c then option_eqb Bool.eqb (oc_ret c) (Some true) else true)
  | OValidation => direct_rejects (oc_site c) (if oc_decl_only c then SrOnly else oc_target c) (oc_kws c)   (* judged by the declared mode *)
  | OTypeError => args_misuse (oc_site c) (oc_nargs c) (oc_nparams c)
  | OOther => false
  end.

Definition ocase_attrib (cfg : deviations) (c : ocase) : list nat :=
  if d_limit_kw cfg && negb (oresult_eqb (ocase_run cfg c) (ocase_run (switch_off 123 cfg) c)) then [123%nat] else [].

Definition ocase_explain (cfg : deviations) (c : ocase) :=
  (ocase_run cfg c, model_passed c, expected_data (oc_site c) (oc_nargs c) (oc_nparams c) (oc_kws c)).

(* ================= overlapping calls of one service (stream "overlap") =================
   The generated service function computes a local from its own data, suspends in task.sleep for a per-call duration and
   returns a value computed from the local and the data.  Model: every incoming call is an independent activation of the
   current definition (the handler builds a fresh evaluation context per call), so each call returns the value for its own
   data whatever the interleaving; Spec: "runs the definition with the call's data ... and returns its result". *)
Record vcall := mk_vcall {
  vc_a : Z; vc_start : N; vc_dur : N;          (* data, virtual start time, time spent suspended *)
  vc_ret : option (Z * Z)                      (* observed response: (result, the data the function says it ran with) *)
}.
Record vcase := mk_vcase {
  vv_calls : list vcall;
  vv_fired : list (Z * Z * bool)               (* observed runs: (data seen, result computed, trigger_type='service') *)
}.
Definition ov_fun (a : Z) : Z := (a * 2 + 1 + a)%Z.      (* mine = a*2+1; sleep; res = mine + a *)
Definition model_activation (a : Z) : Z * Z := (ov_fun a, a).

Definition ret_eqb (x y : option (Z * Z)) : bool :=
  option_eqb (fun p q => Z.eqb (fst p) (fst q) && Z.eqb (snd p) (snd q)) x y.
Definition vcase_model_ok (c : vcase) : bool :=
  forallb (fun v => ret_eqb (vc_ret v) (Some (model_activation (vc_a v)))) (vv_calls c)
  && Nat.eqb (length (vv_fired c)) (length (vv_calls c))
  && forallb (fun '(a, r, is_svc) => Z.eqb r (ov_fun a) && is_svc) (vv_fired c)
  && forallb (fun v => existsb (fun '(a, _, _) => Z.eqb a (vc_a v)) (vv_fired c)) (vv_calls c).
(* the property: each call returns the result for its own data *)
Definition vcase_spec_ok (c : vcase) : bool :=
  forallb (fun v => match vc_ret v with Some (r, a) => Z.eqb a (vc_a v) && Z.eqb r (ov_fun (vc_a v)) | None => false end) (vv_calls c).
Definition vcase_explain (c : vcase) := map (fun v => (vc_a v, model_activation (vc_a v), vc_ret v)) (vv_calls c).

(* ================= a stop (or anything else) arriving in the middle of a start-up (stream "mid") ================= *)
From PV Require Import Life.ServicesMid.

Record mcase := mk_mcase {
  mc_keys : list key;
  mc_pre : list op;                                 (* ordinary operations first (default subsystem) *)
  mc_ctx : cid; mc_body : list stmt; mc_oracle : list gen;     (* the load whose start-ups are held after their first turn *)
  mc_intr : op;                                     (* what happens while they wait *)
  mc_obs : list (list kobs)                         (* observed after the held load, after the interruption, after the release *)
}.

Definition mid_states (cfg : deviations) (c : mcase) : list st :=
  let s0 := run_ops cfg false (mc_pre c) init_st in
  let '(s1, m1) := held_load cfg s0 (mc_ctx c) (mc_body c) (mc_oracle c) in
  let '(s2, m2) := interrupt cfg s1 m1 (mc_intr c) in
  [s1; s2; release_mid cfg s2 m2].
Definition mid_steps (cfg : deviations) (c : mcase) : list (list kobs) :=
  map (fun s => map (model_kobs s []) (mc_keys c)) (mid_states cfg c).
Definition mcase_model_ok (cfg : deviations) (c : mcase) : bool :=
  list_eqb (list_eqb kobs_eqb) (mid_steps cfg c) (mc_obs c).

(* the property speaks about the state once everything has completed: after the release the registry must be what the
   operation sequence [pre; load; interruption] requires *)
Definition mcase_spec_ok (c : mcase) : bool :=
  let t := fold_left ref_op (mc_pre c ++ [OLoad (mc_ctx c) (mc_body c) (mc_oracle c); mc_intr c]) init_rst in
  match mc_obs c with
  | [_; _; final] => all2 (spec_kobs t []) (mc_keys c) final
  | _ => false
  end.

Definition mid_switches : list nat := [21; 23; 120; 121; 122; 124; 125; 126; 127]%nat.
Definition mid_same (cfg cfg' : deviations) (c : mcase) : bool :=
  list_eqb (list_eqb vis_kobs_eqb) (mid_steps cfg c) (mid_steps cfg' c).
Definition mcase_attrib (cfg : deviations) (c : mcase) : list nat :=
  let single := filter (fun n => switch_on n cfg && negb (mid_same cfg (switch_off n cfg) c)) mid_switches in
  match single with
  | _ :: _ => single
  | [] => if mid_same cfg all_off c then [] else filter (fun n => switch_on n cfg) mid_switches
  end.
Definition mcase_explain (cfg : deviations) (c : mcase) := map (map show_kobs) (mid_steps cfg c).
