(* Life/Services.v — executable model of pyscript's @service life cycle (C12).

   Mirrors, function by function:
     function.py   Function.service_register (l.471) / service_remove (l.488)           -> [register] / [remove]
     eval.py       ast_functiondef (l.1153-1197), EvalFunc.trigger_init (service part,
                   l.473-541), trigger_stop (l.600), EvalFuncVar.__del__ (l.874)        -> legacy branch of [do_def], [unbind]
     decorators/service.py ServiceDecorator.validate/start/stop, decorator.py
                   FunctionDecoratorManager (weakref.finalize), global_ctx.py
                   create_decorator_manager / start / stop                              -> new branch of [do_def], [start_ctx], [stop_ctx]
     __init__.py   reload_scripts_handler / load_scripts / unload                       -> [run_op]
     homeassistant ServiceRegistry.async_register/async_remove/async_call (environment) -> [s_reg], [model_call]

   Ids: service names, contexts, function names and function generations are [N]; the Python side keeps
   the id <-> string tables.  Generations are allocated by the model ([s_next]) in execution order of the
   [def] statements, exactly as the driver numbers the generated function bodies.
   Constants of service_register/service_remove come from Gen/ServiceConsts.v (regenerated from the source on
   every run).  No proofs here (see Proofs/LifeServices.v). *)
From PV Require Import Common.Util Gen.ServiceConsts.

Definition key := N.
Definition cid := N.
Definition fid := N.
Definition gen := N.

(* ---------- deviation switches (on = what the code does today; all off = conformant) ---------- *)
Record deviations := {
  d_stale_handler : bool;    (* D21  service_remove with cnt>1 leaves HA's handler pointing at the removed function *)
  d_no_alias : bool;         (* D23  new subsystem: @service with more than one name is rejected *)
  d_dup_set : bool;          (* D26  legacy: trigger_service is a set, registrations are counted per occurrence *)
  d_alias_abort : bool;      (* D120 legacy: first foreign-owned alias aborts trigger_init; function not tracked by its context *)
  d_start_order : bool;      (* D121 new subsystem: delayed decorator managers start in set-iteration order *)
  d_pending_zombie : bool;   (* D122 new subsystem: a manager whose function was rebound/deleted before start still starts *)
  d_limit_kw : bool;         (* D123 entity-method calls pass `limit` to hass.services.async_call, which rejects it *)
  d_rt_owner : bool;         (* D124 new subsystem: a @service function created at run time inside a running function is owned by that
                                function's evaluation context name (file.a.build), not by its global context *)
  d_stack_rollback : bool;   (* D125 new subsystem: several @service decorators on one function: the first refused name makes start() fail
                                and the names registered before it are taken back *)
  d_interleave : bool;       (* D127 new subsystem: the start-ups of the delayed managers of one (re)load run interleaved, one decorator per turn *)
  d_spurious_remove : bool   (* D126 new subsystem: a manager stopped while its start-up is suspended between two decorators also "stops" the
                                decorators that never started: service_remove of names it does not hold (Life/ServicesMid.v) *)
}.
Definition all_off : deviations :=
  {| d_stale_handler := false; d_no_alias := false; d_dup_set := false; d_alias_abort := false;
     d_start_order := false; d_pending_zombie := false; d_limit_kw := false; d_rt_owner := false;
     d_stack_rollback := false; d_interleave := false; d_spurious_remove := false |}.

(* ---------- supports_response ---------- *)
Inductive srd := DAbs | DNone | DOpt | DOnly.          (* as written in the decorator *)
Inductive srm := SrNone | SrOpt | SrOnly.              (* how HA's async_call treats the registered handler *)
(* legacy passes the *string* on to hass.services.async_register; HA tests `is SupportsResponse.NONE/ONLY`,
   so any string behaves like OPTIONAL for incoming calls; the new subsystem coerces to the enum *)
Definition eff_sr (legacy : bool) (d : srd) : srm :=
  if legacy then match d with DAbs => SrNone | _ => SrOpt end
  else match d with DAbs | DNone => SrNone | DOpt => SrOpt | DOnly => SrOnly end.

Definition hinfo : Type := (gen * srm)%type.

(* ---------- statements and operations ---------- *)
Inductive stmt :=
  | SDef (f : fid) (decl : list key) (sr : srd)      (* @service(decl..., supports_response=sr) def f(kwargs): ... *)
  | SDefRt (f : fid) (decl : list key) (sr : srd)    (* the same definition made at run time by a service function (`global f`) *)
  | SDefSt (f : fid) (decl : list key) (sr : srd)    (* one @service(name, supports_response=sr) decorator per name, stacked on f *)
  | SDel (f : fid).                                  (* del f *)

Inductive op :=
  | OExec (c : cid) (b : list stmt)                  (* execute statements in the live context c *)
  | OLoad (c : cid) (b : list stmt) (oracle : list gen)   (* write c's file, pyscript.reload(global_ctx=c) *)
  | OUnload (c : cid)                                (* remove c's file, pyscript.reload(global_ctx=c) *)
  | OReloadAll (w : list (cid * list stmt)) (oracle : list gen).  (* write files w, pyscript.reload(global_ctx="*") / start-up *)
(* [oracle]: observed start order (generations) of delayed decorator managers; only read when D121 is on *)

(* ---------- state ---------- *)
Record frec := mk_frec {
  f_ctx : cid; f_name : fid; f_gen : gen; f_sr : srm;
  f_decl : list key;        (* declared names (default name already resolved) *)
  f_held : list key;        (* names this function object holds a count for (registration order, with repeats) *)
  f_bound : bool;           (* its EvalFuncVar is still bound to the name in the context's symbol table *)
  f_tracked : bool;         (* legacy: in ctx.triggers; new: in ctx.dms — released by ctx.stop() *)
  f_pending : bool;         (* new: validated, waiting for ctx.start() *)
  f_inc : N;                (* which incarnation (load) of its context it was defined in: all function objects of one
                               incarnation hang on the same GlobalContext object and keep each other reachable *)
  f_own : N;                (* the owner name it registers under (its context, except D124) *)
  f_stk : bool              (* its names come from several stacked @service decorators *)
}.

Record st := mk_st {
  s_cnt : key -> N;                    (* Function.service_cnt (absent = 0) *)
  s_owner : key -> option cid;         (* Function.service2global_ctx *)
  s_reg : key -> option hinfo;         (* HA's registry: which function generation handles the name *)
  s_funcs : list frec;                 (* function objects of loaded contexts that can still act, definition order *)
  s_files : list (cid * list stmt);    (* script files, sorted by context *)
  s_next : gen;
  s_inc : cid -> N                     (* current incarnation of each context = value of s_next when it was (re)loaded *)
}.
Definition init_st : st :=
  {| s_cnt := fun _ => 0%N; s_owner := fun _ => None; s_reg := fun _ => None; s_funcs := []; s_files := []; s_next := 1%N; s_inc := fun _ => 0%N |}.

Definition upd {A} (m : key -> A) (k : key) (v : A) : key -> A := fun x => if N.eqb x k then v else m x.
Definition memN (k : N) (l : list N) : bool := existsb (N.eqb k) l.
Fixpoint nodupN (l : list N) : list N :=
  match l with [] => [] | x :: r => x :: filter (fun y => negb (N.eqb y x)) (nodupN r) end.
(* first occurrences, in order: `if srv_name in self.trigger_service: continue` skips the later ones *)

Definition cmpN (c : cmpop) (a b : N) : bool :=
  match c with
  | CmpLe => (a <=? b)%N | CmpLt => (a <? b)%N | CmpGe => (b <=? a)%N | CmpGt => (b <? a)%N
  | CmpEq => (a =? b)%N | CmpNe => negb (a =? b)%N
  end.

Definition set_cnt (s : st) f := mk_st f (s_owner s) (s_reg s) (s_funcs s) (s_files s) (s_next s) (s_inc s).
Definition set_owner (s : st) f := mk_st (s_cnt s) f (s_reg s) (s_funcs s) (s_files s) (s_next s) (s_inc s).
Definition set_reg (s : st) f := mk_st (s_cnt s) (s_owner s) f (s_funcs s) (s_files s) (s_next s) (s_inc s).
Definition set_funcs (s : st) f := mk_st (s_cnt s) (s_owner s) (s_reg s) f (s_files s) (s_next s) (s_inc s).
Definition set_files (s : st) f := mk_st (s_cnt s) (s_owner s) (s_reg s) (s_funcs s) f (s_next s) (s_inc s).
Definition set_next (s : st) n := mk_st (s_cnt s) (s_owner s) (s_reg s) (s_funcs s) (s_files s) n (s_inc s).
Definition set_inc (s : st) (c : cid) (i : N) := mk_st (s_cnt s) (s_owner s) (s_reg s) (s_funcs s) (s_files s) (s_next s) (fun x => if N.eqb x c then i else s_inc s x).

(* ---------- function.py service_register ----------
     if key not in service_cnt: service_cnt[key] = 0
     if key not in service2global_ctx: service2global_ctx[key] = ctx
     if service2global_ctx[key] != ctx: raise ValueError
     service_cnt[key] += 1;  hass.services.async_register(domain, service, callback, ...)               *)
Definition register (s : st) (c : cid) (k : key) (h : hinfo) : st * bool :=
  let own := match s_owner s k with Some o => o | None => c end in
  let s1 := set_owner s (upd (s_owner s) k (Some own)) in
  if cmpN reg_owner_cmp own c
  then ((if reg_check_before_inc then s1 else set_cnt s1 (upd (s_cnt s1) k (s_cnt s1 k + reg_inc)%N)), false)
  else (set_reg (set_cnt s1 (upd (s_cnt s1) k (s_cnt s1 k + reg_inc)%N)) (upd (s_reg s1) k (Some h)), true).

(* ---------- function.py service_remove (the context argument is ignored by the code) ----------
     if service_cnt.get(key, 0) > 1: service_cnt[key] -= 1; return
     service_cnt[key] = 0;  hass.services.async_remove(domain, service);  service2global_ctx.pop(key, None)   *)
Definition remove (s : st) (k : key) : st :=
  if cmpN rm_cmp (s_cnt s k) rm_thresh
  then set_cnt s (upd (s_cnt s) k (s_cnt s k - rm_dec)%N)
  else
    let s1 := set_reg (set_cnt s (upd (s_cnt s) k rm_reset)) (upd (s_reg s) k None) in
    if rm_pops_owner then set_owner s1 (upd (s_owner s1) k None) else s1.

(* conformant behaviour (D21 off): when a declaration goes away and others remain, the handler becomes the most
   recent remaining live declaration *)
Definition holds (k : key) (r : frec) : bool := memN k (f_held r).
Definition holders (s : st) (k : key) : list frec := filter (holds k) (s_funcs s).
Definition later (a : option frec) (r : frec) : option frec :=
  match a with None => Some r | Some x => if (f_gen x <? f_gen r)%N then Some r else Some x end.
Definition latest (l : list frec) : option frec := fold_left later l None.
Definition refresh (s : st) (k : key) : st :=
  match s_reg s k, latest (holders s k) with
  | Some _, Some r => set_reg s (upd (s_reg s) k (Some (f_gen r, f_sr r)))
  | _, _ => s
  end.
Definition upd_rec (g : gen) (f : frec -> frec) (l : list frec) : list frec :=
  map (fun r => if N.eqb (f_gen r) g then f r else r) l.
Definition with_held (h : list key) (r : frec) :=
  mk_frec (f_ctx r) (f_name r) (f_gen r) (f_sr r) (f_decl r) h (f_bound r) (f_tracked r) (f_pending r) (f_inc r) (f_own r) (f_stk r).
Definition with_bound (b : bool) (r : frec) :=
  mk_frec (f_ctx r) (f_name r) (f_gen r) (f_sr r) (f_decl r) (f_held r) b (f_tracked r) (f_pending r) (f_inc r) (f_own r) (f_stk r).
Definition with_tracked (b : bool) (r : frec) :=
  mk_frec (f_ctx r) (f_name r) (f_gen r) (f_sr r) (f_decl r) (f_held r) (f_bound r) b (f_pending r) (f_inc r) (f_own r) (f_stk r).
Definition with_pending (b : bool) (r : frec) :=
  mk_frec (f_ctx r) (f_name r) (f_gen r) (f_sr r) (f_decl r) (f_held r) (f_bound r) (f_tracked r) b (f_inc r) (f_own r) (f_stk r).

(* trigger_stop (legacy: `for srv_name in self.trigger_service` — a set) / ServiceDecorator.stop:
   the function object gives up everything it holds *)
Definition release (cfg : deviations) (legacy : bool) (s : st) (r : frec) : st :=
  let ks := if legacy && d_dup_set cfg then nodupN (f_held r) else f_held r in
  let s1 := set_funcs s (upd_rec (f_gen r) (with_held []) (s_funcs s)) in
  let s2 := fold_left remove ks s1 in
  if d_stale_handler cfg then s2 else fold_left refresh ks s2.

(* the registration loop of trigger_init / decorator start.  [abort]: stop at the first rejected name (D120) *)
Fixpoint reg_loop (abort : bool) (c : cid) (h : hinfo) (ks : list key) (s : st) (held : list key)
  : st * list key * bool :=
  match ks with
  | [] => (s, held, true)
  | k :: r =>
      let '(s', ok) := register s c k h in
      if ok then reg_loop abort c h r s' (held ++ [k])
      else if abort then (s', held, false) else reg_loop abort c h r s' held
  end.

Definition find_bound (s : st) (c : cid) (f : fid) : option frec :=
  find (fun r => f_bound r && N.eqb (f_ctx r) c && N.eqb (f_name r) f) (s_funcs s).

(* the name stops referring to function object r (rebinding or `del`): legacy EvalFuncVar.__del__ -> trigger_stop;
   new: weakref.finalize -> dm.stop() only if the manager is RUNNING *)
Definition unbind (cfg : deviations) (legacy : bool) (s : st) (r : frec) : st :=
  let s1 := set_funcs s (upd_rec (f_gen r) (with_bound false) (s_funcs s)) in
  if legacy then release cfg legacy s1 r
  else if f_pending r
       then (if d_pending_zombie cfg then s1 else set_funcs s1 (upd_rec (f_gen r) (with_pending false) (s_funcs s1)))
       else release cfg legacy s1 r.

(* function object r (already in s_funcs, holding nothing) registers everything it declares:
   legacy trigger_init's service loop / ServiceDecorator.start.  A legacy function whose loop was aborted (D120) is not
   recorded in its context (trigger_register is never reached) *)
Definition commit (abort : bool) (s : st) (r : frec) : st :=
  let '(s', held, ok) := reg_loop abort (f_own r) (f_gen r, f_sr r) (f_decl r) s [] in
  set_funcs s' (upd_rec (f_gen r) (fun x => with_tracked ok (with_pending false (with_held held x))) (s_funcs s')).

(* DecoratorManager.start() of a function with several @service decorators: they start one after the other; the first one that is
   refused raises, the ones already started are stopped again and the manager is INVALID (D125) *)
Definition commit_rb (cfg : deviations) (legacy : bool) (s : st) (r : frec) : st :=
  let '(s', held, ok) := reg_loop true (f_own r) (f_gen r, f_sr r) (f_decl r) s [] in
  let s1 := set_funcs s' (upd_rec (f_gen r) (fun x => with_pending false (with_held held x)) (s_funcs s')) in
  if ok then s1 else release cfg legacy s1 (with_held held r).
Definition commit_new (cfg : deviations) (legacy : bool) (s : st) (r : frec) : st :=
  if d_stack_rollback cfg && f_stk r then commit_rb cfg legacy s r else commit false s r.

(* ast_functiondef for a function decorated with @service.  [started]: the context's auto_start flag.
   Order in the code: the new function object registers (trigger_init / dm.start()), then the name is rebound and the
   previous object is finalised: register-before-remove *)
Definition do_def (cfg : deviations) (legacy started rt stk : bool) (c : cid) (f : fid) (decl : list key) (d : srd) (s : st) : st :=
  let g := s_next s in
  let m := eff_sr legacy d in
  let s0 := set_next s (g + 1)%N in
  let old := find_bound s0 c f in
  let invalid := negb legacy && negb stk && d_no_alias cfg && (1 <? N.of_nat (length decl))%N in   (* vol.Length(max=1): manager INVALID *)
  let pend := negb legacy && negb invalid && negb started in
  (* D26 on: every occurrence of a repeated name is registered; conformant: a name is registered once *)
  let decl' := if d_dup_set cfg then decl else nodupN decl in
  (* ServiceDecorator.start registers under self.dm.ast_ctx.name: for a run-time definition that is the AstEval of the
     running function (one maker function per definition in the generated scripts: owner id 1000 + generation) *)
  let own := if rt && negb legacy && d_rt_owner cfg then (1000 + g)%N else c in
  let nr := mk_frec c f g m decl' [] true (negb invalid) pend (s_inc s c) own stk in
  let s1 := set_funcs s0 (s_funcs s0 ++ [nr]) in
  let s2 := if legacy then commit (d_alias_abort cfg) s1 nr
            else if invalid || pend then s1 else commit_new cfg legacy s1 nr in
  match old with Some r => unbind cfg legacy s2 r | None => s2 end.

Definition do_del (cfg : deviations) (legacy : bool) (c : cid) (f : fid) (s : st) : st :=
  match find_bound s c f with Some r => unbind cfg legacy s r | None => s end.
  (* `del` of an unbound name raises NameError in the script; generated cases never do that *)

Definition run_stmt (cfg : deviations) (legacy started : bool) (c : cid) (s : st) (x : stmt) : st :=
  match x with
  | SDef f decl d => do_def cfg legacy started false false c f decl d s
  | SDefRt f decl d => do_def cfg legacy started true false c f decl d s
  | SDefSt f decl d => do_def cfg legacy started false true c f decl d s
  | SDel f => do_del cfg legacy c f s
  end.
Definition run_body (cfg : deviations) (legacy started : bool) (c : cid) (b : list stmt) (s : st) : st :=
  fold_left (run_stmt cfg legacy started c) b s.

(* global_ctx.start(): `for dm in self.dms_delay_start: create_task(dm.start())` *)
Definition start_one (cfg : deviations) (s : st) (g : gen) : st :=
  match find (fun r => N.eqb (f_gen r) g) (s_funcs s) with
  | Some r => if f_pending r then commit_new cfg false s r else s
  | None => s
  end.
Definition pending_gens (s : st) (c : cid) : list gen :=
  map f_gen (filter (fun r => f_pending r && N.eqb (f_ctx r) c) (s_funcs s)).
Definition start_order (cfg : deviations) (oracle pend : list gen) : list gen :=
  if d_start_order cfg
  then filter (fun g => memN g pend) oracle ++ filter (fun g => negb (memN g oracle)) pend
  else pend.
(* What the code does (D127 on): the start() coroutines of all delayed managers are tasks created one after the other; each
   runs until its first suspension (`await State.get_service_params()` after a decorator has registered its name) and they
   are then resumed round-robin.  A manager with several stacked @service decorators therefore registers one name per round,
   interleaved with the other managers of the batch.  [todo]: per manager the names still to be registered. *)
Definition with_held_started (h : list key) (r : frec) : frec := with_pending false (with_held h r).
Definition dm_step (cfg : deviations) (s : st) (g : gen) (ks : list key) : st * list (gen * list key) :=
  match find (fun r => N.eqb (f_gen r) g) (s_funcs s) with
  | None => (s, [])
  | Some r =>
      if f_stk r then
        match ks with
        | [] => (s, [])
        | k :: rest =>
            let '(s1, ok) := register s (f_own r) k (g, f_sr r) in
            if ok then (set_funcs s1 (upd_rec g (with_held_started (f_held r ++ [k])) (s_funcs s1)),
                        match rest with [] => [] | _ => [(g, rest)] end)
            else if d_stack_rollback cfg
                 then (release cfg false (set_funcs s1 (upd_rec g (with_pending false) (s_funcs s1))) r, [])
                 else (set_funcs s1 (upd_rec g (with_pending false) (s_funcs s1)), match rest with [] => [] | _ => [(g, rest)] end)
        end
      else ((if f_pending r then commit false s r else s), [])     (* one decorator: all its names in one go *)
  end.
Definition round (cfg : deviations) (s : st) (todo : list (gen * list key)) : st * list (gen * list key) :=
  fold_left (fun acc gk => let '(s1, more) := dm_step cfg (fst acc) (fst gk) (snd gk) in (s1, snd acc ++ more)) todo (s, []).
Fixpoint rounds (fuel : nat) (cfg : deviations) (s : st) (todo : list (gen * list key)) : st :=
  match fuel with
  | O => s
  | S fuel' => match todo with [] => s | _ => let '(s1, todo') := round cfg s todo in rounds fuel' cfg s1 todo' end
  end.
Definition batch_of (s : st) (gs : list gen) : list (gen * list key) :=
  concat (map (fun g => match find (fun r => N.eqb (f_gen r) g) (s_funcs s) with
                        | Some r => if f_pending r then [(g, f_decl r)] else []
                        | None => [] end) gs).
Definition batch_fuel (b : list (gen * list key)) : nat := S (length (concat (map snd b))) + length b.
Definition start_batch (cfg : deviations) (s : st) (gs : list gen) : st :=
  let b := batch_of s gs in rounds (batch_fuel b) cfg s b.

Definition start_ctx (cfg : deviations) (oracle : list gen) (s : st) (c : cid) : st :=
  if d_interleave cfg then start_batch cfg s (start_order cfg oracle (pending_gens s c))
  else fold_left (start_one cfg) (start_order cfg oracle (pending_gens s c)) s.
Definition start_all (cfg : deviations) (oracle : list gen) (s : st) (cs : list cid) : st :=
  if d_interleave cfg then start_batch cfg s (concat (map (fun c => start_order cfg oracle (pending_gens s c)) cs))
  else fold_left (start_ctx cfg oracle) cs s.

(* global_ctx.stop() followed by GlobalContextMgr.delete.  Function objects recorded in the context (ctx.triggers / ctx.dms)
   release what they hold and are forgotten.  A legacy function that is NOT recorded (D120) keeps its holdings: nothing
   refers to it any more except HA's registry (through the handlers it registered), so it lives on as garbage-to-be,
   unbound, until the garbage collector finds it (see [gc]) *)
Definition stop_step (cfg : deviations) (legacy : bool) (s : st) (r : frec) : st :=
  if f_tracked r then release cfg legacy s r else s.
Definition nonempty (l : list key) : bool := match l with [] => false | _ => true end.
(* a released function whose handler was left in HA's registry (D21/D26) is still called by HA *)
Definition is_handler (s : st) (r : frec) : bool :=
  existsb (fun k => match s_reg s k with Some (g, _) => N.eqb g (f_gen r) | None => false end) (f_decl r).
Definition stop_ctx (cfg : deviations) (legacy : bool) (s : st) (c : cid) : st :=
  let recs := filter (fun r => N.eqb (f_ctx r) c) (s_funcs s) in
  let s1 := fold_left (stop_step cfg legacy) recs s in
  let keep r := negb (N.eqb (f_ctx r) c) || nonempty (f_held r) || is_handler s1 r in
  set_funcs s1 (map (fun r => if N.eqb (f_ctx r) c then with_bound false r else r) (filter keep (s_funcs s1))).

(* function objects that can never act again are forgotten *)
Definition inert (r : frec) : bool := negb (f_bound r) && negb (f_pending r) && match f_held r with [] => true | _ => false end.
(* ... unless HA still calls them: such a function keeps its whole context incarnation reachable *)
Definition prune (s : st) : st := set_funcs s (filter (fun r => negb (inert r) || is_handler s r) (s_funcs s)).

(* Python's cyclic garbage collector: an unrecorded function object of a stopped context incarnation that still holds names is
   unreachable as soon as no handler registered by any function object of that incarnation is HA's current handler of a
   name (handler -> EvalFunc -> GlobalContext -> symbol table -> every function of the incarnation); collecting it runs
   EvalFuncVar.__del__ ->
   trigger_stop, which releases its holdings.  The driver collects (three times) after every operation, so does the Model;
   one pass = one gc.collect(): the unreachable set is determined first, then every member is finalised *)
Definition inc_alive (s : st) (i : N) : bool :=
  existsb (fun r => N.eqb (f_inc r) i && is_handler s r) (s_funcs s).
Definition collectable (s : st) (r : frec) : bool :=
  negb (f_bound r) && negb (f_tracked r) && nonempty (f_held r) && negb (inc_alive s (f_inc r)).
Definition gc_pass (cfg : deviations) (legacy : bool) (s : st) : st :=
  fold_left (release cfg legacy) (filter (collectable s) (s_funcs s)) s.
Definition gc (cfg : deviations) (legacy : bool) (s : st) : st :=
  gc_pass cfg legacy (gc_pass cfg legacy (gc_pass cfg legacy s)).

Fixpoint file_set (c : cid) (b : list stmt) (l : list (cid * list stmt)) : list (cid * list stmt) :=
  match l with
  | [] => [(c, b)]
  | (c', b') :: r => if (c <? c')%N then (c, b) :: l else if N.eqb c c' then (c, b) :: r else (c', b') :: file_set c b r
  end.
Definition file_del (c : cid) (l : list (cid * list stmt)) := filter (fun p => negb (N.eqb (fst p) c)) l.
Definition loaded (s : st) (c : cid) : bool := existsb (fun p => N.eqb (fst p) c) (s_files s).

Definition run_op (cfg : deviations) (legacy : bool) (s : st) (o : op) : st :=
  prune (gc cfg legacy
  match o with
  | OExec c b => if loaded s c then run_body cfg legacy true c b s else s
  | OLoad c b oracle =>
      let s1 := if loaded s c then stop_ctx cfg legacy s c else s in
      let s2 := set_files s1 (file_set c b (s_files s1)) in
      let s3 := run_body cfg legacy false c b (set_inc s2 c (s_next s2)) in
      if legacy then s3 else start_ctx cfg oracle s3 c
  | OUnload c =>
      if loaded s c then let s1 := stop_ctx cfg legacy s c in set_files s1 (file_del c (s_files s1)) else s
  | OReloadAll w oracle =>
      let s1 := fold_left (stop_ctx cfg legacy) (map fst (s_files s)) s in
      let s2 := set_files s1 (fold_left (fun l p => file_set (fst p) (snd p) l) w (s_files s1)) in
      let s3 := fold_left (fun s p => run_body cfg legacy false (fst p) (snd p) (set_inc s (fst p) (s_next s))) (s_files s2) s2 in
      if legacy then s3 else start_all cfg oracle s3 (map fst (s_files s3))
  end).

Definition run_ops (cfg : deviations) (legacy : bool) (ops : list op) (s : st) : st :=
  fold_left (run_op cfg legacy) ops s.

(* states after each operation *)
Fixpoint run_trace (cfg : deviations) (legacy : bool) (ops : list op) (s : st) : list st :=
  match ops with
  | [] => []
  | o :: r => let s' := run_op cfg legacy s o in s' :: run_trace cfg legacy r s'
  end.

(* ---------- incoming calls (HA's async_call + the pyscript service handler) ---------- *)
Definition kwargs := list (N * Z).        (* keyword id -> value; id 0 is trigger_type, value 0 is 'service' *)
Inductive outc :=
  | OcNone                                          (* service not registered: not called *)
  | OcErr                                           (* HA rejected the call before running anything *)
  | OcRun (g : gen) (kw : kwargs) (ret : option gen).   (* generation g ran with kw; ret = generation in the returned response *)

(* func_args = {"trigger_type": "service", "context": call.context}; func_args.update(call.data) *)
Definition call_kwargs (data : kwargs) : kwargs := (0%N, 0%Z) :: data.

Definition model_call (s : st) (k : key) (data : kwargs) (resp : bool) : outc :=
  match s_reg s k with
  | None => OcNone
  | Some (g, m) =>
      match m, resp with
      | SrNone, true => OcErr                       (* service_does_not_support_response *)
      | SrOnly, false => OcErr                      (* service_lacks_response_request *)
      | _, _ => OcRun g (call_kwargs data) (if resp then Some g else None)
      end
  end.
