(* Life/ReloadPlanSpec.v — the reload plan stated declaratively (sets defined by comprehension over the loaded
   contexts, the discovered files and the recorded import relation), for the conformant model.  This is the
   "discarded = changed U importers*(changed modules) U package mates" clause of the property at the level of
   (ctx_all, ctx2files, argument).  Definitions only; the theorem relating it to [plan] is Proofs/LifePlan.v. *)
From PV Require Import Common.Util Life.ReloadBase Gen.ReloadConsts Life.Modules Life.Reload.

(* recorded import relation of the loaded contexts *)
Definition edge (st : state) (a b : cname) : Prop := exists c, st_get st a = Some c /\ In b (c_imports c).
Inductive reach_plus (st : state) : cname -> cname -> Prop :=
  | rp_one a b : edge st a b -> reach_plus st a b
  | rp_step a b c : edge st a b -> reach_plus st b c -> reach_plus st a c.
Definition acyclic (st : state) : Prop :=
  exists rank : cname -> nat, forall a b, edge st a b -> (rank b < rank a)%nat.

Section PlanSpec.
  Variable st : state.
  Variable fs : list sfile.       (* ctx2files as discovered: every force flag still false *)
  Variable a : rarg.

  Definition loaded (n : cname) : Prop := In n (map c_name (ctx_all st)).
  Definition on_disk (n : cname) : Prop := sf_has fs n = true.

  (* step 1: what is considered changed, and which discovered files are (re)loaded for that reason *)
  Definition Changed (n : cname) : Prop :=
    match a with
    | RNone => loaded n /\ (~ on_disk n \/
                 exists c s, In c (ctx_all st) /\ c_name c = n /\ sf_find fs n = Some s /\ changed all_off s c = true)
    | RAll => loaded n
    | RName m => n = m /\ ~ on_disk m
    end.
  Definition Forced0 (n : cname) : Prop :=
    match a with
    | RNone => exists s, sf_find fs n = Some s /\
                 ((exists c, In c (ctx_all st) /\ c_name c = n /\ changed all_off s c = true)
                  \/ (~ loaded n /\ sf_auto s = true))
    | RAll => on_disk n
    | RName m => n = m /\ on_disk m
    end.

  (* changed module roots, and the contexts that import one of them directly or transitively *)
  Definition ChangedModRoot (r : cname) : Prop :=
    exists n, under_roots wr_roots n = true /\ root2 n = r /\ (Changed n \/ Forced0 n).
  Definition Importer (n : cname) : Prop :=
    loaded n /\ exists d, reach_plus st n d /\ ChangedModRoot (root2 d).

  Definition Discard1 (n : cname) : Prop := Changed n \/ Importer n.
  Definition Forced1 (n : cname) : Prop := Forced0 n \/ (Importer n /\ on_disk n).

  (* apps and module packages that contain something discarded or (re)loaded *)
  Definition WidenRoot (r : cname) : Prop :=
    exists n, under_roots widen_roots n = true /\ root2 n = r /\ (Forced1 n \/ (Discard1 n /\ ~ on_disk n)).
  Definition InWidened (n : cname) : Prop := exists r, WidenRoot r /\ prefix_of r n = true.

  (* the plan *)
  Definition Discard (n : cname) : Prop := Discard1 n \/ (InWidened n /\ (on_disk n \/ loaded n)).
  Definition is_root_file (s : sfile) : bool :=
    nl_eqb (sf_path s) (root2 (sf_name s) ++ [s_init]) || nl_eqb (sf_path s) (root2 (sf_name s)).
  Definition Forced (s : sfile) : Prop :=
    (InWidened (sf_name s) /\ is_root_file s = true) \/ (~ InWidened (sf_name s) /\ Forced1 (sf_name s)).
End PlanSpec.

(* the discovered files with other force flags *)
Definition same_files (fs fs' : list sfile) : Prop := Forall2 (fun s s' => exists b, s' = sf_set_force b s) fs fs'.

(* hypotheses of the plan theorem *)
Definition fresh (fs : list sfile) : Prop := forall s, In s fs -> sf_force s = false.
Definition uniq_files (fs : list sfile) : Prop := NoDup (map sf_name fs).
Definition uniq_ctx (st : state) : Prop := NoDup (map c_name st).
