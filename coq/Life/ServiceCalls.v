(* Life/ServiceCalls.v — executable model of outgoing service calls made from scripts (C12, last sentence).

     function.py  Function.service_call (l.323)                          -> site SiteCall    service.call(domain, name, k=v...)
     function.py  Function.get / service_call_factory (l.393)            -> site SiteName    domain.name(k=v...)
     state.py     State.get / service_call_factory (l.343)               -> site SiteEntity  domain.entity.name(args..., k=v...)
     function.py  Function.hass_services_async_call (l.417)              -> [helper]
     homeassistant ServiceRegistry.async_call (environment)              -> [ha_call]

   The three control-keyword tables come from Gen/ServiceConsts.v (regenerated from the source on every run).
   Keyword ids: 1 context, 2 blocking, 3 return_response, 4 limit, 5 entity_id, 30.. parameters of the target service,
   others free.  Type codes: 1 Context, 2 bool, 3 float, 4 int, 5 str, 6 None, 7 other.  No proofs here. *)
From PV Require Import Common.Util Gen.ServiceConsts Life.Services.

Inductive site := SiteCall | SiteName | SiteEntity.

Record kwarg := mk_kw { kw_key : N; kw_ty : N; kw_val : Z }.

Definition table (s : site) : list (N * list N * bool) :=
  match s with SiteCall => hass_args_call | SiteName => hass_args_name | SiteEntity => hass_args_entity end.

Definition kw_find (k : N) (l : list kwarg) : option kwarg := find (fun x => N.eqb (kw_key x) k) l.
Definition kw_drop (k : N) (l : list kwarg) : list kwarg := filter (fun x => negb (N.eqb (kw_key x) k)) l.

(* one control argument handed to hass.services.async_call: a keyword given by the script, or the default context *)
Inductive harg := HGiven (k : kwarg) | HDefault (key : N).
Definition harg_key (h : harg) : N := match h with HGiven k => kw_key k | HDefault k => k end.

(*  for keyword, typ, default in TABLE:
        if keyword in kwargs and type(kwargs[keyword]) in typ:  hass_args[keyword] = kwargs.pop(keyword)
        elif default:                                           hass_args[keyword] = default               *)
Fixpoint split_loop (tbl : list (N * list N * bool)) (task_ctx : bool) (kws : list kwarg) (hargs : list harg)
  : list kwarg * list harg :=
  match tbl with
  | [] => (kws, hargs)
  | (k, tys, has_default) :: r =>
      match kw_find k kws with
      | Some x =>
          if memN (kw_ty x) tys then split_loop r task_ctx (kw_drop k kws) (hargs ++ [HGiven x])
          else if has_default && task_ctx then split_loop r task_ctx kws (hargs ++ [HDefault k])
          else split_loop r task_ctx kws hargs
      | None =>
          if has_default && task_ctx then split_loop r task_ctx kws (hargs ++ [HDefault k])
          else split_loop r task_ctx kws hargs
      end
  end.
Definition split (s : site) (task_ctx : bool) (kws : list kwarg) := split_loop (table s) task_ctx kws [].

Definition harg_find (k : N) (l : list harg) : option harg := find (fun h => N.eqb (harg_key h) k) l.
Definition harg_true (h : option harg) : bool :=
  match h with Some (HGiven x) => negb (Z.eqb (kw_val x) 0) | _ => false end.
Definition given_bool (k : N) (b : bool) : harg := HGiven (mk_kw k 2 (if b then 1 else 0)%Z).

(* hass_services_async_call:
     if return_response given and true and blocking not given:  blocking = True
     elif return_response not given and hass.services.supports_response(d, s) == SupportsResponse.ONLY:
          return_response = True (blocking = True if not given)
   [honly] is the outcome of that `==` test.  It is not the same as the mode HA's async_call validates with `is`: a legacy
   @service(supports_response="only") function is registered with the *string* "only", which equals the enum member (StrEnum)
   but is not identical to it — for such a target honly = true while HA treats it like OPTIONAL *)
Definition helper (honly : bool) (h : list harg) : list harg :=
  match harg_find 3 h with
  | Some rr =>
      if harg_true (Some rr) then
        match harg_find 2 h with None => h ++ [given_bool 2 true] | Some _ => h end
      else h
  | None =>
      if honly then
          let h1 := h ++ [given_bool 3 true] in
          match harg_find 2 h1 with None => h1 ++ [given_bool 2 true] | Some _ => h1 end
      else h
  end.

Inductive oresult :=
  | ODelivered (data : list kwarg) (rr : bool)      (* the target's handler ran with this data; call.return_response *)
  | OTypeError                                      (* TypeError raised in pyscript's call path *)
  | OValidation                                     (* HA refused the call (ServiceValidationError) *)
  | OOther.                                         (* anything else (never produced by the Model) *)

(* HomeAssistant 2025.1 ServiceRegistry.async_call(domain, service, data, blocking=False, context=None, target=None,
   return_response=False): no `limit` parameter *)
Definition ha_call (cfg : deviations) (target : srm) (data : list kwarg) (h : list harg) : oresult :=
  let h := if d_limit_kw cfg then h else filter (fun x => negb (N.eqb (harg_key x) 4)) h in
  match harg_find 4 h with
  | Some _ => OTypeError
  | None =>
      let rr := harg_true (harg_find 3 h) in
      let blocking := harg_true (harg_find 2 h) in
      if rr then
        if negb blocking then OValidation
        else match target with SrNone => OValidation | _ => ODelivered data true end
      else match target with SrOnly => OValidation | _ => ODelivered data false end
  end.

Fixpoint kw_insert (x : kwarg) (l : list kwarg) : list kwarg :=
  match l with
  | [] => [x]
  | y :: r => if (kw_key x <=? kw_key y)%N then x :: l else y :: kw_insert x r
  end.
Definition kw_sort (l : list kwarg) : list kwarg := fold_right kw_insert [] l.

Definition entity_kw : kwarg := mk_kw 5 5 1.               (* kwargs["entity_id"] = "domain.entity" *)
Definition param_kw (j : N) : kwarg := mk_kw (30 + j) 4 (100 + Z.of_N j).   (* positional argument j, an int *)

(* what the script gets back: the target's response iff the call was made with return_response *)
Definition script_ret (r : oresult) : option bool := match r with ODelivered _ rr => Some rr | _ => None end.

(* one outgoing call: [nargs] positional arguments, [nparams] parameters of the target service besides entity_id *)
Definition outgoing (cfg : deviations) (s : site) (task_ctx : bool) (target : srm) (honly : bool) (nargs nparams : N) (kws : list kwarg)
  : oresult :=
  let '(data, h) := split s task_ctx kws in
  match s with
  | SiteCall => ha_call cfg target (kw_sort data) (helper honly h)
  | SiteName =>
      if negb (N.eqb nargs 0) then OTypeError          (* "takes only keyword arguments" *)
      else ha_call cfg target (kw_sort data) (helper honly h)
  | SiteEntity =>
      let data1 := kw_drop 5 data ++ [entity_kw] in
      if N.eqb nargs 1 && N.eqb nparams 1 then
        ha_call cfg target (kw_sort (kw_drop 30 data1 ++ [param_kw 0])) (if entity_via_helper then helper honly h else h)
      else if negb (N.eqb nargs 0) then OTypeError     (* "takes no positional arguments" *)
      else ha_call cfg target (kw_sort data1) (if entity_via_helper then helper honly h else h)
  end.

(* ---------- Spec: the data that must arrive = given keywords minus recognised control keywords ---------- *)
Definition recognised (s : site) (x : kwarg) : bool :=
  existsb (fun '(k, tys, _) => N.eqb k (kw_key x) && memN (kw_ty x) tys) (table s).
Definition expected_data (s : site) (nargs nparams : N) (kws : list kwarg) : list kwarg :=
  let d := filter (fun x => negb (recognised s x)) kws in
  match s with
  | SiteEntity =>
      let d1 := kw_drop 5 d ++ [entity_kw] in
      kw_sort (if N.eqb nargs 1 && N.eqb nparams 1 then kw_drop 30 d1 ++ [param_kw 0] else d1)
  | _ => kw_sort d
  end.
(* positional arguments the call form does not accept are the script's error *)
Definition args_misuse (s : site) (nargs nparams : N) : bool :=
  match s with
  | SiteCall => false
  | SiteName => negb (N.eqb nargs 0)
  | SiteEntity => negb (N.eqb nargs 0) && negb (N.eqb nargs 1 && N.eqb nparams 1)
  end.

(* would HA refuse the call exactly as the script wrote it (its own control keywords, nothing added)? *)
Definition direct_rejects (s : site) (target : srm) (kws : list kwarg) : bool :=
  let given k := match kw_find k kws with Some x => recognised s x && negb (Z.eqb (kw_val x) 0) | None => false end in
  let rr := given 3%N in
  if rr then negb (given 2%N) || match target with SrNone => true | _ => false end
  else match target with SrOnly => true | _ => false end.

