(* Life/ServicesMid.v — C12: a context is stopped (or something else happens) while the start-ups of its delayed decorator
   managers are suspended between two decorators (default subsystem).  Built from the primitives of Services.v; the
   operation grammar of Services.v is unchanged.

     held load of context c   = OLoad c b, but only the FIRST turn of every manager's start() has run (each registered its first
                                name and waits in `await State.get_service_params()`)
     interrupting operation   = any operation of Services.v, executed while they wait.  If it stops context c, every waiting
                                manager is stopped: DecoratorManager.stop() calls stop() on ALL its decorators — also those
                                that never started — and ServiceDecorator.stop() -> Function.service_remove ignores who owns
                                the name (D126); update_status(STOPPED) empties the decorator list, which ends the suspended
                                start() loop
     release                  = the remaining turns run
   No proofs here. *)
From PV Require Import Common.Util Gen.ServiceConsts Life.Services.

Definition mid := list (gen * list key).       (* waiting managers: generation, names not yet registered *)

Definition held_load (cfg : deviations) (s : st) (c : cid) (b : list stmt) (oracle : list gen) : st * mid :=
  let s1 := if loaded s c then stop_ctx cfg false s c else s in
  let s2 := set_files s1 (file_set c b (s_files s1)) in
  let s3 := run_body cfg false false c b (set_inc s2 c (s_next s2)) in
  let gs := start_order cfg oracle (pending_gens s3 c) in
  if d_interleave cfg then
    let '(s4, todo) := round cfg s3 (batch_of s3 gs) in (prune (gc cfg false s4), todo)
  else (prune (gc cfg false (fold_left (start_one cfg) gs s3)), []).

Definition ctx_of_gen (s : st) (g : gen) : option cid :=
  option_map f_ctx (find (fun r => N.eqb (f_gen r) g) (s_funcs s)).

(* which contexts an operation stops *)
Definition stops (s : st) (o : op) (c : cid) : bool :=
  match o with
  | OExec _ _ => false
  | OLoad c' _ _ => N.eqb c' c && loaded s c
  | OUnload c' => N.eqb c' c && loaded s c
  | OReloadAll _ _ => loaded s c
  end.

Definition interrupt (cfg : deviations) (s : st) (m : mid) (o : op) : st * mid :=
  let hit gk := match ctx_of_gen s (fst gk) with Some c => stops s o c | None => true end in
  let stopped := filter hit m in
  let s1 := if d_spurious_remove cfg then fold_left (fun s gk => fold_left remove (snd gk) s) stopped s else s in
  (run_op cfg false s1 o, filter (fun gk => negb (hit gk)) m).

Definition release_mid (cfg : deviations) (s : st) (m : mid) : st :=
  prune (gc cfg false (rounds (batch_fuel m) cfg s m)).
