(* Life/ReloadBase.v — identifiers, names, paths and glob patterns shared by the C10 models and by the
   generated Gen/ReloadConsts.v.  No proofs here.

   Names and path segments are [N] ids; the harness keeps the id <-> string table:
     0 "__init__"   1 "apps"   2 "file"   3 "modules"   4 "scripts"
     10..999  generic lower-case identifiers of one fixed width (so string order = numeric order)
     >= 1000  the same identifiers prefixed with '#'  ("commented" files / directories)            *)
From PV Require Import Common.Util.

Definition s_init : N := 0.
Definition s_apps : N := 1.
Definition s_file : N := 2.
Definition s_modules : N := 3.
Definition s_scripts : N := 4.
Definition hash_base : N := 1000.
Definition is_hash (s : N) : bool := (hash_base <=? s)%N.

Definition path := list N.     (* relative to <config>/pyscript; last segment = file stem (".py" implied) *)
Definition cname := list N.    (* dotted global-context name *)

Definition nl_eqb : list N -> list N -> bool := list_eqb N.eqb.

(* lexicographic order = Python's order on the dotted strings (fixed-width segments) *)
Fixpoint nl_ltb (a b : list N) : bool :=
  match a, b with
  | [], [] => false
  | [], _ :: _ => true
  | _ :: _, [] => false
  | x :: a', y :: b' => if (x <? y)%N then true else if (y <? x)%N then false else nl_ltb a' b'
  end.

Fixpoint prefix_of (p n : list N) : bool :=
  match p, n with
  | [], _ => true
  | _ :: _, [] => false
  | x :: p', y :: n' => (x =? y)%N && prefix_of p' n'
  end.

Definition nl_mem (n : list N) (l : list (list N)) : bool := existsb (nl_eqb n) l.
Definition nl_add (n : list N) (l : list (list N)) : list (list N) := if nl_mem n l then l else l ++ [n].
Definition nl_union (a b : list (list N)) : list (list N) := fold_left (fun acc x => nl_add x acc) b a.
Definition n_mem (x : N) (l : list N) : bool := existsb (N.eqb x) l.

(* "a/b/__init__".endswith("/__init__") *)
Definition ends_slash_init (p : path) : bool :=
  match rev p with
  | s :: _ :: _ => (s =? s_init)%N
  | _ => false
  end.
Definition strip_init (p : path) : path := if ends_slash_init p then removelast p else p.
Definition hashed (p : path) : bool := existsb is_hash p.

(* f"{parts[0]}.{parts[1]}" *)
Definition root2 (n : cname) : cname := firstn 2 n.
(* name.startswith("apps.") for a root id *)
Definition under_root (r : N) (n : cname) : bool :=
  match n with
  | x :: _ :: _ => (x =? r)%N
  | _ => false
  end.
Definition under_roots (rs : list N) (n : cname) : bool := existsb (fun r => under_root r n) rs.

(* ---------- glob patterns of load_paths ---------- *)
Inductive gseg := GStar | GStarStar | GStarPy | GInitPy.

(* suffixes of a path obtained by dropping 0.. leading directory segments, keeping at least the file *)
Fixpoint dir_suffixes (p : path) : list path :=
  match p with
  | [] => []
  | [s] => [[s]]
  | d :: p' => (d :: p') :: dir_suffixes p'
  end.

Fixpoint gmatch (pat : list gseg) (p : path) : bool :=
  match pat with
  | [] => match p with [] => true | _ => false end
  | GStarPy :: r => match p, r with [_], [] => true | _, _ => false end
  | GInitPy :: r => match p, r with [s], [] => (s =? s_init)%N | _, _ => false end
  | GStar :: r => match p with _ :: ((_ :: _) as p') => gmatch r p' | _ => false end
  | GStarStar :: r => existsb (gmatch r) (dir_suffixes p)
  end.

Record load_path := { lp_base : option N; lp_pat : list gseg; lp_check : bool; lp_auto : bool }.

Definition lp_match (lp : load_path) (p : path) : bool :=
  match lp_base lp with
  | None => gmatch (lp_pat lp) p
  | Some b => match p with b' :: r => (b' =? b)%N && gmatch (lp_pat lp) r | [] => false end
  end.

(* one candidate row of module_import's absolute branch:
   root, package form (.../__init__.py) or module form (.py), only when the importer's rel_import_path is below
   "apps/", and whether the loaded context gets a rel_import_path *)
Record mi_row := { mr_root : N; mr_pkg : bool; mr_gated : bool; mr_rel : bool }.

(* ---------- sorting by name (sorted(dict.items())) ---------- *)
Fixpoint insert_by {A} (key : A -> list N) (x : A) (l : list A) : list A :=
  match l with
  | [] => [x]
  | y :: r => if nl_ltb (key x) (key y) then x :: y :: r else y :: insert_by key x r
  end.
Definition sort_by {A} (key : A -> list N) (l : list A) : list A := fold_right (insert_by key) [] l.
