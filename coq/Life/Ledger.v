(* Life/Ledger.v — C09: the resource ledger of pyscript's triggers and its life-cycle operations.
   Executable model, NO proofs (proofs: Proofs/LifeLedger.v; property theorems: Properties/C09.v).

   What is mirrored (function by function):
     state.py      State.notify_add / State.notify_del        -> notify_add / notify_del
     event.py      Event.notify_add / Event.notify_del        -> ev_add / ev_del
     trigger.py    TrigInfo.start / subscription prologue of trigger_watch / TrigInfo.stop
                                                              -> leg_start / leg_prologue / leg_stop_*
     decorators/   state.py, event.py, timing.py, service.py start()/stop()  -> dec_start / dec_stop
     decorator_abc.py DecoratorManager.start/stop; decorator.py FunctionDecoratorManager (weakref.finalize)
                                                              -> dm_start / dm_stop / step ODropped
     eval.py       EvalFunc.trigger_init (registration part) / trigger_stop / EvalFuncVar.__del__
                                                              -> define / func_stop / step ODropped
     global_ctx.py GlobalContext.start/stop, GlobalContextMgr.delete, load_file -> ctx_start / ctx_stop
     __init__.py   unload_scripts(unload_all) + async_unload_entry -> unload
     function.py   reaper (cancel queue), create_task         -> l_reap / reap ; l_tasks

   Identifiers are numbers: entities, event types, function generations, unit ids.  A *unit* is one legacy
   TrigInfo (its notify queue and its trigger_watch task share the unit id) or one new-subsystem trigger
   decorator (its queue / listener / cycle task share the unit id).  Generations and unit ids come from one
   counter, so they are pairwise distinct and non-zero.

   NOT modelled (inputs instead): *when* the last reference to a function object disappears.  Reference
   counting, __del__ and weakref.finalize are the Python runtime; "the last reference was dropped" is the input
   event [ODropped g].  The iteration order of a Python set of watched names is an input as well: a unit carries
   its ident set as a *list* in iteration order, so hash-seed dependence is quantification over lists.
   A service name may be declared by several functions; the reference count, the refusal of a registration coming from
   another context and the handler a call reaches are modelled (svc_register / svc_remove / handler). *)
From Coq Require Import List NArith Bool.
From PV Require Import Common.Util Gen.LedgerConsts.
Import ListNotations.
Local Open Scope N_scope.

(* ---------------------------------------------------------------------------------------------- *)
(* deviation switches: on = what the code does today, all off = conformant                          *)
Record deviations := {
  d16_notify_del_return : bool;   (* D16 State.notify_del: `return` instead of `continue` when the entity/queue is already gone *)
  d90_dropped_dm_started : bool;  (* D90 new subsystem: a function dropped while its manager is not started yet is started anyway *)
  d91_pending_subscribes : bool;  (* D91 legacy: a trigger stopped before its task ran still runs its prologue, then is cancelled without unsubscribing *)
  d21_handler_stays : bool;       (* D21 a service shared by several live functions keeps the handler registered last, even when that function is removed *)
  d92_cell_import_not_started : bool; (* D92 a module imported inside a Jupyter cell is loaded with auto_start off and never started *)
  d93_fault_pins_function : bool  (* D93 new subsystem: a startup dispatch that raises during an inline start pins the function object: dropping it stops nothing *)
}.
Definition cfg_off : deviations :=
  {| d16_notify_del_return := false; d90_dropped_dm_started := false; d91_pending_subscribes := false; d21_handler_stays := false;
     d92_cell_import_not_started := false; d93_fault_pins_function := false |}.
Definition all_off (c : deviations) : Prop :=
  d16_notify_del_return c = false /\ d90_dropped_dm_started c = false /\ d91_pending_subscribes c = false /\
  d21_handler_stays c = false /\ d92_cell_import_not_started c = false /\ d93_fault_pins_function c = false.

(* ---------------------------------------------------------------------------------------------- *)
(* small list helpers                                                                              *)
Definition pair_eqb (a b : N * N) : bool := N.eqb (fst a) (fst b) && N.eqb (snd a) (snd b).
Definition memp (p : N * N) (l : list (N * N)) : bool := existsb (pair_eqb p) l.
Definition delp (p : N * N) (l : list (N * N)) : list (N * N) := filter (fun x => negb (pair_eqb p x)) l.
Definition addp (p : N * N) (l : list (N * N)) : list (N * N) := if memp p l then l else l ++ [p].
Definition memn (x : N) (l : list N) : bool := existsb (N.eqb x) l.
Definition deln (x : N) (l : list N) : list N := filter (fun y => negb (N.eqb x y)) l.
Definition addn (x : N) (l : list N) : list N := if memn x l then l else l ++ [x].
Definition has_fst (k : N) (l : list (N * N)) : bool := existsb (fun p => N.eqb (fst p) k) l.
Definition is_some {A} (o : option A) : bool := match o with Some _ => true | None => false end.

(* ---------------------------------------------------------------------------------------------- *)
(* watched names                                                                                   *)
(* a watched name: its entity (parts[0].parts[1]), the number of dot-separated parts, and a tag telling names of one
   entity apart (x.y / x.y.old / x.y.attr ...).  Which part counts are subscribed is read from the source (T1). *)
Record ident := { i_ent : N; i_parts : N; i_tag : N }.
(* the key of State.notify a name maps to, or None when the name is skipped (`continue`) *)
Definition ident_key (i : ident) : option N :=
  if existsb (N.eqb (i_parts i)) notify_key_parts then Some (i_ent i) else None.
Fixpoint ident_keys (ids : list ident) : list N :=
  match ids with
  | [] => []
  | i :: r => match ident_key i with Some e => e :: ident_keys r | None => ident_keys r end
  end.

(* ---------------------------------------------------------------------------------------------- *)
(* the ledger                                                                                      *)
Record ledger := {
  l_state : list (N * N);   (* State.notify : (entity, queue) *)
  l_event : list (N * N);   (* Event.notify : (event type, queue) *)
  l_bus   : list (N * N);   (* hass.bus listeners on script event types: (event type, owner); owner 0 = Event.event_listener *)
  l_tasks : list N;         (* live trigger tasks: legacy trigger_watch, new _cycle tasks *)
  l_reap  : list N;         (* tasks handed to Function.reaper_cancel, not yet cancelled *)
  l_svc   : list N          (* generations whose @service registration is counted in Function.service_cnt *)
}.
Definition ledger0 : ledger := {| l_state := []; l_event := []; l_bus := []; l_tasks := []; l_reap := []; l_svc := [] |}.
Definition set_state L x := {| l_state := x; l_event := l_event L; l_bus := l_bus L; l_tasks := l_tasks L; l_reap := l_reap L; l_svc := l_svc L |}.
Definition set_evbus L e b := {| l_state := l_state L; l_event := e; l_bus := b; l_tasks := l_tasks L; l_reap := l_reap L; l_svc := l_svc L |}.
Definition set_tasks L x := {| l_state := l_state L; l_event := l_event L; l_bus := l_bus L; l_tasks := x; l_reap := l_reap L; l_svc := l_svc L |}.
Definition set_reap L x := {| l_state := l_state L; l_event := l_event L; l_bus := l_bus L; l_tasks := l_tasks L; l_reap := x; l_svc := l_svc L |}.
Definition set_svc L x := {| l_state := l_state L; l_event := l_event L; l_bus := l_bus L; l_tasks := l_tasks L; l_reap := l_reap L; l_svc := x |}.

(* State.notify_add(var_names, queue) -> added? *)
Fixpoint notify_add (ids : list ident) (q : N) (S : list (N * N)) : list (N * N) :=
  match ids with
  | [] => S
  | i :: r => match ident_key i with
              | None => notify_add r q S                     (* len(parts) not in (2,3): continue *)
              | Some e => notify_add r q (addp (e, q) S)
              end
  end.
Definition notify_added (ids : list ident) : bool := match ident_keys ids with [] => false | _ => true end.

(* State.notify_del(var_names, queue): [ret] = the early `return` of today's code (D16); false = `continue` *)
Fixpoint notify_del (ret : bool) (ids : list ident) (q : N) (S : list (N * N)) : list (N * N) :=
  match ids with
  | [] => S
  | i :: r => match ident_key i with
              | None => notify_del ret r q S
              | Some e => if memp (e, q) S then notify_del ret r q (delp (e, q) S)
                          else if ret then S else notify_del ret r q S
              end
  end.

(* Event.notify_add / notify_del: one shared bus listener (owner 0) per event type with at least one queue *)
Definition ev_add (ev q : N) (L : ledger) : ledger :=
  let b := if has_fst ev (l_event L) then l_bus L else addp (ev, 0) (l_bus L) in
  set_evbus L (addp (ev, q) (l_event L)) b.
Definition ev_del (ev q : N) (L : ledger) : ledger :=
  if memp (ev, q) (l_event L) then
    let e := delp (ev, q) (l_event L) in
    set_evbus L e (if has_fst ev e then l_bus L else delp (ev, 0) (l_bus L))
  else L.

(* ---------------------------------------------------------------------------------------------- *)
(* units, functions, runs                                                                          *)
Record unit_ := {
  u_id : N; u_gen : N;
  u_state : option (list ident);   (* @state_trigger: watched names in iteration order *)
  u_event : option N;              (* @event_trigger: event type *)
  u_periodic : bool;               (* @time_trigger with a recurring time spec *)
  u_startup : bool; u_shutdown : bool;
  u_crash : bool                   (* fault: every dispatch of this function raises (e.g. @time_active with an impossible date):
                                      the watcher that dispatches dies / the legacy trigger task unsubscribes and ends *)
}.
Definition u_persistent (u : unit_) : bool := is_some (u_state u) || is_some (u_event u) || u_periodic u.

Inductive rkind := RState | REvent | RTime | RStartup | RShutdown | RService.
Definition rkind_code (k : rkind) : N :=
  match k with RState => 0 | REvent => 1 | RTime => 2 | RStartup => 3 | RShutdown => 4 | RService => 5 end.
Record run := { r_gen : N; r_kind : rkind; r_unit : N }.

(* the startup run is dispatched like every other occurrence: a crashing function never runs *)
Definition startup_run (u : unit_) : list run :=
  if u_startup u && negb (u_crash u) then [{| r_gen := u_gen u; r_kind := RStartup; r_unit := u_id u |}] else [].
(* legacy: TrigInfo.start = create the trigger_watch task (nothing subscribed yet) *)
Definition leg_start (u : unit_) (L : ledger) : ledger := set_tasks L (addn (u_id u) (l_tasks L)).
(* legacy: the prologue of trigger_watch up to its first wait (runs atomically when the task first runs) *)
Definition leg_prologue (u : unit_) (L : ledger) : ledger * list run :=
  let L1 := match u_state u with Some ids => set_state L (notify_add ids (u_id u) (l_state L)) | None => L end in
  let L2 := match u_event u with Some ev => ev_add ev (u_id u) L1 | None => L1 end in
  let L3 := if u_persistent u then L2 else set_tasks L2 (deln (u_id u) (l_tasks L2)) in   (* "trigger finished" *)
  (L3, startup_run u).
Definition shutdown_run (u : unit_) : list run :=
  if u_shutdown u then [{| r_gen := u_gen u; r_kind := RShutdown; r_unit := u_id u |}] else [].
(* legacy: TrigInfo.stop of a trigger whose task has run its prologue *)
Definition leg_stop_running (cfg : deviations) (u : unit_) (L : ledger) : ledger * list run :=
  let L1 := match u_state u with
            | Some ids => set_state L (notify_del (d16_notify_del_return cfg) ids (u_id u) (l_state L))
            | None => L end in
  let L2 := match u_event u with Some ev => ev_del ev (u_id u) L1 | None => L1 end in
  (set_reap L2 (addn (u_id u) (l_reap L2)), shutdown_run u).
(* legacy: TrigInfo.stop while the task exists but has not run: state_trig_ident is still None *)
Definition leg_stop_pending (u : unit_) (L : ledger) : ledger * list run :=
  let L2 := match u_event u with Some ev => ev_del ev (u_id u) L | None => L end in
  (set_reap L2 (addn (u_id u) (l_reap L2)), shutdown_run u).
(* legacy: an exception inside trigger_watch: `except Exception:` unsubscribes everything and the task returns *)
Definition leg_crash (cfg : deviations) (u : unit_) (L : ledger) : ledger :=
  let L1 := match u_state u with
            | Some ids => set_state L (notify_del (d16_notify_del_return cfg) ids (u_id u) (l_state L))
            | None => L end in
  let L2 := match u_event u with Some ev => ev_del ev (u_id u) L1 | None => L1 end in
  set_tasks L2 (deln (u_id u) (l_tasks L2)).
(* the reaper cancels everything queued *)
Definition reap (L : ledger) : ledger :=
  set_reap (set_tasks L (filter (fun t => negb (memn t (l_reap L))) (l_tasks L))) [].

(* new subsystem: Decorator.start / stop for the trigger decorators *)
Definition dec_start (u : unit_) (L : ledger) : ledger * list run :=
  let L1 := match u_state u with
            | Some ids => let L' := set_state L (notify_add ids (u_id u) (l_state L)) in
                          if notify_added ids then set_tasks L' (addn (u_id u) (l_tasks L')) else L'
            | None => L end in
  let L2 := match u_event u with Some ev => set_evbus L1 (l_event L1) (addp (ev, u_id u) (l_bus L1)) | None => L1 end in
  let L3 := if u_periodic u then set_tasks L2 (addn (u_id u) (l_tasks L2)) else L2 in
  (L3, startup_run u).
Definition dec_stop (cfg : deviations) (u : unit_) (L : ledger) : ledger * list run :=
  let L0 := set_tasks L (deln (u_id u) (l_tasks L)) in                      (* cycle_task.cancel() *)
  let L1 := match u_state u with
            | Some ids => set_state L0 (notify_del (d16_notify_del_return cfg) ids (u_id u) (l_state L0))
            | None => L0 end in
  let L2 := match u_event u with Some ev => set_evbus L1 (l_event L1) (delp (ev, u_id u) (l_bus L1)) | None => L1 end in
  (* TimeTriggerDecorator.stop dispatches the shutdown run through the guards; TrigInfo.stop calls the action directly *)
  (L2, if u_crash u then [] else shutdown_run u).

(* ---------------------------------------------------------------------------------------------- *)
(* functions and the world                                                                         *)
Record func := {
  f_gen : N; f_ctx : N; f_new : bool; f_units : list unit_;
  f_svc : option N;      (* @service: the service name *)
  f_pos : nat;           (* new subsystem: how many trigger decorators are started before the @service decorator *)
  f_inline : bool        (* defined while its context had auto_start on: the manager is started inside ast_functiondef *)
}.

Record world := {
  w_led : ledger;
  w_funcs : list func;     (* every decorated function object ever defined (append-only) *)
  w_active : list N;       (* generations whose triggers have not been stopped (legacy func.trigger<>[] / new DM VALIDATED|RUNNING) *)
  w_delayed : list N;      (* generations waiting for GlobalContext.start (triggers_delay_start / dms_delay_start) *)
  w_pending : list N;      (* legacy unit ids whose task exists but has not run its prologue *)
  w_zombie : list N;       (* D91 only: stopped while pending, task still going to run its prologue *)
  w_running : list N;      (* started unit ids: legacy TrigInfo whose task ran its prologue, started new decorators *)
  w_starting : list N;     (* new subsystem: generations whose DecoratorManager.start() is suspended inside
                              ServiceDecorator.start (await State.get_service_params()) *)
  w_hdl : list (N * N);    (* hass.services: service name -> generation whose handler was registered last *)
  w_auto : list N;         (* contexts with auto_start *)
  w_next : N;              (* next fresh id *)
  w_log : list run         (* every run of a function, oldest first *)
}.
Definition world0 : world :=
  {| w_led := ledger0; w_funcs := []; w_active := []; w_delayed := []; w_pending := []; w_zombie := []; w_running := [];
     w_starting := []; w_hdl := []; w_auto := []; w_next := 1; w_log := [] |}.

Definition set_led W L := {| w_led := L; w_funcs := w_funcs W; w_active := w_active W; w_delayed := w_delayed W; w_pending := w_pending W; w_zombie := w_zombie W; w_running := w_running W; w_starting := w_starting W; w_hdl := w_hdl W; w_auto := w_auto W; w_next := w_next W; w_log := w_log W |}.
Definition led_log W (Lr : ledger * list run) := {| w_led := fst Lr; w_funcs := w_funcs W; w_active := w_active W; w_delayed := w_delayed W; w_pending := w_pending W; w_zombie := w_zombie W; w_running := w_running W; w_starting := w_starting W; w_hdl := w_hdl W; w_auto := w_auto W; w_next := w_next W; w_log := w_log W ++ snd Lr |}.
Definition set_active W x := {| w_led := w_led W; w_funcs := w_funcs W; w_active := x; w_delayed := w_delayed W; w_pending := w_pending W; w_zombie := w_zombie W; w_running := w_running W; w_starting := w_starting W; w_hdl := w_hdl W; w_auto := w_auto W; w_next := w_next W; w_log := w_log W |}.
Definition set_delayed W x := {| w_led := w_led W; w_funcs := w_funcs W; w_active := w_active W; w_delayed := x; w_pending := w_pending W; w_zombie := w_zombie W; w_running := w_running W; w_starting := w_starting W; w_hdl := w_hdl W; w_auto := w_auto W; w_next := w_next W; w_log := w_log W |}.
Definition set_pending W x := {| w_led := w_led W; w_funcs := w_funcs W; w_active := w_active W; w_delayed := w_delayed W; w_pending := x; w_zombie := w_zombie W; w_running := w_running W; w_starting := w_starting W; w_hdl := w_hdl W; w_auto := w_auto W; w_next := w_next W; w_log := w_log W |}.
Definition set_zombie W x := {| w_led := w_led W; w_funcs := w_funcs W; w_active := w_active W; w_delayed := w_delayed W; w_pending := w_pending W; w_zombie := x; w_running := w_running W; w_starting := w_starting W; w_hdl := w_hdl W; w_auto := w_auto W; w_next := w_next W; w_log := w_log W |}.
Definition set_running W x := {| w_led := w_led W; w_funcs := w_funcs W; w_active := w_active W; w_delayed := w_delayed W; w_pending := w_pending W; w_zombie := w_zombie W; w_running := x; w_starting := w_starting W; w_hdl := w_hdl W; w_auto := w_auto W; w_next := w_next W; w_log := w_log W |}.
Definition set_starting W x := {| w_led := w_led W; w_funcs := w_funcs W; w_active := w_active W; w_delayed := w_delayed W; w_pending := w_pending W; w_zombie := w_zombie W; w_running := w_running W; w_starting := x; w_hdl := w_hdl W; w_auto := w_auto W; w_next := w_next W; w_log := w_log W |}.
Definition set_hdl W x := {| w_led := w_led W; w_funcs := w_funcs W; w_active := w_active W; w_delayed := w_delayed W; w_pending := w_pending W; w_zombie := w_zombie W; w_running := w_running W; w_starting := w_starting W; w_hdl := x; w_auto := w_auto W; w_next := w_next W; w_log := w_log W |}.
Definition set_next W x := {| w_led := w_led W; w_funcs := w_funcs W; w_active := w_active W; w_delayed := w_delayed W; w_pending := w_pending W; w_zombie := w_zombie W; w_running := w_running W; w_starting := w_starting W; w_hdl := w_hdl W; w_auto := w_auto W; w_next := x; w_log := w_log W |}.
Definition set_auto W x := {| w_led := w_led W; w_funcs := w_funcs W; w_active := w_active W; w_delayed := w_delayed W; w_pending := w_pending W; w_zombie := w_zombie W; w_running := w_running W; w_starting := w_starting W; w_hdl := w_hdl W; w_auto := x; w_next := w_next W; w_log := w_log W |}.

Definition all_units (W : world) : list unit_ := flat_map f_units (w_funcs W).
Definition find_unit (W : world) (id : N) : option unit_ := find (fun u => N.eqb (u_id u) id) (all_units W).
Definition find_func (W : world) (g : N) : option func := find (fun f => N.eqb (f_gen f) g) (w_funcs W).

(* -- services: Function.service_register / service_remove ------------------------------------------ *)
(* [l_svc] holds the generations whose registration is counted; Function.service_cnt[name] is the number of them
   declaring that name, hass.services has the name while the count is positive, Function.service2global_ctx[name] is
   the context of those generations (a registration from another context is refused with ValueError). *)
Definition svc_name (W : world) (g : N) : option N := match find_func W g with Some f => f_svc f | None => None end.
Definition ctx_of (W : world) (g : N) : N := match find_func W g with Some f => f_ctx f | None => 0 end.
Definition has_name (W : world) (n : N) (g : N) : bool := match svc_name W g with Some m => N.eqb m n | None => false end.
Definition svc_count (W : world) (n : N) : nat := length (filter (has_name W n) (l_svc (w_led W))).
Definition svc_refused (W : world) (f : func) : bool :=
  match f_svc f with
  | Some n => existsb (fun g => has_name W n g && negb (N.eqb (ctx_of W g) (f_ctx f))) (l_svc (w_led W))
  | None => false
  end.
Definition drop_name (n : N) (h : list (N * N)) : list (N * N) := filter (fun p => negb (N.eqb (fst p) n)) h.
Definition svc_register (W : world) (f : func) : world :=
  match f_svc f with
  | Some n => set_hdl (set_led W (set_svc (w_led W) (addn (f_gen f) (l_svc (w_led W))))) ((n, f_gen f) :: drop_name n (w_hdl W))
  | None => W
  end.
Definition svc_remove (W : world) (f : func) : world :=
  match f_svc f with
  | Some n => let W1 := set_led W (set_svc (w_led W) (deln (f_gen f) (l_svc (w_led W)))) in
              if Nat.eqb (svc_count W1 n) 0 then set_hdl W1 (drop_name n (w_hdl W1)) else W1
  | None => W
  end.
(* the function a call of service n reaches.  Today's code (D21): the handler registered last, even when that
   function has been removed while an older one still holds the count; conformant: the newest remaining one *)
Definition handler (cfg : deviations) (W : world) (n : N) : option N :=
  if d21_handler_stays cfg then
    match find (fun p => N.eqb (fst p) n) (w_hdl W) with Some p => Some (snd p) | None => None end
  else match rev (filter (has_name W n) (l_svc (w_led W))) with g :: _ => Some g | [] => None end.

(* -- legacy: start / stop of one function ------------------------------------------------------- *)
(* EvalFunc.trigger_start: every TrigInfo gets its task *)
Definition leg_unit_start (W : world) (u : unit_) : world :=
  set_pending (set_led W (leg_start u (w_led W))) (addn (u_id u) (w_pending W)).
Definition leg_func_start (W : world) (f : func) : world := fold_left leg_unit_start (f_units f) W.

(* TrigInfo.stop *)
Definition leg_unit_stop (cfg : deviations) (W : world) (u : unit_) : world :=
  if memn (u_id u) (w_pending W) then
    let W1 := set_pending (led_log W (leg_stop_pending u (w_led W))) (deln (u_id u) (w_pending W)) in
    if d91_pending_subscribes cfg then set_zombie W1 (addn (u_id u) (w_zombie W1)) else W1
  else if memn (u_id u) (w_running W) then
    set_running (led_log W (leg_stop_running cfg u (w_led W))) (deln (u_id u) (w_running W))
  else led_log W (w_led W, shutdown_run u).                                   (* task is None: only the shutdown run *)

(* EvalFunc.trigger_stop (also reached from EvalFuncVar.__del__ and GlobalContext.stop) *)
Definition leg_func_stop (cfg : deviations) (W : world) (f : func) : world :=
  if memn (f_gen f) (w_active W) then
    let W1 := svc_remove (fold_left (leg_unit_stop cfg) (f_units f) W) f in
    set_delayed (set_active W1 (deln (f_gen f) (w_active W1))) (deln (f_gen f) (w_delayed W1))
  else W.

(* -- new subsystem: DecoratorManager.start / stop ------------------------------------------------ *)
Definition dec_unit_start (W : world) (u : unit_) : world :=
  set_running (led_log W (dec_start u (w_led W))) (addn (u_id u) (w_running W)).
Definition dec_unit_stop (cfg : deviations) (W : world) (u : unit_) : world :=
  set_running (led_log W (dec_stop cfg u (w_led W))) (deln (u_id u) (w_running W)).
Definition start_if_idle (W : world) (u : unit_) : world := if memn (u_id u) (w_running W) then W else dec_unit_start W u.
(* Decorator.stop of a decorator that was never started fails or does nothing: no effect on the ledger, no run *)
Definition stop_if_running (cfg : deviations) (W : world) (u : unit_) : world :=
  if memn (u_id u) (w_running W) then dec_unit_stop cfg W u else W.

(* DecoratorManager.start up to its only suspension point: the decorators in front of @service are started, the
   service is registered, then start() awaits State.get_service_params().  A refused registration makes start() stop
   what it started and leaves the manager INVALID.  Without @service, start() runs to its end. *)
Definition dm_begin (cfg : deviations) (W : world) (f : func) : world :=
  let W0 := set_delayed W (deln (f_gen f) (w_delayed W)) in
  match f_svc f with
  | None => fold_left dec_unit_start (f_units f) W0
  | Some _ =>
      let W1 := fold_left dec_unit_start (firstn (f_pos f) (f_units f)) W0 in
      if svc_refused W1 f then
        (* `for started_dec in started: await self._stop_decorator(started_dec)`, status INVALID *)
        let W2 := fold_left (stop_if_running cfg) (f_units f) W1 in
        set_active W2 (deln (f_gen f) (w_active W2))
      else let W2 := svc_register W1 f in set_starting W2 (addn (f_gen f) (w_starting W2))
  end.
(* the suspended start() continues: it starts the remaining decorators, unless stop() has emptied the list meanwhile *)
Definition dm_resume (g : N) (W : world) : world :=
  match find_func W g with
  | None => W
  | Some f =>
      if memn g (w_starting W) && f_new f then
        let W1 := set_starting W (deln g (w_starting W)) in
        (* the loop of start() goes on only while the manager is RUNNING (stop() empties the list it iterates) *)
        if memn g (w_active W) && negb (memn g (w_delayed W)) then fold_left start_if_idle (f_units f) W1 else W1
      else W
  end.
Definition resume_all (W : world) : world := fold_left (fun W g => dm_resume g W) (w_starting W) W.
(* stop of a RUNNING manager (status check is done by the callers) *)
Definition dm_stop (cfg : deviations) (W : world) (f : func) : world :=
  let W1 := fold_left (stop_if_running cfg) (f_units f) W in
  let W2 := if memn (f_gen f) (l_svc (w_led W1)) then svc_remove W1 f else W1 in
  set_active W2 (deln (f_gen f) (w_active W2)).
(* a VALIDATED manager that will never be started (removed from dms / dms_delay_start) *)
Definition dm_discard (W : world) (f : func) : world :=
  set_delayed (set_active W (deln (f_gen f) (w_active W))) (deln (f_gen f) (w_delayed W)).

(* GlobalContext.stop for one registered function *)
Definition ctx_stop_func (cfg : deviations) (W : world) (f : func) : world :=
  if f_new f then
    if memn (f_gen f) (w_active W) then
      if memn (f_gen f) (w_delayed W) then dm_discard W f      (* "Stopping before starting": nothing stopped, never started *)
      else dm_stop cfg W f
    else W
  else leg_func_stop cfg W f.

Definition ctx_stop (cfg : deviations) (c : N) (W : world) : world :=
  let W1 := fold_left (fun W f => if N.eqb (f_ctx f) c then ctx_stop_func cfg W f else W) (w_funcs W) W in
  set_auto W1 (deln c (w_auto W1)).

(* GlobalContext.start (with set_auto_start(True) as start_global_contexts / the Jupyter kernel do) *)
Definition ctx_start_func (cfg : deviations) (W : world) (f : func) : world :=
  if memn (f_gen f) (w_active W) && memn (f_gen f) (w_delayed W) then
    if f_new f then dm_begin cfg W f
    else leg_func_start (set_delayed W (deln (f_gen f) (w_delayed W))) f
  else W.
(* GlobalContext.start iterates the *sets* triggers_delay_start / dms_delay_start: the order is an input ([ord] lists
   generations in iteration order; functions not listed follow in definition order) *)
Definition order_funcs (ord : list N) (fs : list func) : list func :=
  flat_map (fun g => filter (fun f => N.eqb (f_gen f) g) fs) ord ++ filter (fun f => negb (memn (f_gen f) ord)) fs.
Definition ctx_start (cfg : deviations) (c : N) (ord : list N) (W : world) : world :=
  let W1 := fold_left (fun W f => if N.eqb (f_ctx f) c then ctx_start_func cfg W f else W) (order_funcs ord (w_funcs W)) W in
  set_auto W1 (addn c (w_auto W1)).

(* -- definition of a decorated function ---------------------------------------------------------- *)
Record tspec := { ts_periodic : bool; ts_startup : bool; ts_shutdown : bool }.
Record fspec := {
  s_states : list (list ident);   (* one ident list per @state_trigger *)
  s_events : list N;              (* one event type per @event_trigger *)
  s_times : list tspec;           (* one per @time_trigger *)
  s_svc : option N;               (* @service name *)
  s_pos : nat;                    (* position of @service among the trigger decorators (new subsystem start order) *)
  s_crash : bool                  (* the function carries a guard that raises at every dispatch *)
}.
Definition mk_unit (crash : bool) (id gen : N) (st : option (list ident)) (ev : option N) (tm : option tspec) : unit_ :=
  {| u_id := id; u_gen := gen; u_state := st; u_event := ev;
     u_periodic := match tm with Some t => ts_periodic t | None => false end;
     u_startup := match tm with Some t => ts_startup t | None => false end;
     u_shutdown := match tm with Some t => ts_shutdown t | None => false end; u_crash := crash |}.
(* what one unit consists of, before it gets its id *)
Definition proto : Type := (option (list ident) * option N * option tspec)%type.
Fixpoint number_units (crash : bool) (gen id : N) (ps : list proto) : list unit_ :=
  match ps with
  | [] => []
  | (st, ev, tm) :: r => mk_unit crash id gen st ev tm :: number_units crash gen (id + 1) r
  end.
(* legacy trigger_init: TrigInfo number k takes the k-th decorator of each kind *)
Definition legacy_protos (s : fspec) : list proto :=
  let n := Nat.max (length (s_states s)) (Nat.max (length (s_events s)) (length (s_times s))) in
  map (fun k => (nth_error (s_states s) k, nth_error (s_events s) k, nth_error (s_times s) k)) (seq 0 n).
(* new subsystem: one unit per trigger decorator *)
Definition new_protos (s : fspec) : list proto :=
  map (fun x => (Some x, None, None)) (s_states s) ++ map (fun x => (None, Some x, None)) (s_events s) ++
  map (fun x => (None, None, Some x)) (s_times s).

Definition define (cfg : deviations) (c : N) (newsys : bool) (s : fspec) (W : world) : world :=
  let gen := w_next W in
  let units := number_units (s_crash s) gen (gen + 1) (if newsys then new_protos s else legacy_protos s) in
  let f := {| f_gen := gen; f_ctx := c; f_new := newsys; f_units := units; f_svc := s_svc s; f_pos := s_pos s; f_inline := memn c (w_auto W) |} in
  let nxt := gen + 1 + N.of_nat (length units) in
  (* the function object exists in any case *)
  let Wf := {| w_led := w_led W; w_funcs := w_funcs W ++ [f]; w_active := w_active W; w_delayed := w_delayed W;
               w_pending := w_pending W; w_zombie := w_zombie W; w_running := w_running W; w_starting := w_starting W;
               w_hdl := w_hdl W; w_auto := w_auto W; w_next := nxt; w_log := w_log W |} in
  (* legacy trigger_init raised ValueError: nothing is registered, no TrigInfo exists, the function is not registered in
     its context: for pyscript's book-keeping this function object does not exist (only its ids are used up) *)
  if negb newsys && svc_refused Wf f then set_next W nxt
  else
    (* legacy registers the service inside trigger_init; the new @service decorator registers in start() *)
    let Ws := if newsys then Wf else svc_register Wf f in
    let W1 := set_delayed (set_active Ws (w_active Ws ++ [gen])) (w_delayed Ws ++ [gen]) in
    if memn c (w_auto W) then ctx_start_func cfg W1 f else W1.

(* D93: the startup dispatch of an eagerly started _cycle task raised while ast_functiondef was still on the stack
   (inline start): the exception kept by the finished task pins those frames and with them the function variable *)
Definition pinned (f : func) : bool := f_inline f && existsb (fun u => u_startup u && u_crash u) (f_units f).

(* -- "the last reference to the function object was dropped" (input event) ------------------------ *)
Definition dropped (cfg : deviations) (g : N) (W : world) : world :=
  match find_func W g with
  | None => W
  | Some f =>
    if f_new f then
      (* weakref.finalize callback: `if self.status is RUNNING: create_task(self.stop())` *)
      if memn g (w_active W) then
        if memn g (w_delayed W) then (if d90_dropped_dm_started cfg then W else dm_discard W f)
        else if d93_fault_pins_function cfg && pinned f then W   (* D93: the function object never dies *)
        else dm_stop cfg W f
      else W
    else leg_func_stop cfg W f       (* EvalFuncVar.__del__ -> EvalFunc.trigger_stop *)
  end.

(* -- scheduler steps ---------------------------------------------------------------------------- *)
Definition prologue (u : N) (W : world) : world :=
  match find_unit W u with
  | None => W
  | Some un =>
    if memn u (w_pending W) then
      set_running (set_pending (led_log W (leg_prologue un (w_led W))) (deln u (w_pending W))) (addn u (w_running W))
    else if memn u (w_zombie W) then set_zombie (led_log W (leg_prologue un (w_led W))) (deln u (w_zombie W))
    else W
  end.
Definition do_reap (W : world) : world := set_led W (reap (w_led W)).
(* run the event loop to quiescence: tasks created earlier run first, then the reaper (suspended manager starts
   are resumed by their own operation: the awaited call may take arbitrarily long) *)
Definition settle (W : world) : world :=
  do_reap (fold_left (fun W u => prologue u W) (w_pending W ++ w_zombie W) W).

(* -- occurrences -------------------------------------------------------------------------------- *)
Definition gen_of (W : world) (id : N) : N := match find_unit W id with Some u => u_gen u | None => 0 end.
Definition crash_of (W : world) (id : N) : bool := match find_unit W id with Some u => u_crash u | None => false end.
Definition occ_state (e : N) (W : world) : list run :=
  map (fun p => {| r_gen := gen_of W (snd p); r_kind := RState; r_unit := snd p |})
      (filter (fun p => N.eqb (fst p) e && memn (snd p) (l_tasks (w_led W)) && negb (crash_of W (snd p))) (l_state (w_led W))).
Definition occ_event (ev : N) (W : world) : list run :=
  let L := w_led W in
  (if memp (ev, 0) (l_bus L) then
     map (fun p => {| r_gen := gen_of W (snd p); r_kind := REvent; r_unit := snd p |})
         (filter (fun p => N.eqb (fst p) ev && memn (snd p) (l_tasks L) && negb (crash_of W (snd p))) (l_event L))
   else []) ++
  map (fun p => {| r_gen := gen_of W (snd p); r_kind := REvent; r_unit := snd p |})
      (filter (fun p => N.eqb (fst p) ev && negb (N.eqb (snd p) 0) && negb (crash_of W (snd p))) (l_bus L)).
Definition occ_tick (W : world) : list run :=
  flat_map (fun t => match find_unit W t with
                     | Some u => if u_periodic u && negb (memn t (w_pending W)) && negb (memn t (w_zombie W)) && negb (u_crash u)
                                 then [{| r_gen := u_gen u; r_kind := RTime; r_unit := t |}] else []
                     | None => [] end) (l_tasks (w_led W)).
(* the watchers that die at an occurrence because dispatching raises *)
Definition unit_new (W : world) (u : unit_) : bool := match find_func W (u_gen u) with Some f => f_new f | None => false end.
Definition crash_unit (cfg : deviations) (W : world) (id : N) : world :=
  match find_unit W id with
  | None => W
  | Some u =>
      if unit_new W u then set_led W (set_tasks (w_led W) (deln id (l_tasks (w_led W))))   (* the _cycle task ends; nothing else changes *)
      else set_led W (leg_crash cfg u (w_led W))
  end.
Definition crashers_state (e : N) (W : world) : list N :=
  map snd (filter (fun p => N.eqb (fst p) e && memn (snd p) (l_tasks (w_led W)) && crash_of W (snd p)) (l_state (w_led W))).
Definition crashers_event (ev : N) (W : world) : list N :=
  if memp (ev, 0) (l_bus (w_led W)) then
    map snd (filter (fun p => N.eqb (fst p) ev && memn (snd p) (l_tasks (w_led W)) && crash_of W (snd p)) (l_event (w_led W)))
  else [].
Definition crashers_tick (W : world) : list N :=
  filter (fun t => match find_unit W t with
                   | Some u => u_periodic u && negb (memn t (w_pending W)) && negb (memn t (w_zombie W)) && u_crash u
                   | None => false end) (l_tasks (w_led W)).
(* a started trigger whose first action is the startup run: the crash happens as soon as its task runs *)
Definition crashers_startup (W : world) : list N :=
  filter (fun t => match find_unit W t with Some u => u_startup u && u_crash u && memn t (l_tasks (w_led W)) | None => false end)
         (w_running W).
Definition crash_all (cfg : deviations) (ids : list N) (W : world) : world := fold_left (crash_unit cfg) ids W.
Definition occ_call (cfg : deviations) (n : N) (W : world) : list run :=
  match handler cfg W n with Some g => [{| r_gen := g; r_kind := RService; r_unit := g |}] | None => [] end.
Definition add_log (W : world) (rs : list run) : world := led_log W (w_led W, rs).

(* -- unload of the integration ------------------------------------------------------------------ *)
Definition all_ctxs (W : world) : list N := map f_ctx (w_funcs W).
Definition unload (cfg : deviations) (W : world) : world :=
  settle (resume_all (fold_left (fun W c => ctx_stop cfg c W) (all_ctxs W) W)).

(* ---------------------------------------------------------------------------------------------- *)
Inductive op :=
  | ODefine (c : N) (newsys : bool) (s : fspec)   (* a decorated `def` is evaluated in context c *)
  | ODropped (g : N)                              (* last reference to generation g's function object dropped *)
  | OCtxAuto (c : N) (b : bool)                   (* GlobalContext.set_auto_start *)
  | OCtxStart (c : N) (ord : list N)              (* set_auto_start(True); GlobalContext.start(), delayed starts in order ord *)
  | OCtxStop (c : N)                              (* GlobalContext.stop / GlobalContextMgr.delete *)
  | OUnload                                       (* unload_scripts(unload_all=True) + reaper/waiter shutdown *)
  | OPrologue (u : N)                             (* scheduler: legacy trigger task u runs up to its first wait *)
  | OResume (g : N)                               (* scheduler: the suspended DecoratorManager.start of g continues *)
  | OResumeAll                                    (* scheduler: every suspended start continues *)
  | OReap                                         (* scheduler: the reaper cancels what is queued *)
  | OSettle                                       (* scheduler: run to quiescence (tasks, reaper) *)
  | OStartupCrash                                 (* scheduler: started triggers whose startup dispatch raises die *)
  | OCellImportStart (m : N) (ord : list N)       (* a module context loaded by `import` inside a Jupyter cell: conformant =
                                                     started when the cell ends; today (D92) nobody starts it *)
  | OState (e : N) | OEvent (ev : N) | OTick | OCall (n : N).   (* occurrences; OCall n = call of service n *)

Definition step (cfg : deviations) (W : world) (o : op) : world :=
  match o with
  | ODefine c n s => define cfg c n s W
  | ODropped g => dropped cfg g W
  | OCtxAuto c b => set_auto W (if b then addn c (w_auto W) else deln c (w_auto W))
  | OCtxStart c ord => ctx_start cfg c ord W
  | OCtxStop c => ctx_stop cfg c W
  | OUnload => unload cfg W
  | OPrologue u => prologue u W
  | OResume g => dm_resume g W
  | OResumeAll => resume_all W
  | OReap => do_reap W
  | OSettle => settle W
  | OStartupCrash => crash_all cfg (crashers_startup W) W
  | OCellImportStart m ord => if d92_cell_import_not_started cfg then W else ctx_start cfg m ord W
  | OState e => crash_all cfg (crashers_state e W) (add_log W (occ_state e W))
  | OEvent ev => crash_all cfg (crashers_event ev W) (add_log W (occ_event ev W))
  | OTick => crash_all cfg (crashers_tick W) (add_log W (occ_tick W))
  | OCall n => add_log W (occ_call cfg n W)
  end.
Definition run_ops (cfg : deviations) (ops : list op) (W : world) : world := fold_left (step cfg) ops W.

(* ---------------------------------------------------------------------------------------------- *)
(* start/stop of one trigger as a pair, for the inverse theorem                                     *)
Definition leg_cycle (cfg : deviations) (u : unit_) (L : ledger) : ledger :=
  reap (fst (leg_stop_running cfg u (fst (leg_prologue u (leg_start u L))))).
Definition dec_cycle (cfg : deviations) (u : unit_) (L : ledger) : ledger :=
  fst (dec_stop cfg u (fst (dec_start u L))).
(* the unit's id occurs nowhere in the ledger (a new queue / task / listener object) *)
Definition id_fresh (id : N) (L : ledger) : Prop :=
  id <> 0 /\ (forall p, In p (l_state L) -> snd p <> id) /\ (forall p, In p (l_event L) -> snd p <> id) /\
  (forall p, In p (l_bus L) -> snd p <> id) /\ ~ In id (l_tasks L) /\ ~ In id (l_reap L).
(* the shared legacy listener of an event type exists exactly while Event.notify has a queue for it, and nothing
   is waiting for the reaper *)
Definition ledger_wf (L : ledger) : Prop :=
  (forall ev, In (ev, 0) (l_bus L) <-> has_fst ev (l_event L) = true) /\ l_reap L = [] /\
  NoDup (l_bus L) /\ NoDup (l_event L) /\ NoDup (l_state L).
