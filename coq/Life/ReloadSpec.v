(* Life/ReloadSpec.v — the property C10 as executable predicates over what was OBSERVED (load events and the table
   of loaded contexts after every reload), written from the property statement and docs/reference.rst
   ("Reloading Scripts", "Importing"), not from load_scripts:

   S1 (default and '*' reloads)  every auto-loaded file that exists (top level, scripts/**, configured apps; package
        form preferred) and whose imports resolve is loaded under its documented name together with every module it
        transitively imports, each at its current source; a file whose imports do not resolve is not loaded; every
        loaded context is an existing file under its documented name at its current source, mtime and app config.
        (Unimported modules that are unchanged may linger: S2 requires them to stay untouched.)
   S2 (every reload)  discarded = changed  U  importers*(changed modules)  U  package mates of those and of newly
        appearing auto-loaded files; nothing else is touched (same context object, variables kept, triggers armed:
        the counter advances by one per ping); what is re-executed runs current source, once, and re-executed
        auto-loaded files bring in their modules.
   S3 reload(name): `name` is the one context considered changed; reload('*'): all are.                      *)
From PV Require Import Common.Util Life.ReloadBase Life.Modules Life.Reload.

(* ---------- observations ---------- *)
Record octx := {
  o_name : cname; o_gen : N; o_mtime : N;
  o_cfg : N;                 (* app_config as seen on the object (null and absent both 0) *)
  o_cfgl : option N;         (* configuration entry of the app when this context was created (harness bookkeeping) *)
  o_imports : list cname; o_ismod : bool; o_rel : option path; o_born : N; o_started : bool; o_cnt : N }.
Record ostep := {
  os_events : list event; os_ctxs : list octx;
  os_srv : list N;      (* source generations whose @service is registered with Home Assistant after the step (sorted) *)
  os_pong : list N      (* source generations whose trigger function answered the ping after the step (sorted) *) }.
Record rcase := { rc_legacy : bool; rc_steps : list rstep; rc_obs : list ostep }.

Definition sort_N (l : list N) : list N := sort_by (fun g : N => [g]) l.

Definition o_get (l : list octx) (n : cname) : option octx := find (fun c => nl_eqb (o_name c) n) l.

(* ---------- documented naming ---------- *)
Definition sp_name_of (p : path) : cname :=
  match strip_init p with
  | [x] => [s_file; x]
  | q => q
  end.

Definition sp_file_of (t : tree) (n : cname) : option (path * file) :=
  match n with
  | r :: rest =>
    if (r =? s_file)%N then match tree_get t rest with Some f => Some (rest, f) | None => None end
    else match tree_get t (n ++ [s_init]) with
         | Some f => Some (n ++ [s_init], f)
         | None => match tree_get t n with Some f => Some (n, f) | None => None end
         end
  | [] => None
  end.

Definition sp_autoload (t : tree) (k : apps_config) (p : path) : bool :=
  negb (hashed p) &&
  match p with
  | [_] => true
  | r :: rest =>
    if (r =? s_scripts)%N then true
    else if (r =? s_apps)%N then
      match rest with
      | [a] => (match cfg_get k a with Some _ => true | None => false end)
               && (match tree_get t [s_apps; a; s_init] with Some _ => false | None => true end)
      | [a; i] => (i =? s_init)%N && (match cfg_get k a with Some _ => true | None => false end)
      | _ => false
      end
    else false
  | [] => false
  end.

(* contexts that exist because a file is auto-loaded (as opposed to imported) *)
Definition sp_auto_kind (n : cname) : bool :=
  match n with
  | r :: rest => (r =? s_file)%N || (r =? s_scripts)%N || ((r =? s_apps)%N && Nat.eqb (length rest) 1)
  | [] => false
  end.
Definition sp_cfg_of (k : apps_config) (n : cname) : option N :=
  match n with
  | [r; a] => if (r =? s_apps)%N then cfg_get k a else None
  | _ => None
  end.

(* ---------- documented import resolution (by the importer's place in the tree) ---------- *)
Definition sp_pkg_dir (p : path) : option path :=
  match p with
  | r :: _ :: _ :: _ => if (r =? s_apps)%N || (r =? s_modules)%N then Some (removelast p) else None
  | _ => None
  end.
Definition first_existing (t : tree) (cs : list path) : option path :=
  find (fun q => match tree_get t q with Some _ => true | None => false end) cs.
Definition sp_resolve (t : tree) (p : path) (i : imp) : option path :=
  match i with
  | ImpRel m => match sp_pkg_dir p with
                | Some d => first_existing t [d ++ m ++ [s_init]; d ++ m]
                | None => None
                end
  | ImpAbs m =>
    let in_app := match p with r :: _ :: _ :: _ => (r =? s_apps)%N | _ => false end in
    first_existing t ((if in_app then [s_apps :: m ++ [s_init]; s_apps :: m] else [])
                      ++ [s_modules :: m ++ [s_init]; s_modules :: m])
  end.

(* every file executed by loading [p]; None: some import does not resolve *)
Fixpoint sp_load_list (rec : path -> option (list path)) (t : tree) (p : path) (imps : list imp) (acc : list path)
  : option (list path) :=
  match imps with
  | [] => Some acc
  | i :: rest =>
    match sp_resolve t p i with
    | None => None
    | Some q => match rec q with
                | None => None
                | Some l => sp_load_list rec t p rest (nl_union acc l)
                end
    end
  end.
Fixpoint sp_load (fuel : nat) (t : tree) (p : path) : option (list path) :=
  match fuel with
  | O => None
  | S fuel' => match tree_get t p with
               | None => None
               | Some f => sp_load_list (sp_load fuel' t) t p (f_imps f) [p]
               end
  end.
Definition sp_fuel (t : tree) : nat := S (length t).

(* ---------- S2: the discard set, from the contexts loaded before and their recorded imports ---------- *)
Fixpoint sp_reach_list (rec : cname -> list cname) (l : list cname) (acc : list cname) : list cname :=
  match l with
  | [] => acc
  | d :: rest => sp_reach_list rec rest (nl_union (nl_add d acc) (rec d))
  end.
(* contexts reachable in >= 1 recorded import steps *)
Fixpoint sp_reach (fuel : nat) (before : list octx) (n : cname) : list cname :=
  match fuel with
  | O => []
  | S fuel' => match o_get before n with
               | None => []
               | Some c => sp_reach_list (sp_reach fuel' before) (o_imports c) []
               end
  end.

Definition sp_changed (t : tree) (k : apps_config) (c : octx) : bool :=
  match sp_file_of t (o_name c) with
  | None => true
  | Some (q, f) =>
      negb (f_gen f =? o_gen c)%N || negb (f_mtime f =? o_mtime c)%N
      || (sp_auto_kind (o_name c) && (negb (option_eqb N.eqb (sp_cfg_of k (o_name c)) (o_cfgl c)) || negb (sp_autoload t k q)))
  end.

Definition sp_autoload_names (t : tree) (k : apps_config) : list cname :=
  map (fun pf => sp_name_of (fst pf)) (filter (fun pf => sp_autoload t k (fst pf)) t).

Record sp_sets := { ss_changed : list cname; ss_new : list cname; ss_discard : list cname }.

Definition sp_plan (before : list octx) (t : tree) (k : apps_config) (a : rarg) : sp_sets :=
  let loaded n := match o_get before n with Some _ => true | None => false end in
  let autos := sp_autoload_names t k in
  let chg := match a with
             | RNone => map o_name (filter (sp_changed t k) before)
             | RAll => map o_name before
             | RName n => if loaded n || (match sp_file_of t n with Some _ => true | None => false end) then [n] else []
             end in
  let new := match a with
             | RName n => if negb (loaded n) && nl_mem n autos then [n] else []
             | _ => filter (fun n => negb (loaded n)) autos
             end in
  let modroots := map root2 (filter (under_root s_modules) chg) in
  let importers := map o_name (filter (fun c =>
        existsb (fun d => nl_mem (root2 d) modroots) (sp_reach (S (length before)) before (o_name c))) before) in
  let pkgroots := map root2 (filter (fun n => under_root s_apps n || under_root s_modules n) (chg ++ importers ++ new)) in
  let mates := map o_name (filter (fun c => existsb (fun r => prefix_of r (o_name c)) pkgroots) before) in
  {| ss_changed := chg; ss_new := new; ss_discard := nl_union (nl_union chg importers) mates |}.

(* ---------- clauses; each returns the list of violated clause numbers ---------- *)
Definition flag (k : N) (ok : bool) : list N := if ok then [] else [k].

(* an auto-loaded file is loaded with everything it imports, or (imports unresolvable) not loaded at all *)
(* [full] = default or '*' reload: the file is loaded with everything it transitively imports, all at current source,
   or (imports unresolvable) not loaded at all.
   After reload(name) "other changes are ignored": modules that stay loaded may be stale, so only this is required:
   a re-executed auto-loaded file whose imports resolve on disk ends up loaded (clause 8 covers its direct imports). *)
Definition sp_file_loaded_ok (full : bool) (now : N) (t : tree) (after : list octx) (p : path) : bool :=
  match sp_load (sp_fuel t) t p with
  | Some l =>
      if full then forallb (fun q => match o_get after (sp_name_of q), tree_get t q with
                                     | Some c, Some f => (o_gen c =? f_gen f)%N
                                     | _, _ => false
                                     end) l
      else match o_get after (sp_name_of p) with Some c => (o_born c =? now)%N | None => false end
  | None => negb full || match o_get after (sp_name_of p) with Some _ => false | None => true end
  end.

(* what a context executed by this reload imports (by its source, documented resolution) is loaded and recorded *)
Definition sp_imports_ok (t : tree) (after : list octx) (c : octx) : bool :=
  match sp_file_of t (o_name c) with
  | None => false
  | Some (p, f) =>
      forallb (fun i => match sp_resolve t p i with
                        | Some q => (match o_get after (sp_name_of q) with Some _ => true | None => false end)
                                    && nl_mem (sp_name_of q) (o_imports c)
                        | None => true           (* satisfied by a module that stayed loaded (reload(name)), else clause 1 *)
                        end) (f_imps f)
  end.

Definition sp_ctx_current (t : tree) (k : apps_config) (c : octx) : bool :=
  match sp_file_of t (o_name c) with
  | None => false
  | Some (q, f) =>
      (o_gen c =? f_gen f)%N && (o_mtime c =? f_mtime f)%N
      && (if sp_auto_kind (o_name c)
          then sp_autoload t k q && option_eqb N.eqb (sp_cfg_of k (o_name c)) (o_cfgl c) else true)
  end.

Fixpoint nodup_names (l : list cname) : bool :=
  match l with
  | [] => true
  | x :: r => negb (nl_mem x r) && nodup_names r
  end.

Definition sp_step (now : N) (a : rarg) (before : list octx) (s : rstep) (o : ostep) : list N :=
  let t := rs_tree s in
  let k := rs_cfg s in
  let after := os_ctxs o in
  let ss := sp_plan before t k a in
  let dis := ss_discard ss in
  let full := match a with RName _ => false | _ => true end in
  let autos := filter (fun pf => sp_autoload t k (fst pf)) t in
  (* S1a / re-executed auto-loaded files bring in their modules *)
  flag 1 (forallb (fun pf =>
            if full || nl_mem (sp_name_of (fst pf)) dis || nl_mem (sp_name_of (fst pf)) (ss_new ss)
            then sp_file_loaded_ok full now t after (fst pf) else true) autos)
  (* S1b every loaded context is an existing file at its current source under the documented name *)
  ++ flag 2 (negb full || forallb (sp_ctx_current t k) after)
  (* S2 untouched *)
  ++ flag 3 (forallb (fun c => if nl_mem (o_name c) dis then true else
               match o_get after (o_name c) with
               | Some c' => (o_born c' =? o_born c)%N && (o_gen c' =? o_gen c)%N && (o_cnt c' =? o_cnt c + 1)%N
               | None => false
               end) before)
  (* S2 discarded *)
  ++ flag 4 (forallb (fun c => if nl_mem (o_name c) dis then
               match o_get after (o_name c) with Some c' => (o_born c' =? now)%N | None => true end else true) before)
  (* re-executed: current source, documented name; what got loaded ran once and is running *)
  ++ flag 6 (forallb (fun e => match sp_file_of t (fst e) with Some (_, f) => (snd e =? f_gen f)%N | None => false end) (os_events o))
  ++ flag 7 (forallb (fun c' => if (o_born c' =? now)%N
               then Nat.eqb (length (filter (fun e => nl_eqb (fst e) (o_name c')) (os_events o))) 1
                    && existsb (fun e => nl_eqb (fst e) (o_name c') && (snd e =? o_gen c')%N) (os_events o) && (o_cnt c' =? 1)%N
               else true) after)
  ++ flag 8 (forallb (fun c' => if (o_born c' =? now)%N then sp_imports_ok t after c' else true) after)
  (* what is registered / armed belongs to the contexts that exist: nothing of a failed or discarded file is left *)
  ++ flag 9 (list_eqb N.eqb (os_srv o) (sort_N (map o_gen after)) && list_eqb N.eqb (os_pong o) (sort_N (map o_gen after))).

(* a change of the global options since the previous reload makes the reload a '*' reload (documented);
   [old] = the options seen by the previous reload, None before the first one *)
Fixpoint sp_steps (now : N) (old : option N) (before : list octx) (steps : list rstep) (obs : list ostep) : list (N * list N) :=
  match steps, obs with
  | s :: steps', o :: obs' =>
      let bad := sp_step now (eff_arg old s) before s o in
      (match bad with [] => [] | _ => [(now, bad)] end) ++ sp_steps (now + 1)%N (next_old now s) (os_ctxs o) steps' obs'
  | [], [] => []
  | _, _ => [(now, [99%N])]
  end.

Definition spec_failures (c : rcase) : list (N * list N) := sp_steps 0%N None [] (rc_steps c) (rc_obs c).
Definition rcase_spec_ok (c : rcase) : bool := match spec_failures c with [] => true | _ => false end.
