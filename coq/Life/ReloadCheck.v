(* Life/ReloadCheck.v — what the generated correspondence files evaluate for C10.
   [rcase_model_ok cfg] : the Model (under the measured deviation switches) reproduces, step by step, the load
                          events (order included) and the complete table of loaded contexts the real pyscript produced;
   [rcase_spec_ok]      : what the real code did satisfies the property (Life/ReloadSpec.v);
   [rcase_attrib cfg]   : which deviation switches are active on the case. *)
From PV Require Import Common.Util Life.ReloadBase Gen.ReloadConsts Life.Modules Life.Reload Life.ReloadSpec.

Definition octx_of (c : gctx) : octx :=
  {| o_name := c_name c; o_gen := c_gen c; o_mtime := c_mtime c; o_cfg := cfg_val (c_cfg c); o_cfgl := c_cfg c;
     o_imports := sort_by (fun x => x) (c_imports c); o_ismod := c_ismod c; o_rel := c_rel c; o_born := c_born c;
     o_started := c_started c; o_cnt := c_cnt c |}.

Definition octx_eqb (a b : octx) : bool :=
  nl_eqb (o_name a) (o_name b) && (o_gen a =? o_gen b)%N && (o_mtime a =? o_mtime b)%N && (o_cfg a =? o_cfg b)%N
  && list_eqb nl_eqb (sort_by (fun x => x) (o_imports a)) (sort_by (fun x => x) (o_imports b))
  && Bool.eqb (o_ismod a) (o_ismod b) && option_eqb nl_eqb (o_rel a) (o_rel b) && (o_born a =? o_born b)%N
  && Bool.eqb (o_started a) (o_started b) && (o_cnt a =? o_cnt b)%N.

Definition event_eqb (a b : event) : bool := nl_eqb (fst a) (fst b) && (snd a =? snd b)%N.

(* legacy subsystem: @service registers at definition time; new subsystem: when the context is started.
   the ping reaches the trigger functions of started contexts *)
Definition ostep_of (legacy : bool) (r : step_res) : ostep :=
  {| os_events := r_ev r; os_ctxs := map octx_of (sort_by c_name (r_st r));
     os_srv := sort_N (map c_gen (filter (fun c => legacy || c_started c) (r_st r)));
     os_pong := sort_N (map c_gen (filter c_started (r_st r))) |}.

Definition ostep_eqb (a b : ostep) : bool :=
  list_eqb event_eqb (os_events a) (os_events b)
  && list_eqb octx_eqb (sort_by o_name (os_ctxs a)) (sort_by o_name (os_ctxs b))
  && list_eqb N.eqb (os_srv a) (os_srv b) && list_eqb N.eqb (os_pong a) (os_pong b).

Definition model_obs (dv : deviations) (c : rcase) : list ostep := map (ostep_of (rc_legacy c)) (run dv (rc_steps c)).

(* the conformant Model's own run of the same history satisfies the Spec: ties the Model/Spec pair (the theorems are
   about the Model-level sets of Life/ReloadPlanSpec.v, the Spec evaluated on observations is Life/ReloadSpec.v) *)
Definition rcase_conformant_ok (c : rcase) : bool :=
  rcase_spec_ok {| rc_legacy := rc_legacy c; rc_steps := rc_steps c; rc_obs := model_obs all_off c |}.

Definition rcase_model_ok (dv : deviations) (c : rcase) : bool :=
  forallb r_fuel (run dv (rc_steps c)) && list_eqb ostep_eqb (model_obs dv c) (rc_obs c) && rcase_conformant_ok c.

(* a switch is active on a case iff turning it off (the others as measured) changes what the Model predicts *)
Definition dv_without (dv : deviations) (k : nat) : deviations :=
  {| d_deleted_no_propagate := if Nat.eqb k 100 then false else d_deleted_no_propagate dv;
     d_sibling_rel_name := if Nat.eqb k 101 then false else d_sibling_rel_name dv;
     d_null_cfg := if Nat.eqb k 102 then false else d_null_cfg dv;
     d_named_start := if Nat.eqb k 103 then false else d_named_start dv |}.

Definition rcase_attrib (dv : deviations) (c : rcase) : list nat :=
  let base := model_obs dv c in
  (* only meaningful when the conformant Model satisfies the Spec on its own run of this history *)
  if negb (rcase_conformant_ok c) then [] else
  filter (fun k => negb (list_eqb ostep_eqb (model_obs (dv_without dv k) c) base)) [100; 101; 102; 103]%nat.

(* printed into replays: first step where Model and implementation differ, with both sides *)
Fixpoint first_diff (i : N) (a b : list ostep) : option (N * option ostep * option ostep) :=
  match a, b with
  | [], [] => None
  | x :: a', y :: b' => if ostep_eqb x y then first_diff (i + 1)%N a' b' else Some (i, Some x, Some y)
  | x :: _, [] => Some (i, Some x, None)
  | [], y :: _ => Some (i, None, Some y)
  end.
Definition rcase_explain (dv : deviations) (c : rcase) :=
  (first_diff 0%N (model_obs dv c) (rc_obs c), spec_failures c,
   (* Spec clauses violated by the conformant Model's own run of this history (should be none) *)
   spec_failures {| rc_legacy := rc_legacy c; rc_steps := rc_steps c; rc_obs := model_obs all_off c |}).
