(* Life/ServicesSpec.v — the property C12 as a reference semantics over operation sequences (no counts, no handler
   pointer, no subsystem): which services must exist after each operation, and which function must answer a call.

   A declaration (function object f, name k) is *effective* iff, when f was defined, k was not owned by another
   context (DESIGN.md §4 C12 "declares k and owns it").  The registry required by the property is the set of names
   with an effective declaration by a live function (bound in a loaded context); the function answering a call is
   the most recent such function.  No proofs here. *)
From PV Require Import Common.Util Life.Services.

Record dref := mk_dref { r_ctx : cid; r_name : fid; r_gen : gen; r_srd : srd; r_eff : list key }.
Record rst := mk_rst { t_live : list dref; t_files : list (cid * list stmt); t_next : gen }.
Definition init_rst : rst := {| t_live := []; t_files := []; t_next := 1%N |}.

Definition ref_owner (l : list dref) (k : key) : option cid :=
  option_map r_ctx (find (fun r => memN k (r_eff r)) l).
Definition owner_ok (l : list dref) (c : cid) (k : key) : bool :=
  match ref_owner l k with None => true | Some o => N.eqb o c end.

Definition ref_def (c : cid) (t : rst) (f : fid) (decl : list key) (d : srd) : rst :=
  let g := t_next t in
  let eff := filter (owner_ok (t_live t) c) (nodupN decl) in
  let rest := filter (fun r => negb (N.eqb (r_ctx r) c && N.eqb (r_name r) f)) (t_live t) in
  mk_rst (rest ++ [mk_dref c f g d eff]) (t_files t) (g + 1)%N.
Definition ref_stmt (c : cid) (t : rst) (x : stmt) : rst :=
  match x with
  | SDef f decl d => ref_def c t f decl d
  | SDefRt f decl d => ref_def c t f decl d          (* where a function is created makes no difference to the property *)
  | SDefSt f decl d => ref_def c t f decl d          (* nor does it matter how the names are spread over decorators *)
  | SDel f =>
      mk_rst (filter (fun r => negb (N.eqb (r_ctx r) c && N.eqb (r_name r) f)) (t_live t)) (t_files t) (t_next t)
  end.
Definition ref_body (c : cid) (b : list stmt) (t : rst) : rst := fold_left (ref_stmt c) b t.
Definition ref_stop (t : rst) (c : cid) : rst :=
  mk_rst (filter (fun r => negb (N.eqb (r_ctx r) c)) (t_live t)) (t_files t) (t_next t).
Definition ref_loaded (t : rst) (c : cid) : bool := existsb (fun p => N.eqb (fst p) c) (t_files t).

Definition ref_op (t : rst) (o : op) : rst :=
  match o with
  | OExec c b => if ref_loaded t c then ref_body c b t else t
  | OLoad c b _ =>
      let t1 := ref_stop t c in
      ref_body c b (mk_rst (t_live t1) (file_set c b (t_files t1)) (t_next t1))
  | OUnload c =>
      if ref_loaded t c then let t1 := ref_stop t c in mk_rst (t_live t1) (file_del c (t_files t1)) (t_next t1) else t
  | OReloadAll w _ =>
      let files := fold_left (fun l p => file_set (fst p) (snd p) l) w (t_files t) in
      fold_left (fun t p => ref_body (fst p) (snd p) t) files (mk_rst [] files (t_next t))
  end.

Fixpoint ref_trace (ops : list op) (t : rst) : list rst :=
  match ops with
  | [] => []
  | o :: r => let t' := ref_op t o in t' :: ref_trace r t'
  end.

(* the function that must answer a call of k: the most recent live effective declaration *)
Definition rlater (a : option dref) (r : dref) : option dref :=
  match a with None => Some r | Some x => if (r_gen x <? r_gen r)%N then Some r else Some x end.
Definition ref_handler (t : rst) (k : key) : option dref :=
  fold_left rlater (filter (fun r => memN k (r_eff r)) (t_live t)) None.

(* what the property says about one call outcome *)
Definition kwargs_eqb (a b : kwargs) : bool :=
  list_eqb (fun x y => N.eqb (fst x) (fst y) && Z.eqb (snd x) (snd y)) a b.
Definition ran_ok (g : gen) (data : kwargs) (want_ret : option (option gen)) (o : outc) : bool :=
  match o with
  | OcRun g' kw ret =>
      N.eqb g g' && kwargs_eqb kw (call_kwargs data)
      && match want_ret with None => true | Some w => option_eqb N.eqb w ret end
  | _ => false
  end.

(* call without / with a response request, for a service whose current definition is r *)
Definition spec_call (r : dref) (data : kwargs) (resp : bool) (o : outc) : bool :=
  let g := r_gen r in
  if resp then
    match r_srd r with
    | DOpt | DOnly => ran_ok g data (Some (Some g)) o            (* response supported: the result is returned *)
    | DAbs | DNone => match o with OcErr => true | _ => ran_ok g data None o end   (* no claim beyond "the right function" *)
    end
  else
    match r_srd r with
    | DOnly => match o with OcErr => true | _ => ran_ok g data (Some None) o end
    | _ => ran_ok g data (Some None) o
    end.
