(* StateVar/StateModel.v — executable model of state.py (State.get/exist/set/setattr/delete/getattr/names, StateVal)
   on top of a model of Home Assistant's state machine (hass.states) as a finite map
   entity |-> (state string, attributes).   No proofs here (see Proofs/StateVarRefine.v).

   Identifiers (domains, entity names, attribute names) and Python values are numbers; the harness keeps the
   id <-> string / id <-> object tables.  What Python itself does with values enters through the [host] record:
   [h_str] = str(), [h_eqc] = representative of the ==-class (1 == 1.0 == True), [h_entstr] = the string
   "DOMAIN.name".  Constants read from state.py are in Gen/StateConsts.v (regenerated on every run). *)
From PV Require Import Common.Util Gen.StateConsts.

Definition ident := N.
Definition vid := N.                                  (* id of a Python value's canonical form *)
Definition ename := (ident * ident)%type.             (* DOMAIN.name *)
Definition attrs := list (ident * vid).               (* a Python dict with identifier keys, insertion ordered *)
Definition sname := list ident.                       (* a name string, split at the dots *)

Definition v_none : vid := 0%N.                       (* None *)
Definition v_time_of (t : N) : vid := (100000 + t)%N.  (* the datetime of logical time t (= index of the step that wrote) *)
Definition v_func : vid := 2%N.                       (* any callable *)

Definition ename_eqb (a b : ename) : bool := N.eqb (fst a) (fst b) && N.eqb (snd a) (snd b).
Definition mem_ident (k : ident) (l : list ident) : bool := existsb (N.eqb k) l.
Definition mem_ename (e : ename) (l : list ename) : bool := existsb (ename_eqb e) l.

(* ---------- Python dict operations ---------- *)
Fixpoint alookup (k : ident) (a : attrs) : option vid :=
  match a with
  | [] => None
  | (k', v) :: r => if N.eqb k k' then Some v else alookup k r
  end.
Definition amem (k : ident) (a : attrs) : bool := match alookup k a with Some _ => true | None => false end.
(* d[k] = v : replace in place or append *)
Fixpoint aset (k : ident) (v : vid) (a : attrs) : attrs :=
  match a with
  | [] => [(k, v)]
  | (k', v') :: r => if N.eqb k k' then (k, v) :: r else (k', v') :: aset k v r
  end.
(* d.pop(k, None) *)
Fixpoint adel (k : ident) (a : attrs) : attrs :=
  match a with
  | [] => []
  | (k', v') :: r => if N.eqb k k' then adel k r else (k', v') :: adel k r
  end.
(* d.update(kw) *)
Definition aupdate (a kw : attrs) : attrs := fold_left (fun (acc : attrs) (kv : ident * vid) => aset (fst kv) (snd kv) acc) kw a.
(* for k in ks: d.pop(k, None) *)
Definition adiscard (ks : list ident) (a : attrs) : attrs := fold_left (fun (acc : attrs) (k : ident) => adel k acc) ks a.

(* ---------- what Python does with values ---------- *)
Record host := {
  h_str : vid -> vid;           (* str(v) *)
  h_eqc : vid -> vid;           (* representative of v's equality class: a == b iff h_eqc a = h_eqc b *)
  h_entstr : ename -> vid;      (* the string "DOMAIN.name" *)
  h_bool : bool -> vid;         (* True / False *)
  h_strattr : ident -> bool;    (* hasattr(str, k): every str - hence every StateVal - has this attribute (a str method) *)
  h_pyattr : vid -> ident -> bool   (* hasattr(v, k) for a plain value v (e.g. 'on'.count, [1, 2].count) *)
}.

(* ---------- Home Assistant's state machine ---------- *)
(* one hass State object: state string, attributes, and the logical times of last_changed / last_updated /
   last_reported (the clock is the index of the step during which the write happened) *)
Record hastate := mk_hs { hs_val : vid; hs_attrs : attrs; hs_lc : N; hs_lu : N; hs_lr : N }.
Definition hamap := list (ename * hastate).           (* insertion ordered, like hass.states *)

Fixpoint ha_get (m : hamap) (e : ename) : option hastate :=
  match m with
  | [] => None
  | (e', st) :: r => if ename_eqb e e' then Some st else ha_get r e
  end.
Fixpoint ha_put (m : hamap) (e : ename) (st : hastate) : hamap :=
  match m with
  | [] => [(e, st)]
  | (e', st') :: r => if ename_eqb e e' then (e, st) :: r else (e', st') :: ha_put r e st
  end.
Fixpoint ha_del (m : hamap) (e : ename) : hamap :=
  match m with
  | [] => []
  | (e', st') :: r => if ename_eqb e e' then ha_del r e else (e', st') :: ha_del r e
  end.

(* old_state.attributes == attributes  (dict equality: same keys, ==-equal values) *)
Definition attrs_pyeq (H : host) (a b : attrs) : bool :=
  Nat.eqb (length a) (length b) &&
  forallb (fun kv => match alookup (fst kv) b with
                     | Some v' => N.eqb (h_eqc H (snd kv)) (h_eqc H v')
                     | None => false
                     end) a.

(* StateMachine.async_set_internal at time [t] with an already stringified state [s]:
   same state and same attributes -> only last_reported moves; same attributes -> the OLD attribute object is kept
   (so 1 is not replaced by True); same state -> last_changed is kept; last_updated and last_reported move on every
   write that changes something. *)
Definition ha_write (H : host) (t : N) (m : hamap) (e : ename) (s : vid) (a : attrs) : hamap :=
  match ha_get m e with
  | None => ha_put m e (mk_hs s a t t t)
  | Some st0 =>
      let same_attr := attrs_pyeq H (hs_attrs st0) a in
      let same_state := N.eqb s (hs_val st0) in
      ha_put m e (mk_hs s (if same_attr then hs_attrs st0 else a)
                        (if same_state then hs_lc st0 else t)
                        (if same_state && same_attr then hs_lu st0 else t)
                        t)
  end.
(* hass.states.async_set(entity, value, attributes): the value is passed through str() *)
Definition ha_async_set (H : host) (t : N) (m : hamap) (e : ename) (v : vid) (a : attrs) : hamap :=
  ha_write H t m e (h_str H v) a.
(* hass.states.async_remove -> (existed, new map) *)
Definition ha_async_remove (m : hamap) (e : ename) : bool * hamap :=
  match ha_get m e with
  | Some _ => (true, ha_del m e)
  | None => (false, m)
  end.
Definition ha_entity_ids (m : hamap) (dom : option ident) : list ename :=
  map fst (filter (fun p => match dom with None => true | Some d => N.eqb (fst (fst p)) d end) m).

(* ---------- Python values a script can hold ---------- *)
Inductive pyval :=
  | PVal (v : vid)                         (* plain value: str/int/float/bool/None/list/dict *)
  | PSnap (v : vid) (d : attrs)            (* StateVal: the state string and the instance __dict__ *)
  | PFunc                                  (* a callable (function, service call, bound method) *)
  | PDict (a : attrs)                      (* dict returned by state.getattr *)
  | PNames (l : list ename)                (* list returned by state.names *)
  | PObj (o : attrs).                      (* plain Python object with these attributes *)

Inductive exc := ENameError | EAttributeError | ETypeError
  | EUnmodelled                            (* combination outside the modelled fragment (never generated) *)
  | EOther.                                (* only in observations: any other exception *)

Inductive res (A : Type) := Ok (a : A) | Raise (e : exc).
Arguments Ok {A} a.
Arguments Raise {A} e.

(* ---------- deviation switches (on = what the code does today; all off = conformant) ---------- *)
Record deviations := {
  d_assign_none_omitted : bool;    (* D160: DOMAIN.name = None is treated as "value omitted" (old value kept) *)
  d_setattr_param_clash : bool;    (* D161: attribute named like a parameter of State.set binds that parameter *)
  d_del_ignores_pyvar : bool       (* D7: del v.attr goes to State.delete even when v is a Python variable *)
}.
Definition all_off : deviations :=
  {| d_assign_none_omitted := false; d_setattr_param_clash := false; d_del_ignores_pyvar := false |}.

(* ---------- state.py ---------- *)
(* state.<field> for the field codes the translator emits: 0 entity_id, 1 last_changed, 2 last_updated, 3 last_reported *)
Definition state_field (H : host) (e : ename) (st : hastate) (src : N) : vid :=
  match src with
  | 0%N => h_entstr H e
  | 1%N => v_time_of (hs_lc st)
  | 2%N => v_time_of (hs_lu st)
  | _ => v_time_of (hs_lr st)
  end.
(* StateVal.__new__: __dict__ = attributes.copy(), then `new_var.X = state.Y` in source order *)
Definition stateval_new (H : host) (e : ename) (st : hastate) : pyval :=
  PSnap (hs_val st)
        (fold_left (fun (d : attrs) (f : N * N) => aset (fst f) (state_field H e st (snd f)) d) stateval_new_fields (hs_attrs st)).

(* parts[0] in service2args and parts[2] in service2args[parts[0]] *)
Definition svc_method (svcargs : list (ident * ident)) (d k : ident) : bool :=
  existsb (fun p => N.eqb d (fst p) && N.eqb k (snd p)) svcargs.

Definition state_exist (svcargs : list (ident * ident)) (m : hamap) (nm : sname) : bool :=
  match nm with
  | [d; n] => match ha_get m (d, n) with Some _ => true | None => false end
  | [d; n; k] =>
      match ha_get m (d, n) with
      | None => false
      | Some st => svc_method svcargs d k || amem k (hs_attrs st) || mem_ident k state_virtual_attrs || mem_ident k state_callable_attrs
      end
  | _ => false
  end.

(* getattr(StateVal instance, k): instance __dict__, then the class (helper methods), then its base class str *)
Definition snap_getattr (H : host) (d : attrs) (k : ident) : res pyval :=
  match alookup k d with
  | Some v => Ok (PVal v)
  | None => if mem_ident k state_callable_attrs || h_strattr H k then Ok PFunc else Raise EAttributeError
  end.

Definition state_get (H : host) (svcargs : list (ident * ident)) (m : hamap) (nm : sname) : res pyval :=
  match nm with
  | [d; n] =>
      match ha_get m (d, n) with
      | None => Raise ENameError
      | Some st => Ok (stateval_new H (d, n) st)
      end
  | [d; n; k] =>
      match ha_get m (d, n) with
      | None => Raise ENameError
      | Some st =>
          if svc_method svcargs d k then Ok PFunc
          else match stateval_new H (d, n) st with
               | PSnap _ dct => snap_getattr H dct k
               | _ => Raise EUnmodelled
               end
      end
  | _ => Raise ENameError
  end.

Definition is_none (v : vid) : bool := N.eqb v v_none.

(* State.set(var_name, value=None, new_attributes=None, **kwargs) *)
Definition state_set (H : host) (t : N) (m : hamap) (nm : sname) (value : pyval) (new_attributes : option attrs)
           (kwargs : attrs) : res hamap :=
  match nm with
  | [d; n] =>
      let e := (d, n) in
      (* if isinstance(value, StateVal): take its attributes (minus the virtual ones) unless given; value = str(value) *)
      let vn := match value with
                | PSnap v dct => (PVal v, match new_attributes with
                                          | None => Some (adiscard state_virtual_attrs dct)
                                          | Some a => Some a
                                          end)
                | _ => (value, new_attributes)
                end in
      match fst vn with
      | PVal v =>
          let na := snd vn in
          let state_value := if is_none v || match na with None => true | Some _ => false end
                             then ha_get m e else None in
          let v1 := if is_none v then match state_value with Some st => hs_val st | None => v end else v in
          let na1 := match na with
                     | Some a => a
                     | None => match state_value with Some st => hs_attrs st | None => [] end
                     end in
          let na2 := match kwargs with [] => na1 | _ => aupdate na1 kwargs end in
          Ok (ha_async_set H t m e v1 na2)
      | _ => Raise EUnmodelled             (* str() of a function / dict result: not modelled *)
      end
  | _ => Raise ENameError
  end.

(* State.setattr("d.n.k", value) -> cls.set("d.n", **{k: value}) *)
Definition state_setattr (dv : deviations) (H : host) (t : N) (svcargs : list (ident * ident)) (m : hamap) (nm : sname)
           (value : vid) : res hamap :=
  match nm with
  | [d; n; k] =>
      if negb (state_exist svcargs m [d; n]) then Raise ENameError
      else if d_setattr_param_clash dv && N.eqb k set_param_value then
             state_set H t m [d; n] (PVal value) None []          (* **{"value": v} binds the parameter *)
      else if d_setattr_param_clash dv && mem_ident k set_param_other then Raise EUnmodelled
      else state_set H t m [d; n] (PVal v_none) None [(k, value)]
  | _ => Raise ENameError
  end.

Definition state_delete (H : host) (t : N) (m : hamap) (nm : sname) : res hamap :=
  match nm with
  | [d; n] =>
      let r := ha_async_remove m (d, n) in
      if fst r then Ok (snd r) else Raise ENameError
  | [d; n; k] =>
      match ha_get m (d, n) with
      | None => Raise ENameError
      | Some st =>
          if amem k (hs_attrs st) then state_set H t m [d; n] (PVal (hs_val st)) (Some (adel k (hs_attrs st))) []
          else Raise EAttributeError
      end
  | _ => Raise ENameError
  end.

(* State.getattr(name or StateVal) *)
Definition state_getattr (m : hamap) (arg : pyval + sname) : res pyval :=
  match arg with
  | inl (PSnap _ dct) => Ok (PDict (adiscard state_virtual_attrs dct))
  | inl (PVal v) => if is_none v then Raise EAttributeError (* None.count *) else Raise EUnmodelled
  | inl _ => Raise EUnmodelled
  | inr [d; n] =>
      match ha_get m (d, n) with
      | None => Ok (PVal v_none)
      | Some st => Ok (PDict (hs_attrs st))
      end
  | inr _ => Raise ENameError
  end.

Definition state_names (m : hamap) (dom : option ident) : res pyval := Ok (PNames (ha_entity_ids m dom)).
