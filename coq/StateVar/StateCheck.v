(* StateVar/StateCheck.v — what the generated correspondence files evaluate for C16.
   A case is an initial observable state and a list of (step, observation after the step).  Every step is checked
   from the state OBSERVED before it ("checked after each step against a dictionary model"):
   [scase_model_ok]: the Model (under the measured deviation switches) reproduces what the real code did (tie T2);
   [scase_spec_ok] : what the real code did is what the documented rules (Spec) require.
   Dict / entity order is not compared (the property does not speak about it). *)
From PV Require Import Common.Util Gen.StateConsts StateVar.StateModel StateVar.Resolve StateVar.Spec.

Record obs := { o_res : option (res pyval); o_state : mstate }.

Record scase := {
  sc_init : mstate;
  sc_steps : list (step * obs)
}.

(* ---------- the host tables shipped by the harness ---------- *)
Fixpoint tlookup (k : N) (t : list (N * N)) : option N :=
  match t with [] => None | (k', v) :: r => if N.eqb k k' then Some v else tlookup k r end.
Definition table_fn (t : list (N * N)) (v : N) : N := match tlookup v t with Some x => x | None => v end.
Fixpoint elookup (e : ename) (t : list (ename * N)) : N :=
  match t with [] => 0%N | (e', v) :: r => if ename_eqb e e' then v else elookup e r end.
(* [strattrs]: identifiers that are attributes of every str; [pyattrs]: (value, identifier) pairs with hasattr(value, identifier) *)
Definition mk_host (strtab eqtab : list (N * N)) (enttab : list (ename * N)) (vtrue vfalse : N)
           (strattrs : list N) (pyattrs : list (N * N)) : host :=
  {| h_str := table_fn strtab; h_eqc := table_fn eqtab; h_entstr := fun e => elookup e enttab;
     h_bool := fun b => if b then vtrue else vfalse;
     h_strattr := fun k => existsb (N.eqb k) strattrs;
     h_pyattr := fun v k => existsb (fun p : N * N => N.eqb v (fst p) && N.eqb k (snd p)) pyattrs |}.

(* the str() table must be idempotent and never produce None (hypotheses of C16_refines); checked in every shard *)
Definition strtab_ok (t : list (N * N)) : bool :=
  forallb (fun kx : N * N => N.eqb (table_fn t (snd kx)) (snd kx) && negb (N.eqb (snd kx) 0)) t
  && match tlookup 0 t with Some _ => true | None => false end.

(* ---------- order-insensitive comparison ---------- *)
Definition attrs_same (a b : attrs) : bool :=
  Nat.eqb (length a) (length b)
  && forallb (fun kv : ident * vid => option_eqb N.eqb (alookup (fst kv) b) (Some (snd kv))) a
  && forallb (fun kv : ident * vid => option_eqb N.eqb (alookup (fst kv) a) (Some (snd kv))) b.

Definition names_same (a b : list ename) : bool :=
  Nat.eqb (length a) (length b) && forallb (fun e => mem_ename e b) a && forallb (fun e => mem_ename e a) b.

Definition pyval_same (a b : pyval) : bool :=
  match a, b with
  | PVal x, PVal y => N.eqb x y
  | PSnap x d, PSnap y d' => N.eqb x y && attrs_same d d'
  | PFunc, PFunc => true
  | PDict d, PDict d' => attrs_same d d'
  | PNames l, PNames l' => names_same l l'
  | PObj o, PObj o' => attrs_same o o'
  | _, _ => false
  end.

Definition exc_eqb (a b : exc) : bool :=
  match a, b with
  | ENameError, ENameError | EAttributeError, EAttributeError | ETypeError, ETypeError => true
  | _, _ => false                      (* EUnmodelled / EOther never match *)
  end.

Definition res_same (a b : res pyval) : bool :=
  match a, b with
  | Ok x, Ok y => pyval_same x y
  | Raise x, Raise y => exc_eqb x y
  | _, _ => false
  end.

Definition ores_same (a b : option (res pyval)) : bool :=
  match a, b with
  | None, None => true
  | Some x, Some y => res_same x y
  | _, _ => false
  end.

(* value, attributes and the three time stamps (as indices of the writing steps) *)
Definition hastate_same (a b : hastate) : bool :=
  N.eqb (hs_val a) (hs_val b) && attrs_same (hs_attrs a) (hs_attrs b)
  && N.eqb (hs_lc a) (hs_lc b) && N.eqb (hs_lu a) (hs_lu b) && N.eqb (hs_lr a) (hs_lr b).
Definition hamap_same (a b : hamap) : bool :=
  Nat.eqb (length a) (length b)
  && forallb (fun p : ename * hastate => match ha_get b (fst p) with Some s => hastate_same (snd p) s | None => false end) a
  && forallb (fun p : ename * hastate => match ha_get a (fst p) with Some s => hastate_same (snd p) s | None => false end) b.

Definition pyvars_same (a b : pyvars) : bool :=
  Nat.eqb (length a) (length b)
  && forallb (fun p : ident * attrs => match vlookup (fst p) b with Some o => attrs_same (snd p) o | None => false end) a.

Definition slots_same (a b : list (N * pyval)) : bool :=
  forallb (fun p : N * pyval => pyval_same (snd p) (slot_get (fst p) b)) a
  && forallb (fun p : N * pyval => pyval_same (snd p) (slot_get (fst p) a)) b.

Definition mstate_same (a b : mstate) : bool :=
  hamap_same (ms_ha a) (ms_ha b) && names_same (ms_svcs a) (ms_svcs b)
  && names_same (ms_esvcs a) (ms_esvcs b) && names_same (ms_svcargs a) (ms_svcargs b)
  && pyvars_same (ms_globals a) (ms_globals b) && slots_same (ms_slots a) (ms_slots b).

Definition out_same (a : option (res pyval) * mstate) (o : obs) : bool :=
  ores_same (fst a) (o_res o) && mstate_same (snd a) (o_state o).

(* ---------- walking a case ---------- *)
Section Walk.
  Variable H : host.
  Variable dv : deviations.
  Variable c : scase.

  Definition cfg_of (d : deviations) : config :=
    {| cf_dev := d; cf_host := H; cf_funcs := state_function_names |}.

  Definition model_out (d : deviations) (now : N) (st : mstate) (s : step) := model_step (cfg_of d) now st s.
  Definition spec_out (now : N) (st : mstate) (s : step) := spec_step H state_function_names now st s.

  (* indices of the steps on which [f pre step obs] is false *)
  (* step number i (0-based) runs at logical time i+1: the harness sets Home Assistant's wall clock accordingly *)
  Fixpoint bad_steps (f : N -> mstate -> step -> obs -> bool) (i : nat) (now : N) (st : mstate) (l : list (step * obs)) : list nat :=
    match l with
    | [] => []
    | (s, o) :: r =>
        let rest := bad_steps f (S i) (N.succ now) (o_state o) r in
        if f now st s o then rest else i :: rest
    end.

  Definition step_model_ok (now : N) (st : mstate) (s : step) (o : obs) : bool := out_same (model_out dv now st s) o.
  Definition step_spec_ok (now : N) (st : mstate) (s : step) (o : obs) : bool := out_same (spec_out now st s) o.

  Definition model_bad : list nat := bad_steps step_model_ok 0 1%N (sc_init c) (sc_steps c).
  Definition spec_bad : list nat := bad_steps step_spec_ok 0 1%N (sc_init c) (sc_steps c).

  (* which single finding explains a step that fails the Spec: the Model with only that switch on reproduces the
     observation, and with that switch off (all others as measured) it agrees with the Spec *)
  Definition only (k : nat) : deviations :=
    {| d_assign_none_omitted := Nat.eqb k 160; d_setattr_param_clash := Nat.eqb k 161; d_del_ignores_pyvar := Nat.eqb k 7 |}.
  Definition without (k : nat) : deviations :=
    {| d_assign_none_omitted := d_assign_none_omitted dv && negb (Nat.eqb k 160);
       d_setattr_param_clash := d_setattr_param_clash dv && negb (Nat.eqb k 161);
       d_del_ignores_pyvar := d_del_ignores_pyvar dv && negb (Nat.eqb k 7) |}.
  Definition outs_same (a b : option (res pyval) * mstate) : bool :=
    ores_same (fst a) (fst b) && mstate_same (snd a) (snd b).
  Definition explains (k : nat) (now : N) (st : mstate) (s : step) (o : obs) : bool :=
    out_same (model_out (only k) now st s) o && outs_same (model_out (without k) now st s) (spec_out now st s).

  Fixpoint attrib_steps (now : N) (st : mstate) (l : list (step * obs)) : option (list nat) :=
    match l with
    | [] => Some []
    | (s, o) :: r =>
        match attrib_steps (N.succ now) (o_state o) r with
        | None => None
        | Some ks =>
            if step_spec_ok now st s o then Some ks
            else match filter (fun k => explains k now st s o) [160; 161; 7]%nat with
                 | [] => None
                 | k :: _ => Some (if existsb (Nat.eqb k) ks then ks else k :: ks)
                 end
        end
    end.
End Walk.

Definition scase_model_ok (H : host) (dv : deviations) (c : scase) : bool :=
  match model_bad H dv c with [] => true | _ => false end.
Definition scase_spec_ok (H : host) (c : scase) : bool :=
  match spec_bad H c with [] => true | _ => false end.
(* finding numbers explaining ALL Spec failures of the case; [] if some failing step is not explained *)
Definition scase_attrib (H : host) (dv : deviations) (c : scase) : list nat :=
  match attrib_steps H dv 1%N (sc_init c) (sc_steps c) with Some ks => ks | None => [] end.

(* for replays: failing step indices and what Model / Spec produce on the first failing step *)
Definition first_out (H : host) (dv : deviations) (c : scase) (i : nat) :=
  let pre := match i with
             | O => sc_init c
             | S j => match nth_error (sc_steps c) j with Some (_, o) => o_state o | None => sc_init c end
             end in
  match nth_error (sc_steps c) i with
  | Some (s, o) => Some (s, model_out H dv (N.of_nat (S i)) pre s, spec_out H (N.of_nat (S i)) pre s, o)
  | None => None
  end.
Definition scase_explain (H : host) (dv : deviations) (c : scase) :=
  (model_bad H dv c, spec_bad H c,
   match model_bad H dv c ++ spec_bad H c with i :: _ => first_out H dv c i | [] => None end).
