(* StateVar/Spec.v — the documented rules of property C16, written directly as operations on the same kind of
   state (a dictionary entity |-> (state string, attributes)), independently of how state.py / eval.py compute them.
   Shared with the Model: the data types, the Python-dict helpers, the model of Home Assistant's own state machine
   ([ha_get/ha_write/ha_del]) and of the harness's capture statement.  Not used: any State.* or ast_* function.

   Rules (statement of C16 + docs/reference.rst "State Variables"):
   R1  reading DOMAIN.name / state.get gives a string snapshot carrying the attributes and, on top of them, the
       virtual fields; NameError for a missing entity, AttributeError for a missing attribute;
   R2  DOMAIN.name = v sets the value to str(v) and keeps the attributes;
   R3  DOMAIN.name.attr = v / state.setattr change only that attribute;
   R4  state.set: new_attributes replaces all attributes, keyword attributes are merged, an omitted value is kept;
       a StateVal argument contributes its string and (unless new_attributes is given) its non-virtual attributes;
   R5  del / state.delete / state.exist / state.names / state.getattr agree with the dictionary;
   R6  a name whose first part is a local or global Python variable is plain Python attribute access; otherwise a
       pyscript function name or existing service name DOMAIN.name denotes that callable; otherwise the state. *)
From PV Require Import Common.Util Gen.StateConsts StateVar.StateModel StateVar.Resolve.

Section Spec.
  Variable H : host.
  Variable funcs : list ename.
  Variable now : N.                      (* logical time of the step *)

  (* the documented virtual fields: entity_id (the entity's name), last_updated, last_changed, last_reported (times).
     These are the harness's fixed identifier numbers, NOT read from the code; the order is irrelevant to the
     property (comparisons with the implementation ignore dict order). *)
  Definition doc_virtual_attrs : list ident := [100; 102; 101; 103]%N.
  (* what each documented field carries: the entity's name and Home Assistant's own three time stamps *)
  Definition virtual_fields (e : ename) (s : hastate) : attrs :=
    [(100, h_entstr H e); (102, v_time_of (hs_lu s)); (101, v_time_of (hs_lc s)); (103, v_time_of (hs_lr s))]%N.

  (* R1: the snapshot of an entity *)
  Definition snapshot_of (e : ename) (s : hastate) : pyval := PSnap (hs_val s) (aupdate (hs_attrs s) (virtual_fields e s)).

  (* state attribute k of entity e: virtual fields first (documented to take precedence), then the entity's attributes,
     then StateVal's documented helper methods *)
  Definition entity_attr (e : ename) (s : hastate) (k : ident) : res pyval :=
    match alookup k (virtual_fields e s) with
    | Some v => Ok (PVal v)
    | None =>
        match alookup k (hs_attrs s) with
        | Some v => Ok (PVal v)
        | None => if mem_ident k state_callable_attrs then Ok PFunc else Raise EAttributeError
        end
    end.

  Definition without_virtual (d : attrs) : attrs :=
    filter (fun kv : ident * vid => negb (mem_ident (fst kv) doc_virtual_attrs)) d.

  (* R6: what the two-part name d.n denotes *)
  Inductive denot := DPyLocal (o : attrs) | DPyGlobal (o : attrs) | DCallable | DState.
  Definition denote (locals : pyvars) (st : mstate) (d n : ident) : denot :=
    match vlookup d locals with
    | Some o => DPyLocal o
    | None =>
        match vlookup d (ms_globals st) with
        | Some o => DPyGlobal o
        | None => if mem_ename (d, n) funcs || mem_ename (d, n) (ms_svcs st) then DCallable else DState
        end
    end.

  Definition obj_attr (o : attrs) (n : ident) : res pyval :=
    match alookup n o with Some v => Ok (PVal v) | None => Raise EAttributeError end.

  (* reading the expression d.n or d.n.k *)
  Definition spec_read (locals : pyvars) (st : mstate) (parts : list ident) : res pyval :=
    match parts with
    | [d; n] =>
        match denote locals st d n with
        | DPyLocal o | DPyGlobal o => obj_attr o n
        | DCallable => Ok PFunc
        | DState =>
            match ha_get (ms_ha st) (d, n) with
            | Some s => Ok (snapshot_of (d, n) s)
            | None => Raise ENameError
            end
        end
    | [d; n; k] =>
        match denote locals st d n with
        | DPyLocal o | DPyGlobal o =>                             (* the object's attributes are plain values *)
            match alookup n o with
            | Some v => if h_pyattr H v k then Ok PFunc else Raise EAttributeError
            | None => Raise EAttributeError
            end
        | dd =>
            match ha_get (ms_ha st) (d, n) with
            | Some s =>
                if svc_method (ms_svcargs st) d k then Ok PFunc   (* entity service method (table of the last refresh) *)
                else match entity_attr (d, n) s k with
                     | Ok v => Ok v
                     | Raise _ =>                                 (* no such state attribute: attribute of what d.n denotes *)
                         match dd with
                         | DCallable => Raise EAttributeError
                         | _ => if h_strattr H k then Ok PFunc (* a snapshot is a str *) else Raise EAttributeError
                         end
                     end
            | None => match dd with DCallable => Raise EAttributeError | _ => Raise ENameError end
            end
        end
    | _ => Raise EUnmodelled
    end.

  (* state.get("…") *)
  Definition spec_get (st : mstate) (nm : sname) : res pyval :=
    match nm with
    | [d; n] =>
        match ha_get (ms_ha st) (d, n) with
        | Some s => Ok (snapshot_of (d, n) s)
        | None => Raise ENameError
        end
    | [d; n; k] =>
        match ha_get (ms_ha st) (d, n) with
        | Some s =>
            if svc_method (ms_svcargs st) d k then Ok PFunc
            else match entity_attr (d, n) s k with
                 | Ok v => Ok v
                 | Raise _ => if h_strattr H k then Ok PFunc else Raise EAttributeError
                 end
        | None => Raise ENameError
        end
    | _ => Raise ENameError
    end.

  Definition cur_attrs (m : hamap) (e : ename) : attrs :=
    match ha_get m e with Some s => hs_attrs s | None => [] end.

  (* R2 / R3 / R6: d.n = rhs and d.n.k = rhs *)
  Definition spec_assign (locals : pyvars) (st : mstate) (parts : list ident) (rhs : pyval) : res mstate :=
    let m := ms_ha st in
    match parts with
    | [d; n] =>
        match denote locals st d n with
        | DPyLocal _ => match rhs with PVal _ => Ok st | _ => Raise EUnmodelled end
        | DPyGlobal o =>
            match rhs with
            | PVal v => Ok (with_globals st (vset d (aset n v o) (ms_globals st)))
            | _ => Raise EUnmodelled
            end
        | _ =>        (* the state variable - also when a function or service has that name *)
            match rhs with
            | PVal v => Ok (with_ha st (ha_write H now m (d, n) (h_str H v) (cur_attrs m (d, n))))
            | PSnap v dct => Ok (with_ha st (ha_write H now m (d, n) (h_str H v) (without_virtual dct)))
            | _ => Raise EUnmodelled
            end
        end
    | [d; n; k] =>
        match denote locals st d n with
        | DPyLocal _ | DPyGlobal _ => Raise EAttributeError
        | _ =>
            match rhs with
            | PVal v =>
                match ha_get m (d, n) with
                | None => Raise ENameError
                | Some s => Ok (with_ha st (ha_write H now m (d, n) (hs_val s) (aset k v (hs_attrs s))))
                end
            | _ => Raise EUnmodelled
            end
        end
    | _ => Raise EUnmodelled
    end.

  (* R4: state.set(name, value, new_attributes, **kw); value None = omitted *)
  Definition spec_set (m : hamap) (nm : sname) (value : pyval) (nattr : option attrs) (kw : attrs) : res hamap :=
    match nm with
    | [d; n] =>
        match value with
        | PVal v =>
            let s' := if is_none v
                      then match ha_get m (d, n) with Some s => hs_val s | None => h_str H v_none end
                      else h_str H v in
            let base := match nattr with Some a => a | None => cur_attrs m (d, n) end in
            Ok (ha_write H now m (d, n) s' (aupdate base kw))
        | PSnap v dct =>
            let base := match nattr with Some a => a | None => without_virtual dct end in
            Ok (ha_write H now m (d, n) (h_str H v) (aupdate base kw))
        | _ => Raise EUnmodelled
        end
    | _ => Raise ENameError
    end.

  (* R3: state.setattr("d.n.k", v) *)
  Definition spec_setattr (m : hamap) (nm : sname) (v : vid) : res hamap :=
    match nm with
    | [d; n; k] =>
        match ha_get m (d, n) with
        | None => Raise ENameError
        | Some s => Ok (ha_write H now m (d, n) (hs_val s) (aset k v (hs_attrs s)))
        end
    | _ => Raise ENameError
    end.

  (* R5: state.delete *)
  Definition spec_delete (m : hamap) (nm : sname) : res hamap :=
    match nm with
    | [d; n] =>
        match ha_get m (d, n) with
        | Some _ => Ok (ha_del m (d, n))
        | None => Raise ENameError
        end
    | [d; n; k] =>
        match ha_get m (d, n) with
        | None => Raise ENameError
        | Some s => if amem k (hs_attrs s) then Ok (ha_write H now m (d, n) (hs_val s) (adel k (hs_attrs s)))
                    else Raise EAttributeError
        end
    | _ => Raise ENameError
    end.

  (* R5 / R6: del d.n / del d.n.k *)
  Definition spec_del_expr (locals : pyvars) (st : mstate) (parts : list ident) : res mstate :=
    let on_state := match spec_delete (ms_ha st) parts with Ok m => Ok (with_ha st m) | Raise x => Raise x end in
    match parts with
    | [d; n] =>
        match denote locals st d n with
        | DPyLocal o => if amem n o then Ok st else Raise EAttributeError
        | DPyGlobal o => if amem n o then Ok (with_globals st (vset d (adel n o) (ms_globals st)))
                         else Raise EAttributeError
        | _ => on_state
        end
    | [d; n; k] =>
        match denote locals st d n with
        | DPyLocal _ | DPyGlobal _ => Raise EAttributeError
        | _ => on_state
        end
    | _ => Raise EUnmodelled
    end.

  (* R5: state.exist *)
  Definition spec_exist (svcargs : list (ident * ident)) (m : hamap) (nm : sname) : bool :=
    match nm with
    | [d; n] => match ha_get m (d, n) with Some _ => true | None => false end
    | [d; n; k] =>
        match ha_get m (d, n) with
        | Some s => svc_method svcargs d k || amem k (hs_attrs s) || mem_ident k doc_virtual_attrs
                    || mem_ident k state_callable_attrs
        | None => false
        end
    | _ => false
    end.

  (* R5: state.getattr *)
  Definition spec_getattr (m : hamap) (arg : pyval + sname) : res pyval :=
    match arg with
    | inl (PSnap _ dct) => Ok (PDict (without_virtual dct))
    | inl (PVal v) => if is_none v then Raise EAttributeError else Raise EUnmodelled
    | inl _ => Raise EUnmodelled
    | inr [d; n] => match ha_get m (d, n) with Some s => Ok (PDict (hs_attrs s)) | None => Ok (PVal v_none) end
    | inr _ => Raise ENameError
    end.

  Definition spec_names (m : hamap) (dom : option ident) : res pyval :=
    Ok (PNames (map fst (filter (fun p : ename * hastate =>
                                   match dom with None => true | Some d => N.eqb (fst (fst p)) d end) m))).

  (* attribute of a captured value *)
  Definition spec_slot_attr (p : pyval) (k : ident) : res pyval :=
    match p with
    | PSnap _ d => match alookup k d with
                   | Some v => Ok (PVal v)
                   | None => if mem_ident k state_callable_attrs || h_strattr H k then Ok PFunc else Raise EAttributeError
                   end
    | PVal v => if h_pyattr H v k then Ok PFunc else Raise EAttributeError
    | PObj o => obj_attr o k
    | _ => Raise EAttributeError
    end.

  Definition spec_op (locals : pyvars) (st : mstate) (o : op) : res pyval * mstate :=
    match o with
    | ORead e cap =>
        if dn_len_ok e then capture st cap (of_res (spec_read locals st (dn_parts e))) else (Raise EUnmodelled, st)
    | OGet nm cap => capture st cap (of_res (spec_get st nm))
    | OAssign e rhs =>
        if dn_len_ok e then lift_st st (spec_assign locals st (dn_parts e) (eval_vexpr st rhs))
        else (Raise EUnmodelled, st)
    | OSet nm value nattr kw =>
        let v := match value with Some x => eval_vexpr st x | None => PVal v_none end in
        let na := match nattr with Some (Some a) => Some a | _ => None end in
        lift_ha st (spec_set (ms_ha st) nm v na kw)
    | OSetattr nm v => lift_ha st (spec_setattr (ms_ha st) nm v)
    | ODel e => if dn_len_ok e then lift_st st (spec_del_expr locals st (dn_parts e)) else (Raise EUnmodelled, st)
    | ODelete nm => lift_ha st (spec_delete (ms_ha st) nm)
    | OExist nm => (Ok (PVal (h_bool H (spec_exist (ms_svcargs st) (ms_ha st) nm))), st)
    | OGetattr nm => (spec_getattr (ms_ha st) (inr nm), st)
    | OGetattrSlot j => (spec_getattr (ms_ha st) (inl (slot_get j (ms_slots st))), st)
    | ONames dom => (spec_names (ms_ha st) dom, st)
    | OReadSlot j => (Ok (slot_get j (ms_slots st)), st)
    | OReadSlotAttr j k => (spec_slot_attr (slot_get j (ms_slots st)) k, st)
    end.

  Definition spec_step (st : mstate) (s : step) : option (res pyval) * mstate :=
    match s with
    | SExt x => (None, ext_op H now st x)                 (* the environment: not pyscript's doing *)
    | SScript locals o => let r := spec_op locals st o in (Some (fst r), snd r)
    end.

End Spec.

(* a run starting at logical time [now]; every step takes one tick *)
Fixpoint run_spec (H : host) (funcs : list ename) (now : N) (st : mstate)
         (steps : list step) : list (option (res pyval)) * mstate :=
  match steps with
  | [] => ([], st)
  | s :: r =>
      let o := spec_step H funcs now st s in
      let rest := run_spec H funcs (N.succ now) (snd o) r in
      (fst o :: fst rest, snd rest)
  end.
