(* StateVar/Resolve.v — executable model of how eval.py resolves dotted names and routes dotted assignment and
   deletion (ast_name, ast_attribute_collapse, ast_attribute, recurse_assign, ast_delete), and of one generated
   script step / external step on the whole observable state.  No proofs here. *)
From PV Require Import Common.Util Gen.StateConsts StateVar.StateModel.

(* a dotted expression as the Python AST has it: Attribute(value=Attribute(value=Name(h), attr=n), attr=k) *)
Inductive dn := DHead (h : ident) | DAttr (p : dn) (a : ident).
Fixpoint dn_parts (e : dn) : list ident :=
  match e with DHead h => [h] | DAttr p a => dn_parts p ++ [a] end.
Fixpoint dn_head (e : dn) : ident :=
  match e with DHead h => h | DAttr p _ => dn_head p end.

Definition pyvars := list (ident * attrs).           (* variable name |-> the plain object it is bound to *)
Fixpoint vlookup (h : ident) (t : pyvars) : option attrs :=
  match t with
  | [] => None
  | (h', o) :: r => if N.eqb h h' then Some o else vlookup h r
  end.
Fixpoint vset (h : ident) (o : attrs) (t : pyvars) : pyvars :=
  match t with
  | [] => [(h, o)]
  | (h', o') :: r => if N.eqb h h' then (h, o) :: r else (h', o') :: vset h o r
  end.

Fixpoint slot_get (j : N) (t : list (N * pyval)) : pyval :=
  match t with
  | [] => PVal v_none
  | (j', p) :: r => if N.eqb j j' then p else slot_get j r
  end.
Fixpoint slot_set (j : N) (p : pyval) (t : list (N * pyval)) : list (N * pyval) :=
  match t with
  | [] => [(j, p)]
  | (j', p') :: r => if N.eqb j j' then (j, p) :: r else (j', p') :: slot_set j p r
  end.

(* the whole observable state *)
Record mstate := {
  ms_ha : hamap;                       (* hass.states *)
  ms_svcs : list ename;                (* existing services *)
  ms_esvcs : list ename;               (* those of them that have an entity_id parameter (entity services) *)
  ms_svcargs : list (ident * ident);   (* State.service2args: (domain, service) pairs as of the last refresh
                                          (State.get_service_params, run at start-up and by pyscript.reload) *)
  ms_globals : pyvars;                 (* global Python variables bound to plain objects *)
  ms_slots : list (N * pyval)          (* the global variables s0, s1, ... holding captured values *)
}.
Definition with_ha (st : mstate) (m : hamap) : mstate :=
  {| ms_ha := m; ms_svcs := ms_svcs st; ms_esvcs := ms_esvcs st; ms_svcargs := ms_svcargs st;
     ms_globals := ms_globals st; ms_slots := ms_slots st |}.
Definition with_globals (st : mstate) (g : pyvars) : mstate :=
  {| ms_ha := ms_ha st; ms_svcs := ms_svcs st; ms_esvcs := ms_esvcs st; ms_svcargs := ms_svcargs st;
     ms_globals := g; ms_slots := ms_slots st |}.
Definition with_slots (st : mstate) (s : list (N * pyval)) : mstate :=
  {| ms_ha := ms_ha st; ms_svcs := ms_svcs st; ms_esvcs := ms_esvcs st; ms_svcargs := ms_svcargs st;
     ms_globals := ms_globals st; ms_slots := s |}.
Definition with_svcs (st : mstate) (s e : list ename) : mstate :=
  {| ms_ha := ms_ha st; ms_svcs := s; ms_esvcs := e; ms_svcargs := ms_svcargs st;
     ms_globals := ms_globals st; ms_slots := ms_slots st |}.
Definition with_svcargs (st : mstate) (t : list (ident * ident)) : mstate :=
  {| ms_ha := ms_ha st; ms_svcs := ms_svcs st; ms_esvcs := ms_esvcs st; ms_svcargs := t;
     ms_globals := ms_globals st; ms_slots := ms_slots st |}.

(* static configuration of a run *)
Record config := {
  cf_dev : deviations;
  cf_host : host;
  cf_funcs : list ename                (* Function.functions: pyscript's own dotted function names *)
}.

Inductive evalres := EV (p : pyval) | EName (* unresolved: EvalName *) | ERaise (e : exc).
Definition of_res (r : res pyval) : evalres := match r with Ok p => EV p | Raise e => ERaise e end.

Section Interp.
  Variable cf : config.
  Variable locals : pyvars.            (* the running function's local variables (sym_table) *)
  Variable st : mstate.
  Variable now : N.                    (* logical time of the running step (stamps written by hass.states) *)

  (* ast_name on an identifier without dots (Load): sym_table, then global_sym_table; nothing else applies to
     the identifiers used here (they are no builtins and no dot-less pyscript functions) -> EvalName *)
  Definition ast_name_plain (h : ident) : evalres :=
    match vlookup h locals with
    | Some o => EV (PObj o)
    | None => match vlookup h (ms_globals st) with
              | Some o => EV (PObj o)
              | None => EName
              end
    end.

  (* Function.get(name): the function table, then an existing service for a two-part name *)
  Definition function_get (parts : list ident) : bool :=
    match parts with
    | [d; n] => mem_ename (d, n) (cf_funcs cf) || mem_ename (d, n) (ms_svcs st)
    | _ => false
    end.

  (* ast_name on a collapsed dotted name (Load) *)
  Definition ast_name_dotted (parts : list ident) : evalres :=
    if function_get parts then EV PFunc
    else match parts with
         | [_; _] => of_res (state_get (cf_host cf) (ms_svcargs st) (ms_ha st) parts)
         | [_; _; _] =>
             if state_exist (ms_svcargs st) (ms_ha st) parts
             then of_res (state_get (cf_host cf) (ms_svcargs st) (ms_ha st) parts)
             else EName
         | _ => EName
         end.

  (* getattr(value, k) on the values that can occur *)
  Definition py_getattr (v : pyval) (k : ident) : res pyval :=
    match v with
    | PObj o => match alookup k o with Some x => Ok (PVal x) | None => Raise EAttributeError end
    | PSnap _ d => snap_getattr (cf_host cf) d k
    | PVal x => if h_pyattr (cf_host cf) x k then Ok PFunc else Raise EAttributeError   (* e.g. 'on'.count *)
    | _ => Raise EAttributeError
    end.

  (* ast_attribute_collapse(arg, check_undef=True): the dotted name if its first portion is undefined *)
  Definition collapse (e : dn) : option (list ident) :=
    match ast_name_plain (dn_head e) with
    | EName => Some (dn_parts e)
    | _ => None
    end.

  (* aeval of a Name / Attribute node in Load context: ast_name / ast_attribute *)
  Fixpoint aeval_dn (e : dn) : evalres :=
    match e with
    | DHead h => ast_name_plain h
    | DAttr p a =>
        let direct := match collapse e with
                      | Some parts => ast_name_dotted parts
                      | None => EName
                      end in
        match direct with
        | EName =>
            match aeval_dn p with
            | EV v => of_res (py_getattr v a)
            | EName => ERaise ENameError            (* EvalName.__getattr__ *)
            | ERaise x => ERaise x
            end
        | r => r
        end
    end.

  (* recurse_assign, the branch for Name / Attribute targets, with an already evaluated right-hand side *)
  Definition assign_value (val : pyval) : pyval :=
    if d_assign_none_omitted (cf_dev cf) then val
    else match val with
         | PVal v => if is_none v then PVal (h_str (cf_host cf) v_none) else val
         | _ => val
         end.

  Definition set_var_attr (h a : ident) (v : vid) : mstate :=
    match vlookup h locals with
    | Some _ => st                                   (* a local object: gone when the step ends *)
    | None => match vlookup h (ms_globals st) with
              | Some o => with_globals st (vset h (aset a v o) (ms_globals st))
              | None => st
              end
    end.

  Definition assign_dn (e : dn) (val : pyval) : res mstate :=
    match e with
    | DHead _ => Raise EUnmodelled
    | DAttr p a =>
        match collapse e with
        | Some parts =>                               (* Store context: the dotted name itself *)
            match parts with
            | [_; _] =>
                match state_set (cf_host cf) now (ms_ha st) parts (assign_value val) None [] with
                | Ok m => Ok (with_ha st m)
                | Raise x => Raise x
                end
            | [_; _; _] =>
                match val with
                | PVal v =>
                    match state_setattr (cf_dev cf) (cf_host cf) now (ms_svcargs st) (ms_ha st) parts v with
                    | Ok m => Ok (with_ha st m)
                    | Raise x => Raise x
                    end
                | _ => Raise EUnmodelled
                end
            | _ => Raise ENameError
            end
        | None =>                                     (* EvalAttrSet(aeval(arg.value), attr).setattr(val) *)
            match p with
            | DHead h => match val with PVal v => Ok (set_var_attr h a v) | _ => Raise EUnmodelled end
            | _ => match aeval_dn p with
                   | EV (PVal _) => Raise EAttributeError
                   | EV _ => Raise EUnmodelled
                   | EName => Raise EUnmodelled
                   | ERaise x => Raise x
                   end
            end
        end
    end.

  (* del of a plain object's attribute (what Python does) *)
  Definition del_var_attr (h a : ident) : res mstate :=
    match vlookup h locals with
    | Some o => if amem a o then Ok st else Raise EAttributeError
    | None => match vlookup h (ms_globals st) with
              | Some o => if amem a o then Ok (with_globals st (vset h (adel a o) (ms_globals st)))
                          else Raise EAttributeError
              | None => Raise EUnmodelled
              end
    end.

  Definition state_delete_st (parts : list ident) : res mstate :=
    match state_delete (cf_host cf) now (ms_ha st) parts with
    | Ok m => Ok (with_ha st m)
    | Raise x => Raise x
    end.

  (* ast_delete, Attribute target: ast_attribute_collapse(arg1, check_undef=False) -> State.delete(name) *)
  Definition delete_dn (e : dn) : res mstate :=
    match e with
    | DHead _ => Raise EUnmodelled
    | DAttr p a =>
        if d_del_ignores_pyvar (cf_dev cf) then state_delete_st (dn_parts e)
        else match collapse e with
             | Some parts => state_delete_st parts
             | None =>
                 match p with
                 | DHead h => del_var_attr h a
                 | _ => match aeval_dn p with
                        | EV (PVal _) => Raise EAttributeError
                        | EV _ => Raise EUnmodelled
                        | EName => Raise EUnmodelled
                        | ERaise x => Raise x
                        end
                 end
             end
    end.
End Interp.

(* ---------- generated operations ---------- *)
Inductive vexpr := VLit (v : vid) | VSlot (j : N).

Inductive op :=
  | ORead (e : dn) (cap : option N)                  (* r = d.n[.k]        [; sJ = r] *)
  | OGet (nm : sname) (cap : option N)               (* r = state.get("…") [; sJ = r] *)
  | OAssign (e : dn) (rhs : vexpr)                   (* d.n[.k] = rhs *)
  | OSet (nm : sname) (value : option vexpr) (nattr : option (option attrs)) (kw : attrs)
                                                     (* state.set("…"[, value][, new_attributes][, **kw]) *)
  | OSetattr (nm : sname) (v : vid)                  (* state.setattr("…", v) *)
  | ODel (e : dn)                                    (* del d.n[.k] *)
  | ODelete (nm : sname)                             (* state.delete("…") *)
  | OExist (nm : sname)                              (* state.exist("…") *)
  | OGetattr (nm : sname)                            (* state.getattr("…") *)
  | OGetattrSlot (j : N)                             (* state.getattr(sJ) *)
  | ONames (dom : option ident)                      (* state.names([domain]) *)
  | OReadSlot (j : N)                                (* r = sJ *)
  | OReadSlotAttr (j : N) (k : ident).               (* r = sJ.k *)

Inductive extop :=
  | XSet (e : ename) (v : vid) (a : attrs)           (* hass.states.async_set *)
  | XRemove (e : ename)                              (* hass.states.async_remove *)
  | XReg (e : ename)                                 (* hass.services.async_register *)
  | XRegM (e : ename)                                (* ... of a service with an entity_id parameter *)
  | XUnreg (e : ename)                               (* hass.services.async_remove *)
  | XRefresh.                                        (* State.get_service_params(): what start-up / pyscript.reload run *)

Inductive step := SExt (x : extop) | SScript (locals : pyvars) (o : op).

Definition eval_vexpr (st : mstate) (x : vexpr) : pyval :=
  match x with VLit v => PVal v | VSlot j => slot_get j (ms_slots st) end.

Definition dn_len_ok (e : dn) : bool := Nat.leb (length (dn_parts e)) 3 && Nat.leb 2 (length (dn_parts e)).

Definition stmt_done : res pyval := Ok (PVal v_none).
Definition lift_st (st : mstate) (r : res mstate) : res pyval * mstate :=
  match r with Ok st' => (stmt_done, st') | Raise x => (Raise x, st) end.
Definition lift_ha (st : mstate) (r : res hamap) : res pyval * mstate :=
  match r with Ok m => (stmt_done, with_ha st m) | Raise x => (Raise x, st) end.

(* sJ = r if isinstance(r, str) else None   (only executed when the read did not raise) *)
Definition capture (st : mstate) (cap : option N) (r : evalres) : res pyval * mstate :=
  match r with
  | ERaise x => (Raise x, st)
  | EName => (Raise EUnmodelled, st)
  | EV p =>
      match cap with
      | None => (Ok p, st)
      | Some j =>
          match p with
          | PSnap _ _ => (Ok p, with_slots st (slot_set j p (ms_slots st)))
          | PVal _ => (Raise EUnmodelled, st)          (* would need isinstance(value, str): not generated *)
          | _ => (Ok p, with_slots st (slot_set j (PVal v_none) (ms_slots st)))
          end
      end
  end.

Definition model_op (cf : config) (now : N) (locals : pyvars) (st : mstate) (o : op) : res pyval * mstate :=
  let H := cf_host cf in
  match o with
  | ORead e cap =>
      if dn_len_ok e then capture st cap (aeval_dn cf locals st e) else (Raise EUnmodelled, st)
  | OGet nm cap => capture st cap (of_res (state_get H (ms_svcargs st) (ms_ha st) nm))
  | OAssign e rhs =>
      if dn_len_ok e then lift_st st (assign_dn cf locals st now e (eval_vexpr st rhs)) else (Raise EUnmodelled, st)
  | OSet nm value nattr kw =>
      let v := match value with Some x => eval_vexpr st x | None => PVal v_none end in
      let na := match nattr with Some (Some a) => Some a | _ => None end in
      lift_ha st (state_set H now (ms_ha st) nm v na kw)
  | OSetattr nm v => lift_ha st (state_setattr (cf_dev cf) H now (ms_svcargs st) (ms_ha st) nm v)
  | ODel e => if dn_len_ok e then lift_st st (delete_dn cf locals st now e) else (Raise EUnmodelled, st)
  | ODelete nm => lift_ha st (state_delete H now (ms_ha st) nm)
  | OExist nm => (Ok (PVal (h_bool H (state_exist (ms_svcargs st) (ms_ha st) nm))), st)
  | OGetattr nm => (state_getattr (ms_ha st) (inr nm), st)
  | OGetattrSlot j => (state_getattr (ms_ha st) (inl (slot_get j (ms_slots st))), st)
  | ONames dom => (state_names (ms_ha st) dom, st)
  | OReadSlot j => (Ok (slot_get j (ms_slots st)), st)
  | OReadSlotAttr j k => (py_getattr cf (slot_get j (ms_slots st)) k, st)
  end.

Definition ext_op (H : host) (now : N) (st : mstate) (x : extop) : mstate :=
  match x with
  | XSet e v a => with_ha st (ha_async_set H now (ms_ha st) e v a)
  | XRemove e => with_ha st (snd (ha_async_remove (ms_ha st) e))
  | XReg e => if mem_ename e (ms_svcs st) then st else with_svcs st (ms_svcs st ++ [e]) (ms_esvcs st)
  | XRegM e => if mem_ename e (ms_svcs st) then st else with_svcs st (ms_svcs st ++ [e]) (ms_esvcs st ++ [e])
  | XUnreg e => with_svcs st (filter (fun e' => negb (ename_eqb e e')) (ms_svcs st))
                          (filter (fun e' => negb (ename_eqb e e')) (ms_esvcs st))
  | XRefresh => with_svcargs st (ms_esvcs st)        (* the table is rebuilt from the entity services existing now *)
  end.

(* one step: output seen by the script (None for external steps) and the state afterwards *)
Definition model_step (cf : config) (now : N) (st : mstate) (s : step) : option (res pyval) * mstate :=
  match s with
  | SExt x => (None, ext_op (cf_host cf) now st x)
  | SScript locals o => let r := model_op cf now locals st o in (Some (fst r), snd r)
  end.

(* a run starting at logical time [now]; every step takes one tick *)
Fixpoint run_model (cf : config) (now : N) (st : mstate) (steps : list step) : list (option (res pyval)) * mstate :=
  match steps with
  | [] => ([], st)
  | s :: r =>
      let o := model_step cf now st s in
      let rest := run_model cf (N.succ now) (snd o) r in
      (fst o :: fst rest, snd rest)
  end.
