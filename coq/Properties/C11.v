(* Properties/C11.v — property theorems only; every proof is [exact <lemma>] (lemmas in Proofs/InterpCtx.v). *)
From PV Require Import Common.Util Gen.CtxConsts Interp.Ctx Interp.CtxCheck Proofs.InterpCtx.

(* the three shape facts re-extracted from eval.py / global_ctx.py on every run (T1); the proofs below use them *)
Theorem C11_consts : call_restore_in_finally = true /\ star_skip_underscore = true /\ lookup_before_load = true.
Proof. exact consts_ctx. Qed.
Print Assumptions C11_consts.

(* C11, first sentence.  Context [a]'s table and the evaluator's frames hold only a's own values (data, and functions
   defined in a whose bodies contain no import and no set_global_ctx); then running ANY import-free, switch-free
   program in a - with calls of any nesting depth, raising callees, try/except, created tasks - leaves the record
   (table, flags, import set) of every other context exactly as it was, leaves the manager unchanged, and a's values
   stay a's own (so the statement composes over consecutive programs). *)
Theorem C11_frame : forall cfg fuel a w e prog w' e' o,
  closedt a (tab w a) -> in_ctx a e -> Forall pure prog ->
  exec_block cfg fuel w e prog = (w', e', o) ->
  (forall c, c <> a -> ctx_of w' c = ctx_of w c) /\ w_mgr w' = w_mgr w /\ closedt a (tab w' a) /\
  (o <> OFuel -> in_ctx a e').
Proof. exact frame. Qed.
Print Assumptions C11_frame.

(* ... in particular loading a file whose source is import-free and switch-free (whatever else it does) changes no
   context that existed before and (re)binds no other name in the manager *)
Theorem C11_frame_load : forall cfg fuel w n rel src w' ok,
  Forall pure src -> run_op cfg fuel w (OpLoad n rel src) = (w', ok) ->
  (forall c, c < length (w_ctxs w) -> ctx_of w' c = ctx_of w c) /\
  (forall m, m <> n -> pget (w_mgr w') m = pget (w_mgr w) m).
Proof. exact frame_load. Qed.
Print Assumptions C11_frame_load.

(* C11, last clause.  After a call of any function value from any evaluator state, whether the body returned
   (normally or through a return nested anywhere: [OReturn]) or raised ([OExc]), at any nesting depth of further calls,
   imports and tasks inside it: the evaluator state (global_sym_table, sym_table, sym_table_stack, global_ctx,
   curr_func) is exactly the state before the call -
   (1) unconditionally when the callee was defined in another context than the caller's current one (even if the
       body executed set_global_ctx), and
   (2) for same-context calls provided no set_global_ctx was executed meanwhile (ghost counter w_nsw unchanged);
       set_global_ctx is the documented way to change exactly these pointers. *)
Theorem C11_call_restores : forall cfg fuel w e v w' e' o,
  call_fun cfg fuel w e v = (w', e', o) -> o <> OFuel ->
  (forall c f gl body, v = VFun c f gl body -> e_gctx e <> c -> e' = e) /\
  (w_nsw w' = w_nsw w -> e' = e).
Proof. exact call_restores. Qed.
Print Assumptions C11_call_restores.

(* C11, "a function always executes against the globals of the file that defined it regardless of which file,
   trigger or task calls it".  For a function defined in context c (info fi = its global/local name sets) and ANY two
   callers e1, e2 (any current context, frames, stack): on entry every name resolves in c's table
   ([resolve_global] mentions only c), identically for both callers; and after any prefix [pre] of the body that ran
   normally without set_global_ctx, names still resolve in the body's own frame [t] and otherwise in c's table. *)
Theorem C11_defining_globals : forall cfg fuel w e1 e2 c fi pre w1 e1' x,
  coherent e1 -> coherent e2 ->
  lookup_name w (enter_call e1 c fi) x = resolve_global w c fi x /\
  lookup_name w (enter_call e2 c fi) x = lookup_name w (enter_call e1 c fi) x /\
  (exec_block cfg fuel w (enter_call e1 c fi) pre = (w1, e1', ONormal) -> w_nsw w1 = w_nsw w ->
   exists t, e_sym e1' = SymL t /\
     lookup_name w1 e1' x = if memN x (fi_gl fi) then tget (tab w1 c) x
                           else match tget t x with Some v => Some v | None => resolve_global w1 c fi x end).
Proof. exact defining_globals. Qed.
Print Assumptions C11_defining_globals.

(* ... and writes to names declared global go to c's table *)
Theorem C11_defining_globals_write : forall w e1 c fi x v,
  e_gst e1 = c -> e_func e1 = Some fi -> memN x (fi_gl fi) = true ->
  assign_name w e1 x v = (set_tab w c x v, e1).
Proof. exact assign_in_body. Qed.
Print Assumptions C11_defining_globals_write.

(* C11, second sentence.  For every file system, every sequence of file loads and trigger firings running arbitrary
   programs (any import statements from any contexts, inside functions, tasks, try/except, failing loads ...), if no
   module was requested while it was itself being loaded (acyclic imports: ghost flag w_cyc), then for every name n that
   is not the name of an autoloaded file: n was loaded successfully at most once, and every successful import that
   resolved to n - from whatever importer - yielded that one context, which is the one registered under n with its
   module object set. *)
Theorem C11_module_singleton : forall cfg fuel fs ops w ok,
  run_ops cfg fuel (init_world fs) ops = (w, ok) -> w_cyc w = false ->
  forall n, ~ In n (load_names ops) ->
    nloads n (w_log w) <= 1 /\
    (forall c1 c2, In (LLoad n c1) (w_log w) -> In (LLoad n c2) (w_log w) -> c1 = c2) /\
    (forall c, In (LImp n c) (w_log w) ->
       In (LLoad n c) (w_log w) /\ pget (w_mgr w) n = Some c /\ modflag w c = true).
Proof. exact module_singleton. Qed.
Print Assumptions C11_module_singleton.

(* The theorem above is per context NAME.  With the naming the code uses today for relative imports made by a
   non-__init__ file of a package (D110) one FILE gets two names, hence two contexts: in this run 3 module files
   produce 4 successful loads and pkg/__init__.py misses an update pkg/sib.py made to "the same" module;
   with the conformant naming the same run gives 3 loads (singleton_inhabited in Proofs/InterpCtx.v). *)
Theorem C11_singleton_refuted_D110 :
  let '(w, ok) := run_ops only_D110 50 (init_world ex_fs_pkg) ex_ops_pkg in
  ok = true /\ w_cyc w = false /\ total_loads w = 4 /\ length ex_fs_pkg = 3 /\
  tget (tab w 0) 100 = Some (VInt 1).
Proof. exact singleton_refuted_D110. Qed.
Print Assumptions C11_singleton_refuted_D110.

(* star import: underscore names are never copied (any configuration); with the conformant model a module's __all__
   is the exact list of copied names, and D111 (the code ignores __all__) overwrites a global of the importer *)
Theorem C11_star_no_underscore : forall cfg t l, tget t n_all = None -> star_items cfg t = Some l ->
  forall x v, In (x, v) l -> is_under x = false.
Proof. exact star_no_underscore. Qed.
Print Assumptions C11_star_no_underscore.

Theorem C11_star_all_respected : forall t names l, tget t n_all = Some (VNames names) -> star_items all_off t = Some l ->
  map fst l = names /\ forall x v, In (x, v) l -> tget t x = Some v.
Proof. exact star_all_respected. Qed.
Print Assumptions C11_star_all_respected.

Theorem C11_star_refuted_D111 :
  tget (tab (fst (run_ops only_D111 50 (init_world ex_fs_star) ex_ops_star)) 0) 101 = Some (VInt 2) /\
  tget (tab (fst (run_ops all_off 50 (init_world ex_fs_star) ex_ops_star)) 0) 101 = Some (VInt 7).
Proof. exact star_refuted_D111. Qed.
Print Assumptions C11_star_refuted_D111.
