(* Properties/C20.v — property theorems only; every proof is [exact <lemma>] (lemmas in Proofs/Req*.v).
   C20: "Requirements resolution is order-independent and never overrides the host".
   Version order: ANY [vvalid]/[vle] that is a total preorder on the valid strings; '' and the unpinned
   marker are not versions (packaging.Version in the correspondence).  [cfg] = deviation switches: [all_off] is the conformant
   model, [as_is] the code today; [cfg_ok vvalid cfg ls] says: if D24 is present (versions are not
   validated before being recorded) then every pinned version in [ls] parses. *)
From PV Require Import Common.Util Gen.ReqConsts Req.Merge Req.Install Req.Spec Req.ReqCheck
  Proofs.ReqMerge Proofs.ReqInstall Proofs.ReqHistory Proofs.ReqSpecBridge.
From Coq Require Import Permutation.

(* The version selected for each package is the highest '==' pin, an unpinned entry only if no (valid) pin exists,
   and no entry only if nothing (valid) requires it. *)
Theorem C20_merge_max :
  forall (vvalid : str -> bool) (vle : str -> str -> bool) (installed : str -> option str),
  (forall a b, vvalid a = true -> vvalid b = true -> vle a b = true \/ vle b a = true) ->
  (forall a b c, vvalid a = true -> vvalid b = true -> vvalid c = true -> vle a b = true -> vle b c = true -> vle a c = true) ->
  vvalid [] = false -> vvalid unpinned_version = false ->
  forall (cfg : deviations) (ls : list (N * str)) (p : str),
  cfg_ok vvalid cfg ls ->
  let sp := negb (d25_no_strip cfg) in
  match tlookup p (merge_lines vvalid vle installed cfg ls) with
  | Some e =>
      e_inst e = installed p /\
      match e_ver e with
      | Some w => vvalid w = true /\ requires sp p (Some w) ls /\
                  (forall v, requires sp p (Some v) ls -> vvalid v = true -> vle v w = true)
      | None => requires sp p None ls /\ (forall v, requires sp p (Some v) ls -> vvalid v = false)
      end
  | None => forall ov, requires sp p ov ls -> exists v, ov = Some v /\ vvalid v = false
  end.
Proof. exact merge_max. Qed.
Print Assumptions C20_merge_max.

(* ... independent of the order of files and lines: any permutation of the (file, line) list selects equivalent
   versions (same packages; both unpinned, or versions equal under the version order). *)
Theorem C20_permutation :
  forall (vvalid : str -> bool) (vle : str -> str -> bool) (installed : str -> option str),
  (forall a b, vvalid a = true -> vvalid b = true -> vle a b = true \/ vle b a = true) ->
  (forall a b c, vvalid a = true -> vvalid b = true -> vvalid c = true -> vle a b = true -> vle b c = true -> vle a c = true) ->
  vvalid [] = false -> vvalid unpinned_version = false ->
  forall (cfg : deviations) (ls ls' : list (N * str)),
  cfg_ok vvalid cfg ls -> Permutation ls ls' ->
  table_equiv vvalid vle (merge_lines vvalid vle installed cfg ls) (merge_lines vvalid vle installed cfg ls').
Proof. exact merge_perm. Qed.
Print Assumptions C20_permutation.

(* the same on requirement trees as the real function reads them (REQUIREMENTS_PATHS discovery included) *)
Theorem C20_permutation_files :
  forall (vvalid : str -> bool) (vle : str -> str -> bool) (installed : str -> option str),
  (forall a b, vvalid a = true -> vvalid b = true -> vle a b = true \/ vle b a = true) ->
  (forall a b c, vvalid a = true -> vvalid b = true -> vvalid c = true -> vle a b = true -> vle b c = true -> vle a c = true) ->
  vvalid [] = false -> vvalid unpinned_version = false ->
  forall (cfg : deviations) (files files' : list rfile),
  cfg_ok vvalid cfg (flat_lines (discover files)) ->
  Permutation (flat_lines (discover files)) (flat_lines (discover files')) ->
  table_equiv vvalid vle (process_all vvalid vle installed cfg files) (process_all vvalid vle installed cfg files').
Proof. exact process_all_perm. Qed.
Print Assumptions C20_permutation_files.

(* Comments, blank lines and unsupported specifiers are ignored: a line the property's own reading ([spec_line]:
   nothing before '#', or one of , < >, or more than one "==") ignores can be deleted anywhere without changing
   the result — for every setting of the switches, every version order. *)
Theorem C20_ignored :
  forall (vvalid : str -> bool) (vle : str -> str -> bool) (installed : str -> option str)
         (cfg : deviations) (pre post : list (N * str)) (f : N) (l : str),
  spec_line l = None ->
  merge_lines vvalid vle installed cfg (pre ++ (f, l) :: post) = merge_lines vvalid vle installed cfg (pre ++ post).
Proof. exact merge_ignored_spec. Qed.
Print Assumptions C20_ignored.

(* Model |= executable Spec: the table the conformant Model computes passes the very predicate ([spec_table_ok]: one
   entry per package, highest pin, unpinned only without pin, nothing from ignored lines) that the correspondence files
   evaluate on what the real code returned. *)
Theorem C20_model_implies_spec_table :
  forall (vvalid : str -> bool) (vle : str -> str -> bool) (installed : str -> option str),
  (forall a b, vvalid a = true -> vvalid b = true -> vle a b = true \/ vle b a = true) ->
  (forall a b c, vvalid a = true -> vvalid b = true -> vvalid c = true -> vle a b = true -> vle b c = true -> vle a c = true) ->
  vvalid [] = false -> vvalid unpinned_version = false ->
  forall ls : list (N * str),
  spec_table_ok vvalid vle (map snd ls) (table_otable (merge_lines vvalid vle installed all_off ls)) = true.
Proof. exact conformant_table_ok. Qed.
Print Assumptions C20_model_implies_spec_table.

(* REQUIREMENTS_PATHS (regenerated from const.py) finds exactly the files at <pyscript>/, apps/X, modules/X, scripts/X *)
Theorem C20_discovery : forall dir : list str,
  existsb (fun pat => dir_match pat dir) req_paths = spec_counts dir.
Proof. exact discover_counts. Qed.
Print Assumptions C20_discovery.

(* Nothing is installed unless allow_all_imports is set. *)
Theorem C20_gate :
  forall (vvalid : str -> bool) (vle : str -> str -> bool) (inst : str -> option str) (cfg : deviations)
         (files : list rfile) (ia : str -> option str) (rec0 : alist) (todo : plan_t) (r : alist) (u : bool),
  install vvalid vle false ia rec0 (process_all vvalid vle inst cfg files) = ODone todo r u -> todo = [].
Proof. exact run_gate. Qed.
Print Assumptions C20_gate.

(* A package already installed by something other than pyscript (installed; not in pyscript's record, or recorded at
   another version) is never handed to the installer.  Key level, every cfg. *)
Theorem C20_foreign_untouched :
  forall (vvalid : str -> bool) (vle : str -> str -> bool) (inst : str -> option str) (cfg : deviations)
         (files : list rfile) (allow : bool) (ia : str -> option str) (rec0 : alist) (todo : plan_t) (r : alist)
         (u : bool) (p iv : str),
  install vvalid vle allow ia rec0 (process_all vvalid vle inst cfg files) = ODone todo r u ->
  truthy (inst p) = Some iv ->
  alookup p rec0 = None \/ (exists rv, alookup p rec0 = Some rv /\ veq vle rv iv = false) ->
  ~ In p (map fst todo).
Proof. exact run_foreign. Qed.
Print Assumptions C20_foreign_untouched.

(* Package level (names compared after stripping), for the model with D25 repaired: no requirement handed to the
   installer names a foreign package.  False for the code as it is: C20_refuted_D25. *)
Theorem C20_foreign_untouched_pkg :
  forall (vvalid : str -> bool) (vle : str -> str -> bool) (inst : str -> option str) (cfg : deviations)
         (files : list rfile) (allow : bool) (ia : str -> option str) (rec0 : alist) (todo : plan_t) (r : alist)
         (u : bool) (p iv : str),
  d25_no_strip cfg = false ->
  install vvalid vle allow ia rec0 (process_all vvalid vle inst cfg files) = ODone todo r u ->
  truthy (inst p) = Some iv ->
  alookup p rec0 = None \/ (exists rv, alookup p rec0 = Some rv /\ veq vle rv iv = false) ->
  ~ In p (map (fun a => strip (fst a)) todo).
Proof. exact run_foreign_pkg. Qed.
Print Assumptions C20_foreign_untouched_pkg.

(* A package pyscript itself installed (recorded at the installed version) is updated iff the pinned version differs;
   an unpinned requirement never touches it. *)
Theorem C20_own_updated_iff_differs :
  forall (vvalid : str -> bool) (vle : str -> str -> bool) (inst : str -> option str) (cfg : deviations)
         (files : list rfile) (allow : bool) (ia : str -> option str) (rec0 : alist) (todo : plan_t) (r : alist)
         (u : bool) (p iv rv : str) (e : entry),
  install vvalid vle allow ia rec0 (process_all vvalid vle inst cfg files) = ODone todo r u ->
  truthy (inst p) = Some iv -> alookup p rec0 = Some rv ->
  vvalid rv = true -> vvalid iv = true -> veq vle rv iv = true ->
  tlookup p (process_all vvalid vle inst cfg files) = Some e ->
  match e_ver e with
  | Some w => vvalid w = true -> (In p (map fst todo) <-> veq vle w iv = false)
  | None => ~ In p (map fst todo)
  end.
Proof. exact run_own. Qed.
Print Assumptions C20_own_updated_iff_differs.

(* pyscript's record matches what it installed, one run: every pinned requirement handed to the installer is recorded
   at that version, every unpinned one at the version found afterwards (or not at all if none is found), and every
   other entry of the new record was already in the old one. *)
Theorem C20_record_matches_run :
  forall (vvalid : str -> bool) (vle : str -> str -> bool) (inst : str -> option str) (cfg : deviations)
         (files : list rfile) (allow : bool) (ia : str -> option str) (rec0 : list (str * str)) (todo : plan_t)
         (r : alist) (u : bool),
  NoDup (map fst rec0) -> no_marker rec0 ->
  install vvalid vle allow ia rec0 (process_all vvalid vle inst cfg files) = ODone todo r u ->
  (forall p w, In (p, Some w) todo -> alookup p r = Some w) /\
  (forall p, In (p, None) todo -> alookup p r = truthy (ia p)) /\
  (forall p v, alookup p r = Some v -> ~ In p (map fst todo) -> alookup p rec0 = Some v).
Proof. exact run_record. Qed.
Print Assumptions C20_record_matches_run.

(* After a completed run the record tracks what is installed: for every package the files require, a record entry is the
   installed version (equal string, or equal as versions) - entries of packages that something else changed or removed
   have been dropped.  Hypotheses on the installer: it changes only what it was asked to install, and a pinned
   requirement ends up installed at that version. *)
Theorem C20_record_tracks_installed :
  forall (vvalid : str -> bool) (vle : str -> str -> bool) (inst : str -> option str) (cfg : deviations)
         (files : list rfile) (allow : bool) (ia : str -> option str) (rec0 : list (str * str)) (todo : plan_t)
         (r : alist) (u : bool),
  NoDup (map fst rec0) -> no_marker rec0 ->
  (forall p, ~ In p (map fst todo) -> ia p = inst p) ->
  (forall p w, In (p, Some w) todo -> truthy (ia p) = Some w) ->
  install vvalid vle allow ia rec0 (process_all vvalid vle inst cfg files) = ODone todo r u ->
  forall p e v, tlookup p (process_all vvalid vle inst cfg files) = Some e -> alookup p r = Some v ->
  exists iv, truthy (ia p) = Some iv /\ (v = iv \/ (vvalid v = true /\ vvalid iv = true /\ veq vle v iv = true)).
Proof. exact run_tracks. Qed.
Print Assumptions C20_record_tracks_installed.

(* ... and always, over repeated runs with arbitrary external installs / upgrades / removals, changing files and
   changing allow_all_imports in between: every entry of the record is the version that pyscript's latest installer
   call for that package installed ([g'] is that ghost table), provided the unpinned marker string is never reported
   as an installed version ([envs_clean]). *)
Theorem C20_record_matches :
  forall (vvalid : str -> bool) (vle : str -> str -> bool) (cfg : deviations) (ss : list step_in) (w : world) (g : alist),
  rec_ok (w_rec w) g -> envs_clean vvalid vle cfg w ss ->
  let '(w', g') := run_hist vvalid vle cfg w g ss in rec_ok (w_rec w') g'.
Proof. exact history_record_matches. Qed.
Print Assumptions C20_record_matches.

(* The code as it is (switches on) does not have the property. *)
Theorem C20_refuted_D24 :
  exists ls ls' : list (N * str), Permutation ls ls' /\
    ~ table_equiv (rk_valid ex_ranks) (rk_le ex_ranks)
        (merge_lines (rk_valid ex_ranks) (rk_le ex_ranks) (fun _ => None) as_is ls)
        (merge_lines (rk_valid ex_ranks) (rk_le ex_ranks) (fun _ => None) as_is ls').
Proof. exact refuted_D24. Qed.
Print Assumptions C20_refuted_D24.

Theorem C20_refuted_D25 :
  let env := [(s_foo, [48; 46; 53]%N)] in
  let t := process_all (rk_valid ex_ranks) (rk_le ex_ranks) (fun k => alookup k env) as_is
             [{| f_id := 0; f_dir := []; f_lines := [l_foo_sp_10; l_foo_20] |}] in
  (exists k1 k2 : str, k1 <> k2 /\ strip k1 = strip k2 /\ In k1 (map fst t) /\ In k2 (map fst t)) /\
  (exists (todo : plan_t) (r : alist) (u : bool),
     install (rk_valid ex_ranks) (rk_le ex_ranks) true (fun _ => None) [] t = ODone todo r u /\
     truthy (alookup s_foo env) = Some [48; 46; 53]%N /\
     In s_foo (map (fun a => strip (fst a)) todo)).
Proof. exact refuted_D25. Qed.
Print Assumptions C20_refuted_D25.
