(* Properties/C20.v — placeholder while the model is being validated *)
From PV Require Import Common.Util Gen.ReqConsts Req.Merge Req.Install Req.Spec Req.ReqCheck.
