(* Properties/C17.v — property theorems only; every proof is [exact <lemma>] (lemmas in Proofs/PolicyImports.v). *)
From Coq Require Import String.
From PV Require Import Common.Util Gen.ImportConsts Policy.Imports Policy.ImportsCheck Proofs.PolicyImports.

Theorem C17_mem : forall s l, str_mem s l = true <-> In s l.
Proof. exact str_mem_In. Qed.
Print Assumptions C17_mem.
