(* Properties/C17.v — property theorems only; every proof is [exact <lemma>] (lemmas in Proofs/PolicyImports.v).
   C17: "Unless allow_all_imports is set, every import statement form of a module that is neither on pyscript's
   allow-list nor a pyscript module/app package fails with ModuleNotFoundError and binds nothing; allow-listed and
   pyscript modules import normally, from-imports below 'stubs' are ignored, and with the option set everything
   installed imports.  The builtins open, compile, input, breakpoint, memoryview and the real print are never
   reachable as plain names, and print/log functions write to the script's logger."
   [allowed_imports], [builtin_exclude], [ast_factory_funcs], [logger_funcs] are Gen/ImportConsts.v, regenerated
   from the current source on every run; [m], [a], [names] range over ALL strings / aliases / alias lists. *)
From Coq Require Import String.
From PV Require Import Common.Util Gen.ImportConsts Policy.Imports Policy.ImportsCheck Proofs.PolicyImports.
Local Open Scope string_scope.

(* ---- denied: import a / import a.b / import a as x (a is any string, dotted or not) ---- *)
Theorem C17_denied_import : forall (w : world) (a : alias),
  w_allow_all w = false -> ~ In (al_name a) allowed_imports -> ps_lookup w (al_name a) 0 = PsNone ->
  run_stmt w (SImport [a]) = res SDenied [] /\ status_exc SDenied = Some "ModuleNotFoundError".
Proof. exact (fun w a H1 H2 H3 => conj (import_denied w a H1 H2 H3) eq_refl). Qed.
Print Assumptions C17_denied_import.

(* "not a pyscript module/app package", spelled out for absolute imports *)
Theorem C17_not_pyscript_module_iff : forall (w : world) (m : string),
  ps_lookup w m 0 = PsNone <->
  forall c, In c (cands0 (w_rel w) m) -> assoc (fst c) (w_loaded w) = None /\ str_mem (snd c) (w_present w) = false.
Proof. exact ps_lookup_none_iff. Qed.
Print Assumptions C17_not_pyscript_module_iff.

Theorem C17_denied_import_no_pyscript_files : forall (w : world) (a : alias),
  w_allow_all w = false -> w_present w = [] -> w_loaded w = [] -> ~ In (al_name a) allowed_imports ->
  run_stmt w (SImport [a]) = res SDenied [].
Proof. exact import_denied_no_files. Qed.
Print Assumptions C17_denied_import_no_pyscript_files.

(* ---- denied: from a import b / from a.b import * / from a import b as c, d / relative levels ---- *)
Theorem C17_denied_from : forall (w : world) (m : string) (level : N) (names : list alias),
  w_allow_all w = false -> ~ In m allowed_imports -> is_stubs m = false -> ps_lookup w m level = PsNone ->
  run_stmt w (SFrom (Some m) level names) = res SDenied [].
Proof. exact from_denied. Qed.
Print Assumptions C17_denied_from.

(* ---- denied inside a multi-module import: what precedes is bound (as in Python), the denied one and the rest are not ---- *)
Theorem C17_denied_import_at : forall (w : world) (pre : list alias) (a : alias) (post : list alias),
  w_allow_all w = false ->
  (forall x, In x pre -> In (al_name x) allowed_imports /\ ps_lookup w (al_name x) 0 = PsNone /\ sys_importable w (al_name x)) ->
  ~ In (al_name a) allowed_imports -> ps_lookup w (al_name a) 0 = PsNone ->
  run_stmt w (SImport (pre ++ a :: post)) = res SDenied (map (fun x => (bind_name x, OSys (al_name x))) pre).
Proof. exact import_denied_at. Qed.
Print Assumptions C17_denied_import_at.

(* ---- the check is exactly membership in the regenerated set (a prefix/substring/case-folding test is not) ---- *)
Theorem C17_check_is_membership : forall m : string, decide false false m = VSystem <-> In m allowed_imports.
Proof. exact decide_system_iff. Qed.
Print Assumptions C17_check_is_membership.

(* ---- safety, for EVERY statement and EVERY world: no value of an installed module outside the allow-list is bound ---- *)
Theorem C17_safety : forall (w : world) (s : stmt) (n m : string),
  w_allow_all w = false -> In (n, OSys m) (r_bound (run_stmt w s)) -> In m allowed_imports.
Proof. exact safety. Qed.
Print Assumptions C17_safety.

(* ---- the same statement through exec()/eval(exec())/exec(src, dict)/a function runs the same check ---- *)
Theorem C17_via_exec_same : forall (v : via) (w : world) (s : stmt), v <> VEvalRaw -> run_via v w s = run_stmt w s.
Proof. exact via_same. Qed.
Print Assumptions C17_via_exec_same.

(* ---- allow-listed modules import normally; with the option set every installed module does ---- *)
Theorem C17_allowed : forall (w : world) (a : alias),
  In (al_name a) allowed_imports -> ps_lookup w (al_name a) 0 = PsNone -> sys_importable w (al_name a) ->
  run_stmt w (SImport [a]) = res SOk [(bind_name a, OSys (al_name a))].
Proof. exact (fun w a H => import_permitted w a (or_intror H)). Qed.
Print Assumptions C17_allowed.

Theorem C17_allowed_from : forall (w : world) (m : string) (level : N) (si : sysinfo) (names : list alias),
  In m allowed_imports -> is_stubs m = false -> ps_lookup w m level = PsNone ->
  assoc m (w_sys w) = Some si -> si_importable si = true ->
  (forall a, In a names -> al_name a <> "*" /\ In (al_name a) (si_has si)) ->
  run_stmt w (SFrom (Some m) level names) = res SOk (map (fun a => (bind_name a, OSys m)) names).
Proof. exact (fun w m level si names H => from_permitted w m level si names (or_intror H)). Qed.
Print Assumptions C17_allowed_from.

Theorem C17_allow_all : forall (w : world) (a : alias),
  w_allow_all w = true -> ps_lookup w (al_name a) 0 = PsNone -> sys_importable w (al_name a) ->
  run_stmt w (SImport [a]) = res SOk [(bind_name a, OSys (al_name a))].
Proof. exact (fun w a H => import_permitted w a (or_introl H)). Qed.
Print Assumptions C17_allow_all.

Theorem C17_allow_all_from_star : forall (w : world) (m : string) (level : N) (si : sysinfo),
  w_allow_all w = true -> is_stubs m = false -> ps_lookup w m level = PsNone ->
  assoc m (w_sys w) = Some si -> si_importable si = true ->
  run_stmt w (SFrom (Some m) level [{| al_name := "*"; al_as := None |}]) = res SOk (map (fun n => (n, OSys m)) (si_public si)).
Proof. exact (fun w m level si H => from_permitted_star w m level si (or_introl H)). Qed.
Print Assumptions C17_allow_all_from_star.

(* ---- pyscript modules/apps: the lookup precedes the check, whatever the lists and the option say ---- *)
Theorem C17_pyscript_first : forall (w : world) (a : alias) (cn f : string) (fresh : bool),
  ps_lookup w (al_name a) 0 = PsHit cn f fresh -> run_stmt w (SImport [a]) = res SOk [(bind_name a, OPs f)].
Proof. exact import_pyscript_first. Qed.
Print Assumptions C17_pyscript_first.

(* ---- from-imports below stubs are ignored ---- *)
Theorem C17_stubs_ignored : forall (w : world) (m : string) (level : N) (names : list alias),
  is_stubs m = true -> (forall a, In a names -> al_as a = None) ->
  run_stmt w (SFrom (Some m) level names) = res SIgnored [].
Proof. exact stubs_ignored. Qed.
Print Assumptions C17_stubs_ignored.

(* ---- builtins.  [dev_off] = conformant code; the current code has two open deviations (D170, D171), see *_refuted_* ---- *)
(* excluded and underscore names never denote the real builtin nor the builtins namespace, for every scope state [e]: whatever
   the function declares global/nonlocal, binds, deletes; trigger expressions; eval/exec *)
Theorem C17_builtins : forall (e : nenv) (n : string),
  In n builtin_exclude \/ starts_underscore n = true ->
  name_lookup dev_off e n <> KBuiltin /\ name_lookup dev_off e n <> KBuiltinsNs.
Proof. exact builtins_excluded. Qed.
Print Assumptions C17_builtins.

(* the six names of the property statement, against the regenerated exclusion set *)
Theorem C17_six_names : forall (e : nenv) (n : string),
  In n ["open"; "compile"; "input"; "breakpoint"; "memoryview"; "print"] -> name_lookup dev_off e n <> KBuiltin.
Proof. exact six_never_builtin. Qed.
Print Assumptions C17_six_names.

(* eval/exec/globals/locals are pyscript's own evaluators (which run the same import check), never the builtins *)
Theorem C17_eval_exec_wrapped : forall (e : nenv) (n : string),
  In n ["eval"; "exec"; "globals"; "locals"] -> name_lookup dev_off e n <> KBuiltin.
Proof. exact eval_exec_never_builtin. Qed.
Print Assumptions C17_eval_exec_wrapped.

(* D170 (open): a lambda body / @pyscript_compile function is native Python and sees the real builtins, e.g. open and __import__ *)
Theorem C17_builtins_refuted_D170 :
  exists e n, In n ["open"; "compile"; "input"; "breakpoint"; "memoryview"; "print"]
              /\ name_lookup {| d_native_builtins := true; d_builtins_leak := false |} e n = KBuiltin.
Proof. exact builtins_refuted_D170. Qed.
Print Assumptions C17_builtins_refuted_D170.

(* D171 (open): after any native body was compiled, interpreted code finds "__builtins__" in the script's global table *)
Theorem C17_builtins_refuted_D171 :
  exists e n, starts_underscore n = true /\ ne_native e = false
              /\ name_lookup {| d_native_builtins := false; d_builtins_leak := true |} e n = KBuiltinsNs.
Proof. exact builtins_refuted_D171. Qed.
Print Assumptions C17_builtins_refuted_D171.

(* print and log.* are methods of the script's logger in interpreted code whose local table holds the installed functions and
   which does not itself declare/bind/delete the name ([plain_env]); holds for the current code too (any [cfg]).  Inside trigger
   string expressions ([ne_local] = false) they are undefined - C17_builtins still applies there. *)
Theorem C17_print_logs : forall (cfg : deviations) (e : nenv),
  ne_native e = false -> plain_env e -> exists lvl, name_lookup cfg e "print" = KLogger lvl.
Proof. exact print_is_logger. Qed.
Print Assumptions C17_print_logs.

Theorem C17_log_functions : forall (cfg : deviations) (e : nenv) (n lvl : string),
  ne_native e = false -> plain_env e ->
  In (n, lvl) [("log.debug", "debug"); ("log.info", "info"); ("log.warning", "warning"); ("log.error", "error")] ->
  name_lookup cfg e n = KLogger lvl.
Proof. exact log_funcs_are_loggers. Qed.
Print Assumptions C17_log_functions.

(* ---- Model |= Spec on the functions the correspondence evaluates ---- *)
Theorem C17_model_safety : forall c : icase, icase_model_ok c = true -> spec_safety c = true.
Proof. exact icase_model_safety. Qed.
Print Assumptions C17_model_safety.

Theorem C17_names_model_implies_spec : forall c : ncase, ncase_model_ok dev_off c = true -> ncase_spec_ok c = true.
Proof. exact ncase_model_implies_spec. Qed.
Print Assumptions C17_names_model_implies_spec.
