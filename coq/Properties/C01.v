(* Properties/C01.v — property theorems only; every proof is [exact <lemma>] (lemmas in Proofs/InterpEquiv.v and
   Proofs/InterpWitness.v).

   C01: "for every script of the supported subset, running it under pyscript leaves the same final variable values,
   produces the same ordered trail of observable side effects and raises the same exception type as the standard
   Python interpreter; every operand with side effects is evaluated exactly once, left to right."

   ps_run = Interp/PsEval.v (mirror of eval.py AstEval; tied to the code by tape replay on every run),
   py_run = Interp/PyRef.v  (Language Reference / CPython 3.12; tied to CPython by tape replay on every run).
   The host ([prim], [oh]) is universally quantified: it decides what every operator computes and what raises, so
   the theorems cover all builtin value kinds, well- and ill-typed programs, every nesting depth and every fuel.
   The subset is the whole of Interp/Syntax.v (the translator refuses any other node), so no [supported]
   side condition is needed. *)
From PV Require Import Common.Util Interp.Syntax Interp.Host Interp.PsEval Interp.PyRef Interp.BuiltinHost Interp.EvalCheck
  Proofs.InterpEquiv Proofs.InterpWitness.

(* The conformant evaluator (all deviation switches off) and the reference agree on the whole run record — final
   symbol table, complete trail of primitive calls, outcome, final host state — or are both out of fuel. *)
Theorem C01_run_equal :
  forall (hstate : Type) (prim : primop -> list value -> hstate -> hstate * pres) (oh : N -> bool) (cfg : deviations),
  H1 prim -> H2 prim -> all_off cfg ->
  forall (fuel : nat) (p : program) (h : hstate) (e : env),
  ps_run hstate prim oh cfg fuel p h e = py_run hstate prim oh fuel p h e.
Proof. exact run_equal. Qed.
Print Assumptions C01_run_equal.

(* the statement of DESIGN.md: equality of the observable projection (final variable values, sub-trail of calls —
   every tracer call is one —, exception class) as options, for all fuel *)
Theorem C01_eval_equiv :
  forall (hstate : Type) (prim : primop -> list value -> hstate -> hstate * pres) (oh : N -> bool) (cfg : deviations),
  all_off cfg -> H1 prim -> H2 prim ->
  forall (fuel : nat) (p : program) (h : hstate) (e : env),
  option_map obs (ps_run hstate prim oh cfg fuel p h e) = option_map obs (py_run hstate prim oh fuel p h e).
Proof. exact obs_equiv. Qed.
Print Assumptions C01_eval_equiv.

(* "every operand that has side effects is evaluated exactly once and in Python's left-to-right order":
   the ordered list of calls (callee, positional and keyword arguments) is the same *)
Theorem C01_once_left_to_right :
  forall (hstate : Type) (prim : primop -> list value -> hstate -> hstate * pres) (oh : N -> bool) (cfg : deviations),
  all_off cfg -> H1 prim -> H2 prim ->
  forall fuel p h e r1 r2,
  ps_run hstate prim oh cfg fuel p h e = Some r1 -> py_run hstate prim oh fuel p h e = Some r2 ->
  calls (rr_trail r1) = calls (rr_trail r2).
Proof. exact calls_equal. Qed.
Print Assumptions C01_once_left_to_right.

Theorem C01_same_exception :
  forall (hstate : Type) (prim : primop -> list value -> hstate -> hstate * pres) (oh : N -> bool) (cfg : deviations),
  all_off cfg -> H1 prim -> H2 prim ->
  forall fuel p h e r1 r2,
  ps_run hstate prim oh cfg fuel p h e = Some r1 -> py_run hstate prim oh fuel p h e = Some r2 ->
  rr_out r1 = rr_out r2 /\ rr_env r1 = rr_env r2.
Proof. exact outcome_equal. Qed.
Print Assumptions C01_same_exception.

(* the hypotheses are met by a concrete host over ints, bools, None, strings and native containers ... *)
Theorem C01_builtin_host_ok : H1 bh_prim /\ H2 bh_prim.
Proof. exact (conj builtin_host_H1 builtin_host_H2). Qed.
Print Assumptions C01_builtin_host_ok.
(* ... on which a three-generator comprehension with a walrus, a chained comparison, and/or, a starred call with a
   keyword and an augmented subscript assignment runs to completion with at least ten calls *)
Theorem C01_example_nontrivial : exists e t, py_obs w_example = Some (e, t, ONormal) /\ 10 <= length t.
Proof. exact example_runs. Qed.
Print Assumptions C01_example_nontrivial.

(* Each deviation of today's code, alone, refutes the property on the witness of its finding (concrete host). *)
Theorem C01_refuted_D1 : ps_obs (only_dev 1) w_D1 <> py_obs w_D1.        Proof. exact refuted_D1. Qed.
Theorem C01_refuted_D2 : ps_obs (only_dev 2) w_D2 <> py_obs w_D2.        Proof. exact refuted_D2. Qed.
Theorem C01_refuted_D3 : ps_obs (only_dev 3) w_D3 <> py_obs w_D3.        Proof. exact refuted_D3. Qed.
Theorem C01_refuted_D4 : ps_obs (only_dev 4) w_D4 <> py_obs w_D4.        Proof. exact refuted_D4. Qed.
Theorem C01_refuted_D5 : ps_obs (only_dev 5) w_D5 <> py_obs w_D5.        Proof. exact refuted_D5. Qed.
Theorem C01_refuted_D6 : ps_obs (only_dev 6) w_D6 <> py_obs w_D6.        Proof. exact refuted_D6. Qed.
Theorem C01_refuted_D7 : ps_obs (only_dev 7) w_D7 <> py_obs w_D7.        Proof. exact refuted_D7. Qed.
Theorem C01_refuted_D100 : ps_obs (only_dev 100) w_D100 <> py_obs w_D100.  Proof. exact refuted_D100. Qed.
Theorem C01_refuted_D101 : ps_obs (only_dev 101) w_D101 <> py_obs w_D101.  Proof. exact refuted_D101. Qed.
Theorem C01_refuted_D102 : ps_obs (only_dev 102) w_D102 <> py_obs w_D102.  Proof. exact refuted_D102. Qed.
Theorem C01_refuted_D103 : ps_obs (only_dev 103) w_D103 <> py_obs w_D103.  Proof. exact refuted_D103. Qed.
Theorem C01_refuted_D104 : ps_obs (only_dev 104) w_D104 <> py_obs w_D104.  Proof. exact refuted_D104. Qed.
Theorem C01_refuted_D105 : ps_obs (only_dev 105) w_D105 <> py_obs w_D105.  Proof. exact refuted_D105. Qed.
Print Assumptions C01_refuted_D1.
Print Assumptions C01_refuted_D105.
