(* Properties/C15.v — property theorems only; every proof is [exact <lemma>] (lemmas in Proofs/TrigWaitUntil.v).
   Model: Trig/WaitUntil.v ([run cfg legacy a L0 init pre h] = one task.wait_until call of the legacy (legacy = true) or
   default subsystem with arguments [a], ledger before the call [L0], history [pre] before and [h] after the call;
   [h] contains the cancellation of the waiting task as an occurrence).  Spec: [spec_run] in the same file. *)
From PV Require Import Common.Util Gen.WaitConsts Trig.WaitUntil Trig.WaitUntilCheck Proofs.TrigWaitUntil.
Local Open Scope Z_scope.

(* C15, first sentence.  For the conformant model of BOTH subsystems, every argument combination (state_trigger with
   state_check_now unset/True/False and state_hold, time triggers once(now + o) with future and past o, event_trigger,
   timeout including 0), every value of the state expression at the call and every timed history after it -
   cancellation of the waiting task at any instant included -: the call exits exactly with the earlier of the earliest
   fixed instant ('time' at the first future time-trigger instant, 'timeout' at the timeout) and the first qualifying
   occurrence (state change making the expression true - held for state_hold -, matching event, raising condition,
   cancellation); immediately with {trigger_type: state} when state_check_now is in effect and the expression is
   already true; 'none' when only time triggers without future instant were given.  The returned dictionary is
   identified by the occurrence number / the instant.  (The defaults of state_check_now come from Gen/WaitConsts.v.) *)
Theorem C15_first : forall legacy a L0 init pre h,
  args_ok a -> a_badexpr a = false -> timed h ->
  outcome (run all_off legacy a L0 init pre h) = spec_run a (truth_after init pre) h.
Proof. exact run_first. Qed.
Print Assumptions C15_first.

(* C15, "occurrences before the call ... have no effect": for every setting of the switches, the history before the call
   matters only through the current value of the state expression - and not at all when there is no state trigger or
   state_check_now is off and state_hold_false is not given. *)
Theorem C15_deaf_before : forall cfg legacy a L0 init pre init' pre' h,
  truth_after init pre = truth_after init' pre' \/ a_state a = false \/ (cn_eff legacy a = false /\ a_hf a = None) ->
  run cfg legacy a L0 init pre h = run cfg legacy a L0 init' pre' h.
Proof. exact run_deaf_before. Qed.
Print Assumptions C15_deaf_before.

(* C15, "occurrences ... after the return have no effect": for every setting of the switches, once the call has exited
   (return, exception, cancellation) at some instant, whatever occurs at or after that instant changes nothing: neither
   the exit, nor its time, nor the ledger. *)
Theorem C15_deaf_after : forall cfg legacy a L0 init pre h1 h2,
  r_exit (run cfg legacy a L0 init pre h1) <> XPending ->
  (forall t o, In (t, o) h2 -> r_time (run cfg legacy a L0 init pre h1) <= t) ->
  run cfg legacy a L0 init pre (h1 ++ h2) = run cfg legacy a L0 init pre h1.
Proof. exact run_deaf_after. Qed.
Print Assumptions C15_deaf_after.

(* both directions together, as the property states them: "occurrences before the call or after the return have no effect" *)
Theorem C15_deaf_outside : forall cfg legacy a L0 init pre h1,
  (forall init' pre', truth_after init pre = truth_after init' pre' ->
     run cfg legacy a L0 init pre h1 = run cfg legacy a L0 init' pre' h1)
  /\ (forall h2, r_exit (run cfg legacy a L0 init pre h1) <> XPending ->
        (forall t o, In (t, o) h2 -> r_time (run cfg legacy a L0 init pre h1) <= t) ->
        run cfg legacy a L0 init pre (h1 ++ h2) = run cfg legacy a L0 init pre h1).
Proof. exact run_deaf_outside. Qed.
Print Assumptions C15_deaf_outside.

(* C15, last sentence.  For the conformant model of both subsystems, every argument combination (also an unparsable
   condition), every ledger before the call, every history (not even required to be ordered) and every exit path -
   return, exception in a condition, cancellation of the waiting task at any instant -: everything the call registered
   (state subscriptions, event queues, bus listeners, trigger cycle tasks with their timers) is released:
   ledger after = ledger before. *)
Theorem C15_ledger_restored : forall legacy a L0 init pre h,
  r_exit (run all_off legacy a L0 init pre h) <> XPending ->
  r_ledger (run all_off legacy a L0 init pre h) = L0.
Proof. exact run_ledger_restored. Qed.
Print Assumptions C15_ledger_restored.

(* whatever behaviour of the implementation the conformant Model reproduces satisfies the Spec the correspondence
   evaluates (returned dictionary, no second report and the remaining registries are checked by the worker) *)
Theorem C15_model_implies_spec : forall c,
  wcase_wf c -> wcase_model_ok all_off c = true ->
  o_dict_ok (wc_obs c) = true -> o_late (wc_obs c) = 0%N -> o_other_ok (wc_obs c) = true ->
  o_leak_end (wc_obs c) = (0, 0, 0, 0) ->
  wcase_spec_ok c = true.
Proof. exact wcase_model_implies_spec. Qed.
Print Assumptions C15_model_implies_spec.

(* ---- the property is false of today's code: one witness per finding (switch on = the code's behaviour) ---- *)

(* D18: default subsystem, timeout=0 with an event trigger: keeps waiting instead of 'timeout' at once *)
Theorem C15_refuted_D18 : exists a init pre h,
  args_ok a /\ a_badexpr a = false /\ timed h /\
  outcome (run only_D18 false a lg_zero init pre h) <> spec_run a (truth_after init pre) h.
Proof. exact refuted_D18. Qed.
Print Assumptions C15_refuted_D18.

(* D19, legacy half: a cancelled wait leaves its state subscription, event queue and bus listener *)
Theorem C15_refuted_D19_legacy : exists a init pre h,
  timed h /\ r_exit (run only_D19 true a lg_zero init pre h) = XCancelled /\
  r_ledger (run only_D19 true a lg_zero init pre h) <> lg_zero.
Proof. exact refuted_D19_legacy. Qed.
Print Assumptions C15_refuted_D19_legacy.

(* D19, default-subsystem half (listed as D150): a cancelled wait never stops its temporary decorator manager *)
Theorem C15_refuted_D19_new : exists a init pre h,
  timed h /\ r_exit (run only_D150 false a lg_zero init pre h) = XCancelled /\
  r_ledger (run only_D150 false a lg_zero init pre h) <> lg_zero.
Proof. exact refuted_D19_new. Qed.
Print Assumptions C15_refuted_D19_new.

(* D151: legacy, once(now + 1.25s) and a non-matching event at 1 s: 'time' at 2.25 s instead of 1.25 s *)
Theorem C15_refuted_D151 : exists a init pre h,
  args_ok a /\ a_badexpr a = false /\ timed h /\
  outcome (run only_D151 true a lg_zero init pre h) <> spec_run a (truth_after init pre) h.
Proof. exact refuted_D151. Qed.
Print Assumptions C15_refuted_D151.

(* D152: legacy, unparsable mqtt/webhook condition next to an event trigger: the exception leaves the event subscription *)
Theorem C15_refuted_D152 : exists a init pre h,
  r_exit (run only_D152 true a lg_zero init pre h) = XExc ESyntax /\
  r_ledger (run only_D152 true a lg_zero init pre h) <> lg_zero.
Proof. exact refuted_D152. Qed.
Print Assumptions C15_refuted_D152.

(* D153: default subsystem, state trigger plus an exhausted time trigger: 'none' at once instead of waiting for the state *)
Theorem C15_refuted_D153 : exists a init pre h,
  args_ok a /\ a_badexpr a = false /\ timed h /\
  outcome (run only_D153 false a lg_zero init pre h) <> spec_run a (truth_after init pre) h.
Proof. exact refuted_D153. Qed.
Print Assumptions C15_refuted_D153.

(* D154: default subsystem, state_hold and a second still-true change: the dictionary of the latest change is returned *)
Theorem C15_refuted_D154 : exists a init pre h,
  args_ok a /\ a_badexpr a = false /\ timed h /\
  outcome (run only_D154 false a lg_zero init pre h) <> spec_run a (truth_after init pre) h.
Proof. exact refuted_D154. Qed.
Print Assumptions C15_refuted_D154.

(* D155: default subsystem, an attribute-only update of the watched variable cancels the pending state_hold *)
Theorem C15_refuted_D155 : exists a init pre h,
  args_ok a /\ a_badexpr a = false /\ timed h /\
  outcome (run only_D155 false a lg_zero init pre h) <> spec_run a (truth_after init pre) h.
Proof. exact refuted_D155. Qed.
Print Assumptions C15_refuted_D155.
