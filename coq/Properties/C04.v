(* Properties/C04.v — property theorems only; every proof is [exact <lemma>] (lemmas in Proofs/TrigStateTrig.v).

   C04: "Once a @state_trigger function has been started, for every later sequence of entity value and attribute changes
   the function is run once for each change of a watched variable or attribute at which the trigger expression - evaluated
   on that event's values, with NAME.old bound to the changed variable's previous value and undefined variables or
   attributes read as None - is truthy, or which matches an any-change form, and for no other event.  Runs of a function
   start in event order, none is lost or duplicated even in rapid bursts, and each receives trigger_type, var_name, value
   and old_value of its own event, overridden by the decorator's kwargs."

   Model: Trig/Notify.v (State.notify / notify_var_last / State.update / notify_var_get, state_changed) and Trig/StateTrig.v
   (argument classification, ident_any_values_changed, ident_values_changed, expression evaluation with pyscript's name
   resolution, the trigger loop of both subsystems, kwargs merge, run order after a burst).  [sdev_off] = all deviation
   switches off (conformant code); [sdev_code] = the code as it is today (D40-D44 on). *)
From Coq Require Import NArith List Sorted.
From PV Require Import Common.Util Gen.StateTrigConsts Trig.Notify Trig.StateTrig Trig.StateTrigCheck Proofs.TrigStateTrig.
Import ListNotations.

(* First sentence.  For every script (list of decorators [s_trigs s], any argument forms, watch=, kwargs=, several decorators
   per function), under the legacy and the default subsystem ([s_legacy s] arbitrary), every initial hass.states [h0] and every
   history [hist] of bursts of create / change / attribute-only / re-set / delete writes: the runs caused by decorator [T] are
   exactly one run per event that qualifies ([spec_trig_runs]: any-change form matches, or watched change with truthy
   expression), in event order, with that event's kwargs. *)
Theorem C04_runs : forall (s : sys) (T : trig) (h0 : hass) (hist : list (list op)),
  NoDup (map t_id (s_trigs s)) -> In T (s_trigs s) ->
  trig_runs sdev_off s (t_id T) h0 hist = spec_trig_runs T h0 hist.
Proof. exact trig_runs_spec. Qed.
Print Assumptions C04_runs.

(* The same for any setting of the deviation switches under which the decorator is not affected by them ([benign]: no watch=
   or D41/D44 off; D42 off or legacy or no "d.e.old" form) and D40 off or every burst has at most one write. *)
Theorem C04_runs_general : forall (cfg : sdev) (s : sys) (T : trig) (h0 : hass) (hist : list (list op)),
  NoDup (map t_id (s_trigs s)) -> In T (s_trigs s) -> benign cfg (s_legacy s) T ->
  (d_late_read cfg = false \/ settled hist) ->
  trig_runs cfg s (t_id T) h0 hist = spec_trig_runs T h0 hist.
Proof. exact trig_runs_general. Qed.
Print Assumptions C04_runs_general.

(* What holds of the code as it is today: decorators without watch= (and without a "d.e.old" any-change form) over histories
   settled one write at a time. *)
Theorem C04_runs_code_settled : forall (s : sys) (T : trig) (h0 : hass) (hist : list (list op)),
  NoDup (map t_id (s_trigs s)) -> In T (s_trigs s) ->
  t_watch T = None -> no_aold T -> settled hist ->
  trig_runs sdev_code s (t_id T) h0 hist = spec_trig_runs T h0 hist.
Proof. exact trig_runs_code_settled. Qed.
Print Assumptions C04_runs_code_settled.

(* Second sentence, order / no loss / no duplication: the event numbers of a decorator's runs are the qualifying events of
   the history, each once, strictly increasing - bursts included. *)
Theorem C04_no_loss_no_dup : forall (T : trig) (h0 : hass) (hist : list (list op)),
  map r_ev (spec_trig_runs T h0 hist)
  = map evid (filter (fun p => qualifies T (fst p) (snd p)) (hist_events h0 1 (concat hist))).
Proof. exact spec_trig_runs_ids. Qed.
Print Assumptions C04_no_loss_no_dup.

Theorem C04_trig_order : forall (s : sys) (T : trig) (h0 : hass) (hist : list (list op)),
  NoDup (map t_id (s_trigs s)) -> In T (s_trigs s) ->
  StronglySorted N.lt (map r_ev (trig_runs sdev_off s (t_id T) h0 hist)).
Proof. exact trig_runs_sorted. Qed.
Print Assumptions C04_trig_order.

(* Runs of a function (all its decorators together): event by event in history order the runs of its qualifying decorators. *)
Theorem C04_fn_runs : forall (s : sys) (fn : N) (h0 : hass) (hist : list (list op)),
  fn_runs sdev_off s fn h0 hist = spec_fn_runs s fn h0 hist.
Proof. exact fn_runs_spec. Qed.
Print Assumptions C04_fn_runs.

Theorem C04_fn_order : forall (s : sys) (fn : N) (h0 : hass) (hist : list (list op)),
  StronglySorted N.le (map r_ev (fn_runs sdev_off s fn h0 hist)).
Proof. exact fn_runs_sorted. Qed.
Print Assumptions C04_fn_order.

(* Second sentence, kwargs: a run is the run of one qualifying event; its kwargs are the decorator's kwargs where given and
   otherwise trigger_type="state", var_name, value, old_value, context of that event. *)
Theorem C04_run_of_event : forall (s : sys) (T : trig) (h0 : hass) (hist : list (list op)) (r : run),
  NoDup (map t_id (s_trigs s)) -> In T (s_trigs s) ->
  In r (trig_runs sdev_off s (t_id T) h0 hist) ->
  exists ev S, In (ev, S) (hist_events h0 1 (concat hist)) /\ qualifies T ev S = true /\ r = mk_run T ev.
Proof. exact trig_runs_kwargs. Qed.
Print Assumptions C04_run_of_event.

Theorem C04_kwargs : forall (T : trig) (ev : event) (k : N),
  assoc k (r_kw (mk_run T ev)) = match assoc k (t_kwargs T) with Some u => Some u | None => assoc k (std_kw ev) end.
Proof. exact run_kwargs. Qed.
Print Assumptions C04_kwargs.

Theorem C04_event_kwargs : forall ev : event,
  assoc key_trigger_type (std_kw ev) = Some KTypeState
  /\ assoc key_var_name (std_kw ev) = Some (KEnt (ev_ent ev))
  /\ assoc key_value (std_kw ev) = Some (match ev_new ev with Some s => KSv s | None => KNone end)
  /\ assoc key_old_value (std_kw ev) = Some (match ev_old ev with Some s => KSv s | None => KNone end)
  /\ assoc key_context (std_kw ev) = Some (KCtx (ev_id ev)).
Proof. exact std_kw_values. Qed.
Print Assumptions C04_event_kwargs.

(* The code as it is today violates the property: each deviation alone, on the witness the check replays on the real code. *)
Theorem C04_refuted_D40 : exists s T h0 hist,
  NoDup (map t_id (s_trigs s)) /\ In T (s_trigs s) /\ trig_runs only_D40 s (t_id T) h0 hist <> spec_trig_runs T h0 hist.
Proof. exact refuted_D40. Qed.
Print Assumptions C04_refuted_D40.
Theorem C04_refuted_D41 : exists s T h0 hist,
  NoDup (map t_id (s_trigs s)) /\ In T (s_trigs s) /\ trig_runs only_D41 s (t_id T) h0 hist <> spec_trig_runs T h0 hist.
Proof. exact refuted_D41. Qed.
Print Assumptions C04_refuted_D41.
Theorem C04_refuted_D42 : exists s T h0 hist,
  NoDup (map t_id (s_trigs s)) /\ In T (s_trigs s) /\ trig_runs only_D42 s (t_id T) h0 hist <> spec_trig_runs T h0 hist.
Proof. exact refuted_D42. Qed.
Print Assumptions C04_refuted_D42.
Theorem C04_refuted_D43 : exists s fn h0 hist,
  NoDup (map t_id (s_trigs s)) /\ fn_runs only_D43 s fn h0 hist <> spec_fn_runs s fn h0 hist
  /\ ~ StronglySorted N.le (map r_ev (fn_runs only_D43 s fn h0 hist)).
Proof. exact refuted_D43. Qed.
Print Assumptions C04_refuted_D43.
Theorem C04_refuted_D44 : exists s T h0 hist,
  NoDup (map t_id (s_trigs s)) /\ In T (s_trigs s) /\ trig_runs only_D44 s (t_id T) h0 hist <> spec_trig_runs T h0 hist.
Proof. exact refuted_D44. Qed.
Print Assumptions C04_refuted_D44.

(* The check's two sides are tied by the theorems: on a well-formed case (distinct decorator numbers, no decorator overrides
   "context") an observation that the conformant Model reproduces passes the Spec side of the correspondence. *)
Theorem C04_model_implies_spec : forall c : scase,
  case_wf c -> scase_model_ok sdev_off c = true -> scase_spec_ok c = true.
Proof. exact scase_model_implies_spec. Qed.
Print Assumptions C04_model_implies_spec.
