(* Properties/C13.v — task.unique guarantees at most one live owner per name.
   Property theorems only; every proof is [exact <lemma>] (lemmas in Proofs/TaskUnique.v).

   [run cfg ls = Some s] ranges over ALL finite sequences [ls] of atomic steps of the transition system of
   Task/Unique.v — claims, reaper segments, task ends, @task_unique dispatch/start, steps of tasks not started by
   pyscript — i.e. over all interleavings of any number of tasks, names and contexts.  [cfg] is the deviation
   configuration: the theorems hold for the code as it is ([as_is]) and for the conformant model ([all_off]) unless a
   hypothesis says otherwise. *)
From PV Require Import Common.Util Gen.UniqueConsts Task.Unique Task.UniqueCheck Proofs.TaskUnique.
From Coq Require Import String.
Import List ListNotations.
Local Open Scope list_scope.

(* name2task and task2name are mutually inverse in every reachable state *)
Theorem C13_maps_inverse : forall cfg ls s, run cfg ls = Some s ->
  forall k t, lookup k (n2t s) = Some t <-> In (t, k) (t2n s).
Proof. exact maps_inverse_run. Qed.
Print Assumptions C13_maps_inverse.

(* after a pyscript task calls task.unique(name): it is the owner as reported by task.name2id; the previous owner is
   queued for cancellation; and of all live tasks that ever claimed that name, every other one has its cancellation
   pending (in the reaper queue) or in progress *)
Theorem C13_claim : forall cfg ls s t ctx name s',
  run cfg ls = Some s -> ustep cfg s (UUnique t ctx name false) = Some s' -> In t (ours s) ->
  owner cfg s' ctx name = Some t
  /\ (forall o, owner cfg s ctx name = Some o -> o <> t -> In o (rq s'))
  /\ (forall t', In (key_of cfg ctx name, t') (claimed s') -> In t' (live s') -> t' <> t -> cancel_pending s' t').
Proof. exact unique_claims. Qed.
Print Assumptions C13_claim.

(* the title: two live claimants of one key that are both not being cancelled are the same task, the owner *)
Theorem C13_one_live_owner : forall cfg ls s k t1 t2,
  run cfg ls = Some s -> In (k, t1) (claimed s) -> In (k, t2) (claimed s) -> In t1 (live s) -> In t2 (live s) ->
  ~ cancel_pending s t1 -> ~ cancel_pending s t2 -> t1 = t2 /\ lookup k (n2t s) = Some t1.
Proof. exact one_live_owner. Qed.
Print Assumptions C13_one_live_owner.

(* kill_me=True while another task owns the name: nothing changes but the caller, which is queued for cancellation and
   suspended; it takes no further step; its cancellation stays pending until it ends *)
Theorem C13_kill_me : forall cfg s t ctx name s' o,
  ustep cfg s (UUnique t ctx name true) = Some s' -> owner cfg s ctx name = Some o -> o <> t ->
  n2t s' = n2t s /\ t2n s' = t2n s /\ ours s' = ours s /\ live s' = live s /\ rq s' = rq s ++ [t] /\ In t (waiting s').
Proof. exact kill_me_blocked. Qed.
Print Assumptions C13_kill_me.

Theorem C13_kill_me_pending : forall cfg ls s t, run cfg ls = Some s -> In t (waiting s) ->
  In t (live s) /\ cancel_pending s t.
Proof. exact waiting_pending. Qed.
Print Assumptions C13_kill_me_pending.

Theorem C13_kill_me_stuck : forall cfg s t ctx name km, In t (waiting s) ->
  ustep cfg s (UUnique t ctx name km) = None /\ ustep cfg s (UNop t) = None.
Proof. exact waiting_stuck. Qed.
Print Assumptions C13_kill_me_stuck.

(* kill_me=True when the name is free or the caller's own: an ordinary claim *)
Theorem C13_kill_me_free : forall cfg s t ctx name s',
  ustep cfg s (UUnique t ctx name true) = Some s' -> In t (ours s) ->
  (owner cfg s ctx name = None \/ owner cfg s ctx name = Some t) ->
  owner cfg s' ctx name = Some t /\ rq s' = rq s /\ waiting s' = waiting s.
Proof. exact kill_me_free. Qed.
Print Assumptions C13_kill_me_free.

(* @task_unique applies the same rule before the body starts — when the test is made by the new run itself (the
   default subsystem; the legacy subsystem once D130 is repaired): with kill_me=True and the name in use the run ends
   without touching anything; otherwise its first segment is exactly start + task.unique(name, kill_me) *)
Theorem C13_decorator : forall cfg ls s t ctx name km lg s',
  run cfg ls = Some s -> precheck cfg lg = false ->
  ustep cfg s (UDecStart t ctx name km lg) = Some s' ->
  (km = true -> used cfg s ctx name = true ->
     n2t s' = n2t s /\ t2n s' = t2n s /\ rq s' = rq s /\ live s' = live s /\ ~ In t (live s'))
  /\ (km && used cfg s ctx name = false ->
     exists s1, ustep cfg (set_admitted s (removeN t (admitted s))) (UStart t true) = Some s1
                /\ ustep cfg s1 (UUnique t ctx name km) = Some s').
Proof. exact dec_start_rule. Qed.
Print Assumptions C13_decorator.

(* ... and the legacy subsystem as it is violates it (known finding D130) *)
Theorem C13_refuted_D130 : exists ls s s',
  run as_is ls = Some s
  /\ owner as_is s "scripts.a" "x" = Some 0%N /\ In 0%N (live s)
  /\ ustep as_is s (UDecStart 1%N "scripts.a" "x" true true) = Some s'
  /\ In 1%N (live s') /\ owner as_is s' "scripts.a" "x" = Some 1%N /\ In 0%N (rq s').
Proof. exact refuted_D130. Qed.
Print Assumptions C13_refuted_D130.

(* a task may own several names: claiming one leaves every other key as it was *)
Theorem C13_multi_names : forall cfg s t ctx name km s',
  ustep cfg s (UUnique t ctx name km) = Some s' ->
  forall k', k' <> key_of cfg ctx name -> lookup k' (n2t s') = lookup k' (n2t s).
Proof. exact unique_keeps_other_names. Qed.
Print Assumptions C13_multi_names.

(* a name is released as soon as its owner ends for any reason (normally, by an exception, cancelled); the other
   owners keep theirs; consequently every owner is a live pyscript-started task *)
Theorem C13_release_on_exit : forall cfg ls s t c s',
  run cfg ls = Some s -> ustep cfg s (UExit t c) = Some s' ->
  (forall k, lookup k (n2t s') <> Some t)
  /\ (forall k t', t' <> t -> (lookup k (n2t s') = Some t' <-> lookup k (n2t s) = Some t'))
  /\ ~ In t (live s') /\ ~ In t (ours s').
Proof. exact exit_releases. Qed.
Print Assumptions C13_release_on_exit.

Theorem C13_owner_live : forall cfg ls s k t, run cfg ls = Some s -> lookup k (n2t s) = Some t ->
  In t (live s) /\ In t (ours s).
Proof. exact owner_is_live. Qed.
Print Assumptions C13_owner_live.

(* tasks not started by pyscript are never cancelled: a cancelled end only happens to a task of our_tasks or to one that
   asked for it itself with kill_me=True; no step queues anybody else *)
Theorem C13_foreign_safe : forall cfg ls s t s',
  run cfg ls = Some s -> ustep cfg s (UExit t true) = Some s' -> In t (ours s) \/ In t (waiting s).
Proof. exact cancelled_exit_ours. Qed.
Print Assumptions C13_foreign_safe.

Theorem C13_foreign_safe_queue : forall cfg ls s l s' x,
  run cfg ls = Some s -> ustep cfg s l = Some s' -> In x (rq s') ->
  In x (rq s) \/ In x (ours s) \/ exists ctx name, l = UUnique x ctx name true.
Proof. exact step_queues_only_ours. Qed.
Print Assumptions C13_foreign_safe_queue.

(* names in different global contexts never interact — for pair keys, or for the code's concatenated keys when the
   names contain no separator: a claim in ctx changes no owner in ctx' and queues only the caller or the owner of the
   claimed name *)
Theorem C13_contexts_disjoint : forall cfg s t ctx name km s' ctx' name',
  d17_concat_keys cfg = false \/ (dot_free name = true /\ dot_free name' = true) ->
  ctx <> ctx' ->
  ustep cfg s (UUnique t ctx name km) = Some s' ->
  owner cfg s' ctx' name' = owner cfg s ctx' name'
  /\ (forall x, In x (rq s') -> In x (rq s) \/ x = t \/ owner cfg s ctx name = Some x).
Proof. exact contexts_disjoint. Qed.
Print Assumptions C13_contexts_disjoint.

Theorem C13_contexts_disjoint_decorator : forall cfg s t ctx name km lg s' ctx' name',
  d17_concat_keys cfg = false \/ (dot_free name = true /\ dot_free name' = true) ->
  ctx <> ctx' ->
  ustep cfg s (UDecStart t ctx name km lg) = Some s' ->
  owner cfg s' ctx' name' = owner cfg s ctx' name'
  /\ (forall x, In x (rq s') -> In x (rq s) \/ owner cfg s ctx name = Some x).
Proof. exact contexts_disjoint_dec. Qed.
Print Assumptions C13_contexts_disjoint_decorator.

(* with pair keys the whole of task.name2id() of another context is untouched *)
Theorem C13_contexts_disjoint_view : forall cfg s t ctx name km s' ctx',
  d17_concat_keys cfg = false -> ctx <> ctx' ->
  ustep cfg s (UUnique t ctx name km) = Some s' -> view cfg ctx' (n2t s') = view cfg ctx' (n2t s).
Proof. exact contexts_disjoint_view. Qed.
Print Assumptions C13_contexts_disjoint_view.

(* the hypothesis is necessary for the code as it is (known finding D17) *)
Theorem C13_refuted_D17 : exists ls s s',
  run as_is ls = Some s
  /\ ("scripts.a.b" <> "scripts.a")%string
  /\ ustep as_is s (UUnique 1%N "scripts.a.b" "x" false) = Some s'
  /\ owner as_is s "scripts.a" "b.x" = Some 0%N
  /\ owner as_is s' "scripts.a" "b.x" = Some 1%N
  /\ In 0%N (rq s')
  /\ view as_is "scripts.a" (n2t s') = [("b.x"%string, 1%N)].
Proof. exact refuted_D17. Qed.
Print Assumptions C13_refuted_D17.

(* the tie: an observation of the real pyscript accepted by the trace validator is a path of the transition system
   (so every theorem above applies to each of its states) *)
Theorem C13_validated_is_path : forall cfg c, ucase_model_ok cfg c = true ->
  exists ls s, ucase_path cfg c = Some ls /\ run cfg ls = Some s /\ Inv s.
Proof. exact validated_is_path. Qed.
Print Assumptions C13_validated_is_path.
