(* Properties/C07.v — property theorems only; every proof is [exact <lemma>] (lemmas in Proofs/). *)
From PV Require Import Common.Util Gen.GuardConsts Time.Windows Trig.Guards Trig.GuardsCheck Proofs.TimeWindows Proofs.TrigGuards.

Local Open Scope Z_scope.

(* C07, @time_active: for every list of signed specifications (positive / prefixed with "not"; range() or cron() in parsed
   form), every start-up time, sunrise/sunset table and instant, the model of timer_active_check answers true exactly when
   the instant lies in at least one positive specification (or none is given) and in no negated one. *)
Theorem C07_windows : forall (specs : list sspec) (startup : Z) (sun : suntab) (now : Z),
  active_check specs startup sun now = active_spec_b specs startup sun now /\
  (active_check specs startup sun now = true <-> active_spec specs startup sun now).
Proof. exact (fun specs st sun now => conj (active_check_spec specs st sun now) (active_check_iff specs st sun now)). Qed.
Print Assumptions C07_windows.

(* range() includes both end points: on resolved instants, and for a daily window at the exact end points +/- 1 us *)
Theorem C07_range_inclusive : forall s e : Z, s <= e ->
  range_match s e s = true /\ range_match s e e = true /\
  range_match s e (s - 1) = false /\ range_match s e (e + 1) = false.
Proof. exact range_inclusive. Qed.
Print Assumptions C07_range_inclusive.

Theorem C07_daily_endpoints : forall (ta tb st : Z) (sun : suntab) (d : Z), 0 <= ta -> ta <= tb -> tb < DAY ->
  win_match (daily ta tb) st sun (d * DAY + ta) = true /\
  win_match (daily ta tb) st sun (d * DAY + tb) = true /\
  (tb + 1 < DAY -> win_match (daily ta tb) st sun (d * DAY + (tb + 1)) = false) /\
  (0 <= ta - 1 -> win_match (daily ta tb) st sun (d * DAY + (ta - 1)) = false).
Proof. exact daily_endpoints_inclusive. Qed.
Print Assumptions C07_daily_endpoints.

(* a range whose end precedes its start wraps around midnight: it holds from [ta] of one day to [tb] of the next *)
Theorem C07_wrap_midnight : forall (ta tb st : Z) (sun : suntab) (d t : Z), 0 <= tb -> tb < ta -> ta < DAY -> 0 <= t < DAY ->
  win_match (daily ta tb) st sun (d * DAY + t) = (ta <=? t) || (t <=? tb) /\
  (win_match (daily ta tb) st sun (d * DAY + t) = true <-> exists k, k * DAY + ta <= d * DAY + t <= (k + 1) * DAY + tb).
Proof.
  exact (fun ta tb st sun d t H0 H1 H2 Ht =>
           conj (daily_wrap_midnight ta tb st sun d t H0 H1 H2 Ht) (daily_wrap_overnight ta tb st sun d t H0 H1 H2 Ht)).
Qed.
Print Assumptions C07_wrap_midnight.

(* cron() matches the fields as crontab does *)
Theorem C07_cron : forall (c : cronspec) (now : Z), cron_match c now = true <-> cron_spec c now.
Proof. exact cron_match_spec. Qed.
Print Assumptions C07_cron.

(* C07, the pipeline: with conformant switches, for every guard configuration and every occurrence list (state, time and
   event occurrences and direct calls; monotonic clock positive and non-decreasing; hold_off >= 0) both subsystems run the
   function for exactly the occurrences the Spec accepts: state_active true on the triggering values, time_active as above,
   and not less than hold_off after the last ACCEPTED run. *)
Theorem C07_pipeline : forall (cfg : deviations) (legacy : bool) (g : guards) (st : Z) (sun : suntab) (occs : list occ),
  all_off cfg -> Forall occ_ok occs -> nondecr 1 occs -> hold_nonneg g ->
  accepted_model legacy cfg g st sun occs = accepted_spec g st sun occs.
Proof. exact pipeline. Qed.
Print Assumptions C07_pipeline.

(* what the Spec's verdicts mean, position by position: occurrence i runs iff it is a direct call, or state_active and
   time_active hold for it and it is not less than hold_off after the last run accepted from a trigger before it *)
Theorem C07_spec_meaning : forall (g : guards) (st : Z) (sun : suntab) (occs : list occ) (i : nat) (o : occ),
  nth_error occs i = Some o ->
  nth_error (accepted_spec g st sun occs) i =
  Some (verdict_spec g st sun (last_accepted (firstn i occs) (firstn i (accepted_spec g st sun occs))) o).
Proof. exact spec_meaning. Qed.
Print Assumptions C07_spec_meaning.

(* the legacy pipeline needs neither the clock nor the hold_off hypothesis *)
Theorem C07_pipeline_legacy : forall (cfg : deviations) (g : guards) (st : Z) (sun : suntab) (occs : list occ),
  all_off cfg -> Forall occ_ok occs -> accepted_legacy cfg g st sun occs = accepted_spec g st sun occs.
Proof. exact pipeline_legacy. Qed.
Print Assumptions C07_pipeline_legacy.

(* guards never start a run by themselves (one verdict per occurrence, nothing else) nor affect direct calls: a direct call
   always runs, and removing the direct calls from a history changes no other verdict — for any setting of the switches *)
Theorem C07_direct_calls : forall (legacy : bool) (cfg : deviations) (g : guards) (st : Z) (sun : suntab) (occs : list occ),
  (forall i o, nth_error occs i = Some o -> is_direct o = true ->
               nth_error (accepted_model legacy cfg g st sun occs) i = Some true) /\
  accepted_model legacy cfg g st sun (filter (fun o => negb (is_direct o)) occs) =
  map snd (filter (fun p => negb (is_direct (fst p))) (combine occs (accepted_model legacy cfg g st sun occs))) /\
  length (accepted_model legacy cfg g st sun occs) = length occs.
Proof. exact direct_calls. Qed.
Print Assumptions C07_direct_calls.

(* the unchanged code deviates: D15 (per-argument @time_active), D70 (hold_off reference updated before a later guard
   rejects), D71 (stale symbol table of the state_active evaluator) *)
Theorem C07_refuted_D15 : exists g st sun occs, Forall occ_ok occs /\ nondecr 1 occs /\ hold_nonneg g /\
  accepted_new only_D15 g st sun occs <> accepted_spec g st sun occs.
Proof. exact refuted_D15. Qed.
Print Assumptions C07_refuted_D15.

Theorem C07_refuted_D70 : exists g st sun occs, Forall occ_ok occs /\ nondecr 1 occs /\ hold_nonneg g /\
  accepted_new only_D70 g st sun occs <> accepted_spec g st sun occs.
Proof. exact refuted_D70. Qed.
Print Assumptions C07_refuted_D70.

Theorem C07_refuted_D71 : exists g st sun occs, Forall occ_ok occs /\ nondecr 1 occs /\ hold_nonneg g /\
  accepted_legacy only_D71 g st sun occs <> accepted_spec g st sun occs /\
  accepted_new only_D71 g st sun occs <> accepted_spec g st sun occs.
Proof. exact refuted_D71. Qed.
Print Assumptions C07_refuted_D71.

(* D72: the legacy subsystem measures hold_off per repeated trigger decorator, not per function *)
Theorem C07_refuted_D72 : exists g st sun occs, Forall occ_ok occs /\ nondecr 1 occs /\ hold_nonneg g /\
  accepted_legacy only_D72 g st sun occs <> accepted_spec g st sun occs.
Proof. exact refuted_D72. Qed.
Print Assumptions C07_refuted_D72.

(* whatever behaviour of the implementation the conformant Model reproduces satisfies the property *)
Theorem C07_model_implies_spec : forall cfg c, all_off cfg -> gcase_wf c -> gcase_model_ok cfg c = true -> gcase_spec_ok c = true.
Proof. exact gcase_model_implies_spec. Qed.
Print Assumptions C07_model_implies_spec.

(* the same for a scenario with several functions, each judged on its own occurrences *)
Theorem C07_model_implies_spec_multi : forall cfg (m : mcase), all_off cfg -> Forall gcase_wf m ->
  mcase_model_ok cfg m = true -> mcase_spec_ok m = true.
Proof. exact mcase_model_implies_spec. Qed.
Print Assumptions C07_model_implies_spec_multi.
