(* Properties/C08.v — property theorems only; every proof is [exact <lemma>] (lemmas in Proofs/TrigEventFlow.v).
   "All schedules" = all label sequences [ls] of the LTS of Trig/EventFlow.v (LBus / LConsume / LRun in any order,
   any number of runs in any state); [legacy] ranges over both decorator subsystems. *)
From PV Require Import Common.Util Trig.EventBase Gen.EventFlowConsts Trig.EventFlow Trig.EventFlowCheck Proofs.TrigEventFlow Proofs.TrigEventFlowPath.

(* T1: the func_args dictionaries read from the current source are the documented ones *)
Theorem C08_tables_as_documented : forall legacy o, base_args legacy o = spec_base o.
Proof. exact base_args_spec. Qed.
Print Assumptions C08_tables_as_documented.

(* C08, exactly once / no loss / no duplication / no reordering, at every moment of every schedule:
   per decorator T, (runs started so far) ++ (runs its queue will still start) = one run per matching occurrence handed
   over so far, in order, with the Spec's kwargs and the occurrence's context as parent. *)
Theorem C08_fifo_invariant : forall legacy trigs order ls st T tr,
  let S := mk_sys all_off legacy trigs order in
  run_lts S ls = Some st -> nth_error trigs T = Some tr ->
  started st T ++ pending S T (st_q st T) = spec_runs tr (st_occs st).
Proof. exact fifo_invariant. Qed.
Print Assumptions C08_fifo_invariant.

Theorem C08_fifo_prefix : forall legacy trigs order ls st T tr,
  run_lts (mk_sys all_off legacy trigs order) ls = Some st -> nth_error trigs T = Some tr ->
  exists rest, spec_runs tr (st_occs st) = started st T ++ rest.
Proof. exact fifo_prefix. Qed.
Print Assumptions C08_fifo_prefix.

Theorem C08_fifo_quiescent : forall legacy trigs order ls st T tr,
  let S := mk_sys all_off legacy trigs order in
  run_lts S ls = Some st -> nth_error trigs T = Some tr -> drained S st T ->
  started st T = spec_runs tr (st_occs st).
Proof. exact fifo_quiescent. Qed.
Print Assumptions C08_fifo_quiescent.

(* the same about the Model with any deviation switches (what the unchanged code does): it runs exactly [model_runs] *)
Theorem C08_fifo_invariant_model : forall S ls st, run_lts S ls = Some st ->
  forall T, started st T ++ pending S T (st_q st T) = model_runs S T (st_occs st).
Proof. exact fifo_invariant_model. Qed.
Print Assumptions C08_fifo_invariant_model.

(* C08, independence: a non-empty queue can always be consumed, whatever the runs are doing; no step of any run disables a
   consumption; the effect of a consumption does not depend on the runs that exist *)
Theorem C08_independent :
  (forall S st T c, trig_at S T <> None -> consume_enabled st T = true -> exists st', step S st (LConsume T c) = Some st') /\
  (forall S st r a st' T, step S st (LRun r a) = Some st' -> consume_enabled st T = true -> consume_enabled st' T = true) /\
  (forall S st1 st2 T c, st_q st1 T = st_q st2 T ->
     match consume S st1 T c, consume S st2 T c with
     | Some a, Some b => st_q a T = st_q b T /\ exists new, st_runs a = st_runs st1 ++ new /\ st_runs b = st_runs st2 ++ new
     | None, None => True
     | _, _ => False
     end).
Proof. exact (conj consume_enabled_total (conj run_step_keeps_consume_enabled consume_ignores_runs)). Qed.
Print Assumptions C08_independent.

(* C08, contexts: every run was started by an occurrence matching a decorator of its function, got the Spec's kwargs, and
   its HA context's parent is that occurrence's context; everything it emits without an explicit context carries it *)
Theorem C08_context_parent : forall legacy trigs order ls st,
  run_lts (mk_sys all_off legacy trigs order) ls = Some st ->
  (forall i rn, nth_error (st_runs st) i = Some rn ->
     exists tr o, nth_error trigs (r_trig rn) = Some tr /\ r_func rn = t_func tr /\ In o (st_occs st) /\
                  spec_matches tr o = true /\ r_kwargs rn = spec_kwargs tr o /\ c_parent (r_ctx rn) = o_ctx o) /\
  (forall e, In e (st_acts st) -> em_explicit e = false ->
     exists rn, nth_error (st_runs st) (em_run e) = Some rn /\ em_ctx e = r_ctx rn).
Proof. exact context_parent. Qed.
Print Assumptions C08_context_parent.

(* ... and for the unchanged code (D81 present): the parent is right whenever neither the event data nor the decorator
   kwargs use the name "context" *)
Theorem C08_context_parent_current : forall legacy trigs order tr o,
  let S := mk_sys all_on legacy trigs order in
  o_kind o = KEvent -> ~ In s_context (map fst (o_data o)) -> ~ In s_context (map fst (t_kwargs tr)) ->
  expected_parent S tr o = o_ctx o.
Proof. exact expected_parent_current. Qed.
Print Assumptions C08_context_parent_current.

(* C08, event.fire: exactly the given parameters minus a Context-typed `context`, under that context if given, else under
   the run's; the emitted event is itself an occurrence handed to every subscribed trigger *)
Theorem C08_fire_exact : forall S st r key given data c ep st',
  NoDup (map fst given) ->
  step S st (LRun r (AFire key given data c ep)) = Some st' ->
  kw_eqb data (spec_fire_data given) = true /\
  st_occs st' = st_occs st ++ [ {| o_kind := KEvent; o_key := key; o_epoch := ep; o_ctx := Some (c_id c); o_attrs := [];
                                  o_data := spec_fire_data given; o_opt := None |} ] /\
  (match kw_get s_context given with
   | Some (VCtx x) => c_id c = x
   | _ => exists rn, nth_error (st_runs st) r = Some rn /\ c_id c = c_id (r_ctx rn) /\ c_parent c = c_parent (r_ctx rn)
   end).
Proof. exact fire_exact. Qed.
Print Assumptions C08_fire_exact.

(* known findings: with the switch on (= the unchanged code) the property is false *)
Theorem C08_refuted_D80 :
  exists trigs order ls T tr,
    let S := mk_sys {| d_webhook_dup := true; d_ctx_shadow_legacy := false; d_ctx_shadow_new := false |} false trigs order in
    nth_error trigs T = Some tr /\
    match run_lts S ls with
    | Some st => drained S st T /\ started st T <> spec_runs tr (st_occs st)
    | None => False
    end.
Proof. exact refuted_D80. Qed.
Print Assumptions C08_refuted_D80.

Theorem C08_refuted_D81 :
  exists trigs order ls T tr,
    let S := mk_sys {| d_webhook_dup := false; d_ctx_shadow_legacy := true; d_ctx_shadow_new := false |} true trigs order in
    nth_error trigs T = Some tr /\
    match run_lts S ls with
    | Some st => drained S st T /\ started st T <> spec_runs tr (st_occs st) /\
                 map fst (started st T) = map fst (spec_runs tr (st_occs st))
    | None => False
    end.
Proof. exact refuted_D81. Qed.
Print Assumptions C08_refuted_D81.

Theorem C08_refuted_D82 :
  exists trigs order ls T tr,
    let S := mk_sys {| d_webhook_dup := false; d_ctx_shadow_legacy := false; d_ctx_shadow_new := true |} false trigs order in
    nth_error trigs T = Some tr /\
    match run_lts S ls with
    | Some st => drained S st T /\ started st T <> spec_runs tr (st_occs st) /\
                 map fst (started st T) = map fst (spec_runs tr (st_occs st))
    | None => False
    end.
Proof. exact refuted_D82. Qed.
Print Assumptions C08_refuted_D82.

(* the tie: whenever the correspondence check ([ecase_model_ok], evaluated on every run on traces of the real code) accepts
   an observed trace, the label sequence it built is a path of the LTS from the initial state ending with all queues empty,
   and for the conformant model that end state has, per decorator, exactly the Spec's runs *)
Theorem C08_trace_validator_sound : forall cfg c, ecase_model_ok cfg c = true ->
  exists ls st, run_lts (case_sys cfg c) ls = Some st /\ forall T, (T < length (ec_trigs c))%nat -> st_q st T = [].
Proof. exact model_ok_path. Qed.
Print Assumptions C08_trace_validator_sound.

Theorem C08_accepted_trace_exact : forall c, ecase_model_ok all_off c = true ->
  exists ls st, run_lts (case_sys all_off c) ls = Some st /\
    forall T tr, nth_error (ec_trigs c) T = Some tr -> started st T = spec_runs tr (st_occs st).
Proof. exact model_ok_exact. Qed.
Print Assumptions C08_accepted_trace_exact.
