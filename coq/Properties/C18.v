(* Properties/C18.v — property theorems only; every proof is [exact <lemma>] (lemmas in Proofs/InterpFrames.v and
   Proofs/PolicyErrors.v).

   C18 (full statement): an exception raised by user code - in a trigger or service function, a trigger/active/filter
   expression, a done-callback, a created task or at load time - is reported once on that script's logger with the
   exception type and message and a traceback whose script frames name the same file, function and line numbers that
   Python's own traceback would name for that source.  It never propagates into Home Assistant, never stops the trigger
   from serving later occurrences, never disturbs other functions or files, and a load-time error leaves that one file
   unloaded while others load.

   Claimed as PARTIAL.  Proved here, about executable models tied to the code on every run:
   - attribution, for every program of the mini language of Interp/Frames.v (statements and expression nodes with line
     numbers, user-function calls through plain calls / methods / comprehension elements / decorator wrappers / decorator
     application / functions of imported modules / natively compiled script functions and lambdas (as given frames), module import, try statements that pass on, swallow or chain an
     exception, raise..from), any call depth, any nesting, any length of the cause chain;
   - containment, for every entry point of both subsystems, every outcome of the user code, every history.
   Missing for the full statement: the chain of interpreter frames is an abstraction of CPython frame objects (f_locals,
   co_positions) that no Coq model exhibits; class bodies, lambdas, @pyscript_compile functions and generators are outside
   the mini language; both are exercised only by the differential stream (fault injection vs CPython's traceback). *)
From PV Require Import Common.Util Gen.ErrorConsts.
From PV Require Interp.Frames Interp.FramesCheck Proofs.InterpFrames.
From PV Require Policy.Errors Policy.ErrorsCheck Proofs.PolicyErrors.

Module Attribution.
Import Interp.Frames Interp.FramesCheck Proofs.InterpFrames.
Local Open Scope N_scope.

(* (1) With the conformant switches, what pyscript's formatter makes of the interpreter frames at the fault -
   [reported] = script_frames (format_stack (frames_at_fault p)) for every exception of the cause/context chain - is
   exactly the list of CPython traceback entries [reference_triples p]; the two also agree on "nothing raised" and on
   running out of fuel.  For all programs, entry points and amounts of fuel. *)
Theorem C18_attribution_partial : forall (p : prog) (fuel : nat) (en : entry),
  wf_prog p = true -> reported all_off p fuel en = reference_triples p fuel en.
Proof. exact attribution_all_off. Qed.
Print Assumptions C18_attribution_partial.

(* the hypothesis is inhabited by programs with calls, recursion, chaining and imports *)
Theorem C18_attribution_instances : wf_prog w182 = true /\ wf_prog w184 = true /\ wf_prog w187 = true.
Proof. exact wf_instances. Qed.
Print Assumptions C18_attribution_instances.

(* (1') Today's code - any setting of the deviation switches - on the plain fragment: only plain nodes (no multi-line
   attribute call, no decorator application), no renamed (decorator-wrapper) functions, no callee sharing (file, name) with
   its caller, no import of a failing module, no with-header fault, no handler that raises: the logged entries are
   CPython's, for any depth and nesting.  ([plain_prog] is decidable: [plain_progb].) *)
Theorem C18_attribution_today_plain : forall (dv : deviations) (p : prog),
  plain_prog p -> forall fuel en, reported dv p fuel en = reference_triples p fuel en.
Proof. exact attribution_today_plain. Qed.
Print Assumptions C18_attribution_today_plain.

Theorem C18_attribution_today_plain_instance : plain_prog w_plain.
Proof. exact plain_instance. Qed.
Print Assumptions C18_attribution_today_plain_instance.

(* today's code, each deviation alone, on a witness program (left: what is logged, right: what CPython prints) *)
Theorem C18_attribution_refuted_D182 :
  wf_prog w182 = true /\
  reported only_merge w182 50%nat (EnFunc 0%nat 99 false) = RRaise [[(1, FnNamed 11, 31); (1, FnNamed 10, 16)]] /\
  reference_triples w182 50%nat (EnFunc 0%nat 99 false)
    = RRaise [[(1, FnNamed 11, 31); (1, FnNamed 10, 17); (1, FnNamed 10, 17); (1, FnNamed 10, 16)]].
Proof. exact refuted_D182. Qed.
Print Assumptions C18_attribution_refuted_D182.

Theorem C18_attribution_refuted_D183 :
  wf_prog w183 = true /\
  reported only_rename w183 50%nat (EnFunc 0%nat 99 true) = RRaise [[(1, FnNamed 11, 20); (1, FnNamed 13, 6); (1, FnNamed 13, 9)]] /\
  reference_triples w183 50%nat (EnFunc 0%nat 99 true) = RRaise [[(1, FnNamed 11, 20); (1, FnNamed 12, 6); (1, FnNamed 13, 9)]].
Proof. exact refuted_D183. Qed.
Print Assumptions C18_attribution_refuted_D183.

Theorem C18_attribution_refuted_D184 :
  wf_prog w184 = true /\
  reported only_chain w184 50%nat (EnFunc 2%nat 99 false)
    = RRaise [[(1, FnNamed 22, 10); (1, FnNamed 21, 8)]; [(1, FnNamed 99, 6); (1, FnNamed 20, 3)]] /\
  reference_triples w184 50%nat (EnFunc 2%nat 99 false)
    = RRaise [[(1, FnNamed 22, 10); (1, FnNamed 21, 8)]; [(1, FnNamed 21, 6); (1, FnNamed 20, 3)]].
Proof. exact refuted_D184. Qed.
Print Assumptions C18_attribution_refuted_D184.

Theorem C18_attribution_refuted_D185 :
  wf_prog w185 = true /\
  reported only_line w185 50%nat (EnFunc 0%nat 99 false) = RRaise [[(1, FnNamed 11, 7); (1, FnNamed 12, 4)]] /\
  reference_triples w185 50%nat (EnFunc 0%nat 99 false) = RRaise [[(1, FnNamed 11, 8); (1, FnNamed 12, 4)]].
Proof. exact refuted_D185. Qed.
Print Assumptions C18_attribution_refuted_D185.

Theorem C18_attribution_refuted_D186 :
  wf_prog w186 = true /\
  reported only_with w186 50%nat (EnFunc 0%nat 99 false) = RNormal /\
  reference_triples w186 50%nat (EnFunc 0%nat 99 false) = RRaise [[(1, FnNamed 11, 5)]].
Proof. exact refuted_D186. Qed.
Print Assumptions C18_attribution_refuted_D186.

Theorem C18_attribution_refuted_D187 :
  wf_prog w187 = true /\
  reported only_sticky w187 50%nat (EnFunc 0%nat 99 false) = RRaise [[(1, FnNamed 11, 9); (1, FnNamed 11, 3)]] /\
  reference_triples w187 50%nat (EnFunc 0%nat 99 false) = RRaise [[(1, FnNamed 11, 9); (3, FnModule 3, 3)]].
Proof. exact refuted_D187. Qed.
Print Assumptions C18_attribution_refuted_D187.

Theorem C18_attribution_refuted_D190 :
  wf_prog w190 = true /\
  reported only_lambda w190 50%nat (EnFunc 0%nat 99 false) = RRaise [[(1, FnNamed 11, 5); (1, FnNamed 31, 2)]] /\
  reference_triples w190 50%nat (EnFunc 0%nat 99 false) = RRaise [[(1, FnNamed 11, 5); (1, FnNamed 30, 2)]].
Proof. exact refuted_D190. Qed.
Print Assumptions C18_attribution_refuted_D190.

(* whatever behaviour of the implementation the conformant Model reproduces (both the report and CPython's traceback)
   satisfies the Spec the correspondence applies *)
Theorem C18_model_implies_spec : forall c,
  wf_prog (ac_prog c) = true -> acase_model_ok acfg_off c = true -> acase_spec_ok c = true.
Proof. exact model_implies_spec. Qed.
Print Assumptions C18_model_implies_spec.
End Attribution.

Module Containment.
Import Policy.Errors Policy.ErrorsCheck Proofs.PolicyErrors.

(* (2) Every entry kind, both subsystems, every user outcome (return, raise an Exception, raise any other
   BaseException), every history of occurrences starting with all triggers serving: every occurrence is served, logs
   exactly once on the script's logger iff the user code raised, lets nothing out ([history_ok]), and afterwards every
   trigger still serves.  Done-callback lists are occurrences too: every callback runs, each raising one is logged once.
   So are reloads of the script file ([OReload]) and runs that are suspended while their file is reloaded and end -
   return or raise - afterwards ([OLate]): the old run is still reported exactly once. *)
Theorem C18_contained : forall (sub : subsystem) (h : list occ) (m : alive_map),
  (forall e, m e = true) ->
  history_ok h (snd (run_history all_off sub m h)) = true /\ forall e, fst (run_history all_off sub m h) e = true.
Proof. exact history_contained. Qed.
Print Assumptions C18_contained.

Theorem C18_contained_instance : forall e, all_alive e = true.
Proof. exact all_alive_alive. Qed.
Print Assumptions C18_contained_instance.

(* one occurrence in detail: the wrapper ends with no pending exception, exactly one record on the script's logger iff
   the user code raised, the serving loop alive, nothing escaped *)
Theorem C18_contained_site : forall sub e o, run_site all_off sub e o = clean_result o.
Proof. exact site_contained. Qed.
Print Assumptions C18_contained_site.

(* today's code (all deviations on): the same for every exception that is an Exception, at every entry point except the
   default subsystem's trigger function (D180) *)
Theorem C18_contained_today : forall sub e o,
  o <> ORaise KBase -> (sub, e) <> (Dm, ETrigFunc) -> run_site as_is sub e o = clean_result o.
Proof. exact site_contained_today. Qed.
Print Assumptions C18_contained_today.

(* whatever the switches: an occurrence at one entry kind leaves the serving state of every other one untouched *)
Theorem C18_others_undisturbed : forall dv sub m oc e',
  (match oc with OUser e _ => e <> e' | OCallbacks _ => True | OReload => False | OLate _ _ => False end) ->
  fst (occ_step dv sub m oc) e' = m e'.
Proof. exact others_undisturbed. Qed.
Print Assumptions C18_others_undisturbed.

(* done-callbacks: all run, one record per raising callback, nothing escapes - for every list of outcomes *)
Theorem C18_callbacks_all_run : forall outs,
  run_callbacks all_off outs = mkCb (map (fun _ => true) outs) (map (fun _ => LScript) (filter raises outs)) SkNone.
Proof. exact callbacks_all_off. Qed.
Print Assumptions C18_callbacks_all_run.

(* (3) script load, every list of files with every outcome: a failing file is reported once and stays unloaded, every
   other file loads, nothing reaches Home Assistant *)
Theorem C18_load_isolated : forall files, load_ok files (load_scripts all_off files) = true.
Proof. exact load_isolated. Qed.
Print Assumptions C18_load_isolated.

Theorem C18_load_isolated_today : forall files,
  Forall (fun o => o <> ORaise KBase) files -> load_ok files (load_scripts as_is files) = true.
Proof. exact load_isolated_today. Qed.
Print Assumptions C18_load_isolated_today.

Theorem C18_load_isolated_today_instance : Forall (fun o => o <> ORaise KBase) [ORet; ORaise KExc; ORet].
Proof. exact today_instance. Qed.
Print Assumptions C18_load_isolated_today_instance.

(* the deviations of today's code; [today_classes] is the table of except classes the source had when the findings were
   recorded (all Exception, none around the default subsystem's trigger call) - a fixed table, so that a repair of the source
   cannot break these statements; the theorems above use the table re-read from the source on every run *)
Theorem C18_contained_refuted_D181 :
  let h := [OUser EExprEvent (ORaise KBase); OUser EExprEvent ORet] in
  history_ok h (snd (run_history_c today_classes only_base Legacy all_alive h)) = false /\
  map ob_served (snd (run_history_c today_classes only_base Legacy all_alive h)) = [true; false].
Proof. exact refuted_D181. Qed.
Print Assumptions C18_contained_refuted_D181.

Theorem C18_contained_refuted_D181_service : forall sub, o_sink (run_site_c today_classes only_base sub EService (ORaise KBase)) = SkHA.
Proof. exact refuted_D181_service. Qed.
Print Assumptions C18_contained_refuted_D181_service.

Theorem C18_contained_refuted_D180 : o_logs (run_site_c today_classes only_nowrap Dm ETrigFunc (ORaise KExc)) = [LOther].
Proof. exact refuted_D180. Qed.
Print Assumptions C18_contained_refuted_D180.

Theorem C18_contained_refuted_D22 : cb_ran (run_callbacks_c today_classes only_break [ORaise KExc; ORet]) = [true; false].
Proof. exact refuted_D22. Qed.
Print Assumptions C18_contained_refuted_D22.

Theorem C18_load_refuted_D188 :
  l_sink (load_scripts_c today_classes only_base [ORet; ORaise KBase; ORet]) = SkHA /\
  l_loaded (load_scripts_c today_classes only_base [ORet; ORaise KBase; ORet]) = [true; false; false].
Proof. exact refuted_D181_load. Qed.
Print Assumptions C18_load_refuted_D188.

(* the source still has the shape the attribution model mirrors (replace rule on filename and name, cause and context) *)
Theorem C18_formatter_shape : fmt_replace_on_filename = true /\ fmt_replace_on_name = true
  /\ fmt_chains_cause = true /\ fmt_chains_context = true.
Proof. exact formatter_shape. Qed.
Print Assumptions C18_formatter_shape.
End Containment.
