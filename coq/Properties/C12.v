(* Properties/C12.v — property theorems only; every proof is [exact <lemma>] (lemmas in Proofs/).

   C12: "A @service exists exactly while declared and calls the current definition".
   Model: Life/Services.v (life cycle), Life/ServiceCalls.v (outgoing calls); constants of service_register /
   service_remove and the control-keyword tables are regenerated from the source into Gen/ServiceConsts.v on every run.
   [all_off] is the Model with every deviation switch off (conformant behaviour); the switches D21, D23, D26, D120, D121,
   D122, D123 are what the unchanged code does today — each is refuted below on the witness the check replays. *)
From PV Require Import Common.Util Gen.ServiceConsts Life.Services Life.ServicesSpec Life.ServiceCalls Life.ServicesCheck
  Proofs.LifeServices Proofs.LifeServiceCalls Proofs.LifeServicesRefuted Proofs.LifeServicesRefine.

(* After ANY sequence of operations (start-up, exec of def/redefine/del statements in a live context, reload of one file,
   unload, reload of everything; any number of contexts, function names, service names, aliases, duplicates), in either
   subsystem: a name is registered in HA iff a live function holds it; the count equals the number of live holdings;
   every holding is a declared name of a function that is bound, started and in a loaded context; the owner table names
   the holders' context.  ("once any definition, redefinition, deletion or reload has completed ... no undeclared one
   remains"; with C12_define_effective: "no declared service is missing".) *)
Theorem C12_registry_invariant : forall (legacy : bool) (ops : list op),
  Registry_ok (run_ops all_off legacy ops init_st).
Proof. exact registry_invariant. Qed.
Print Assumptions C12_registry_invariant.

(* A definition executed in a loaded context registers exactly the declared names that no other context owns at that
   moment (the new function holds them afterwards), and leaves names owned by another context completely untouched:
   handler, owner and count unchanged. *)
Theorem C12_define_effective : forall (legacy : bool) (ops : list op) (c : cid) (f : fid) (decl : list key) (d : srd),
  let s := run_ops all_off legacy ops init_st in
  loaded s c = true ->
  let s' := run_op all_off legacy s (OExec c [SDef f decl d]) in
  (exists r, In r (s_funcs s') /\ f_gen r = s_next s /\ f_ctx r = c /\ f_name r = f /\ f_decl r = nodupN decl /\ f_bound r = true /\
             forall k, memN k (f_held r) = memN k decl && okf s c k) /\
  (forall k, okf s c k = false -> s_reg s' k = s_reg s k /\ s_owner s' k = s_owner s k /\ s_cnt s' k = s_cnt s k).
Proof. exact define_effective. Qed.
Print Assumptions C12_define_effective.

(* In every reachable state all holders of a name are in one context, and the function HA calls for the name is a live
   holder in the owning context: a second context never takes over a name another context owns. *)
Theorem C12_no_takeover : forall (legacy : bool) (ops : list op), let s := run_ops all_off legacy ops init_st in
  (forall k r1 r2, In r1 (s_funcs s) -> In r2 (s_funcs s) -> memN k (f_held r1) = true -> memN k (f_held r2) = true ->
                   f_ctx r1 = f_ctx r2) /\
  (forall k g m, s_reg s k = Some (g, m) ->
     exists r, In r (s_funcs s) /\ f_gen r = g /\ memN k (f_held r) = true /\ s_owner s k = Some (f_ctx r)).
Proof. exact no_takeover_static. Qed.
Print Assumptions C12_no_takeover.

(* Calling a service runs the most recent live definition holding the name, with data + trigger_type='service', and the
   returned value is that definition's result when a response was requested and accepted. *)
Theorem C12_calls_current : forall (legacy : bool) (ops : list op) (k : key) (data : kwargs) (resp : bool) g kw ret,
  let s := run_ops all_off legacy ops init_st in
  model_call s k data resp = OcRun g kw ret ->
  (exists r, In r (s_funcs s) /\ f_gen r = g /\ f_bound r = true /\ memN k (f_held r) = true /\ memN k (f_decl r) = true /\
             forall r', In r' (s_funcs s) -> memN k (f_held r') = true -> (f_gen r' <= g)%N) /\
  kw = call_kwargs data /\ ret = (if resp then Some g else None).
Proof. exact calls_current. Qed.
Print Assumptions C12_calls_current.

(* Outgoing calls: for every keyword set (distinct keywords), every call site, caller context, target response mode and
   positional-argument count, the data delivered to the target is exactly the given keywords minus the control keywords
   recognised by the site's table (regenerated from the source); the only other outcomes are HA's own validation error and
   the TypeError for positional arguments the call form does not take. *)
Theorem C12_outgoing_exact : forall s task_ctx target honly nargs nparams kws,
  NoDup (map kw_key kws) ->
  match outgoing all_off s task_ctx target honly nargs nparams kws with
  | ODelivered d _ => d = expected_data s nargs nparams kws
  | OTypeError => args_misuse s nargs nparams = true
  | OValidation => True
  | OOther => False
  end.
Proof. exact outgoing_exact. Qed.
Print Assumptions C12_outgoing_exact.

Theorem C12_outgoing_controls : forall s task_ctx kws x,
  NoDup (map kw_key kws) -> In x kws -> recognised s x = true -> In (HGiven x) (snd (split s task_ctx kws)).
Proof. exact outgoing_controls. Qed.
Print Assumptions C12_outgoing_controls.


(* ---- refinement: the conformant Model and the reference semantics (ServicesSpec.v) make the same observations ----
   Full statement aimed at:
     forall legacy ops k, LifeServicesRefine.handler_gen (run_ops all_off legacy ops init_st) k
                          = LifeServicesRefine.ref_gen (fold_left ref_op ops init_rst) k
   i.e. after ANY operation sequence (define / redefine / delete / run-time definitions / reload / unload / reload of everything,
   any number of contexts, aliases, duplicates, garbage-collection points) every name is registered in the Model iff the Spec
   requires it and the same function generation answers (hence the same returned value).
   Proved: for the legacy subsystem in full (C12_refines_legacy); for the default subsystem under [ops_ok]: every operation
   except a reload of everything / start-up that leaves MORE THAN ONE script file (C12_refines_partial).  Missing: several
   contexts waiting for ctx.start() at the same time (pyscript.reload "*" with >= 2 files) - needs the commutation
   "start of context i commutes with loading context j > i"; the invariant C12_registry_invariant covers that case. *)
Theorem C12_refines_legacy : forall (ops : list op) (k : key),
  LifeServicesRefine.handler_gen (run_ops all_off true ops init_st) k = LifeServicesRefine.ref_gen (fold_left ref_op ops init_rst) k.
Proof. exact refines_observations_legacy. Qed.
Print Assumptions C12_refines_legacy.

Theorem C12_refines_partial : forall (legacy : bool) (ops : list op), ops_ok legacy ops [] ->
  forall k, LifeServicesRefine.handler_gen (run_ops all_off legacy ops init_st) k
            = LifeServicesRefine.ref_gen (fold_left ref_op ops init_rst) k.
Proof. exact refines_observations. Qed.
Print Assumptions C12_refines_partial.

(* ---- the deviations of the unchanged code: each switch alone makes the Model leave the reference semantics ---- *)
Theorem C12_refuted_D21 : refuted 21.   Proof. exact refuted_D21. Qed.
Print Assumptions C12_refuted_D21.
Theorem C12_refuted_D23 : refuted 23.   Proof. exact refuted_D23. Qed.
Print Assumptions C12_refuted_D23.
Theorem C12_refuted_D26 : refuted 26.   Proof. exact refuted_D26. Qed.
Print Assumptions C12_refuted_D26.
Theorem C12_refuted_D120 : refuted 120. Proof. exact refuted_D120. Qed.
Print Assumptions C12_refuted_D120.
Theorem C12_refuted_D121 : refuted 121. Proof. exact refuted_D121. Qed.
Print Assumptions C12_refuted_D121.
Theorem C12_refuted_D122 : refuted 122. Proof. exact refuted_D122. Qed.
Print Assumptions C12_refuted_D122.
Theorem C12_refuted_D124 : refuted 124. Proof. exact refuted_D124. Qed.
Print Assumptions C12_refuted_D124.
Theorem C12_refuted_D125 : refuted 125. Proof. exact refuted_D125. Qed.
Print Assumptions C12_refuted_D125.
Theorem C12_refuted_D127 : refuted 127. Proof. exact refuted_D127. Qed.
Print Assumptions C12_refuted_D127.
Theorem C12_refuted_D126 :
  LifeServicesRefuted.handler_gen (mid_final (cfg_mid true)) 2%N = None /\
  LifeServicesRefuted.handler_gen (mid_final (cfg_mid false)) 2%N = Some 1%N.
Proof. exact refuted_D126. Qed.
Print Assumptions C12_refuted_D126.
Theorem C12_refuted_D123 : exists target data h,
  (exists x, In (HGiven x) h /\ kw_key x = 4%N) /\
  ha_call (only 123) target data h = OTypeError /\ ha_call all_off target data h = ODelivered data false.
Proof. exact refuted_D123. Qed.
Print Assumptions C12_refuted_D123.
