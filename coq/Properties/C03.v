(* Properties/C03.v — property theorems only; every proof is [exact <lemma>] (lemmas in Proofs/InterpBind.v,
   Proofs/InterpScope.v).  C03 is claimed as *partial*: two cores are proved about Gallina models tied to eval.py on
   every run (argument binding; static local/global/nonlocal analysis); closures at run time, classes, bound methods,
   decorators, recursion and @pyscript_compile are covered only by the differential stream "funcs" (search, no proof). *)
From Coq Require Import String.
From PV Require Import Common.Util Gen.BindConsts.
From PV Require Import Interp.Bind Interp.BindCheck Proofs.InterpBind.
From PV Require Import Interp.Scope Interp.ScopeCheck Proofs.InterpScope.
From PV Require Import Interp.Closure Interp.ClosureCheck Proofs.InterpClosure.

(* ---------------------------------------------------------------------------------------------------------------
   Core 1 — argument binding.
   For every signature CPython accepts (distinct parameter names; any number of positional-only, normal and keyword-only
   parameters, any number of defaults, with or without *args / **kwargs) and every call (any number of positional and
   keyword arguments, any * and ** unpacking): EvalFunc.call with D11 and D30 repaired binds exactly what the Language
   Reference (§6.3.4, PEP 570) prescribes — same locals, or TypeError for TypeError — except that keyword arguments that
   name no parameter of a function without **kwargs and are spelled like one of pyscript's reserved trigger keywords
   (the set regenerated from eval.py on every run) are dropped first.  This is the property's only intended deviation. *)
Theorem C03_bind : forall cfg s items,
  Bind.all_off cfg -> sig_wf_b s = true ->
  call_ps cfg TRIGGER_KWARGS s items = call_spec TRIGGER_KWARGS s items.
Proof. exact (fun cfg s items => call_equiv cfg TRIGGER_KWARGS s items). Qed.
Print Assumptions C03_bind.

(* from the `def` statement: a parameter has a default iff a default expression is written, whatever it evaluates to
   (EvalFunc.eval_defaults derives the keyword-only flag from the AST node, never from the value) *)
Theorem C03_bind_def : forall cfg f items,
  Bind.all_off cfg -> sig_wf_b (py_sig_of_def f) = true ->
  call_ps cfg TRIGGER_KWARGS (ps_sig_of_def f) items = call_spec TRIGGER_KWARGS (py_sig_of_def f) items.
Proof. exact (fun cfg f items => call_equiv_def cfg TRIGGER_KWARGS f items). Qed.
Print Assumptions C03_bind_def.

(* the same after unpacking: positional values [args] and a keyword dictionary [kw] (distinct keys) *)
Theorem C03_bind_unpacked : forall cfg s args kw,
  Bind.all_off cfg -> sig_wf s -> NoDup (keys kw) ->
  bind_ps cfg TRIGGER_KWARGS s args kw = bind_py s args (drop_trigger_kwargs TRIGGER_KWARGS s kw).
Proof. exact (fun cfg s args kw => bind_equiv cfg TRIGGER_KWARGS s args kw). Qed.
Print Assumptions C03_bind_unpacked.

(* today's code: def g(a=0, /, **kw); g(a=1) raises TypeError (witness replayed on the real code on every run) *)
Theorem C03_refuted_D11 : exists trig s items,
  sig_wf_b s = true /\ call_ps only_D11 trig s items <> call_spec trig s items.
Proof. exact bind_refuted_D11. Qed.
Print Assumptions C03_refuted_D11.

(* today's code: f(a=1, **{'a': 2}) binds a=2 instead of raising TypeError *)
Theorem C03_refuted_D30 : exists trig s items,
  sig_wf_b s = true /\ call_ps only_D30 trig s items <> call_spec trig s items.
Proof. exact bind_refuted_D30. Qed.
Print Assumptions C03_refuted_D30.

(* whatever the conformant Model reproduces of the implementation satisfies the Spec the correspondence evaluates *)
Theorem C03_bind_model_implies_spec : forall c, bcase_model_ok Bind.dev_off c = true -> bcase_spec_ok c = true.
Proof. exact bcase_model_implies_spec. Qed.
Print Assumptions C03_bind_model_implies_spec.

(* ---------------------------------------------------------------------------------------------------------------
   Core 2 — static scope analysis.
   For every function body (a list of `ast` statement trees of any size and nesting depth, [wf_top]: shaped as
   ast.parse shapes them) built from the binder forms both sides implement ([supported]: everything except match,
   except*, type statements, list-display targets and `del (a, b)`), with D12, D31-D34 repaired: get_names_set +
   resolve_nonlocals classify a name as local exactly when CPython's symbol table does (parameter or bound by
   assignment, augmented/annotated assignment, for, with, import, def/class, except-as, del, or := anywhere outside a
   nested scope — and not declared global or nonlocal). *)
Theorem C03_locals : forall cfg params body x,
  s_all_off cfg -> forallb wf_top body = true -> forallb supported body = true ->
  ps_is_local cfg params body x = py_is_local params body x.
Proof. exact locals_equiv. Qed.
Print Assumptions C03_locals.

(* the statement is false of today's code: one witness per missing/extra binder, each replayed on the real code *)
Theorem C03_locals_refuted_D12 : refutes (sw true false false false false).      (* x: int = 1 *)
Proof. exact locals_refuted_D12. Qed.
Print Assumptions C03_locals_refuted_D12.
Theorem C03_locals_refuted_D31 : refutes (sw false true false false false).      (* q = [x for x in it] *)
Proof. exact locals_refuted_D31. Qed.
Print Assumptions C03_locals_refuted_D31.
Theorem C03_locals_refuted_D32 : refutes (sw false false true false false).      (* import x *)
Proof. exact locals_refuted_D32. Qed.
Print Assumptions C03_locals_refuted_D32.
Theorem C03_locals_refuted_D33 : refutes (sw false false false true false).      (* q = lambda: (x := 1) *)
Proof. exact locals_refuted_D33. Qed.
Print Assumptions C03_locals_refuted_D33.
Theorem C03_locals_refuted_D34 : refutes (sw false false false false true).      (* def q(a=(x := 1)): ... *)
Proof. exact locals_refuted_D34. Qed.
Print Assumptions C03_locals_refuted_D34.

Theorem C03_scope_model_implies_spec : forall c,
  scase_model_ok sdev_off c = true -> sc_same c = true -> scase_spec_ok c = true.
Proof. exact scase_model_implies_spec. Qed.
Print Assumptions C03_scope_model_implies_spec.

(* ---------------------------------------------------------------------------------------------------------------
   Core 3 — closures at run time (partial).
   Mini language of nested definitions (Interp/Closure.v): assignments, reads, +, tr(), conditional expressions, calls
   (also of the builtins abs/max/min: the fourth scope of LEGB), return, def with global/nonlocal header, and compound
   statements whose body runs once in place (if / while / for / try-finally / except handler / try-else), through which the
   static pre-pass (get_names_set, check_for_closure) has to look.  One evaluator skeleton, two scoping policies: pyscript's layout
   (resolve_nonlocals searching the run-time symbol-table stack for EvalLocalVar cells at `def` time, EvalFunc.call sharing
   captured cells and creating own cells at call time, ast_name / recurse_assign lookup order) against flat lexical closures
   with static name classification.

   FULL STATEMENT (not proved): for every program of the fragment — declarations first, every variable assigned before
   the first nested def of its function, names of module globals never used as function locals, nonlocal names bound in the
   immediately enclosing function or mentioned by it, no enclosing variable named like a parameter of a nested function —
   and all fuel: the same trace of tracer calls, the same result / exception class, the same final globals as Python.
   PROVED: the same conclusion for every program (no syntactic restriction) and all fuel whose *strict* pyscript run does not
   stop with an anomaly; the strict run stops exactly at the events where the layouts part: a cell found only further up
   the call stack (D300), a captured cell still unassigned when the inner function is called (D301), var_names differing
   from the free variables on a visible name (D38b, and the harmless extra capture of a variable named like a nested
   function's parameter), a name declared global that only the builtins define (D302), an unassigned plain local named like a builtin (D303), the two static analyses or internal consistency checks failing (never observed).
   MISSING for the full statement: (1) that the syntactic fragment implies "no anomaly" (a store invariant: every cell
   reachable from a closure is assigned when the closure is called); (2) that the strict run equals the loose run, which
   is what mirrors the code when no event occurs; (3) an equivalence up to unused captured cells.  (2) is evaluated on
   every generated case by the correspondence (stream closure), (1) holds on all generated fragment programs.  The
   evaluation skeleton (order of evaluation, call protocol) is shared by both sides here; it is C01's subject. *)
Theorem C03_closure_equiv_partial : forall cfg fuel prog,
  (forall k, ps_run cfg true false fuel prog <> Anomaly k) ->
  py_run fuel prog = ps_run cfg true false fuel prog.
Proof. exact closure_equiv. Qed.
Print Assumptions C03_closure_equiv_partial.

Theorem C03_closure_observed_partial : forall cfg fuel prog,
  (forall k, ps_run cfg true false fuel prog <> Anomaly k) ->
  observe (py_run fuel prog) = observe (ps_run cfg true false fuel prog).
Proof. exact closure_equiv_observed. Qed.
Print Assumptions C03_closure_observed_partial.

(* the static pass both policies start from is the one of C03_locals *)
Theorem C03_closure_locals_bridge : forall cfg d,
  s_all_off cfg -> forallb wf_top (nodes_of d) = true -> forallb supported (nodes_of d) = true ->
  ps_locals_list cfg d = py_locals_list d.
Proof. exact locals_bridge. Qed.
Print Assumptions C03_closure_locals_bridge.

(* today's code parts from Python at exactly those events (loose run vs reference; witnesses replayed on the real code) *)
Theorem C03_closure_refuted_D300 :
  observe (ps_run sdev_off false false 50 prog_D300) <> observe (py_run 50 prog_D300) /\ ps_run sdev_off true false 50 prog_D300 = Anomaly 1.
Proof. exact closure_refuted_D300. Qed.
Print Assumptions C03_closure_refuted_D300.
Theorem C03_closure_refuted_D301 :
  observe (ps_run sdev_off false false 50 prog_D301) <> observe (py_run 50 prog_D301) /\ ps_run sdev_off true false 50 prog_D301 = Anomaly 2.
Proof. exact closure_refuted_D301. Qed.
Print Assumptions C03_closure_refuted_D301.

Theorem C03_closure_refuted_D302 :
  observe (ps_run sdev_off false false 50 prog_D302) <> observe (py_run 50 prog_D302) /\ ps_run sdev_off true false 50 prog_D302 = Anomaly 4.
Proof. exact closure_refuted_D302. Qed.
Print Assumptions C03_closure_refuted_D302.

Theorem C03_closure_refuted_D303 :
  observe (ps_run sdev_off false false 50 prog_D303) <> observe (py_run 50 prog_D303) /\ ps_run sdev_off true false 50 prog_D303 = Anomaly 5.
Proof. exact closure_refuted_D303. Qed.
Print Assumptions C03_closure_refuted_D303.

(* ---------------------------------------------------------------------------------------------------------------
   NOT modelled: defaults/decorators evaluated once, user decorators, classes and bound methods, native compilation
   (@pyscript_compile, lambda), calls across files: stream "funcs" compares the real AstEval with CPython on generated
   programs (search only); it refutes "like Python" there already: findings D13, D35-D39 (notes/C03.md). *)
