(* Properties/C16.v — property theorems only; every proof is [exact <lemma>] (lemmas in Proofs/StateVarRefine.v). *)
From PV Require Import Common.Util Gen.StateConsts StateVar.StateModel StateVar.Resolve StateVar.Spec StateVar.StateCheck
  Proofs.StateVarRefine.

(* C16, main statement.  For every host (Python's str() / == / hasattr on plain values) whose str() is idempotent and never
   None, every table of pyscript function names, every sequence of script operations (read / capture / assign /
   attribute-assign / state.set with every argument combination / state.setattr / del / state.delete / state.exist /
   state.getattr / state.names / re-reads of captured snapshots, with arbitrary step-local Python variables) interleaved
   with external hass.states.async_set / async_remove / (entity-)service (un)registration / refreshes of the entity-service
   table (start-up, reload), started in any state whose stored
   values are strings: the Model of state.py + eval.py's dotted-name routing (all deviation switches off) produces the
   same list of outputs (values / exception types seen by the script) and the same final state (state machine incl. the
   last_changed / last_updated / last_reported stamps as logical step times, services, global Python objects, captured
   snapshots with their virtual fields) as the documented rules [run_spec].  [now] is the logical time of the first step. *)
Theorem C16_refines : forall (H : host) (funcs : list ename),
  (forall v, h_str H (h_str H v) = h_str H v) -> (forall v, h_str H v <> v_none) ->
  forall (steps : list step) (now : N) (st : mstate), wf_state H st ->
  run_model {| cf_dev := all_off; cf_host := H; cf_funcs := funcs |} now st steps
  = run_spec H funcs now st steps.
Proof. exact run_refines. Qed.
Print Assumptions C16_refines.

(* the hypotheses are satisfiable: a concrete host table and a non-trivial state; and the run is not trivial *)
Theorem C16_refines_instance :
  (forall v, h_str ex_host (h_str ex_host v) = h_str ex_host v) /\ (forall v, h_str ex_host v <> v_none) /\
  wf_state ex_host ex_state.
Proof. exact host_table_ok. Qed.
Print Assumptions C16_refines_instance.

(* the str() table the harness actually ships satisfies the two host hypotheses whenever [strtab_ok] evaluates to true
   (every correspondence shard contains [strtab_ok <shipped table> = true] proved by eq_refl) *)
Theorem C16_host_tables : forall t et vt vf eqt sa pa, strtab_ok t = true ->
  let H := mk_host t eqt et vt vf sa pa in
  (forall v, h_str H (h_str H v) = h_str H v) /\ (forall v, h_str H v <> v_none).
Proof. exact strtab_ok_hyps. Qed.
Print Assumptions C16_host_tables.

(* A captured snapshot never changes afterwards: it is exactly the entity's value + attributes + virtual fields at the
   time of capture, and after ANY later sequence of operations and external changes (under any deviation switches) that
   does not reassign the variable, reading the variable returns exactly that snapshot. *)
Theorem C16_snapshot_immutable : forall cf now st d n j s later,
  ha_get (ms_ha st) (d, n) = Some s ->
  forallb (fun x => negb (writes_slot j x)) later = true ->
  let snap := stateval_new (cf_host cf) (d, n) s in
  let st1 := snd (model_step cf now st (SScript [] (OGet [d; n] (Some j)))) in
  let st2 := snd (run_model cf (N.succ now) st1 later) in
  forall now', fst (model_step cf now st (SScript [] (OGet [d; n] (Some j)))) = Some (Ok snap) /\
  fst (model_step cf now' st2 (SScript [] (OReadSlot j))) = Some (Ok snap).
Proof. exact snapshot_immutable. Qed.
Print Assumptions C16_snapshot_immutable.

(* Priority: local / global Python variables > pyscript functions and existing services > state names. *)
Theorem C16_priority : forall cf locals st d n,
  (forall o, is_pyvar locals st d o ->
     aeval_dn cf locals st (DAttr (DHead d) n) = of_res (obj_attr o n) /\
     forall now val st', assign_dn cf locals st now (DAttr (DHead d) n) val = Ok st' ->
                     ms_ha st' = ms_ha st /\ ms_svcs st' = ms_svcs st) /\
  (no_pyvar locals st d -> mem_ename (d, n) (cf_funcs cf) || mem_ename (d, n) (ms_svcs st) = true ->
     aeval_dn cf locals st (DAttr (DHead d) n) = EV PFunc) /\
  (no_pyvar locals st d -> mem_ename (d, n) (cf_funcs cf) || mem_ename (d, n) (ms_svcs st) = false ->
     aeval_dn cf locals st (DAttr (DHead d) n) = of_res (state_get (cf_host cf) (ms_svcargs st) (ms_ha st) [d; n])).
Proof. exact priority. Qed.
Print Assumptions C16_priority.

Theorem C16_priority_instance :
  is_pyvar [] ex_state 3%N [(10, 15)]%N /\ no_pyvar [] ex_state 1%N /\
  aeval_dn (ex_cfg all_off) [] ex_state (DAttr (DHead 3%N) 10%N) = EV (PVal 15%N) /\
  aeval_dn (ex_cfg all_off) [] ex_state (DAttr (DHead 1%N) 14%N) = EV PFunc /\
  aeval_dn (ex_cfg all_off) [] ex_state (DAttr (DHead 4%N) 15%N) = EV PFunc.
Proof. exact priority_instance. Qed.
Print Assumptions C16_priority_instance.

(* with D7 repaired the priority also holds for del *)
Theorem C16_priority_del : forall cf locals st now d n o st',
  d_del_ignores_pyvar (cf_dev cf) = false -> is_pyvar locals st d o ->
  delete_dn cf locals st now (DAttr (DHead d) n) = Ok st' -> ms_ha st' = ms_ha st /\ ms_svcs st' = ms_svcs st.
Proof. exact priority_del. Qed.
Print Assumptions C16_priority_del.

(* the three open findings: with the switch on (= today's code) the refinement fails on the witness *)
Theorem C16_refuted_D160 :
  exists steps, wf_state ex_host ex_state /\
    run_model (ex_cfg (only 160)) 4 ex_state steps <> run_spec ex_host ex_funcs 4 ex_state steps.
Proof. exact refuted_D160. Qed.
Print Assumptions C16_refuted_D160.

Theorem C16_refuted_D161 :
  exists steps, wf_state ex_host ex_state /\
    run_model (ex_cfg (only 161)) 4 ex_state steps <> run_spec ex_host ex_funcs 4 ex_state steps.
Proof. exact refuted_D161. Qed.
Print Assumptions C16_refuted_D161.

Theorem C16_refuted_D7 :
  exists steps, wf_state ex_host ex_state /\
    run_model (ex_cfg (only 7)) 4 ex_state steps <> run_spec ex_host ex_funcs 4 ex_state steps.
Proof. exact refuted_D7. Qed.
Print Assumptions C16_refuted_D7.
