(* Properties/C09.v — property theorems only; every proof is [exact <lemma>] (lemmas in Proofs/LifeLedger*.v).
   C09: triggers live exactly as long as their function and leave nothing behind.
   Model: Life/Ledger.v (resource ledger + life-cycle operations); [all_off cfg] = the conformant code (every
   deviation switch off); the switches that are on in today's code are refuted below on witnesses. *)
From PV Require Import Common.Util Gen.LedgerConsts Life.Ledger Life.LedgerCheck.
From PV Require Import Proofs.LifeLedger Proofs.LifeLedgerSys Proofs.LifeLedgerRuns Proofs.LifeLedgerOnce.
Local Open Scope N_scope.

(* Scope added after the seeded changes C09-1 and C09-3: a service name may be declared by several functions and
   contexts (reference count, refusal of a registration from another context, handler reached by a call), and
   DecoratorManager.start of the new subsystem is NOT atomic: it starts the decorators in front of @service, registers
   the service, is suspended in `await State.get_service_params()` ([w_starting]) and continues with [OResume] - every
   operation (stop, reload, unload, occurrences) may come in between.  All theorems below quantify over these
   interleavings. *)

(* "Deactivation releases every subscription, bus listener, timer and service registration it created":
   for every ledger, every trigger (any set of watched names, in ANY iteration order - the order is the list order of
   [u_state]), starting it (task creation + subscription prologue) and stopping it (TrigInfo.stop + the reaper's cancel
   step / Decorator.stop) gives back the very same ledger.  Hypotheses: the trigger's queue/task/listener objects are
   new (their id occurs nowhere in the ledger) and the ledger is well formed (the shared legacy bus listener of an event
   type exists iff Event.notify has a queue for it; nothing is waiting for the reaper). *)
Theorem C09_stop_start_inverse : forall cfg, all_off cfg -> forall (L : ledger) (u : unit_),
  id_fresh (u_id u) L ->
  (ledger_wf L -> leg_cycle cfg u L = L) /\ dec_cycle cfg u L = L.
Proof. exact (fun cfg AO L u FR => conj (fun WF => leg_cycle_inverse cfg u L AO WF FR) (dec_cycle_inverse cfg u L AO FR)). Qed.
Print Assumptions C09_stop_start_inverse.

(* the hypotheses are inhabited by a non-trivial ledger, and on it start really changes the ledger *)
Theorem C09_stop_start_inverse_example :
  (id_fresh 5 ex_ledger /\ ledger_wf ex_ledger) /\
  leg_cycle cfg_off (w_unit [w_ab; w_ab_old; w_cd]) ex_ledger = ex_ledger /\
  fst (leg_prologue (w_unit [w_ab; w_ab_old; w_cd]) (leg_start (w_unit [w_ab; w_ab_old; w_cd]) ex_ledger)) <> ex_ledger.
Proof. exact (conj ex_inverse_hyps ex_inverse_instance). Qed.
Print Assumptions C09_stop_start_inverse_example.

(* "after everything is unloaded Home Assistant is back to its baseline": for EVERY sequence of operations (define /
   last reference dropped / context start, stop, delete / scheduler steps / occurrences / unload) from the initial world,
   unloading everything leaves the empty ledger. *)
Theorem C09_unload_baseline : forall cfg, all_off cfg -> forall ops : list op,
  w_led (unload cfg (run_ops cfg ops world0)) = ledger0.
Proof. exact unload_baseline. Qed.
Print Assumptions C09_unload_baseline.

(* "after which no occurrence runs the old function": in every reachable world, once generation g is stopped (not in
   the active set) and the reaper has processed its tasks ([Dead]), no later operation sequence - occurrences of any
   kind, definitions, reloads, unload - appends a run of g to the log. *)
Theorem C09_no_run_after_stop : forall cfg, all_off cfg -> forall (ops0 ops : list op) (g : N),
  let W := run_ops cfg ops0 world0 in
  Dead g W ->
  exists rs, w_log (run_ops cfg ops W) = w_log W ++ rs /\ forall r, In r rs -> r_gen r <> g.
Proof. exact no_run_after_stop_reachable. Qed.
Print Assumptions C09_no_run_after_stop.

(* [Dead] is reached by "stop, then let the event loop settle", and is inhabited by a reachable world in which the dead
   generation did run before and another generation still runs afterwards *)
Theorem C09_dead_after_settle : forall (W : world) (g : N), ~ In g (w_active W) -> g < w_next W -> Dead g (settle W).
Proof. exact dead_after_settle. Qed.
Print Assumptions C09_dead_after_settle.
Theorem C09_no_run_after_stop_example : Dead 1 (run_ops cfg_off ex_ops0 world0) /\
  map r_gen (w_log (run_ops cfg_off (ex_ops0 ++ [OState 1; OEvent 1]) world0)) = [1; 3; 1; 3; 1; 3; 3].
Proof. exact ex_dead. Qed.
Print Assumptions C09_no_run_after_stop_example.

(* "startup/shutdown time triggers have run exactly once per definition/removal": in every reachable world, for every
   trigger unit: at most one startup run and at most one shutdown run are in the log; a started unit with the startup
   flag (and no dispatch fault) has exactly one startup run; no shutdown run while its function is active; a stopped legacy trigger with the
   shutdown flag has exactly one. *)
Theorem C09_startup_shutdown_once : forall cfg, all_off cfg -> forall (ops : list op),
  let W := run_ops cfg ops world0 in
  forall f u, In f (w_funcs W) -> In u (f_units f) ->
    (count_run RStartup (u_id u) (w_log W) <= 1)%nat /\ (count_run RShutdown (u_id u) (w_log W) <= 1)%nat /\
    (In (u_id u) (w_running W) -> u_startup u = true -> u_crash u = false -> count_run RStartup (u_id u) (w_log W) = 1%nat) /\
    (In (f_gen f) (w_active W) -> count_run RShutdown (u_id u) (w_log W) = 0%nat) /\
    (f_new f = false -> ~ In (f_gen f) (w_active W) -> u_shutdown u = true -> count_run RShutdown (u_id u) (w_log W) = 1%nat).
Proof. exact startup_shutdown_once. Qed.
Print Assumptions C09_startup_shutdown_once.

(* ---- today's code: the deviations, each on a witness (known findings D16, D90, D91) ----------------------------- *)
(* D16, the three-name witness {a.b, a.b.old, c.d}: with State.notify_del's early `return`, stop(start(L)) <> L when
   c.d is iterated last, for the legacy trigger and for the new @state_trigger decorator alike; for other iteration
   orders of the same set nothing leaks (hash-seed dependence). *)
Theorem C09_refuted_D16 :
  (leg_cycle cfg_only16 (w_unit [w_ab; w_ab_old; w_cd]) ledger0 <> ledger0 /\
   dec_cycle cfg_only16 (w_unit [w_ab; w_ab_old; w_cd]) ledger0 <> ledger0) /\
  (leg_cycle cfg_only16 (w_unit [w_cd; w_ab; w_ab_old]) ledger0 = ledger0 /\
   leg_cycle cfg_only16 (w_unit [w_ab; w_cd; w_ab_old]) ledger0 = ledger0) /\
  w_led (unload cfg_only16 (run_ops cfg_only16
     [OCtxAuto 0 false; ODefine 0 false (wit_spec [w_ab; w_ab_old; w_cd]); OCtxStart 0 []; OSettle; ODropped 1; OSettle] world0)) <> ledger0.
Proof. exact (conj refuted_D16_cycle (conj D16_order_dependent refuted_D16_baseline)). Qed.
Print Assumptions C09_refuted_D16.

(* D90 (new subsystem): a function redefined inside the cell/file that defined it is started anyway and runs *)
Theorem C09_refuted_D90 :
  existsb (fun r => N.eqb (r_gen r) 1 && N.eqb (rkind_code (r_kind r)) 0) (w_log (run_ops cfg_only90 ops_D90 world0)) = true /\
  existsb (fun r => N.eqb (r_gen r) 1 && N.eqb (rkind_code (r_kind r)) 0) (w_log (run_ops cfg_off ops_D90 world0)) = false.
Proof. exact refuted_D90. Qed.
Print Assumptions C09_refuted_D90.

(* D21: a service name shared by two live functions of one context: after the newer one is dropped a call still runs it *)
Theorem C09_refuted_D21 :
  map r_gen (w_log (run_ops cfg_only21 ops_D21 world0)) = [2] /\ map r_gen (w_log (run_ops cfg_off ops_D21 world0)) = [1].
Proof. exact refuted_D21. Qed.
Print Assumptions C09_refuted_D21.

(* the conformant model on the scenarios of the seeded changes: (C09-1) a registration refused for another context
   leaves the owner's count untouched, so stopping the owner's context removes the service and nothing runs any more,
   in both subsystems; (C09-3) a context stopped while start() is suspended behind the service registration: for every
   position of @service among the triggers the ledger is empty afterwards and later occurrences run nothing *)
Theorem C09_examples_refused_and_overtaken :
  (forall newsys, let W := run_ops cfg_off (ops_refused newsys) world0 in
     w_led W = ledger0 /\ svc_count W 7 = 0%nat /\
     filter (fun r => N.eqb (rkind_code (r_kind r)) 5) (w_log W) = [{| r_gen := 1; r_kind := RService; r_unit := 1 |}]) /\
  map (fun pos => let W := run_ops cfg_off (ops_overtake pos) world0 in
                  (ledger_eqb_empty (w_led W), map (fun r => rkind_code (r_kind r)) (w_log W))) [0%nat; 1%nat; 2%nat; 3%nat] =
  [(true, []); (true, []); (true, [1]); (true, [3; 1; 4])].
Proof. exact (conj ex_refused ex_overtake). Qed.
Print Assumptions C09_examples_refused_and_overtaken.

(* D92: a module imported inside a Jupyter cell is loaded with auto_start off and nobody starts its context: its
   functions run for nothing until the next pyscript.reload (both subsystems) *)
Theorem C09_refuted_D92 : forall newsys,
  map r_gen (w_log (run_ops cfg_only92 (ops_D92 newsys) world0)) = [] /\
  map r_gen (w_log (run_ops cfg_off (ops_D92 newsys) world0)) = [1; 1; 1].
Proof. exact refuted_D92. Qed.
Print Assumptions C09_refuted_D92.

(* D93 (new subsystem): a function defined in a started context whose startup dispatch raises is never finalised (the
   exception kept by the eagerly started, finished task pins the frames of its definition): dropping it stops nothing *)
Theorem C09_refuted_D93 :
  l_state (w_led (run_ops cfg_only93 ops_D93 world0)) = [(1, 2)] /\ w_led (run_ops cfg_off ops_D93 world0) = ledger0.
Proof. exact refuted_D93. Qed.
Print Assumptions C09_refuted_D93.

(* fault point "every dispatch of the function raises" (e.g. @time_active with an impossible date): the watchers die
   at the first occurrence, the function never runs through a trigger, stopping the context leaves the empty ledger *)
Theorem C09_example_dispatch_fault : forall newsys, let W := run_ops cfg_off (ops_crash newsys) world0 in
  w_led W = ledger0 /\ map (fun r => rkind_code (r_kind r)) (w_log W) = (if newsys then [5] else [5; 4]).
Proof. exact ex_crash. Qed.
Print Assumptions C09_example_dispatch_fault.

(* D91 (legacy): a trigger stopped before its task ran subscribes afterwards; the entries survive even unload *)
Theorem C09_refuted_D91 :
  w_led (unload cfg_only91 (run_ops cfg_only91 ops_D91 world0)) <> ledger0 /\
  w_led (unload cfg_off (run_ops cfg_off ops_D91 world0)) = ledger0.
Proof. exact refuted_D91. Qed.
Print Assumptions C09_refuted_D91.
