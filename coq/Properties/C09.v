(* Properties/C09.v — property theorems only; every proof is [exact <lemma>] (lemmas in Proofs/LifeLedger.v). *)
From PV Require Import Common.Util Gen.LedgerConsts Life.Ledger Life.LedgerCheck Proofs.LifeLedger.

Theorem C09_stub : forall cfg W, run_ops cfg [] W = W.
Proof. exact run_ops_nil. Qed.
Print Assumptions C09_stub.
