(* Properties/C02.v — property theorems only; every proof is [exact <lemma>] (lemmas in Proofs/InterpFlow.v). *)
From PV Require Import Common.Util Interp.Flow Interp.FlowCheck Proofs.InterpFlow.

(* C02: for every skeleton built from t(n), if, while/for (+else), break, continue, return, raise (class,
   raise-from, bare re-raise), try/except/else/finally (handler lists, named handlers), with (any number of
   managers, also managers written in the script), assert (with message), pass and nested function calls, including
   the async forms (async with / async for / async def), in any combination and depth, that Python's compiler
   accepts ([supported]: break/continue inside a loop of the same function); for every host oracle
   ([h]: what every condition, iterator, __enter__, __exit__ answers — with arbitrary state — and the subclass
   relation used by `except`); and for every fuel: pyscript's marker-passing evaluator with all deviation
   switches off produces the same event trace (tracer calls, condition / iterator evaluations, manager
   construction, __enter__ and __exit__ calls with the exception information they receive, handler-name
   probes, values returned through inner function boundaries — i.e. the same statements in the same order,
   finally blocks and exits exactly when Python runs them, with the same information and suppression effect)
   and ends with the same returned value or propagated exception (class and __cause__) as the reference. *)
Theorem C02_flow_equiv : forall (H : Type) (h : host H) (cfg : deviations) (body : list stmt),
  all_off cfg -> supported body = true ->
  forall (fuel : nat) (h0 : H), ps_exec h cfg fuel body h0 = py_exec h fuel body h0.
Proof. exact @flow_equiv. Qed.
Print Assumptions C02_flow_equiv.

(* The same at statement level, inside any context: whatever exception is being handled ([cur]), whatever the
   state, a supported statement evaluated by pyscript returns the marker / raises the exception that corresponds
   to the reference outcome, leaving the same state (trace, host, handler-name bindings). *)
Theorem C02_stmt_equiv : forall (H : Type) (h : host H) (fuel : nat) (cur : option exc) (inl : bool) (s : stmt) (st : state H),
  supp inl s = true -> cv (ps_stmt h no_dev fuel cur s st) = py_stmt h fuel cur s st.
Proof. exact @stmt_agree. Qed.
Print Assumptions C02_stmt_equiv.

(* break / continue never escape a statement that is outside every loop (this is what makes EvalFunc.call's
   `isinstance(val, EvalReturn)`-only test sound) *)
Theorem C02_no_escape : forall (H : Type) (h : host H) (fuel : nat) (cur : option exc) (s : stmt) (st : state H),
  supp false s = true -> is_jump (snd (py_stmt h fuel cur s st)) = false.
Proof. exact @py_stmt_safe. Qed.
Print Assumptions C02_no_escape.

(* hypotheses are inhabited: a skeleton using every construct, nested, is supported *)
Theorem C02_hypotheses_inhabited : supported ex_body = true /\ all_off no_dev.
Proof. exact (conj ex_supported ex_all_off). Qed.
Print Assumptions C02_hypotheses_inhabited.

(* The statement is false of today's code: with any single one of the five switches on (= the code as it is),
   a supported skeleton exists on which the evaluators differ.  The witnesses are the known findings. *)
Theorem C02_refuted_D8 : differs only_d8 w_d8_scripts [] w_d8_body.
Proof. exact refuted_D8. Qed.
Print Assumptions C02_refuted_D8.
Theorem C02_refuted_D9 : differs only_d9 [] w_d9_mgrs w_d9_body.
Proof. exact refuted_D9. Qed.
Print Assumptions C02_refuted_D9.
Theorem C02_refuted_D10 : differs only_d10 [] [] w_d10_body.
Proof. exact refuted_D10. Qed.
Print Assumptions C02_refuted_D10.
Theorem C02_refuted_D200 : differs only_d200 [] [] w_d200_body.
Proof. exact refuted_D200. Qed.
Print Assumptions C02_refuted_D200.
Theorem C02_refuted_D201 : differs only_d201 [] w_d201_mgrs w_d201_body.
Proof. exact refuted_D201. Qed.
Print Assumptions C02_refuted_D201.

(* D202: `async for` over a proper asynchronous iterator *)
Theorem C02_refuted_D202 : differs only_d202 w_d202_scripts [] w_d202_body.
Proof. exact refuted_D202. Qed.
Print Assumptions C02_refuted_D202.

(* the correspondence check and the theorem fit together: a case on which the conformant Model reproduces both
   the real AstEval's and CPython's observation satisfies the Spec (so, once every finding is repaired, a Spec
   failure can only come with a Model mismatch) *)
Theorem C02_model_implies_spec : forall ct c, fcase_model_ok no_dev ct c = true -> fcase_spec_ok c = true.
Proof. exact model_implies_spec. Qed.
Print Assumptions C02_model_implies_spec.
