(* Properties/C19.v — property theorems only; every proof is [exact <lemma>] (lemmas in Proofs/). *)
From PV Require Import Common.Util Gen.ZmqConsts Zmq.Framing Zmq.FramingCheck Proofs.ZmqFraming.

(* C19, first sentence: any list of byte frames of any lengths (below 2^64) written by send_multipart is read
   back identically by recv_multipart, however the stream is fragmented ([s] ranges over all chunkings), and
   nothing following the message is consumed. *)
Theorem C19_multipart_roundtrip : forall (parts : list bytes) (tail : bytes) (s : stream),
  parts <> [] -> Forall len_ok parts -> wf s -> concat s = enc_multipart parts ++ tail ->
  exists s', recv_multipart s = RecvOk parts s' /\ wf s' /\ concat s' = tail.
Proof. exact multipart_roundtrip. Qed.
Print Assumptions C19_multipart_roundtrip.

(* the REP-envelope pair send()/recv(multipart=False) *)
Theorem C19_single_roundtrip : forall (msg tail : bytes) (s : stream),
  len_ok msg -> wf s -> concat s = enc_single msg ++ tail ->
  exists s', recv_single s = Some (msg, s') /\ wf s' /\ concat s' = tail.
Proof. exact single_roundtrip. Qed.
Print Assumptions C19_single_roundtrip.

(* whatever behaviour of the implementation the Model reproduces is a lossless round trip *)
Theorem C19_model_implies_spec : forall c, fcase_wf c -> fcase_model_ok c = true -> fcase_spec_ok c = true.
Proof. exact fcase_model_implies_spec. Qed.
Print Assumptions C19_model_implies_spec.
