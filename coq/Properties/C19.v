(* Properties/C19.v — property theorems only; every proof is [exact <lemma>] (lemmas in Proofs/). *)
From PV Require Import Common.Util Gen.ZmqConsts Zmq.Framing Zmq.FramingCheck Proofs.ZmqFraming.
From PV Require Import Zmq.Shell Zmq.ShellCheck Proofs.ZmqShell.

(* C19, first sentence: any list of byte frames of any lengths (below 2^64) written by send_multipart is read
   back identically by recv_multipart, however the stream is fragmented ([s] ranges over all chunkings), and
   nothing following the message is consumed. *)
Theorem C19_multipart_roundtrip : forall (parts : list bytes) (tail : bytes) (s : stream),
  parts <> [] -> Forall len_ok parts -> wf s -> concat s = enc_multipart parts ++ tail ->
  exists s', recv_multipart s = RecvOk parts s' /\ wf s' /\ concat s' = tail.
Proof. exact multipart_roundtrip. Qed.
Print Assumptions C19_multipart_roundtrip.

(* the REP-envelope pair send()/recv(multipart=False) *)
Theorem C19_single_roundtrip : forall (msg tail : bytes) (s : stream),
  len_ok msg -> wf s -> concat s = enc_single msg ++ tail ->
  exists s', recv_single s = Some (msg, s') /\ wf s' /\ concat s' = tail.
Proof. exact single_roundtrip. Qed.
Print Assumptions C19_single_roundtrip.

(* whatever behaviour of the implementation the Model reproduces is a lossless round trip *)
Theorem C19_model_implies_spec : forall c, fcase_wf c -> fcase_model_ok c = true -> fcase_spec_ok c = true.
Proof. exact fcase_model_implies_spec. Qed.
Print Assumptions C19_model_implies_spec.

(* C19, second sentence (a): for every MAC function, kernel state and continuation, a request whose signature
   frame differs from the MAC of its message frames is never executed and never answered - nor is anything
   that follows it on the connection. *)
Theorem C19_forged_request_inert : forall (hmac : list bytes -> bytes) st r rs,
  forged hmac r ->
  let '(st', groups) := run hmac st (r :: rs) in
  Forall (fun g => g = []) groups /\ k_executed st' = k_executed st /\ k_count st' = k_count st.
Proof. exact forged_request_inert. Qed.
Print Assumptions C19_forged_request_inert.

(* C19, second sentence (b) and third sentence, for every request sequence from every state: each authentic
   request of a replying type gets exactly one shell reply of the matching type, addressed to the requester's
   identities, signed, with the request header as parent; broadcasts are bracketed by busy ... idle; execute replies
   carry 1 + the number of earlier history-storing executions; exactly the authentic, parsing cells are executed.
   ([spec_groups]/[spec_executed] are the checkers the correspondence applies to what the real kernel wrote.) *)
Theorem C19_replies_correlated : forall (hmac : list bytes -> bytes) rs st,
  spec_groups hmac (k_alive st) (k_count st) rs (snd (run hmac st rs)) = true /\
  k_executed (fst (run hmac st rs)) = (k_executed st + spec_executed hmac (k_alive st) rs)%N.
Proof. exact run_satisfies_spec. Qed.
Print Assumptions C19_replies_correlated.
