(* Properties/C06.v — property theorems only; every proof is [exact <lemma>] (lemmas in Proofs/).

   C06 "Time triggers fire at exactly the instants their specification denotes" (claimed partial).

   FULL STATEMENT: for every list of specifications of the documented grammar (once / period with or without end /
   cron; dates full, month/day, weekday, today/tomorrow, omitted; times h:m[:s[.f]], noon, midnight, sunrise, sunset,
   now; offsets), every current time and startup time, in every time zone:
        next_list specs now su = Some t  ->  now < t /\ some spec denotes t /\ nothing denoted strictly between,
        next_list specs now su = None    ->  nothing later is denoted;
   hence successive trigger times strictly increase and the answer does not change between occurrences.

   PROVED HERE (names end in _partial): exactly that statement,
     * for the Model with the deviations D61, D64 (and the float effect D63) switched off,
     * for all specifications without sunrise/sunset whose month/day exists in every year ([in_fragment]; a time-only
       period start under the quantifier's own side condition start < interval, interval | 24 h; daily windows with both
       times of day inside [0, 24 h)),
     * cron() through croniter's contract [cron_ok] and for current times that are real readings of the local clock
       [real_now],
     * period() instants either on the naive local scale (what the code does, D60) or on the elapsed scale in zones
       without transitions ([tz_const]); for elapsed spacing across a DST change see C06_refuted_D60.
   What is only validated against the running code: regex parsing, croniter, astral, zoneinfo, float rounding, sleeping. *)
From Coq Require Import ZArith List Bool.
From PV Require Import Common.Civil Time.DtExpr Time.Next Time.NextCheck Gen.TimeConsts.
From PV Require Import Proofs.Civil Proofs.TimeNext Proofs.TimeNextMain Proofs.TimeNextExamples.
Import ListNotations.
Local Open Scope Z_scope.

(* T1: the unit table regenerated from parse_time_offset is the documented one (seconds ... weeks, with abbreviations) *)
Theorem C06_unit_table_documented : unit_scale_table = doc_scale_table.
Proof. exact unit_table_documented. Qed.
Print Assumptions C06_unit_table_documented.

Theorem C06_dither_lists : dither_undated = [-1; 0; 1] /\ dither_dated = [0].
Proof. exact dither_lists. Qed.
Print Assumptions C06_dither_lists.

(* the next trigger time is the earliest denoted instant strictly after the current time (or the startup instant itself
   for a specification that names it), none if nothing later is denoted; minimum over the list *)
Theorem C06_next_is_successor_partial :
  forall (scale : N -> Z) (sun : Z -> bool -> option Z) (cron_next : cronx -> Z -> Z) (lu ul : Z -> Z) (cfg : deviations),
  d_once_md_this_year cfg = false -> d_su_coincidence cfg = false ->
  d_period_wallclock cfg = true \/ tz_const lu ul ->
  forall (specs : list tspec) (now su : Z),
  specs_ok scale cron_next lu specs now ->
  exists r, next_list scale sun cron_next lu ul cfg false specs now su = ROk r /\
    match r with
    | Some (t, _) =>
        (now < t \/ (t = now /\ now = su)) /\
        (exists s, In s specs /\ denotes scale sun lu ul (negb (d_period_wallclock cfg)) s su now t) /\
        (forall t', now < t' -> t' < t -> forall s, In s specs -> ~ denotes scale sun lu ul (negb (d_period_wallclock cfg)) s su now t')
    | None => forall t', now < t' -> forall s, In s specs -> ~ denotes scale sun lu ul (negb (d_period_wallclock cfg)) s su now t'
    end.
Proof. exact next_list_successor_full. Qed.
Print Assumptions C06_next_is_successor_partial.

(* successive trigger times strictly increase (every later evaluation happens at or after the previous trigger time) *)
Theorem C06_strictly_increasing_partial :
  forall (scale : N -> Z) (sun : Z -> bool -> option Z) (cron_next : cronx -> Z -> Z) (lu ul : Z -> Z) (cfg : deviations),
  d_once_md_this_year cfg = false -> d_su_coincidence cfg = false ->
  d_period_wallclock cfg = true \/ tz_const lu ul ->
  forall (specs : list tspec) (now now' su t a t' a' : Z),
  specs_ok scale cron_next lu specs now' ->
  next_list scale sun cron_next lu ul cfg false specs now su = ROk (Some (t, a)) ->
  t <= now' -> now' <> su ->
  next_list scale sun cron_next lu ul cfg false specs now' su = ROk (Some (t', a')) ->
  t < t'.
Proof. exact next_strictly_increasing. Qed.
Print Assumptions C06_strictly_increasing_partial.

(* no instant is skipped or repeated: re-evaluating anywhere before the next occurrence gives the same occurrence
   (for lists whose denotation does not move with the current time, e.g. no today/tomorrow/weekday crossing midnight) *)
Theorem C06_idempotent_between_partial :
  forall (scale : N -> Z) (sun : Z -> bool -> option Z) (cron_next : cronx -> Z -> Z) (lu ul : Z -> Z) (cfg : deviations),
  d_once_md_this_year cfg = false -> d_su_coincidence cfg = false ->
  d_period_wallclock cfg = true \/ tz_const lu ul ->
  forall (specs : list tspec) (now now' su t a : Z),
  specs_ok scale cron_next lu specs now -> specs_ok scale cron_next lu specs now' ->
  (forall x, denotes_any scale sun lu ul (negb (d_period_wallclock cfg)) specs su now x <->
             denotes_any scale sun lu ul (negb (d_period_wallclock cfg)) specs su now' x) ->
  next_list scale sun cron_next lu ul cfg false specs now su = ROk (Some (t, a)) ->
  now <= now' -> now' < t -> now' <> su ->
  exists a', next_list scale sun cron_next lu ul cfg false specs now' su = ROk (Some (t, a')).
Proof. exact next_idempotent_between. Qed.
Print Assumptions C06_idempotent_between_partial.

(* the hypotheses are satisfiable: a list with a daily once(), a self-consistent time-only period(), a now-based closed
   period(), a yearly once(), a daily window over midnight and the every-minute crontab with its successor function *)
Theorem C06_hypotheses_inhabited : forall now,
  specs_ok sc next_minute est_lu ex_specs now /\ tz_const est_lu est_ul /\ cron_ok next_minute every_minute.
Proof. exact (fun now => conj (ex_specs_ok now) (conj est_const every_minute_ok)). Qed.
Print Assumptions C06_hypotheses_inhabited.

(* calendar library: both round trips *)
Theorem C06_civil_roundtrip : forall n, let '(y, m, d) := civil_from_days n in days_from_civil y m d = n /\ valid_date y m d = true.
Proof. exact civil_from_days_spec. Qed.
Print Assumptions C06_civil_roundtrip.

Theorem C06_civil_roundtrip_inv : forall y m d, valid_date y m d = true -> civil_from_days (days_from_civil y m d) = (y, m, d).
Proof. exact civil_from_days_from_civil. Qed.
Print Assumptions C06_civil_roundtrip_inv.

Theorem C06_datetime_roundtrip : forall t, datetime_to_us (us_datetime t) = t.
Proof. exact datetime_to_us_of_us. Qed.
Print Assumptions C06_datetime_roundtrip.

(* ---------- the unchanged code violates the property: one witness per deviation ---------- *)
Theorem C06_refuted_D60 : exists specs now su r,
  next_list sc nosun next_minute (tz_lu ny2024) (tz_ul ny2024) (only 60) false specs now su = ROk r /\
  ~ successor_of (denotes_any sc nosun (tz_lu ny2024) (tz_ul ny2024) true specs su now) now su r.
Proof. exact refuted_D60. Qed.
Print Assumptions C06_refuted_D60.

Theorem C06_refuted_D61 : exists specs now su r,
  next_list sc nosun next_minute est_lu est_ul (only 61) false specs now su = ROk r /\
  ~ successor_of (denotes_any sc nosun est_lu est_ul true specs su now) now su r.
Proof. exact refuted_D61. Qed.
Print Assumptions C06_refuted_D61.

Theorem C06_refuted_D63 : exists specs now su r,
  next_list sc nosun next_minute est_lu est_ul (only 63) true specs now su = ROk r /\
  ~ successor_of (denotes_any sc nosun est_lu est_ul true specs su now) now su r.
Proof. exact refuted_D63. Qed.
Print Assumptions C06_refuted_D63.

Theorem C06_refuted_D64 : exists specs now su r,
  next_list sc nosun next_minute est_lu est_ul (only 64) false specs now su = ROk r /\
  ~ successor_of (denotes_any sc nosun est_lu est_ul true specs su now) now su r.
Proof. exact refuted_D64. Qed.
Print Assumptions C06_refuted_D64.

Theorem C06_refuted_D65 : exists specs now su t,
  next_list sc nosun next_minute est_lu est_ul as_code false specs now su = RExc /\
  next_list sc nosun next_minute est_lu est_ul all_off false specs now su = ROk (Some (t, t)) /\
  now < t /\ denotes_any sc nosun est_lu est_ul true specs su now t.
Proof. exact refuted_D65. Qed.
Print Assumptions C06_refuted_D65.

(* ---------- the wake-up loops: conformant variants run the function at the trigger time, the deviating ones do not ---------- *)
Theorem C06_legacy_wake_conformant : forall lu ul cfg f t u, d_legacy_gap_recheck cfg = false -> ul (lu t) = t ->
  legacy_wake lu ul perfect cfg (S (S f)) t u = Some (if ul u <? t then lu t else u).
Proof. exact legacy_wake_conformant. Qed.
Print Assumptions C06_legacy_wake_conformant.

Theorem C06_default_wake_conformant : forall lu ul cfg f t adj u, d_newsub_adj_recheck cfg = false -> ul (lu t) = t ->
  default_wake lu ul perfect cfg (S (S f)) t adj u = Some (if (t <=? ul u) || (lu t - u <=? 1) then u else lu t).
Proof. exact default_wake_conformant. Qed.
Print Assumptions C06_default_wake_conformant.

(* however the wall clock falls behind the monotonic clock during a wait (any function [wall]: steps back, slewing), the
   function is not run before the wall clock shows the trigger time (default subsystem: its 1 us tolerance) - hence the next
   evaluation cannot return the same instant again (C06_next_is_successor_partial: the result is strictly later than now) *)
Theorem C06_legacy_wake_not_early : forall lu ul wall cfg fuel t u r,
  legacy_wake lu ul wall cfg fuel t u = Some r -> t <= ul (wall r).
Proof. exact legacy_wake_not_early. Qed.
Print Assumptions C06_legacy_wake_not_early.

Theorem C06_default_wake_not_early : forall lu ul wall cfg fuel, d_newsub_adj_recheck cfg = false -> forall t adj u r,
  default_wake lu ul wall cfg fuel t adj u = Some r -> t <= ul (wall r) \/ lu t - wall r <= 1.
Proof. exact default_wake_not_early. Qed.
Print Assumptions C06_default_wake_not_early.

Theorem C06_refuted_D62 : exists t adj u,
  default_wake (tz_lu ny2024) (tz_ul ny2024) perfect as_code 5 t adj u = Some (tz_lu ny2024 t + HOUR) /\
  default_wake (tz_lu ny2024) (tz_ul ny2024) perfect all_off 5 t adj u = Some (tz_lu ny2024 t).
Proof. exact refuted_D62. Qed.
Print Assumptions C06_refuted_D62.

Theorem C06_refuted_D66 : exists t u,
  legacy_wake (tz_lu ny2024) (tz_ul ny2024) perfect as_code 5 t u = Some (tz_lu ny2024 t + HOUR) /\
  legacy_wake (tz_lu ny2024) (tz_ul ny2024) perfect all_off 5 t u = Some (tz_lu ny2024 t).
Proof. exact refuted_D66. Qed.
Print Assumptions C06_refuted_D66.

(* ---------- removal with a failing sibling unsubscribe (D67) ---------- *)
Theorem C06_stop_completes_conformant : forall cfg legacy raises, d_legacy_stop_fault cfg = false -> stop_completes cfg legacy raises = true.
Proof. exact stop_completes_conformant. Qed.
Print Assumptions C06_stop_completes_conformant.

Theorem C06_refuted_D67 : stop_completes as_code true true = false /\ stop_completes as_code false true = true.
Proof. exact refuted_D67. Qed.
Print Assumptions C06_refuted_D67.
