(* Properties/C06.v — property theorems only. *)
From Coq Require Import ZArith List Bool.
From PV Require Import Common.Civil Time.DtExpr Time.Next Time.NextCheck Gen.TimeConsts Proofs.Civil Proofs.TimeNext.
Import ListNotations.
Local Open Scope Z_scope.

Theorem C06_unit_table_documented : unit_scale_table = doc_scale_table.
Proof. exact unit_table_documented. Qed.
Print Assumptions C06_unit_table_documented.
