(* Properties/C05.v — placeholder while the proofs are being written. *)
From PV Require Import Common.Util Gen.HoldConsts Trig.Hold Trig.HoldCheck.
