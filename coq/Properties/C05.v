(* Properties/C05.v — property theorems only; every proof is [exact <lemma>] (lemmas in Proofs/TrigHold.v). *)
From PV Require Import Common.Util Gen.HoldConsts Trig.Hold Trig.HoldCheck Proofs.TrigHold.
Local Open Scope Z_scope.

(* C05: for every configuration (state_check_now unset/False/True, state_hold None/any S, state_hold_false None/any H —
   in particular all 3x3x3 combinations of the property), every initial truth and every timed history in the
   property's quantifier (strictly increasing times, no input within the code's 1 us epsilons of  p+S  or  p+H  for an
   earlier instant p, no "any change" entry combined with state_hold_false), the run times and arguments produced by
   each implementation model with all deviation switches off — legacy @state_trigger (trigger_watch), default-subsystem
   @state_trigger (_cycle/_check_new_state/_check_state_hold), legacy task.wait_until, default-subsystem
   task.wait_until — are exactly the Spec's. *)
Theorem C05_timeline : forall dv c init h,
  all_off dv -> sorted_times h = true -> no_ties c h = true -> any_ok c h = true ->
  legacy_runs dv c init h = spec_runs false c init h
  /\ dm_runs dv c init h = spec_runs false c init h
  /\ wul_runs dv c init h = spec_runs true c init h
  /\ wud_runs dv c init h = spec_runs true c init h.
Proof. exact timeline. Qed.
Print Assumptions C05_timeline.

(* the hypotheses are satisfiable by a non-trivial history (hold, hold_false, check_now, irrelevant inputs) *)
Theorem C05_timeline_inhabited :
  sorted_times ex_hist = true /\ no_ties ex_cfg ex_hist = true /\ any_ok ex_cfg ex_hist = true
  /\ spec_runs false ex_cfg true ex_hist = [(2500000, 0%N); (7500000, 4%N)]
  /\ legacy_runs no_dev ex_cfg true ex_hist = [(2500000, 0%N); (7500000, 4%N)]
  /\ dm_runs no_dev ex_cfg true ex_hist = [(2500000, 0%N); (7500000, 4%N)].
Proof. exact timeline_hyps_inhabited. Qed.
Print Assumptions C05_timeline_inhabited.

(* task.wait_until(state_hold=S, timeout=T): the overall timeout runs next to the state_hold timer; the call returns
   whichever is due first — the pending state run if its instant is strictly before T, else {"trigger_type": "timeout"}
   at T (run (T, timeout_id)); reference.rst: "return that number of seconds after the first state trigger (unless a
   different trigger type or a timeout occurs first)".  Both wait_until models equal the Spec for every T (None included),
   on histories where additionally no input and no p+S lies within the epsilons of T. *)
Theorem C05_timeline_timeout : forall dv c T init h,
  all_off dv -> sorted_times h = true -> no_ties_t c T h = true -> any_ok c h = true ->
  wul_runs_t dv c T init h = spec_runs_t c T init h /\ wud_runs_t dv c T init h = spec_runs_t c T init h.
Proof. exact timeline_timeout. Qed.
Print Assumptions C05_timeline_timeout.

Theorem C05_timeline_timeout_inhabited :
  let c := {| check_now := None; hold := Some 2500000; hold_false := None |} in
  let h := [(1000000, HEval true 1%N); (2000000, HEval true 2%N)] in
  sorted_times h = true /\ no_ties_t c (Some 2250000) h = true /\ any_ok c h = true
  /\ spec_runs_t c (Some 2250000) false h = [(2250000, timeout_id)]
  /\ spec_runs_t c (Some 3750000) false h = [(3500000, 1%N)]
  /\ spec_runs_t c (Some 1250000) true [] = [(1250000, timeout_id)]
  /\ wul_runs_t no_dev c (Some 2250000) false h = [(2250000, timeout_id)]
  /\ wud_runs_t no_dev c (Some 2250000) false h = [(2250000, timeout_id)].
Proof. exact timeout_hyps_inhabited. Qed.
Print Assumptions C05_timeline_timeout_inhabited.

(* last sentence of the property: removing every input that causes no evaluation (unwatched entities, attribute-only
   updates) changes no run of any implementation model *)
Theorem C05_irrelevant_no_effect : forall dv c init h,
  all_off dv -> sorted_times h = true -> no_ties c h = true -> any_ok c h = true ->
  let h' := filter (fun x => relevant (snd x)) h in
  legacy_runs dv c init h' = legacy_runs dv c init h /\ dm_runs dv c init h' = dm_runs dv c init h
  /\ wul_runs dv c init h' = wul_runs dv c init h /\ wud_runs dv c init h' = wud_runs dv c init h.
Proof. exact irrelevant_no_effect. Qed.
Print Assumptions C05_irrelevant_no_effect.

(* first sentence of the property (state_hold unset): a run at definition time exists exactly when state_check_now is
   set (default True for task.wait_until) and the expression is already true *)
Theorem C05_definition_time : forall dv c init h,
  all_off dv -> hold c = None -> sorted_times h = true -> no_ties c h = true -> any_ok c h = true ->
  ((exists a, In (0, a) (legacy_runs dv c init h)) <-> cn_dec c && init = true)
  /\ ((exists a, In (0, a) (dm_runs dv c init h)) <-> cn_dec c && init = true)
  /\ ((exists a, In (0, a) (wul_runs dv c init h)) <-> cn_wu c && init = true)
  /\ ((exists a, In (0, a) (wud_runs dv c init h)) <-> cn_wu c && init = true).
Proof. exact definition_time. Qed.
Print Assumptions C05_definition_time.

(* what the correspondence relies on: any observed behaviour that the conformant Model reproduces satisfies the Spec *)
Theorem C05_model_implies_spec : forall c, hcase_model_ok no_dev c = true -> hcase_spec_ok c = true.
Proof. exact model_implies_spec. Qed.
Print Assumptions C05_model_implies_spec.

(* The faithful models of today's code violate the statement: one witness per open finding. *)
Theorem C05_refuted_D14 : exists c init h, in_domain c h /\ dm_runs (only 14) c init h <> spec_runs false c init h.
Proof. exact refuted_D14. Qed.
Print Assumptions C05_refuted_D14.
Theorem C05_refuted_D14_hold_false : exists c init h, in_domain c h /\ dm_runs (only 14) c init h <> spec_runs false c init h.
Proof. exact refuted_D14_hold_false. Qed.
Print Assumptions C05_refuted_D14_hold_false.
Theorem C05_refuted_D50 : exists c init h, in_domain c h /\ dm_runs (only 50) c init h <> spec_runs false c init h.
Proof. exact refuted_D50. Qed.
Print Assumptions C05_refuted_D50.
Theorem C05_refuted_D51 : exists c init h, in_domain c h /\ dm_runs (only 51) c init h <> spec_runs false c init h.
Proof. exact refuted_D51. Qed.
Print Assumptions C05_refuted_D51.
Theorem C05_refuted_D52 : exists c init h, in_domain c h /\ wul_runs (only 52) c init h <> spec_runs true c init h.
Proof. exact refuted_D52. Qed.
Print Assumptions C05_refuted_D52.
Theorem C05_refuted_D53 : exists c init h, in_domain c h /\ wud_runs (only 53) c init h <> spec_runs true c init h.
Proof. exact refuted_D53. Qed.
Print Assumptions C05_refuted_D53.
