(* Properties/C10.v — "Reload loads exactly what the files and configuration now dictate".
   Property theorems only; every proof is [exact <lemma>] (lemmas in Proofs/Life*.v).
   Model: Life/Modules.v (module_import, executing a file), Life/Reload.v (discover, plan, delete-then-load,
   start_global_contexts); constants Gen/ReloadConsts.v regenerated from the source on every run.
   [all_off] is the conformant model; the unchanged code has the four deviations D100-D103 (refuted below). *)
From PV Require Import Common.Util Life.ReloadBase Gen.ReloadConsts Life.Modules Life.Reload Life.ReloadPlanSpec Life.ReloadSpec
  Life.ReloadCheck Proofs.LifeReloadBase Proofs.LifeClosure Proofs.LifePlan Proofs.LifeUntouched Proofs.LifeExec
  Life.ReloadLoaded Proofs.LifeDiscover Proofs.LifeDiscoverDoc Proofs.LifeReloadThms Proofs.LifeReloadFindings Proofs.LifeLoaded.

(* import_recurse, with its `visited` set and its memo shared between the top-level calls, returns exactly the
   contexts reachable through one or more recorded import edges -- for every context table whose import graph is
   acyclic and every memo left behind by earlier calls; the memo stays correct.  (The result is the non-reflexive
   closure: load_scripts adds the context itself through the changed set.) *)
Theorem C10_import_closure : forall st n m, acyclic st -> INV st m [] [] ->
  exists res v' m', import_recurse (ir_fuel st) st n [] m = IROk res v' m'
    /\ closure_of st n res /\ closure_of st n (memo_or_empty m' n) /\ INV st m' [] [].
Proof. exact import_closure. Qed.
Print Assumptions C10_import_closure.

(* the termination argument: the fuel |contexts| + 2 is never exhausted, cyclic graphs included *)
Theorem C10_import_closure_terminates : forall st n m, import_recurse (ir_fuel st) st n [] m <> IRFuel.
Proof. exact import_recurse_never_out_of_fuel. Qed.
Print Assumptions C10_import_closure_terminates.

(* the step-by-step plan (in-place force flags, growing delete set, `done` roots) = the declarative sets:
   delete set = Changed U Importers*(changed module roots) U package mates; a discovered file is forced iff it is the
   root file of a widened package, or outside every widened package and changed / new / an importer *)
Theorem C10_plan_exact : forall st fs a, acyclic st -> fresh fs -> uniq_files fs -> NoDup (map c_name (ctx_all st)) ->
  p_ok (plan all_off st fs a) = true ->
  let pl := plan all_off st fs a in
  p_fuel_ok pl = true
  /\ same_files fs (p_files pl)
  /\ (forall n, In n (p_del pl) <-> Discard st fs a n)
  /\ (forall s', In s' (p_files pl) -> (sf_force s' = true <-> Forced st fs a s')).
Proof. exact plan_exact. Qed.
Print Assumptions C10_plan_exact.

(* "leaves all other contexts untouched": a context outside the discard set (and not the named one) is in the new
   table as the same object -- source, variables, counter, import set, identity -- at most with its triggers armed *)
Theorem C10_untouched : forall born st t k a c,
  uniq_ctx st -> acyclic st -> In c st -> in_ctx_roots (c_name c) = true ->
  (c_ismod c = true \/ safe_name all_off t (c_name c)) ->
  ~ Discard st (discover t k) a (c_name c) -> ~ Forced0 st (discover t k) a (c_name c) ->
  let st' := r_st (reload all_off born st t k a) in
  In c st' \/ In (set_started c) st'.
Proof. exact untouched_spec. Qed.
Print Assumptions C10_untouched.

(* ---------- the post-state (first sentence of the property) ----------
   [spec_loaded t k] (Life/ReloadLoaded.v) is the least set of context names containing the existing auto-loaded
   files and closed under "its source imports m and m resolves to an existing file" -- defined on the tree alone
   (module_import's candidate list + first existing file; no table, no lookup-before-load, no execution order).
   [consistent t k st]: every context of the table is a reachable load descriptor at the tree's CURRENT source
   (generation, mtime, rel_import_path, module-or-auto-loaded) and everything it transitively imports is loaded.
   [good_tree t k]: no duplicate paths; every import of a reachable file resolves (else that file fails to load);
   unambiguous (one name = one way to load it; no second candidate of an import names another reachable file);
   the import graph of the tree is acyclic with chains shorter than the number of files (fuel = |tree| + 1).
   [ex_good_tree] inhabits it (diamond, app package with a sibling importing a module, script in a sub-directory). *)

(* '*' (also when forced by a change of the global options) and start-up: exact, both directions, unconditionally *)
Theorem C10_post_state_star : forall born st t k, good_tree t k -> uniq_ctx st -> acyclic st ->
  (forall c, In c st -> in_ctx_roots (c_name c) = true) ->
  let st' := r_st (reload all_off born st t k RAll) in
  consistent t k st' /\ forall n, has st' n <-> spec_loaded t k n.
Proof. exact star_post_state. Qed.
Print Assumptions C10_post_state_star.

Theorem C10_post_state_startup : forall born t k, good_tree t k ->
  let st' := r_st (reload all_off born [] t k RNone) in
  consistent t k st' /\ forall n, has st' n <-> spec_loaded t k n.
Proof. exact startup_post_state. Qed.
Print Assumptions C10_post_state_startup.

(* C10_post_state_default_partial.  Full statement wanted:
     forall history, good_tree at each step -> after every default reload: contexts = spec_loaded /\ consistent.
   Proved: the equality (both directions) and consistency for every default or '*' reload from every state, under ONE
   hypothesis: the survivors of the delete phase are consistent with the NEW tree.  It is vacuous after '*' and at
   start-up (nothing survives; the two theorems above).  Missing to drop it for default reloads: deriving it from
   the previous reload's post-state, i.e. that an unchanged file (same generation, mtime, configuration) has the same
   import list and resolves it to the same names in the new tree as in the tree it was loaded from (cross-tree
   stability of resolution: no newly created file shadows a candidate; generation determines the import list), and that
   lingering unimported modules are absent.  The correspondence checks the equality on every generated history
   (Spec clauses 1-2, by-source closure sp_load). *)
Theorem C10_post_state_default_partial : forall born st t k a, good_tree t k -> uniq_ctx st -> acyclic st ->
  (forall n, a <> RName n) ->
  consistent t k (delete_phase st (p_del (plan all_off st (discover t k) a))) ->
  let st' := r_st (reload all_off born st t k a) in
  consistent t k st' /\ forall n, has st' n <-> spec_loaded t k n.
Proof. exact post_state_exact. Qed.
Print Assumptions C10_post_state_default_partial.

(* unconditional (no good_tree, no hypothesis on the survivors), weaker: every context of the new table runs the current
   source of an existing file -- a survivor is not `changed` w.r.t. the discovered file of its name, a re-executed
   auto-loaded file is its discovered entry, an imported module is the tree's file at a candidate path *)
Theorem C10_post_state_current : forall born st t k a,
  uniq_ctx st -> acyclic st -> (forall n, a <> RName n) ->
  let st' := r_st (reload all_off born st t k a) in
  uniq_ctx st' /\ forall c', In c' st' -> exists c, (c' = c \/ c' = set_started c) /\
                                           (in_ctx_roots (c_name c) = true -> current_ctx t k born c).
Proof. exact post_state_current. Qed.
Print Assumptions C10_post_state_current.

(* the post-state theorems at every default / '*' step of every history (incl. the global-option rule) *)
Theorem C10_history_post : forall steps born old st, uniq_ctx st ->
  hist_all (fun _ st _ _ => acyclic st) born old st steps -> hist_all step_post born old st steps.
Proof. exact history_post. Qed.
Print Assumptions C10_history_post.

(* the exact re-execution set: whatever a reload executes is a forced auto-loaded file or a file an import statement
   resolved to (any deviation setting); with C10_reexecuted (every forced auto-loaded file IS executed) and C10_untouched
   (what is outside Discard is not replaced): executed = Forced auto-loaded + lazily imported, nothing else *)
Theorem C10_reexecution_exact : forall dv born st t k a e,
  In e (r_ev (reload dv born st t k a)) ->
  (exists s, In s (load_list (p_files (plan dv st (discover t k) a))) /\ e = (sf_name s, sf_gen s)) \/ lazily_imported dv t e.
Proof. exact reload_events_origin. Qed.
Print Assumptions C10_reexecution_exact.

Theorem C10_star_discards_all : forall born st t k c',
  uniq_ctx st -> acyclic st ->
  In c' (r_st (reload all_off born st t k RAll)) ->
  exists c, (c' = c \/ c' = set_started c) /\ (in_ctx_roots (c_name c) = true -> c_born c = born).
Proof. exact star_discards_all. Qed.
Print Assumptions C10_star_discards_all.

(* lower bound of the post-state: every discovered auto-loaded file is executed by a default or '*' reload, or it was
   loaded before and lies outside the discard set (C10_untouched then keeps it) *)
Theorem C10_autoload_complete : forall born st t k a s,
  uniq_ctx st -> acyclic st -> (forall n, a <> RName n) -> In s (discover t k) -> sf_auto s = true ->
  In (sf_name s, sf_gen s) (r_ev (reload all_off born st t k a))
  \/ (exists c, In c st /\ c_name c = sf_name s /\ in_ctx_roots (c_name c) = true
        /\ ~ Discard st (discover t k) a (sf_name s) /\ ~ Forced0 st (discover t k) a (sf_name s)).
Proof. exact autoload_complete. Qed.
Print Assumptions C10_autoload_complete.

(* "re-executes those of them that are auto-loaded": holds for every deviation setting *)
Theorem C10_reexecuted : forall dv born st t k a s,
  let pl := plan dv st (discover t k) a in
  p_ok pl = true -> In s (load_list (p_files pl)) -> In (sf_name s, sf_gen s) (r_ev (reload dv born st t k a)).
Proof. exact reload_reexecutes. Qed.
Print Assumptions C10_reexecuted.

(* lifted to every sequence of reloads (None | name | '*'), each finding an arbitrary tree and configuration -- any
   sequence of modify / touch / create / delete / rename / configuration steps in between is some such tree --
   by induction over the history (a change of the global options since the previous reload turns the step into '*',
   [eff_arg]); the only hypothesis is that the recorded import graph is acyclic at each step *)
Theorem C10_history : forall steps born old st, uniq_ctx st ->
  hist_all (fun _ st _ _ => acyclic st) born old st steps -> hist_all step_thms born old st steps.
Proof. exact history_thms. Qed.
Print Assumptions C10_history.

(* discovery: context naming, '#' skipping, existence *)
Theorem C10_discover_names : forall t k s, tree_ok t -> In s (discover t k) ->
  sf_name s = sp_name_of (sf_path s) /\ hashed (sf_path s) = false /\
  exists f, In (sf_path s, f) t /\ sf_gen s = f_gen f /\ sf_mtime s = f_mtime f.
Proof. exact discover_names. Qed.
Print Assumptions C10_discover_names.

(* discovery: a file is discovered as auto-loaded iff it is at a documented auto-load place: top level, below
   scripts/, apps/<a>/__init__.py or (no package form) apps/<a>.py with <a> configured; not '#'-commented *)
Theorem C10_discover_autoload : forall t k p f, tree_ok t -> In (p, f) t -> unambiguous t p ->
  (sp_autoload t k p = true <-> exists s, In s (discover t k) /\ sf_path s = p /\ sf_auto s = true).
Proof. exact discover_autoload_exact. Qed.
Print Assumptions C10_discover_autoload.

(* discover is "first candidate in (load_paths row, sorted path) order wins" *)
Theorem C10_discover_first : forall t k n, sf_find (discover t k) n = sf_find (cands t k) n.
Proof. exact discover_find. Qed.
Print Assumptions C10_discover_first.

(* the unchanged code: each deviation alone violates the Spec on its witness, the conformant model satisfies it *)
Theorem C10_refuted_D100 : exists steps, spec_of_model (only 100) steps = false /\ spec_of_model all_off steps = true.
Proof. exact refuted_D100. Qed.
Print Assumptions C10_refuted_D100.
Theorem C10_refuted_D101 : exists steps, spec_of_model (only 101) steps = false /\ spec_of_model all_off steps = true.
Proof. exact refuted_D101. Qed.
Print Assumptions C10_refuted_D101.
Theorem C10_refuted_D102 : exists steps, spec_of_model (only 102) steps = false /\ spec_of_model all_off steps = true.
Proof. exact refuted_D102. Qed.
Print Assumptions C10_refuted_D102.
Theorem C10_refuted_D103 : exists steps, spec_of_model (only 103) steps = false /\ spec_of_model all_off steps = true.
Proof. exact refuted_D103. Qed.
Print Assumptions C10_refuted_D103.
