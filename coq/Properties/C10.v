(* Properties/C10.v — "Reload loads exactly what the files and configuration now dictate".
   Property theorems only; every proof is [exact <lemma>] (lemmas in Proofs/Life*.v).
   Model: Life/Modules.v (module_import, executing a file), Life/Reload.v (discover, plan, delete-then-load,
   start_global_contexts); constants Gen/ReloadConsts.v regenerated from the source on every run.
   [all_off] is the conformant model; the unchanged code has the four deviations D100-D103 (refuted below). *)
From PV Require Import Common.Util Life.ReloadBase Gen.ReloadConsts Life.Modules Life.Reload Life.ReloadPlanSpec Life.ReloadSpec
  Life.ReloadCheck Proofs.LifeReloadBase Proofs.LifeClosure Proofs.LifePlan Proofs.LifeUntouched Proofs.LifeExec
  Proofs.LifeDiscover Proofs.LifeDiscoverDoc Proofs.LifeReloadThms Proofs.LifeReloadFindings.

(* import_recurse, with its `visited` set and its memo shared between the top-level calls, returns exactly the
   contexts reachable through one or more recorded import edges -- for every context table whose import graph is
   acyclic and every memo left behind by earlier calls; the memo stays correct.  (The result is the non-reflexive
   closure: load_scripts adds the context itself through the changed set.) *)
Theorem C10_import_closure : forall st n m, acyclic st -> INV st m [] [] ->
  exists res v' m', import_recurse (ir_fuel st) st n [] m = IROk res v' m'
    /\ closure_of st n res /\ closure_of st n (memo_or_empty m' n) /\ INV st m' [] [].
Proof. exact import_closure. Qed.
Print Assumptions C10_import_closure.

(* the termination argument: the fuel |contexts| + 2 is never exhausted, cyclic graphs included *)
Theorem C10_import_closure_terminates : forall st n m, import_recurse (ir_fuel st) st n [] m <> IRFuel.
Proof. exact import_recurse_never_out_of_fuel. Qed.
Print Assumptions C10_import_closure_terminates.

(* the step-by-step plan (in-place force flags, growing delete set, `done` roots) = the declarative sets:
   delete set = Changed U Importers*(changed module roots) U package mates; a discovered file is forced iff it is the
   root file of a widened package, or outside every widened package and changed / new / an importer *)
Theorem C10_plan_exact : forall st fs a, acyclic st -> fresh fs -> uniq_files fs -> NoDup (map c_name (ctx_all st)) ->
  p_ok (plan all_off st fs a) = true ->
  let pl := plan all_off st fs a in
  p_fuel_ok pl = true
  /\ same_files fs (p_files pl)
  /\ (forall n, In n (p_del pl) <-> Discard st fs a n)
  /\ (forall s', In s' (p_files pl) -> (sf_force s' = true <-> Forced st fs a s')).
Proof. exact plan_exact. Qed.
Print Assumptions C10_plan_exact.

(* "leaves all other contexts untouched": a context outside the discard set (and not the named one) is in the new
   table as the same object -- source, variables, counter, import set, identity -- at most with its triggers armed *)
Theorem C10_untouched : forall born st t k a c,
  uniq_ctx st -> acyclic st -> In c st -> in_ctx_roots (c_name c) = true ->
  (c_ismod c = true \/ safe_name all_off t (c_name c)) ->
  ~ Discard st (discover t k) a (c_name c) -> ~ Forced0 st (discover t k) a (c_name c) ->
  let st' := r_st (reload all_off born st t k a) in
  In c st' \/ In (set_started c) st'.
Proof. exact untouched_spec. Qed.
Print Assumptions C10_untouched.

(* C10_post_state_partial.  Full statement of the plan (DESIGN.md): loaded (apply (plan ...)) = spec_loaded, i.e. the
   table after a default or '*' reload is exactly {existing auto-loaded files} U {modules they transitively import},
   each at current source.  Proved here, for every state, tree and configuration:
     - every context of the new table runs the current source of an existing file: a survivor is not `changed` with
       respect to the discovered file of its name (source generation, mtime, app configuration all equal), a
       re-executed auto-loaded file is its discovered entry, an imported module is the tree's file at an import
       candidate's path under that candidate's name (current_ctx);
     - after '*' nothing of the old table survives (C10_star_discards_all);
     - every auto-loaded file the plan forces is executed at its current generation (C10_reexecuted), and every
       discovered auto-loaded file is executed or an untouched survivor (C10_autoload_complete);
     - names and auto-load flags of discovered files are the documented ones (C10_discover_names, C10_discover_autoload).
   Missing for the full equality: that a module brought in by an import is the *discovered* entry of its name
   (needs a tree without both forms of a sub-module) and the by-source import closure of the Spec (Life/ReloadSpec.v
   sp_load), which the correspondence evaluates on every generated history instead. *)
Theorem C10_post_state_partial : forall born st t k a,
  uniq_ctx st -> acyclic st -> (forall n, a <> RName n) ->
  let st' := r_st (reload all_off born st t k a) in
  uniq_ctx st' /\ forall c', In c' st' -> exists c, (c' = c \/ c' = set_started c) /\
                                           (in_ctx_roots (c_name c) = true -> current_ctx t k born c).
Proof. exact post_state_current. Qed.
Print Assumptions C10_post_state_partial.

Theorem C10_star_discards_all : forall born st t k c',
  uniq_ctx st -> acyclic st ->
  In c' (r_st (reload all_off born st t k RAll)) ->
  exists c, (c' = c \/ c' = set_started c) /\ (in_ctx_roots (c_name c) = true -> c_born c = born).
Proof. exact star_discards_all. Qed.
Print Assumptions C10_star_discards_all.

(* lower bound of the post-state: every discovered auto-loaded file is executed by a default or '*' reload, or it was
   loaded before and lies outside the discard set (C10_untouched then keeps it) *)
Theorem C10_autoload_complete : forall born st t k a s,
  uniq_ctx st -> acyclic st -> (forall n, a <> RName n) -> In s (discover t k) -> sf_auto s = true ->
  In (sf_name s, sf_gen s) (r_ev (reload all_off born st t k a))
  \/ (exists c, In c st /\ c_name c = sf_name s /\ in_ctx_roots (c_name c) = true
        /\ ~ Discard st (discover t k) a (sf_name s) /\ ~ Forced0 st (discover t k) a (sf_name s)).
Proof. exact autoload_complete. Qed.
Print Assumptions C10_autoload_complete.

(* "re-executes those of them that are auto-loaded": holds for every deviation setting *)
Theorem C10_reexecuted : forall dv born st t k a s,
  let pl := plan dv st (discover t k) a in
  p_ok pl = true -> In s (load_list (p_files pl)) -> In (sf_name s, sf_gen s) (r_ev (reload dv born st t k a)).
Proof. exact reload_reexecutes. Qed.
Print Assumptions C10_reexecuted.

(* lifted to every sequence of reloads (None | name | '*'), each finding an arbitrary tree and configuration -- any
   sequence of modify / touch / create / delete / rename / configuration steps in between is some such tree --
   by induction over the history (a change of the global options since the previous reload turns the step into '*',
   [eff_arg]); the only hypothesis is that the recorded import graph is acyclic at each step *)
Theorem C10_history : forall steps born old st, uniq_ctx st ->
  hist_all (fun _ st _ _ => acyclic st) born old st steps -> hist_all step_thms born old st steps.
Proof. exact history_thms. Qed.
Print Assumptions C10_history.

(* discovery: context naming, '#' skipping, existence *)
Theorem C10_discover_names : forall t k s, tree_ok t -> In s (discover t k) ->
  sf_name s = sp_name_of (sf_path s) /\ hashed (sf_path s) = false /\
  exists f, In (sf_path s, f) t /\ sf_gen s = f_gen f /\ sf_mtime s = f_mtime f.
Proof. exact discover_names. Qed.
Print Assumptions C10_discover_names.

(* discovery: a file is discovered as auto-loaded iff it is at a documented auto-load place: top level, below
   scripts/, apps/<a>/__init__.py or (no package form) apps/<a>.py with <a> configured; not '#'-commented *)
Theorem C10_discover_autoload : forall t k p f, tree_ok t -> In (p, f) t -> unambiguous t p ->
  (sp_autoload t k p = true <-> exists s, In s (discover t k) /\ sf_path s = p /\ sf_auto s = true).
Proof. exact discover_autoload_exact. Qed.
Print Assumptions C10_discover_autoload.

(* discover is "first candidate in (load_paths row, sorted path) order wins" *)
Theorem C10_discover_first : forall t k n, sf_find (discover t k) n = sf_find (cands t k) n.
Proof. exact discover_find. Qed.
Print Assumptions C10_discover_first.

(* the unchanged code: each deviation alone violates the Spec on its witness, the conformant model satisfies it *)
Theorem C10_refuted_D100 : exists steps, spec_of_model (only 100) steps = false /\ spec_of_model all_off steps = true.
Proof. exact refuted_D100. Qed.
Print Assumptions C10_refuted_D100.
Theorem C10_refuted_D101 : exists steps, spec_of_model (only 101) steps = false /\ spec_of_model all_off steps = true.
Proof. exact refuted_D101. Qed.
Print Assumptions C10_refuted_D101.
Theorem C10_refuted_D102 : exists steps, spec_of_model (only 102) steps = false /\ spec_of_model all_off steps = true.
Proof. exact refuted_D102. Qed.
Print Assumptions C10_refuted_D102.
Theorem C10_refuted_D103 : exists steps, spec_of_model (only 103) steps = false /\ spec_of_model all_off steps = true.
Proof. exact refuted_D103. Qed.
Print Assumptions C10_refuted_D103.
