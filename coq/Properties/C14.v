(* Properties/C14.v — property theorems only; every proof is [exact <lemma>] (lemmas in Proofs/TaskLifecycle.v).

   The model (Task/Lifecycle.v) is a transition system over the five registries of function.py; a label is (a piece of)
   one atomic stretch of asyncio code.  [run cfg ls = Some s] ranges over ALL label sequences: all interleavings of any
   number of tasks started by triggers / services / task.create, with cancellations (LReaper delivering a task.cancel /
   task.unique request, taken by LEnd t OCancel at any body suspension or by LCbEnd t CbCancelled inside the finally) and
   exceptions (LEnd t ORaise, LCbEnd t CbRaise) placed anywhere.  [cfg] are the deviation switches; the conformant
   statements need the named switches off, the C14_refuted_* theorems show each switch on violates them. *)
From PV Require Import Common.Util Gen.LifecycleConsts Task.Lifecycle Task.LifecycleCheck Proofs.TaskLifecycle.

(* T1: run_coro / task_reaper / user_task_cancel have the shape the model mirrors (regenerated from the source on every run) *)
Theorem C14_source_shape :
  lc_finally_order = [1; 2; 3; 4; 5]%N /\ lc_registers_first = true /\ lc_start_cbrec_if_ctx = true /\
  lc_cb_loop_awaits = true /\ lc_reaper_awaits = true /\ lc_cancel_checks_ours = true /\ lc_cancel_via_reaper = true /\
  lc_remove_pops_one = true /\ lc_add_sets_entry = true /\ (2 ^ 28 < lc_self_cancel_sleep * 4096)%N.
Proof. exact source_shape. Qed.
Print Assumptions C14_source_shape.

(* C14_cleanup: however the task ended (return / raise / cancel at any suspension point of the body or of a done-callback),
   once it is done none of the five registries mentions it.  Holds with D20 and D22 still present. *)
Theorem C14_cleanup : forall cfg, d_fin_cancel_escapes cfg = false /\ d_live_iter cfg = false ->
  forall ls s, run cfg ls = Some s -> forall t, phase_of s t = PDone ->
  (st_ours s t = false /\ st_cb s t = None /\ st_ctx s t = false /\ st_t2n s t = None) /\ (forall n, st_n2t s n <> Some t).
Proof. exact cleanup_all. Qed.
Print Assumptions C14_cleanup.

(* ... and a task inside its finally can always get there by its own steps alone, whatever the others do *)
Theorem C14_exit_reachable : forall cfg, d_live_iter cfg = false ->
  forall s t cur n0 incb brk,
    phase_of s t = PFin cur n0 incb brk -> tr_creq (st_task s t) = false -> (incb = true -> brk = false) ->
    exists ls s', (forall l, In l ls -> owner l = Some t) /\ run_from cfg s ls = Some s' /\ phase_of s' t = PDone.
Proof. exact can_finish. Qed.
Print Assumptions C14_exit_reachable.

(* C14_callbacks_once: the done-callbacks called for a finished task are exactly the entries of its callback table at the
   moment its body ended, in insertion order, one per callback function ... *)
Theorem C14_callbacks_once : forall cfg,
  d_cb_raise_breaks cfg = false /\ d_fin_cancel_escapes cfg = false /\ d_live_iter cfg = false ->
  forall ls s t, run cfg ls = Some s -> phase_of s t = PDone ->
  calls s t = tbl_live (tr_snap (st_task s t)) /\ NoDup (map fst (calls s t)).
Proof. exact callbacks_once. Qed.
Print Assumptions C14_callbacks_once.

(* ... i.e. a callback registered with argument a and not removed ran exactly once, with a; every other one did not run *)
Theorem C14_callbacks_exactly_once : forall cfg,
  d_cb_raise_breaks cfg = false /\ d_fin_cancel_escapes cfg = false /\ d_live_iter cfg = false ->
  forall ls s t j, run cfg ls = Some s -> phase_of s t = PDone ->
  filter (fun p => N.eqb (fst p) j) (calls s t) =
  match tbl_lookup j (tbl_live (tr_snap (st_task s t))) with Some a => [(j, a)] | None => [] end.
Proof. exact callbacks_exactly_once. Qed.
Print Assumptions C14_callbacks_exactly_once.

(* where [tr_snap] is the table when the body ended, and the table obeys: add registers/replaces the arguments of that
   callback function only, remove unregisters that callback function only *)
Theorem C14_snapshot_is_table_at_body_end : forall cfg s t o s',
  step cfg s (LEnd t o) = Some s' -> tr_snap (st_task s' t) = table_of s t /\ tr_out (st_task s' t) = Some o.
Proof. exact snapshot_at_body_end. Qed.
Print Assumptions C14_snapshot_is_table_at_body_end.
Theorem C14_add_remove_meaning : forall j a t,
  tbl_lookup j (tbl_live (tbl_add j a t)) = Some a /\
  (forall j', j' <> j -> tbl_lookup j' (tbl_live (tbl_add j a t)) = tbl_lookup j' (tbl_live t)) /\
  (NoDup (keys t) -> tbl_lookup j (tbl_live (tbl_rem j t)) = None) /\
  (forall j', j' <> j -> tbl_lookup j' (tbl_live (tbl_rem j t)) = tbl_lookup j' (tbl_live t)).
Proof. exact (fun j a t => conj (add_registers j a t) (conj (add_keeps_others j a t) (conj (rem_unregisters j t) (rem_keeps_others j t)))). Qed.
Print Assumptions C14_add_remove_meaning.

(* with D20 and D143 repaired, add_done_callback on any run whose body is executing registers the callback *)
Theorem C14_add_registers_on_running : forall cfg, d_service_no_cbrec cfg = false -> d_shutdown_no_cbrec cfg = false ->
  forall ls s t x j a, run cfg ls = Some s -> running s t = true -> phase_of s x = PBody ->
  exists tb, st_cb s x = Some tb /\ step cfg s (LAdd t x j a) = Some (set_cb s x (Some (tbl_add j a tb))).
Proof. exact add_registers_on_running. Qed.
Print Assumptions C14_add_registers_on_running.

(* C14_independent (a): whether run r can take its next step depends on r's own record only - never on what another
   run is doing (sleeping, waiting, raising, being cancelled) *)
Theorem C14_independent_enabled : forall cfg s1 s2 l r,
  d_live_iter cfg = false -> d_call_cancel_kills cfg = false -> owner l = Some r -> st_task s1 r = st_task s2 r ->
  (step cfg s1 l <> None <-> step cfg s2 l <> None).
Proof. exact enabled_local. Qed.
Print Assumptions C14_independent_enabled.

(* (b) a step of run r never changes phase, pending cancellation or outcome of another run r' *)
Theorem C14_independent_frame : forall cfg s l s' r r',
  step cfg s l = Some s' -> owner l = Some r -> r' <> r -> st_task s' r' = st_task s r'.
Proof. exact step_frame. Qed.
Print Assumptions C14_independent_frame.

(* (c) the only steps that do are the reaper executing the cancel request at the head of its queue - a task gets into that
   queue only by a task.cancel naming it or a task.unique taking over a name it owns - and asyncio handing the pending
   cancellation of a run blocked in a blocking service.call on to the service run it awaits *)
Theorem C14_only_requested_cancels : forall cfg s l s' x,
  step cfg s l = Some s' ->
  (owner l <> Some x -> st_task s' x <> st_task s x ->
   (l = LReaper /\ hd_error (st_rq s) = Some x) \/ (exists t, l = LPropCancel t x /\ tr_creq (st_task s t) = true)) /\
  (In x (st_rq s') -> In x (st_rq s) \/ (exists src, l = LCancel src x) \/
                      (exists t n, l = LClaim t n /\ st_n2t s n = Some x /\ x <> t)).
Proof. exact (fun cfg s l s' x H => conj (only_reaper_cancels cfg s l s' x H) (rq_only_by_request cfg s l s' x H)). Qed.
Print Assumptions C14_only_requested_cancels.

(* C14_reaper_serialises: the reaper never delivers a second cancellation to a task (so a cancellation cannot strike the
   finally of a task that is being cancelled) - for every configuration *)
Theorem C14_reaper_serialises : forall cfg ls s, run cfg ls = Some s -> forall t, (tr_ncancel (st_task s t) <= 1)%nat.
Proof. exact reaper_serialises. Qed.
Print Assumptions C14_reaper_serialises.

(* ---- the code as it is violates the conformant statements: one witness per open finding ---- *)
Local Open Scope N_scope.
Theorem C14_refuted_D22 :
  exists s, run (mkDev true false false false false false) wit_d22 = Some s /\ phase_of s 0 = PDone /\
            tbl_live (tr_snap (st_task s 0)) = [(0, 5); (1, 6)]%N /\ calls s 0 = [(0, 5)]%N.
Proof. exact refuted_D22. Qed.
Print Assumptions C14_refuted_D22.

Theorem C14_refuted_D20 :
  exists s0 s, run (mkDev false true false false false false) (firstn 2 wit_d20) = Some s0 /\ running s0 0 = true /\ phase_of s0 0 = PBody /\
               run (mkDev false true false false false false) wit_d20 = Some s /\ st_cb s 0 = None /\ tr_out (st_task s 0) = Some ORaise.
Proof. exact refuted_D20. Qed.
Print Assumptions C14_refuted_D20.

Theorem C14_refuted_D140 :
  exists s, run (mkDev false false true false false false) wit_d140 = Some s /\ phase_of s 0 = PDone /\
            st_ours s 0 = true /\ st_cb s 0 <> None /\ st_ctx s 0 = true /\ st_t2n s 0 <> None /\ st_n2t s 3 = Some 0%N /\
            calls s 0 = [(0, 5)]%N /\ tr_out (st_task s 0) = Some (ORet (Some 7%N)) /\ tr_final (st_task s 0) = Some OCancel.
Proof. exact refuted_D140. Qed.
Print Assumptions C14_refuted_D140.

Theorem C14_refuted_D141 :
  exists s, run (mkDev false false false true false false) wit_d141 = Some s /\ phase_of s 0 = PDone /\
            st_ours s 0 = true /\ st_cb s 0 <> None /\ st_ctx s 0 = true /\
            calls s 0 = [(0, 5)]%N /\ tr_final (st_task s 0) = Some OEscape.
Proof. exact refuted_D141. Qed.
Print Assumptions C14_refuted_D141.

(* D142: the blocking caller of a cancelled service run ends cancelled without any cancellation delivered to it; with the
   switch off no such step exists *)
Theorem C14_refuted_D142 :
  exists s, run (mkDev false false false false true false) wit_d142 = Some s /\ phase_of s 0 = PDone /\
            tr_final (st_task s 0) = Some OCancel /\ tr_ncancel (st_task s 0) = 0%nat.
Proof. exact refuted_D142. Qed.
Print Assumptions C14_refuted_D142.
Theorem C14_callee_cancel_spares_caller : forall cfg s t x, d_call_cancel_kills cfg = false -> step cfg s (LCallKilled t x) = None.
Proof. exact callee_cancel_spares_caller. Qed.
Print Assumptions C14_callee_cancel_spares_caller.

Theorem C14_refuted_D143 :
  exists s0 s, run (mkDev false false false false false true) (firstn 2 wit_d143) = Some s0 /\ running s0 0 = true /\ st_ctx s0 0 = true /\
               run (mkDev false false false false false true) wit_d143 = Some s /\ st_cb s 0 = None /\ tr_out (st_task s 0) = Some ORaise.
Proof. exact refuted_D143. Qed.
Print Assumptions C14_refuted_D143.

(* the hypothesis of C14_independent_enabled is necessary *)
Theorem C14_independent_refuted_D141 :
  exists s1 s2, st_task s1 0%N = st_task s2 0%N /\
    (exists s', step (mkDev false false false true false false) s1 (LExit 0) = Some s' /\ st_cb s' 0 = None) /\
    (exists s', step (mkDev false false false true false false) s2 (LExit 0) = Some s' /\ st_cb s' 0 <> None).
Proof. exact independent_needs_D141_off. Qed.
Print Assumptions C14_independent_refuted_D141.
