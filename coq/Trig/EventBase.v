(* Trig/EventBase.v — value domain shared by the C08 model, its generated tables (Gen/EventFlowConsts.v)
   and the correspondence files.  No proofs here (see Proofs/TrigEventFlow.v).

   Strings are interned by the harness (id 0 = the empty string).  The ids below are FIXED: the translator
   (harness/vh/props/c08.py) maps the string constants it reads from event.py / mqtt.py / webhook.py /
   decorators/*.py / trigger.py / function.py / state.py to these ids and fails closed on any other string. *)
From PV Require Import Common.Util.

Definition s_empty : N := 0.
Definition s_trigger_type : N := 1.
Definition s_event_type : N := 2.
Definition s_context : N := 3.
Definition s_event : N := 4.
Definition s_mqtt : N := 5.
Definition s_webhook : N := 6.
Definition s_topic : N := 7.
Definition s_payload : N := 8.
Definition s_qos : N := 9.
Definition s_retain : N := 10.
Definition s_payload_obj : N := 11.
Definition s_webhook_id : N := 12.
Definition s_rid : N := 13.          (* harness: run id a generated function puts into everything it emits *)
Definition s_ai : N := 14.           (* harness: index of the scripted action *)

(* Python values as far as the property can see them.  [VOther id truthy] is any other value (list, dict,
   float ...) interned by the harness up to Python equality, together with its truth value. *)
Inductive val :=
  | VInt (z : Z) | VStr (s : N) | VNone | VBool (b : bool)
  | VCtx (c : N)                      (* a homeassistant.core.Context object, by canonical id *)
  | VOther (id : N) (truthy : bool).

Definition val_eqb (a b : val) : bool :=
  match a, b with
  | VInt x, VInt y => Z.eqb x y
  | VStr x, VStr y => N.eqb x y
  | VNone, VNone => true
  | VBool x, VBool y => Bool.eqb x y
  | VCtx x, VCtx y => N.eqb x y
  | VOther x t, VOther y u => N.eqb x y && Bool.eqb t u
  | _, _ => false
  end.

(* keyword arguments = a Python dict with string keys: association list, unique keys, insertion order *)
Definition kwargs := list (N * val).

Fixpoint kw_get (k : N) (kw : kwargs) : option val :=
  match kw with
  | [] => None
  | (k', v) :: r => if N.eqb k k' then Some v else kw_get k r
  end.

(* d[k] = v : replace in place, else append *)
Fixpoint kw_set (kw : kwargs) (k : N) (v : val) : kwargs :=
  match kw with
  | [] => [(k, v)]
  | (k', v') :: r => if N.eqb k k' then (k', v) :: r else (k', v') :: kw_set r k v
  end.

(* a.update(b) *)
Definition kw_update (a b : kwargs) : kwargs := fold_left (fun acc kv => kw_set acc (fst kv) (snd kv)) b a.

(* del d[k] *)
Fixpoint kw_del (k : N) (kw : kwargs) : kwargs :=
  match kw with
  | [] => []
  | (k', v) :: r => if N.eqb k k' then r else (k', v) :: kw_del k r
  end.

Definition kw_has (k : N) (kw : kwargs) : bool := match kw_get k kw with Some _ => true | None => false end.

(* dict equality (order-insensitive); both sides have unique keys *)
Definition kw_sub (a b : kwargs) : bool :=
  forallb (fun kv => match kw_get (fst kv) b with Some v' => val_eqb (snd kv) v' | None => false end) a.
Definition kw_eqb (a b : kwargs) : bool := kw_sub a b && kw_sub b a && Nat.eqb (length a) (length b).

(* where a field of the func_args dict literal comes from (read from the source by the translator) *)
Inductive src :=
  | SConst (v : val)                  (* a string constant *)
  | SKey                              (* event.event_type / webhook_id : what was subscribed / fired *)
  | SCtx                              (* event.context *)
  | SAttr (a : N).                    (* mqttmsg.<a> / the decoded request body *)

Inductive kind := KEvent | KMqtt | KWebhook.
Definition kind_eqb (a b : kind) : bool :=
  match a, b with KEvent, KEvent | KMqtt, KMqtt | KWebhook, KWebhook => true | _, _ => false end.

(* filter expressions of @event_trigger / @mqtt_trigger / @webhook_trigger (second argument), the fragment the
   generator produces; rendered to Python source by the harness *)
Inductive fexpr :=
  | FVar (k : N)                                  (* name            (truth value of the variable) *)
  | FCmp (op : cmpop) (k : N) (lit : val)         (* name <op> literal *)
  | FInt (op : cmpop) (k : N) (lit : Z)           (* int(name) <op> literal       ValueError / TypeError on non-numbers *)
  | FDiv (op : cmpop) (k : N) (lit : Z)           (* 6 // name <op> literal       ZeroDivisionError / TypeError *)
  | FLookup (k : N) (tbl : list (Z * bool))       (* {k1: b1, ...}[name]          KeyError / TypeError (unhashable) *)
  | FNot (a : fexpr)
  | FAnd (a b : fexpr)
  | FOr (a b : fexpr).
