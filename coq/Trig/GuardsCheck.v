(* Trig/GuardsCheck.v — what the generated correspondence files evaluate for C07.
   [gcase_model_ok cfg]: the Model (with the measured deviation switches) reproduces, occurrence by occurrence, whether the
                          real pyscript ran the function (tie T2), nothing else ran, and the wall-clock instant the real code
                          handed to timer_active_check is the occurrence time the Model was given.
   [gcase_spec_ok]      : what the real code did is what the property demands. *)
From PV Require Import Common.Util Gen.GuardConsts Time.Windows Trig.Guards.

Local Open Scope Z_scope.

Record gcase := {
  gc_legacy : bool;                 (* subsystem *)
  gc_guards : guards;
  gc_startup : Z;                   (* observed: start-up time of the trigger (only "now"-relative ranges use it) *)
  gc_sun : suntab;                  (* external: sunrise/sunset table *)
  gc_occs : list occ;
  gc_exact : list bool;             (* the occurrence's wall time is controlled to the microsecond *)
  gc_seen : list (option Z);        (* observed: `now` passed to the real timer_active_check (None: not called) *)
  gc_runs : list bool;              (* observed: a run of the function is recorded for the occurrence *)
  gc_extra : N                      (* observed: runs not attributable to any occurrence + logged errors *)
}.

(* compact constructors for the generated case files (entity ids: 0 = trigger variable, 1 = unwatched entity,
   2 = an entity that never exists) *)
Definition mk_occ (k : okind) (grp : N) (mono wall : Z) (trig last : env) (x y : option N) : occ :=
  {| o_kind := k; o_grp := grp; o_mono := mono; o_wall := wall; o_trig := trig; o_last := last;
     o_cur := [(0%N, x); (1%N, y); (2%N, None)] |}.
Definition mk_guards (sa : option sexpr) (ta : option (list sspec)) (hold : option Z) (ta_first : bool) : guards :=
  {| g_sa := sa; g_ta := ta; g_hold := hold; g_ta_first := ta_first |}.
Definition mk_cron (mi h d mo w : list Z) (ds ws : bool) : window :=
  WCron {| c_min := mi; c_hour := h; c_dom := d; c_mon := mo; c_dow := w; c_dom_star := ds; c_dow_star := ws |}.

Definition bools_eqb := list_eqb Bool.eqb.

Fixpoint seen_ok (occs : list occ) (exact : list bool) (seen : list (option Z)) : bool :=
  match occs, exact, seen with
  | o :: r, x :: xr, s :: sr =>
      match s with
      | None => true
      | Some t => if x then t =? o_wall o else Z.abs (t - o_wall o) <=? 50
      end && seen_ok r xr sr
  | [], _, _ => true
  | _, _, _ => false
  end.

Definition gcase_model (cfg : deviations) (c : gcase) : list bool :=
  accepted_model (gc_legacy c) cfg (gc_guards c) (gc_startup c) (gc_sun c) (gc_occs c).
Definition gcase_spec (c : gcase) : list bool :=
  accepted_spec (gc_guards c) (gc_startup c) (gc_sun c) (gc_occs c).

Definition gcase_model_ok (cfg : deviations) (c : gcase) : bool :=
  bools_eqb (gcase_model cfg c) (gc_runs c) && N.eqb (gc_extra c) 0
  && seen_ok (gc_occs c) (gc_exact c) (gc_seen c).

Definition gcase_spec_ok (c : gcase) : bool :=
  bools_eqb (gcase_spec c) (gc_runs c) && N.eqb (gc_extra c) 0.

(* which open findings explain a Spec failure: the Model with the measured switches reproduces the observation, and
   switching the named deviation(s) off makes the Model agree with the Spec on this case *)
Definition switch_off (cfg : deviations) (ks : list nat) : deviations :=
  {| d_time_active_per_arg := d_time_active_per_arg cfg && negb (existsb (Nat.eqb 15) ks);
     d_hold_early_update := d_hold_early_update cfg && negb (existsb (Nat.eqb 70) ks);
     d_stale_active_vars := d_stale_active_vars cfg && negb (existsb (Nat.eqb 71) ks);
     d_hold_per_trigger := d_hold_per_trigger cfg && negb (existsb (Nat.eqb 72) ks) |}.
Definition is_on (cfg : deviations) (k : nat) : bool :=
  (Nat.eqb k 15 && d_time_active_per_arg cfg) || (Nat.eqb k 70 && d_hold_early_update cfg)
  || (Nat.eqb k 71 && d_stale_active_vars cfg) || (Nat.eqb k 72 && d_hold_per_trigger cfg).

Definition gcase_attrib (cfg : deviations) (c : gcase) : list nat :=
  if negb (gcase_model_ok cfg c) then [] else
  let sp := gcase_spec c in
  let cands := [[15]; [70]; [71]; [72]; [15; 70]; [15; 71]; [70; 71]; [15; 72]; [70; 72]; [71; 72];
                [15; 70; 71]; [15; 70; 72]; [15; 71; 72]; [70; 71; 72]; [15; 70; 71; 72]]%nat in
  match filter (fun ks => forallb (is_on cfg) ks && bools_eqb (gcase_model (switch_off cfg ks) c) sp) cands with
  | ks :: _ => ks
  | [] => []
  end.

Definition gcase_explain (cfg : deviations) (c : gcase) :=
  (gcase_model cfg c, gcase_spec c, gc_runs c, gc_extra c,
   map (fun o => (o_mono o, o_wall o)) (gc_occs c), gc_seen c).

(* ---------- several functions in one scenario (same trigger entity, shared guard entities) ---------- *)
(* every function is judged on its own occurrence list: its guard sees the values at its own occurrence *)
Definition mcase : Type := list gcase.
Definition mcase_model_ok (cfg : deviations) (m : mcase) : bool := forallb (gcase_model_ok cfg) m.
Definition mcase_spec_ok (m : mcase) : bool := forallb gcase_spec_ok m.
Definition mcase_attrib (cfg : deviations) (m : mcase) : list nat :=
  let bad := filter (fun c => negb (gcase_spec_ok c)) m in
  if existsb (fun c => match gcase_attrib cfg c with [] => true | _ => false end) bad then []
  else nodup Nat.eq_dec (concat (map (gcase_attrib cfg) bad)).
Definition mcase_explain (cfg : deviations) (m : mcase) := map (gcase_explain cfg) m.
