(* Trig/HoldCheck.v — what the generated correspondence files evaluate for C05.
   [hcase_model_ok dv]: the Model (with the measured deviation switches) reproduces the runs the real code made.
   [hcase_spec_ok]    : the runs the real code made are the ones the Spec demands (cases outside the property's
                        quantifier — ties, unsorted times, "any change" entries under state_hold_false — are not judged).
   [hcase_attrib dv]  : which open findings explain a Spec failure. *)
From PV Require Import Common.Util Gen.HoldConsts Trig.Hold.
Local Open Scope Z_scope.

Record hcase := {
  hc_legacy : bool;          (* legacy_decorators: true *)
  hc_wu : bool;              (* task.wait_until instead of @state_trigger *)
  hc_cfg : hcfg;
  hc_init : bool;            (* truth of the expression when the trigger is defined *)
  hc_tmo : option Z;         (* task.wait_until(timeout=) ; only with hc_wu *)
  hc_hist : history;
  hc_obs : list run;         (* observed runs: virtual time rounded to ms (given in us), argument id *)
  hc_clean : bool            (* nothing logged at ERROR level, harness bookkeeping consistent *)
}.

Definition model_runs (dv : deviations) (c : hcase) : list run :=
  if hc_wu c then
    (if hc_legacy c then wul_runs_t else wud_runs_t) dv (hc_cfg c) (hc_tmo c) (hc_init c) (hc_hist c)
  else (if hc_legacy c then legacy_runs else dm_runs) dv (hc_cfg c) (hc_init c) (hc_hist c).
Definition spec_of (c : hcase) : list run :=
  if hc_wu c then spec_runs_t (hc_cfg c) (hc_tmo c) (hc_init c) (hc_hist c)
  else spec_runs false (hc_cfg c) (hc_init c) (hc_hist c).

(* run times are compared at millisecond resolution *)
Definition run_close (a b : run) : bool := (Z.abs (fst a - fst b) <? 1000) && N.eqb (snd a) (snd b).
Definition runs_close : list run -> list run -> bool := list_eqb run_close.
Definition run_eqb (a b : run) : bool := Z.eqb (fst a) (fst b) && N.eqb (snd a) (snd b).
Definition runs_eqb : list run -> list run -> bool := list_eqb run_eqb.

Definition hcase_model_ok (dv : deviations) (c : hcase) : bool :=
  hc_clean c && runs_close (model_runs dv c) (hc_obs c).

Definition hcase_in_scope (c : hcase) : bool :=
  sorted_times (hc_hist c) && no_ties_t (hc_cfg c) (if hc_wu c then hc_tmo c else None) (hc_hist c)
  && any_ok (hc_cfg c) (hc_hist c).

Definition hcase_spec_ok (c : hcase) : bool :=
  negb (hcase_in_scope c) || runs_close (spec_of c) (hc_obs c).

(* ---------- attribution of a Spec failure to open findings ---------- *)
Definition with_off (k : nat) (dv : deviations) : deviations :=
  {| d_irr_as_false := if Nat.eqb k 14 then false else d_irr_as_false dv;
     d_latest_args := if Nat.eqb k 50 then false else d_latest_args dv;
     d_dm_start_hf := if Nat.eqb k 51 then false else d_dm_start_hf dv;
     d_wul_init_false := if Nat.eqb k 52 then false else d_wul_init_false dv;
     d_wud_drop_hf := if Nat.eqb k 53 then false else d_wud_drop_hf dv |}.
Definition switches (dv : deviations) : list (nat * bool) :=
  [(14%nat, d_irr_as_false dv); (50%nat, d_latest_args dv); (51%nat, d_dm_start_hf dv);
   (52%nat, d_wul_init_false dv); (53%nat, d_wud_drop_hf dv)].

(* Dk is blamed iff the Model under the measured switches reproduces the observation, the Model with every
   switch off satisfies the Spec on this case, and switch k is on and makes a difference on this case
   (if no single switch does, all switches that are on are blamed together). *)
Definition hcase_attrib (dv : deviations) (c : hcase) : list nat :=
  if hcase_model_ok dv c && runs_eqb (model_runs no_dev c) (spec_of c) then
    let base := model_runs dv c in
    let on := filter (fun p => snd p) (switches dv) in
    let act := filter (fun p => negb (runs_eqb (model_runs (with_off (fst p) dv) c) base)) on in
    match act with
    | [] => map fst on
    | _ => map fst act
    end
  else [].

Definition hcase_explain (dv : deviations) (c : hcase) :=
  (model_runs dv c, spec_of c, hc_obs c, (hcase_in_scope c, hc_clean c)).
