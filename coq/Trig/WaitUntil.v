(* Trig/WaitUntil.v — executable model of ONE task.wait_until call as a state machine over a timed history.
   Anchors: trigger.py TrigTime.wait_until (l.219-596, legacy subsystem: subscribe, loop, unsubscribe) and
   decorator.py DecoratorRegistry.wait_until / WaitUntilDecoratorManager with decorators/state.py|timing.py|event.py
   (default subsystem: temporary decorator manager resolved by the first dispatch).
   Times are milliseconds (Z) relative to the instant of the call.  No proofs here (Proofs/TrigWaitUntil.v). *)
From PV Require Import Common.Util Gen.WaitConsts.
Local Open Scope Z_scope.

(* ---------- the timed history around the call ---------- *)
Inductive sres := STrue | SFalse | SRaise.      (* what evaluating a condition gives *)

Inductive occ :=
  | OState (r : sres) (n : N)     (* the watched state variable gets a new value; the state expression gives r *)
  | OAttr (n : N)                 (* attribute-only update of the watched variable (delivered, but not a change) *)
  | OUnw                          (* unwatched entity / unrelated event type: never delivered to the wait *)
  | OEvent (r : sres) (n : N)     (* event of the awaited type; its filter gives r (STrue when there is no filter) *)
  | OCancel.                      (* the waiting task is cancelled (task.cancel / task.unique) *)
Definition hist := list (Z * occ).

(* ---------- arguments of the call ---------- *)
Record wargs := {
  a_state : bool;                 (* state_trigger=<expression> given *)
  a_cn : option bool;             (* state_check_now (None = not passed) *)
  a_hold : option Z;              (* state_hold *)
  a_hf : option Z;                (* state_hold_false *)
  a_times : option (list Z);      (* time_trigger=[once(now + o) ...]: offsets o; o <= 0 has no future instant *)
  a_event : bool;                 (* event_trigger given *)
  a_timeout : option Z;           (* timeout (0 allowed) *)
  a_badexpr : bool;               (* a further mqtt_/webhook_trigger whose condition does not parse *)
  a_shared : bool                 (* other legacy listeners of the awaited event type exist (they share one bus listener) *)
}.

(* ---------- exits ---------- *)
Inductive ret := RState (n : N) | REvent (n : N) | RTime (at_ : Z) | RTimeout | RNone.
   (* RState 0 = the immediate check: dictionary {trigger_type: state} only *)
Inductive ekind := EState | EEvent | ESyntax | EOther.
Inductive exit := XRet (r : ret) | XExc (k : ekind) | XCancelled | XPending.

(* ---------- the ledger of what is registered ---------- *)
Record ledger := { lg_state : N;     (* queues subscribed to state variables (State.notify) *)
                   lg_evq : N;       (* queues subscribed to event types (Event.notify, legacy) *)
                   lg_bus : N;       (* listeners on the HA event bus *)
                   lg_tasks : N }.   (* trigger cycle tasks with their timers (default subsystem) *)
Definition lg_zero : ledger := {| lg_state := 0; lg_evq := 0; lg_bus := 0; lg_tasks := 0 |}.
Definition lg_add (a b : ledger) : ledger :=
  {| lg_state := lg_state a + lg_state b; lg_evq := lg_evq a + lg_evq b; lg_bus := lg_bus a + lg_bus b;
     lg_tasks := lg_tasks a + lg_tasks b |}%N.
Definition lg_sub (a b : ledger) : ledger :=
  {| lg_state := lg_state a - lg_state b; lg_evq := lg_evq a - lg_evq b; lg_bus := lg_bus a - lg_bus b;
     lg_tasks := lg_tasks a - lg_tasks b |}%N.
Definition lg_eqb (a b : ledger) : bool :=
  (lg_state a =? lg_state b)%N && (lg_evq a =? lg_evq b)%N && (lg_bus a =? lg_bus b)%N && (lg_tasks a =? lg_tasks b)%N.
Definition b2n (b : bool) : N := if b then 1%N else 0%N.

Record result := { r_exit : exit; r_time : Z; r_ledger : ledger }.
Definition done (x : exit) (t : Z) (l : ledger) : result := {| r_exit := x; r_time := t; r_ledger := l |}.
Definition outcome (r : result) : exit * Z := (r_exit r, r_time r).     (* what the caller sees *)

(* ---------- deviation switches (on = what the code does today; all off = conformant) ---------- *)
Record deviations := {
  d_timeout0_falsy : bool;   (* D18  default subsystem: timeout=0 is "no timeout" *)
  d_leak_legacy : bool;      (* D19  legacy: no try/finally - a cancelled wait keeps its subscriptions *)
  d_leak_dm : bool;          (* D150 default subsystem half of D19: a cancelled wait never stops its decorators *)
  d_now_restarts : bool;     (* D151 legacy: `now` of once(now + o) is re-read at every wake-up of the loop *)
  d_badexpr_leak : bool;     (* D152 legacy: an unparsable mqtt/webhook condition releases the state subscription only *)
  d_none_eager : bool;       (* D153 default subsystem: 'none' as soon as the time triggers are exhausted, whatever else is awaited *)
  d_hold_latest : bool;      (* D154 default subsystem: after state_hold the dict of the LATEST still-true change is returned *)
  d_hold_attr_cancels : bool (* D155 default subsystem: an attribute-only update counts as a false evaluation and cancels a pending state_hold *)
}.
Definition all_off : deviations :=
  {| d_timeout0_falsy := false; d_leak_legacy := false; d_leak_dm := false; d_now_restarts := false;
     d_badexpr_leak := false; d_none_eager := false; d_hold_latest := false; d_hold_attr_cancels := false |}.

(* exactly one switch on: the code's behaviour for one finding in isolation *)
Definition only_D18 : deviations :=
  {| d_timeout0_falsy := true; d_leak_legacy := false; d_leak_dm := false; d_now_restarts := false;
     d_badexpr_leak := false; d_none_eager := false; d_hold_latest := false; d_hold_attr_cancels := false |}.
Definition only_D19 : deviations :=
  {| d_timeout0_falsy := false; d_leak_legacy := true; d_leak_dm := false; d_now_restarts := false;
     d_badexpr_leak := false; d_none_eager := false; d_hold_latest := false; d_hold_attr_cancels := false |}.
Definition only_D150 : deviations :=
  {| d_timeout0_falsy := false; d_leak_legacy := false; d_leak_dm := true; d_now_restarts := false;
     d_badexpr_leak := false; d_none_eager := false; d_hold_latest := false; d_hold_attr_cancels := false |}.
Definition only_D151 : deviations :=
  {| d_timeout0_falsy := false; d_leak_legacy := false; d_leak_dm := false; d_now_restarts := true;
     d_badexpr_leak := false; d_none_eager := false; d_hold_latest := false; d_hold_attr_cancels := false |}.
Definition only_D152 : deviations :=
  {| d_timeout0_falsy := false; d_leak_legacy := false; d_leak_dm := false; d_now_restarts := false;
     d_badexpr_leak := true; d_none_eager := false; d_hold_latest := false; d_hold_attr_cancels := false |}.
Definition only_D153 : deviations :=
  {| d_timeout0_falsy := false; d_leak_legacy := false; d_leak_dm := false; d_now_restarts := false;
     d_badexpr_leak := false; d_none_eager := true; d_hold_latest := false; d_hold_attr_cancels := false |}.

Definition only_D154 : deviations :=
  {| d_timeout0_falsy := false; d_leak_legacy := false; d_leak_dm := false; d_now_restarts := false;
     d_badexpr_leak := false; d_none_eager := false; d_hold_latest := true; d_hold_attr_cancels := false |}.
Definition only_D155 : deviations :=
  {| d_timeout0_falsy := false; d_leak_legacy := false; d_leak_dm := false; d_now_restarts := false;
     d_badexpr_leak := false; d_none_eager := false; d_hold_latest := false; d_hold_attr_cancels := true |}.

(* ---------- helpers ---------- *)
(* value of the state expression at the call: the last change before it *)
Definition truth_after (init : sres) (pre : hist) : sres :=
  fold_left (fun s (x : Z * occ) => match snd x with OState r _ => r | _ => s end) pre init.

Definition future_offs (a : wargs) : list Z :=
  match a_times a with Some l => filter (fun o => 0 <? o) l | None => [] end.

(* leftmost earliest candidate *)
Fixpoint earliest (l : list (Z * ret)) : option (Z * ret) :=
  match l with
  | [] => None
  | (t, r) :: rest =>
      match earliest rest with
      | Some (t', r') => if t <=? t' then Some (t, r) else Some (t', r')
      | None => Some (t, r)
      end
  end.

Definition opt_list {A} (o : option A) : list A := match o with Some x => [x] | None => [] end.

(* ---------- the wait loop (both subsystems) ---------- *)
Record lparams := {
  lp_state : bool;            (* subscribed to the state variable *)
  lp_event : bool;            (* subscribed to the event type *)
  lp_hold : option Z;
  lp_hf : option Z;           (* state_hold_false *)
  lp_offs : list Z;           (* positive offsets of the time triggers *)
  lp_timeout : option Z;      (* effective timeout *)
  lp_restart : bool;          (* every wake-up re-bases the time triggers *)
  lp_leak : bool;             (* cancellation skips the epilogue *)
  lp_latest : bool;           (* a still-true change during a hold period replaces the dictionary to return *)
  lp_attr_false : bool;       (* an attribute-only update ends a running hold period *)
  lp_subs : ledger            (* what the prologue registered *)
}.

(* a state_hold period running since (ts, n) ends at ts + H with the dictionary of occurrence n *)
Definition expiry (hold : option Z) (hp : option (Z * N)) : option (Z * ret) :=
  match hp, hold with Some (ts, n), Some H => Some (ts + H, RState n) | _, _ => None end.

Definition hold_timer (p : lparams) (hp : option (Z * N)) : list (Z * ret) := opt_list (expiry (lp_hold p) hp).

Definition timers (p : lparams) (base : Z) (hp : option (Z * N)) : list (Z * ret) :=
  map (fun o => (base + o, RTime (base + o))) (lp_offs p) ++ map (fun T => (T, RTimeout)) (opt_list (lp_timeout p))
  ++ hold_timer p hp.

Definition wake (p : lparams) (base t : Z) : Z := if lp_restart p then t else base.

(* state_hold_false: [fp] = start of the running false period of the expression (None: the expression is true, or the
   option is not used).  A true evaluation counts only when the expression has been false for at least the duration. *)
Definition hf_passed (hf : option Z) (fp : option Z) (t : Z) : bool :=
  match hf with
  | None => true
  | Some d => match fp with Some f => d <=? t - f | None => false end
  end.
Definition fp_on_true (hf : option Z) (fp : option Z) : option Z := match hf with None => fp | Some _ => None end.
Definition fp_on_false (hf : option Z) (fp : option Z) (t : Z) : option Z :=
  match hf with None => fp | Some _ => match fp with None => Some t | Some f => Some f end end.

(* [L] is the ledger during the wait (prologue done).  Every exit except a leaking cancellation runs the epilogue. *)
Fixpoint loop (p : lparams) (L : ledger) (base : Z) (hp : option (Z * N)) (fp : option Z) (h : hist) : result :=
  let release := lg_sub L (lp_subs p) in
  match h with
  | [] =>
      match earliest (timers p base hp) with
      | Some (tm, r) => done (XRet r) tm release
      | None => done XPending 0 L
      end
  | (t, o) :: rest =>
      let deliver :=
        match o with
        | OCancel => done XCancelled t (if lp_leak p then L else release)
        | OUnw => loop p L base hp fp rest
        | OAttr _ => if lp_state p then
                       if lp_attr_false p then loop p L (wake p base t) None (fp_on_false (lp_hf p) fp t) rest
                       else loop p L (wake p base t) hp fp rest
                     else loop p L base hp fp rest
        | OState r n =>
            if lp_state p then
              match r with
              | SRaise => done (XExc EState) t release
              | STrue =>
                  if hf_passed (lp_hf p) fp t then
                    match lp_hold p with
                    | None => done (XRet (RState n)) t release
                    | Some _ => loop p L (wake p base t)
                                     (match hp with
                                      | None => Some (t, n)                       (* the hold period starts *)
                                      | Some (ts, m) => Some (ts, if lp_latest p then n else m)   (* never restarted *)
                                      end) (fp_on_true (lp_hf p) fp) rest
                    end
                  else loop p L (wake p base t)
                            (match hp with None => None | Some (ts, m) => Some (ts, if lp_latest p then n else m) end)
                            (fp_on_true (lp_hf p) fp) rest
              | SFalse => loop p L (wake p base t) None (fp_on_false (lp_hf p) fp t) rest
              end
            else loop p L base hp fp rest
        | OEvent r n =>
            if lp_event p then
              match r with
              | SRaise => done (XExc EEvent) t release
              | STrue => done (XRet (REvent n)) t release
              | SFalse => loop p L (wake p base t) hp fp rest
              end
            else loop p L base hp fp rest
        end in
      match earliest (timers p base hp) with
      | Some (tm, r) => if tm <=? t then done (XRet r) tm release else deliver
      | None => deliver
      end
  end.

(* ---------- prologues ---------- *)
Definition mkp (a : wargs) (timeout : option Z) (restart leak latest attr_false : bool) (subs : ledger) : lparams :=
  {| lp_state := a_state a; lp_event := a_event a; lp_hold := a_hold a; lp_hf := a_hf a; lp_offs := future_offs a;
     lp_timeout := timeout;
     lp_restart := restart; lp_leak := leak; lp_latest := latest; lp_attr_false := attr_false; lp_subs := subs |}.

Definition cn_eff (legacy : bool) (a : wargs) : bool :=
  match a_cn a with Some b => b | None => if legacy then wu_legacy_cn_default else wu_dm_cn_default end.

Definition no_args (a : wargs) : bool :=
  negb (a_state a) && negb (a_event a) && negb (a_badexpr a)
  && match a_times a with None => true | Some _ => false end.

(* what the check at the call does (the expression is evaluated when state_check_now or state_hold_false is in effect):
   Some exit = done at time 0; None = go on, with a hold period possibly pending and a false period possibly running *)
Definition immediate (cn : bool) (a : wargs) (truth : sres) : option exit * option (Z * N) * option Z :=
  if a_state a && (cn || match a_hf a with Some _ => true | None => false end) then
    match truth with
    | SRaise => (Some (XExc EState), None, None)
    | STrue => if cn then
                 match a_hold a with None => (Some (XRet (RState 0)), None, None) | Some _ => (None, Some (0, 0%N), None) end
               else (None, None, None)
    | SFalse => (None, None, fp_on_false (a_hf a) None 0)
    end
  else (None, None, None).

(* legacy: trigger.py TrigTime.wait_until *)
Definition legacy_state_subs (a : wargs) : ledger :=
  {| lg_state := b2n (a_state a); lg_evq := 0; lg_bus := 0; lg_tasks := 0 |}.
Definition legacy_event_subs (a : wargs) : ledger :=
  {| lg_state := 0; lg_evq := b2n (a_event a); lg_bus := b2n (a_event a && negb (a_shared a)); lg_tasks := 0 |}.

Definition run_legacy (cfg : deviations) (a : wargs) (L0 : ledger) (truth : sres) (h : hist) : result :=
  if no_args a then
    (* l.237-247: nothing to wait for: sleep(timeout) or 'none'; nothing is registered *)
    match a_timeout a with
    | None => done (XRet RNone) 0 L0
    | Some T => loop (mkp a (Some T) false false false false lg_zero) L0 0 None None h      (* no state/event/time trigger in [a] *)
    end
  else
    match immediate (cn_eff true a) a truth with
    | (Some x, _, _) => done x 0 L0                      (* l.294-316, before any subscription *)
    | (None, hp0, fp0) =>
        let L1 := lg_add (lg_add L0 (legacy_state_subs a)) (legacy_event_subs a) in
        if a_badexpr a then
          (* l.352-357 / 369-374: the except clause releases the state subscription only *)
          done (XExc ESyntax) 0
               (if d_badexpr_leak cfg then lg_sub L1 (legacy_state_subs a)
                else lg_sub (lg_sub L1 (legacy_state_subs a)) (legacy_event_subs a))
        else
          let offs := future_offs a in
          if negb (a_state a) && negb (a_event a)
             && match offs, a_timeout a with [], None => true | _, _ => false end
          then done (XRet RNone) 0 (lg_sub L1 (lg_add (legacy_state_subs a) (legacy_event_subs a)))   (* l.423-435 *)
          else
            loop (mkp a (a_timeout a) (d_now_restarts cfg) (d_leak_legacy cfg) false false
                      (lg_add (legacy_state_subs a) (legacy_event_subs a))) L1 0 hp0 fp0 h
    end.

(* default subsystem: DecoratorRegistry.wait_until + WaitUntilDecoratorManager; start order of the temporary
   manager: timeout (a time trigger), state, time, event; every decorator but the event one owns a cycle task *)
Definition dm_timeout (cfg : deviations) (a : wargs) : option Z :=
  match a_timeout a with
  | Some T => if d_timeout0_falsy cfg && (T =? 0) then None else Some T      (* `if timeout := kwargs.get("timeout")` *)
  | None => None
  end.

Definition dm_subs (cfg : deviations) (a : wargs) : ledger :=
  {| lg_state := b2n (a_state a); lg_evq := 0; lg_bus := b2n (a_event a);
     lg_tasks := b2n (a_state a) + b2n (match future_offs a with [] => false | _ => true end)
                 + b2n (match dm_timeout cfg a with Some _ => true | None => false end) |}%N.

Definition run_dm (cfg : deviations) (a : wargs) (L0 : ledger) (truth : sres) (h : hist) : result :=
  if no_args a && match a_timeout a with None => true | Some _ => false end then done (XRet RNone) 0 L0
  else if a_badexpr a then done (XExc ESyntax) 0 L0            (* dm.validate() raises before anything is started *)
  else
    let T := dm_timeout cfg a in
    if no_args a && match T with None => true | Some _ => false end
    then done (XExc EOther) 0 L0                               (* no decorators: dm.start() raises RuntimeError *)
    else
      match immediate (cn_eff false a) a truth with
      | (Some x, _, _) => done x 0 L0                          (* the dispatch inside start() stops everything started so far *)
      | (None, hp0, fp0) =>
          let offs := future_offs a in
          let only_time := negb (a_state a) && negb (a_event a) && match T with None => true | Some _ => false end in
          if match a_times a with Some _ => true | None => false end
             && match offs with [] => true | _ => false end
             && (d_none_eager cfg || only_time)
          then done (XRet RNone) 0 L0                          (* timing.py _cycle: time_next is None -> dispatch 'none' *)
          else
            let subs := dm_subs cfg a in
            loop (mkp a T false (d_leak_dm cfg) (d_hold_latest cfg) (d_hold_attr_cancels cfg) subs) (lg_add L0 subs) 0 hp0 fp0 h
      end.

Definition run (cfg : deviations) (legacy : bool) (a : wargs) (L0 : ledger) (init : sres) (pre h : hist) : result :=
  let truth := truth_after init pre in
  if legacy then run_legacy cfg a L0 truth h else run_dm cfg a L0 truth h.

(* ---------- Spec (from the property text) ---------- *)
(* "returns exactly when the first of its state, time or event conditions occurs after the call - or immediately if
   state_check_now is in effect and the state expression is already true -, 'timeout' after the timeout elapses
   without one, 'none' when only time triggers without any future instant were given":
   the outcome is the earlier of (a) the earliest fixed instant (future time-trigger instants, the timeout) and
   (b) the first qualifying occurrence of the history (state change making the expression true - held for state_hold -,
   matching event, a condition that raises, cancellation of the task); an instant wins a tie. *)
Definition spec_cn_default : bool := true.       (* documented default of state_check_now for task.wait_until *)

Definition statics (a : wargs) : list (Z * ret) :=
  map (fun o => (o, RTime o)) (future_offs a) ++ map (fun T => (T, RTimeout)) (opt_list (a_timeout a)).

(* first qualifying occurrence; [hp] = a state_hold period running since (ts, n) *)
Fixpoint first_occ (a : wargs) (hp : option (Z * N)) (fp : option Z) (h : hist) : option (Z * exit) :=
  match h with
  | [] => match expiry (a_hold a) hp with Some (te, r) => Some (te, XRet r) | None => None end
  | (t, o) :: rest =>
      let here :=
        match o with
        | OCancel => Some (t, XCancelled)
        | OUnw | OAttr _ => first_occ a hp fp rest
        | OState r n =>
            if a_state a then
              match r with
              | SRaise => Some (t, XExc EState)
              | STrue =>
                  if hf_passed (a_hf a) fp t then          (* false for long enough (or no state_hold_false) *)
                    match a_hold a with
                    | None => Some (t, XRet (RState n))
                    | Some _ => first_occ a (match hp with None => Some (t, n) | Some _ => hp end) (fp_on_true (a_hf a) fp) rest
                    end
                  else first_occ a hp (fp_on_true (a_hf a) fp) rest     (* too soon: wait for the next false period *)
              | SFalse => first_occ a None (fp_on_false (a_hf a) fp t) rest
              end
            else first_occ a hp fp rest
        | OEvent r n =>
            if a_event a then
              match r with
              | SRaise => Some (t, XExc EEvent)
              | STrue => Some (t, XRet (REvent n))
              | SFalse => first_occ a hp fp rest
              end
            else first_occ a hp fp rest
        end in
      match expiry (a_hold a) hp with
      | Some (te, r) => if te <=? t then Some (te, XRet r) else here
      | None => here
      end
  end.

Definition pick (s : option (Z * ret)) (o : option (Z * exit)) : exit * Z :=
  match s, o with
  | Some (ts, r), Some (t, x) => if ts <=? t then (XRet r, ts) else (x, t)
  | Some (ts, r), None => (XRet r, ts)
  | None, Some (t, x) => (x, t)
  | None, None => (XPending, 0)
  end.

Definition spec_run (a : wargs) (truth : sres) (h : hist) : exit * Z :=
  let cn := match a_cn a with Some b => b | None => spec_cn_default end in
  match immediate cn a truth with
  | (Some x, _, _) => (x, 0)
  | (None, hp0, fp0) =>
      if a_badexpr a then (XExc ESyntax, 0)
      else if negb (a_state a) && negb (a_event a) && match statics a with [] => true | _ => false end
      then (XRet RNone, 0)
      else pick (earliest (statics a)) (first_occ a hp0 fp0 h)
  end.

(* the timed histories the property quantifies over: instants after the call, in order *)
Fixpoint timed_from (lo : Z) (h : hist) : Prop :=
  match h with [] => True | (t, _) :: rest => lo <= t /\ timed_from t rest end.
Definition timed (h : hist) : Prop := timed_from 0 h.
Definition args_ok (a : wargs) : Prop :=
  match a_hold a with Some H => 0 <= H | None => True end /\ match a_timeout a with Some T => 0 <= T | None => True end.
