(* Trig/WaitUntilCheck.v — what the generated correspondence files evaluate for C15.
   [wcase_model_ok cfg]: the Model (under the measured deviation switches) reproduces what the real
   task.wait_until did: exit kind, returned dictionary (as occurrence id / instant), virtual return time and what
   stayed registered (tie T2).
   [wcase_spec_ok]: what the real code did satisfies the property. *)
From PV Require Import Common.Util Gen.WaitConsts Trig.WaitUntil.
Local Open Scope Z_scope.

Record wobs := {
  o_exit : exit;                       (* XPending = the task was still waiting when the scenario ended *)
  o_time : Z;                          (* virtual ms after the call at which the script reported / the task was gone *)
  o_dict_ok : bool;                    (* the returned dict is exactly what a decorator would pass for that occurrence *)
  o_leak : option (Z * Z * Z * Z);     (* (state subs, event queues, bus listeners, cycle tasks) after - before, once the task ended *)
  o_leak_end : Z * Z * Z * Z;          (* the same difference at the end of the scenario (after the rest of the history) *)
  o_late : N;                          (* further reports after the first (must be 0) *)
  o_other_ok : bool                    (* services, task registries, unique names unchanged *)
}.

Record wcase := {
  wc_legacy : bool;
  wc_args : wargs;
  wc_init : sres;                      (* state expression on the value before the whole history *)
  wc_pre : hist;                       (* occurrences before the call (negative instants) *)
  wc_hist : hist;                      (* occurrences after the call, cancellation included *)
  wc_obs : wobs
}.

Definition sres_eqb (a b : sres) : bool :=
  match a, b with STrue, STrue | SFalse, SFalse | SRaise, SRaise => true | _, _ => false end.
Definition ret_eqb (a b : ret) : bool :=
  match a, b with
  | RState n, RState m | REvent n, REvent m => N.eqb n m
  | RTime x, RTime y => x =? y
  | RTimeout, RTimeout | RNone, RNone => true
  | _, _ => false
  end.
Definition ekind_eqb (a b : ekind) : bool :=
  match a, b with EState, EState | EEvent, EEvent | ESyntax, ESyntax | EOther, EOther => true | _, _ => false end.
Definition exit_eqb (a b : exit) : bool :=
  match a, b with
  | XRet r, XRet s => ret_eqb r s
  | XExc k, XExc l => ekind_eqb k l
  | XCancelled, XCancelled | XPending, XPending => true
  | _, _ => false
  end.

Definition leak_of (l : ledger) : Z * Z * Z * Z :=
  (Z.of_N (lg_state l), Z.of_N (lg_evq l), Z.of_N (lg_bus l), Z.of_N (lg_tasks l)).
Definition leak_eqb (a b : Z * Z * Z * Z) : bool :=
  let '(a1, a2, a3, a4) := a in let '(b1, b2, b3, b4) := b in (a1 =? b1) && (a2 =? b2) && (a3 =? b3) && (a4 =? b4).

Definition model_of (cfg : deviations) (c : wcase) : result :=
  run cfg (wc_legacy c) (wc_args c) lg_zero (wc_init c) (wc_pre c) (wc_hist c).

(* exit, time and ledger agree; for a pending wait only the exit kind is compared *)
Definition outcome_matches (o : wobs) (x : exit) (t : Z) (leak : option (Z * Z * Z * Z)) : bool :=
  exit_eqb (o_exit o) x &&
  match x with
  | XPending => match o_leak o with None => true | Some _ => false end
  | _ => (o_time o =? t) &&
         match o_leak o, leak with
         | Some l, Some l' => leak_eqb l l'
         | Some _, None => true
         | None, _ => false
         end
  end.

Definition wcase_model_ok (cfg : deviations) (c : wcase) : bool :=
  let r := model_of cfg c in
  outcome_matches (wc_obs c) (r_exit r) (r_time r) (Some (leak_of (r_ledger r))).

(* The property on what the code did: first qualifying occurrence / instant, deaf outside, everything released. *)
Definition wcase_spec_ok (c : wcase) : bool :=
  let '(x, t) := spec_run (wc_args c) (truth_after (wc_init c) (wc_pre c)) (wc_hist c) in
  let o := wc_obs c in
  (outcome_matches o x t (Some (0, 0, 0, 0))
   (* calibration: when a condition does not parse AND the check at the call would already end the wait (return or raise),
      the property does not say which of the two comes first; the SyntaxError at the call is accepted as well *)
   || (a_badexpr (wc_args c) && outcome_matches o (XExc ESyntax) 0 (Some (0, 0, 0, 0))))
  && o_dict_ok o && N.eqb (o_late o) 0 && o_other_ok o
  && match o_exit o with XPending => true | _ => leak_eqb (o_leak_end o) (0, 0, 0, 0) end.

(* ---------- attribution of a Spec failure to deviation switches ---------- *)
Definition result_eqb (a b : result) : bool :=
  exit_eqb (r_exit a) (r_exit b) && (r_time a =? r_time b) && lg_eqb (r_ledger a) (r_ledger b).

Definition switch_table (cfg : deviations) : list (nat * bool * deviations) :=
  [
    (18%nat, d_timeout0_falsy cfg,
     {| d_timeout0_falsy := false; d_leak_legacy := d_leak_legacy cfg; d_leak_dm := d_leak_dm cfg; d_now_restarts := d_now_restarts cfg; d_badexpr_leak := d_badexpr_leak cfg; d_none_eager := d_none_eager cfg; d_hold_latest := d_hold_latest cfg; d_hold_attr_cancels := d_hold_attr_cancels cfg |});
    (19%nat, d_leak_legacy cfg,
     {| d_timeout0_falsy := d_timeout0_falsy cfg; d_leak_legacy := false; d_leak_dm := d_leak_dm cfg; d_now_restarts := d_now_restarts cfg; d_badexpr_leak := d_badexpr_leak cfg; d_none_eager := d_none_eager cfg; d_hold_latest := d_hold_latest cfg; d_hold_attr_cancels := d_hold_attr_cancels cfg |});
    (150%nat, d_leak_dm cfg,
     {| d_timeout0_falsy := d_timeout0_falsy cfg; d_leak_legacy := d_leak_legacy cfg; d_leak_dm := false; d_now_restarts := d_now_restarts cfg; d_badexpr_leak := d_badexpr_leak cfg; d_none_eager := d_none_eager cfg; d_hold_latest := d_hold_latest cfg; d_hold_attr_cancels := d_hold_attr_cancels cfg |});
    (151%nat, d_now_restarts cfg,
     {| d_timeout0_falsy := d_timeout0_falsy cfg; d_leak_legacy := d_leak_legacy cfg; d_leak_dm := d_leak_dm cfg; d_now_restarts := false; d_badexpr_leak := d_badexpr_leak cfg; d_none_eager := d_none_eager cfg; d_hold_latest := d_hold_latest cfg; d_hold_attr_cancels := d_hold_attr_cancels cfg |});
    (152%nat, d_badexpr_leak cfg,
     {| d_timeout0_falsy := d_timeout0_falsy cfg; d_leak_legacy := d_leak_legacy cfg; d_leak_dm := d_leak_dm cfg; d_now_restarts := d_now_restarts cfg; d_badexpr_leak := false; d_none_eager := d_none_eager cfg; d_hold_latest := d_hold_latest cfg; d_hold_attr_cancels := d_hold_attr_cancels cfg |});
    (153%nat, d_none_eager cfg,
     {| d_timeout0_falsy := d_timeout0_falsy cfg; d_leak_legacy := d_leak_legacy cfg; d_leak_dm := d_leak_dm cfg; d_now_restarts := d_now_restarts cfg; d_badexpr_leak := d_badexpr_leak cfg; d_none_eager := false; d_hold_latest := d_hold_latest cfg; d_hold_attr_cancels := d_hold_attr_cancels cfg |});
    (154%nat, d_hold_latest cfg,
     {| d_timeout0_falsy := d_timeout0_falsy cfg; d_leak_legacy := d_leak_legacy cfg; d_leak_dm := d_leak_dm cfg; d_now_restarts := d_now_restarts cfg; d_badexpr_leak := d_badexpr_leak cfg; d_none_eager := d_none_eager cfg; d_hold_latest := false; d_hold_attr_cancels := d_hold_attr_cancels cfg |});
    (155%nat, d_hold_attr_cancels cfg,
     {| d_timeout0_falsy := d_timeout0_falsy cfg; d_leak_legacy := d_leak_legacy cfg; d_leak_dm := d_leak_dm cfg; d_now_restarts := d_now_restarts cfg; d_badexpr_leak := d_badexpr_leak cfg; d_none_eager := d_none_eager cfg; d_hold_latest := d_hold_latest cfg; d_hold_attr_cancels := false |}) ].

(* the switches that are on and whose removal changes what the Model predicts for this case; when several
   switches mask each other (no single removal changes anything) all switches that are on are named *)
Definition wcase_attrib (cfg : deviations) (c : wcase) : list nat :=
  let r := model_of cfg c in
  let single := map (fun x => fst (fst x))
                    (filter (fun x => snd (fst x) && negb (result_eqb r (model_of (snd x) c))) (switch_table cfg)) in
  match single with
  | [] => if result_eqb r (model_of all_off c) then []
          else map (fun x => fst (fst x)) (filter (fun x => snd (fst x)) (switch_table cfg))
  | _ => single
  end.

Definition wcase_explain (cfg : deviations) (c : wcase) :=
  let r := model_of cfg c in
  (r_exit r, r_time r, leak_of (r_ledger r),
   spec_run (wc_args c) (truth_after (wc_init c) (wc_pre c)) (wc_hist c)).

(* the cases the first-occurrence theorem speaks about *)
Definition wcase_wf (c : wcase) : Prop :=
  args_ok (wc_args c) /\ a_badexpr (wc_args c) = false /\ timed (wc_hist c).

(* ---------- a scenario = the same call made one or more times in a row (each by a fresh task, after the previous one
   is over); every call is judged on its own: occurrences before its call instant are its pre-history ---------- *)
Definition wcases_model_ok (cfg : deviations) (l : list wcase) : bool := forallb (wcase_model_ok cfg) l.
Definition wcases_spec_ok (l : list wcase) : bool := forallb wcase_spec_ok l.
Definition wcases_attrib (cfg : deviations) (l : list wcase) : list nat :=
  flat_map (wcase_attrib cfg) (filter (fun c => negb (wcase_spec_ok c)) l).
Definition wcases_explain (cfg : deviations) (l : list wcase) := map (wcase_explain cfg) l.
