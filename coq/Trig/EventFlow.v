(* Trig/EventFlow.v — executable model (labelled transition system) of event / MQTT / webhook delivery (C08).

   Anchors:  event.py Event.event_listener/update, mqtt.py, webhook.py (legacy listener -> queue fan-out),
             trigger.py TrigInfo.trigger_watch l.1264-1283,1318 (filter, kwargs merge) and call_action l.1345-1412,
             decorators/event.py|mqtt.py|webhook.py (one listener per decorator: filter + dispatch),
             decorator_abc.py TriggerDecorator.dispatch, decorator.py FunctionDecoratorManager.dispatch/_call,
             function.py event_fire / store_hass_context / service_call, state.py State.set.

   asyncio is cooperative, so everything between two suspending awaits is one atomic step:
     LBus o        Home Assistant hands one occurrence (event / MQTT message / webhook request) to pyscript.
                   legacy : Event.update appends a copy of func_args to the queue of every subscribed trigger;
                   new    : the listener of every subscribed decorator evaluates its filter and dispatches
                            (= appends the merged kwargs to the list of tasks created for that decorator).
     LConsume T c  legacy : trigger_watch of T takes one message, evaluates the filter and, if it passes, merges
                            the decorator kwargs and starts ONE run task (call_action) whose fresh HA context is c;
                   new    : the task created by dispatch starts (_call), its HA context is c.
     LRun r a      an arbitrary step of run r: entering the function body, event.fire, state.set, a service
                   call, or anything invisible (sleeping ...).  event.fire is itself an occurrence (chains).
   Constants (shape of the func_args dicts, the key that carries the context) come from Gen/EventFlowConsts.v,
   regenerated from /repo on every run.  No proofs here (Proofs/TrigEventFlow.v). *)
From PV Require Import Common.Util Trig.EventBase Gen.EventFlowConsts.

(* ---------- deviation switches (on = what the unchanged code does today; all off = conformant) ---------- *)
Record deviations := {
  d_webhook_dup : bool;   (* D80: new subsystem: a function with a @webhook_trigger whose id is already registered
                                  fails to start ("Handler is already defined!") and never runs *)
  d_ctx_shadow_legacy : bool;   (* D81 (legacy, trigger.py call_action) / D82 (new, decorator.py dispatch): the run's parent *)
  d_ctx_shadow_new : bool       (* context is read back from the kwarg "context", so event data or decorator kwargs with
                                   that key make the run lose the occurrence's context *)
}.
Definition all_off : deviations := {| d_webhook_dup := false; d_ctx_shadow_legacy := false; d_ctx_shadow_new := false |}.
Definition all_on : deviations := {| d_webhook_dup := true; d_ctx_shadow_legacy := true; d_ctx_shadow_new := true |}.

(* ---------- configuration and occurrences ---------- *)
Record trigger := {
  t_func : N;                    (* the decorated function *)
  t_dm : N;                      (* the incarnation of that function (a reload of its file makes a new one: new trigger
                                    task / new DecoratorManager); decorators of one incarnation start and fail together *)
  t_epochs : list N;             (* the epochs (periods between two reloads) during which this incarnation is declared *)
  t_kind : kind;
  t_key : N;                     (* event type / topic as subscribed / webhook id *)
  t_filter : option fexpr;
  t_kwargs : kwargs              (* the decorator's kwargs= *)
}.

Record occ := {
  o_kind : kind;
  o_key : N;                     (* event type / subscribed topic the message is handed over for / webhook id *)
  o_epoch : N;                   (* the epoch in which it is handed over *)
  o_ctx : option N;              (* id of the occurrence's HA context (events only) *)
  o_attrs : kwargs;              (* mqtt: topic, payload, qos, retain of the message; webhook: decoded payload *)
  o_data : kwargs;               (* event data *)
  o_opt : option val             (* mqtt: json.loads(payload) when it parses *)
}.

(* ---------- Python truth, comparisons, filter evaluation ---------- *)
Definition truthy (v : val) : bool :=
  match v with
  | VInt z => negb (Z.eqb z 0) | VStr s => negb (N.eqb s 0) | VNone => false | VBool b => b
  | VCtx _ => true | VOther _ t => t
  end.
Definition num_of (v : val) : option Z :=
  match v with VInt z => Some z | VBool b => Some (if b then 1 else 0)%Z | _ => None end.
Definition py_eq (a b : val) : bool :=
  match num_of a, num_of b with Some x, Some y => Z.eqb x y | _, _ => val_eqb a b end.
(* None = the comparison raises TypeError *)
Definition py_cmp (op : cmpop) (a b : val) : option bool :=
  match op with
  | CmpEq => Some (py_eq a b)
  | CmpNe => Some (negb (py_eq a b))
  | _ =>
    match num_of a, num_of b with
    | Some x, Some y =>
        Some (match op with CmpLt => Z.ltb x y | CmpLe => Z.leb x y | CmpGt => Z.ltb y x | _ => Z.leb y x end)
    | _, _ => None
    end
  end.
(* None = evaluation raised (NameError for a missing variable, TypeError): both subsystems log it and treat
   the filter as false (trigger.py _call_expression, decorators/base.py check_expression_vars) *)
Fixpoint feval (f : fexpr) (kw : kwargs) : option bool :=
  match f with
  | FVar k => option_map truthy (kw_get k kw)
  | FCmp op k lit => match kw_get k kw with Some v => py_cmp op v lit | None => None end
  | FInt op k lit =>
      (* int(v): numbers and bools convert; the strings the generator uses are never numerals (ValueError), None and
         containers raise TypeError *)
      match kw_get k kw with
      | Some v => match num_of v with Some z => py_cmp op (VInt z) (VInt lit) | None => None end
      | None => None
      end
  | FDiv op k lit =>
      match kw_get k kw with
      | Some v => match num_of v with
                  | Some z => if Z.eqb z 0 then None else py_cmp op (VInt (6 / z)) (VInt lit)   (* Z.div = Python // *)
                  | None => None
                  end
      | None => None
      end
  | FLookup k tbl =>
      match kw_get k kw with
      | Some v => match v with
                  | VOther _ _ => None                                  (* list / dict: unhashable -> TypeError *)
                  | _ => match num_of v with
                         | Some z => match find (fun e => Z.eqb (fst e) z) tbl with Some e => Some (snd e) | None => None end
                         | None => None                                 (* str / None / Context: KeyError *)
                         end
                  end
      | None => None
      end
  | FNot a => option_map negb (feval a kw)
  | FAnd a b => match feval a kw with Some true => feval b kw | r => r end
  | FOr a b => match feval a kw with Some false => feval b kw | r => r end
  end.
Definition passes (tr : trigger) (args : kwargs) : bool :=
  match t_filter tr with
  | None => true
  | Some f => match feval f args with Some true => true | _ => false end
  end.

(* ---------- func_args as built by the listeners (table driven, tables from the source) ---------- *)
Definition eval_src (o : occ) (s : src) : val :=
  match s with
  | SConst v => v
  | SKey => VStr (o_key o)
  | SCtx => match o_ctx o with Some c => VCtx c | None => VNone end
  | SAttr a => match kw_get a (o_attrs o) with Some v => v | None => VNone end
  end.
Definition eval_head (h : list (N * src)) (o : occ) : kwargs :=
  fold_left (fun acc ks => kw_set acc (fst ks) (eval_src o (snd ks))) h [].
Definition base_args (legacy : bool) (o : occ) : kwargs :=
  match o_kind o with
  | KEvent => let h := eval_head (ev_head legacy) o in if ev_data_update legacy then kw_update h (o_data o) else h
  | KMqtt => kw_update (eval_head (mq_head legacy) o)
                       (match o_opt o with Some v => [(mq_opt_key legacy, v)] | None => [] end)
  | KWebhook => eval_head (wh_head legacy) o
  end.

(* the same, as documented (docs/reference.rst: trigger_type, event_type, context + event data; trigger_type, topic,
   payload, qos, retain [, payload_obj]; trigger_type, webhook_id, payload) — the Spec side *)
Definition attr (a : N) (o : occ) : val := match kw_get a (o_attrs o) with Some v => v | None => VNone end.
Definition spec_base (o : occ) : kwargs :=
  match o_kind o with
  | KEvent => kw_update [(s_trigger_type, VStr s_event); (s_event_type, VStr (o_key o));
                         (s_context, match o_ctx o with Some c => VCtx c | None => VNone end)] (o_data o)
  | KMqtt => kw_update [(s_trigger_type, VStr s_mqtt); (s_topic, attr s_topic o); (s_payload, attr s_payload o);
                        (s_qos, attr s_qos o); (s_retain, attr s_retain o)]
                       (match o_opt o with Some v => [(s_payload_obj, v)] | None => [] end)
  | KWebhook => [(s_trigger_type, VStr s_webhook); (s_webhook_id, VStr (o_key o)); (s_payload, attr s_payload o)]
  end.

(* declared at that moment, for that kind and key *)
Definition subscribed (tr : trigger) (o : occ) : bool :=
  kind_eqb (t_kind tr) (o_kind o) && N.eqb (t_key tr) (o_key o) && existsb (N.eqb (o_epoch o)) (t_epochs tr).

(* ---------- the system ---------- *)
Record sys := {
  sy_legacy : bool;
  sy_cfg : deviations;
  sy_trigs : list trigger;
  sy_live : nat -> bool          (* which decorators actually got their listener registered (D80) *)
}.
Definition trig_at (S : sys) (T : nat) : option trigger := nth_error (sy_trigs S) T.
Definition ctx_shadow (S : sys) : bool :=
  if sy_legacy S then d_ctx_shadow_legacy (sy_cfg S) else d_ctx_shadow_new (sy_cfg S).

Definition run_kwargs (legacy : bool) (tr : trigger) (o : occ) : kwargs := kw_update (base_args legacy o) (t_kwargs tr).

Definition ctx_parent_of (legacy : bool) (K : kwargs) : option N :=
  match kw_get (ctx_key_action legacy) K with Some (VCtx p) => Some p | _ => None end.

Definition matches (S : sys) (T : nat) (o : occ) : bool :=
  match trig_at S T with
  | Some tr => sy_live S T && subscribed tr o && passes tr (base_args (sy_legacy S) o)
  | None => false
  end.

Record msg := { m_args : kwargs; m_occ : option N }.
Record ctxv := { c_id : N; c_parent : option N }.
Record run := { r_trig : nat; r_func : N; r_kwargs : kwargs; r_ctx : ctxv; r_begun : bool }.
Record emission := { em_run : nat; em_explicit : bool; em_ctx : ctxv }.

Record state := {
  st_q : nat -> list msg;        (* per decorator: legacy = content of notify_q; new = tasks created, not yet started *)
  st_occs : list occ;            (* everything Home Assistant handed over so far (ghost) *)
  st_runs : list run;            (* runs in start order *)
  st_acts : list emission        (* what runs emitted so far, with the context carried (ghost) *)
}.

Definition init_state : state := {| st_q := fun _ => []; st_occs := []; st_runs := []; st_acts := [] |}.

Definition upd {A} (f : nat -> A) (i : nat) (x : A) : nat -> A := fun j => if Nat.eqb j i then x else f j.

(* mirrors call_action l.1369-1373 / dispatch l.269-273:
     if "context" in func_args and isinstance(func_args["context"], Context): Context(parent_id=...id) else Context() *)
Definition mk_context (S : sys) (c : N) (K : kwargs) (mocc : option N) : ctxv :=
  {| c_id := c; c_parent := if ctx_shadow S then ctx_parent_of (sy_legacy S) K else mocc |}.

(* ---------- LBus ---------- *)
Definition deliver (S : sys) (T : nat) (o : occ) : list msg :=
  match trig_at S T with
  | None => []
  | Some tr =>
    if sy_live S T && subscribed tr o then
      if sy_legacy S then [ {| m_args := base_args (sy_legacy S) o; m_occ := o_ctx o |} ]
      else if passes tr (base_args (sy_legacy S) o) then [ {| m_args := run_kwargs (sy_legacy S) tr o; m_occ := o_ctx o |} ]
      else []
    else []
  end.

Definition bus (S : sys) (st : state) (o : occ) : state :=
  {| st_q := fun T => st_q st T ++ deliver S T o; st_occs := st_occs st ++ [o];
     st_runs := st_runs st; st_acts := st_acts st |}.

(* ---------- LConsume ---------- *)
Definition start_run (S : sys) (st : state) (T : nat) (tr : trigger) (K : kwargs) (c : N) (mocc : option N)
    (rest : list msg) : state :=
  {| st_q := upd (st_q st) T rest; st_occs := st_occs st;
     st_runs := st_runs st ++ [ {| r_trig := T; r_func := t_func tr; r_kwargs := K;
                                   r_ctx := mk_context S c K mocc; r_begun := false |} ];
     st_acts := st_acts st |}.

Definition consume (S : sys) (st : state) (T : nat) (c : N) : option state :=
  match trig_at S T, st_q st T with
  | Some tr, m :: rest =>
      if sy_legacy S then
        if passes tr (m_args m)
        then Some (start_run S st T tr (kw_update (m_args m) (t_kwargs tr)) c (m_occ m) rest)
        else Some {| st_q := upd (st_q st) T rest; st_occs := st_occs st; st_runs := st_runs st; st_acts := st_acts st |}
      else Some (start_run S st T tr (m_args m) c (m_occ m) rest)
  | _, _ => None
  end.

Definition consume_enabled (st : state) (T : nat) : bool := match st_q st T with [] => false | _ => true end.

(* ---------- LRun ---------- *)
(* function.py event_fire:  if "context" in kwargs and isinstance(kwargs["context"], Context): use and delete it *)
Definition fire_explicit (given : kwargs) : option N :=
  match kw_get ctx_key_fire given with Some (VCtx x) => Some x | _ => None end.
Definition fire_data (given : kwargs) : kwargs :=
  match fire_explicit given with Some _ => kw_del ctx_key_fire given | None => given end.

Definition ctxv_eqb (a b : ctxv) : bool := N.eqb (c_id a) (c_id b) && option_eqb N.eqb (c_parent a) (c_parent b).

Inductive action :=
  | ABegin (kw : kwargs) (c : ctxv)                  (* the function body is entered with these kwargs, task context c *)
  | AFire (key : N) (given data : kwargs) (c : ctxv) (ep : N) (* event.fire(key, **given) put (data, c) on the bus in epoch ep *)
  | ASet (c : ctxv)                                  (* state.set(...): the new state carries c *)
  | ACall (c : ctxv)                                 (* service call: the call carries c *)
  | AInternal.                                       (* sleeping, computing *)

Definition mark_begun (x : run) : run :=
  {| r_trig := r_trig x; r_func := r_func x; r_kwargs := r_kwargs x; r_ctx := r_ctx x; r_begun := true |}.
Fixpoint set_begun (rs : list run) (r : nat) : list run :=
  match rs, r with
  | [], _ => []
  | x :: rest, O => mark_begun x :: rest
  | x :: rest, S r' => x :: set_begun rest r'
  end.

Definition emit (st : state) (e : emission) : state :=
  {| st_q := st_q st; st_occs := st_occs st; st_runs := st_runs st; st_acts := st_acts st ++ [e] |}.

Definition fired_occ (key : N) (given : kwargs) (c : ctxv) (ep : N) : occ :=
  {| o_kind := KEvent; o_key := key; o_epoch := ep; o_ctx := Some (c_id c); o_attrs := []; o_data := fire_data given; o_opt := None |}.

Definition step_run (S : sys) (st : state) (r : nat) (a : action) : option state :=
  match nth_error (st_runs st) r with
  | None => None
  | Some rn =>
    match a with
    | ABegin kw c =>
        if negb (r_begun rn) && kw_eqb kw (r_kwargs rn) && ctxv_eqb c (r_ctx rn)
        then Some {| st_q := st_q st; st_occs := st_occs st; st_runs := set_begun (st_runs st) r; st_acts := st_acts st |}
        else None
    | AFire key given data c ep =>
        let ok_ctx := match fire_explicit given with
                      | Some x => N.eqb (c_id c) x
                      | None => ctxv_eqb c (r_ctx rn) end in
        if r_begun rn && kw_eqb data (fire_data given) && ok_ctx
        then Some (bus S (emit st {| em_run := r; em_explicit := match fire_explicit given with Some _ => true | None => false end;
                                     em_ctx := match fire_explicit given with Some _ => c | None => r_ctx rn end |})
                       (fired_occ key given c ep))
        else None
    | ASet c | ACall c =>
        if r_begun rn && ctxv_eqb c (r_ctx rn)
        then Some (emit st {| em_run := r; em_explicit := false; em_ctx := r_ctx rn |})
        else None
    | AInternal => Some st
    end
  end.

(* ---------- the LTS ---------- *)
Inductive label := LBus (o : occ) | LConsume (T : nat) (c : N) | LRun (r : nat) (a : action).

Definition step (S : sys) (st : state) (l : label) : option state :=
  match l with
  | LBus o => Some (bus S st o)
  | LConsume T c => consume S st T c
  | LRun r a => step_run S st r a
  end.

Definition run_from (S : sys) (st : state) (ls : list label) : option state := fold_left_opt (step S) ls st.
Definition run_lts (S : sys) (ls : list label) : option state := run_from S init_state ls.

(* ---------- what the property talks about ---------- *)
(* runs of decorator T so far, with the parent of their HA context *)
Definition started (st : state) (T : nat) : list (kwargs * option N) :=
  map (fun r => (r_kwargs r, c_parent (r_ctx r))) (filter (fun r => Nat.eqb (r_trig r) T) (st_runs st)).

(* runs a queue content will still start *)
Definition pending (S : sys) (T : nat) (q : list msg) : list (kwargs * option N) :=
  match trig_at S T with
  | None => []
  | Some tr =>
    if sy_legacy S
    then map (fun m => let K := kw_update (m_args m) (t_kwargs tr) in (K, c_parent (mk_context S 0 K (m_occ m))))
             (filter (fun m => passes tr (m_args m)) q)
    else map (fun m => (m_args m, c_parent (mk_context S 0 (m_args m) (m_occ m)))) q
  end.

Definition expected_parent (S : sys) (tr : trigger) (o : occ) : option N :=
  if ctx_shadow S then ctx_parent_of (sy_legacy S) (run_kwargs (sy_legacy S) tr o) else o_ctx o.

(* what the model (with its deviations) will run for T, given everything handed over *)
Definition model_runs (S : sys) (T : nat) (occs : list occ) : list (kwargs * option N) :=
  match trig_at S T with
  | None => []
  | Some tr => map (fun o => (run_kwargs (sy_legacy S) tr o, expected_parent S tr o)) (filter (matches S T) occs)
  end.

(* Spec (property text): per decorator, one run per matching occurrence, in order, with trigger_type, event_type, the
   data and the decorator kwargs as keyword arguments, in a context whose parent is the occurrence's context *)
Definition spec_matches (tr : trigger) (o : occ) : bool := subscribed tr o && passes tr (spec_base o).
Definition spec_kwargs (tr : trigger) (o : occ) : kwargs := kw_update (spec_base o) (t_kwargs tr).
Definition spec_runs (tr : trigger) (occs : list occ) : list (kwargs * option N) :=
  map (fun o => (spec_kwargs tr o, o_ctx o)) (filter (spec_matches tr) occs).

(* Spec of event.fire: exactly the given parameters, minus a Context-typed `context` *)
Definition spec_fire_data (given : kwargs) : kwargs :=
  filter (fun kv => negb (N.eqb (fst kv) s_context && match snd kv with VCtx _ => true | _ => false end)) given.

(* ---------- which decorators are live (D80) ----------
   decorator_abc.py DecoratorManager.start: decorators start in order; when one raises, the already started ones of
   that incarnation are stopped and the manager becomes INVALID.  webhook.async_register raises ValueError when the id is
   taken.  [order] = the webhook.async_register attempts (true, decorator index) and async_unregister calls
   (false, a decorator with that webhook id) in the order they happened (set-up and reloads). *)
Fixpoint reg_sim (trigs : list trigger) (order : list (bool * nat)) (registry : list (N * N)) (dead : list N) : list N :=
  match order with
  | [] => dead
  | (isreg, T) :: rest =>
    match nth_error trigs T with
    | None => reg_sim trigs rest registry dead
    | Some tr =>
      if isreg then
        if existsb (N.eqb (t_dm tr)) dead then reg_sim trigs rest registry dead
        else if existsb (fun kf => N.eqb (fst kf) (t_key tr)) registry
        then reg_sim trigs rest registry (t_dm tr :: dead)      (* its started decorators are unregistered: own entries follow in [order] *)
        else reg_sim trigs rest ((t_key tr, t_dm tr) :: registry) dead
      else reg_sim trigs rest (filter (fun kf => negb (N.eqb (fst kf) (t_key tr))) registry) dead
    end
  end.

Definition compute_live (cfg : deviations) (legacy : bool) (trigs : list trigger) (order : list (bool * nat)) (T : nat) : bool :=
  if legacy || negb (d_webhook_dup cfg) then true
  else match nth_error trigs T with
       | Some tr => negb (existsb (N.eqb (t_dm tr)) (reg_sim trigs order [] []))
       | None => true
       end.

Definition mk_sys (cfg : deviations) (legacy : bool) (trigs : list trigger) (order : list (bool * nat)) : sys :=
  {| sy_legacy := legacy; sy_cfg := cfg; sy_trigs := trigs; sy_live := compute_live cfg legacy trigs order |}.
