(* Trig/Notify.v — executable model of the state-change notification fan-out (C04).

   Mirrors, function by function:
     homeassistant StateMachine.async_set / async_remove     -> [apply_op]   (environment: which writes fire an event)
     __init__.py  state_changed (l.379)                       -> [new_vars] (the two names bound by every event)
     state.py     State.notify_add (l.145) / State.notify     -> [name_ent], [subscribed], [notify_has]
     state.py     State.update (l.175)                        -> [state_update]  (notify_var_last + one queue item per subscriber)
     state.py     State.notify_var_get (l.190)                -> [fill], [nv_lookup]

   Entities, attributes and values are [N] ids (the harness keeps the id <-> string table):  entity i = "pyscript.e<i>",
   attribute j = "x<j>", state value v = the digit string "<v>", attribute value n = the int n.  A state variable is
   [option sv] ([None] = does not exist).  Dotted names are the constructors of [name].  A dictionary handed to the
   expression evaluator (notify_vars) is represented by its lookup function ([nv_lookup] : name -> option pyval, [None] =
   key absent) - notify_var_get fills each key independently of the others, so the iteration order of the Python set does
   not matter.  No proofs here (see Proofs/TrigStateTrig.v). *)
From PV Require Import Common.Util.

Definition ent := N.
Definition attr := N.
Definition val := N.

Fixpoint assoc {B} (k : N) (l : list (N * B)) : option B :=
  match l with
  | [] => None
  | (k', v) :: r => if N.eqb k k' then Some v else assoc k r
  end.

(* ---------- state variables (StateVal: a str with the attributes in __dict__) ---------- *)
Definition attrs := list (attr * val).
Record sv := mkSv { sv_val : val; sv_attrs : attrs }.

Definition get_attr (a : attr) (s : sv) : option val := assoc a (sv_attrs s).
(* getattr(x, a, None) where x is a StateVal or None *)
Definition ogetattr (a : attr) (o : option sv) : option val :=
  match o with Some s => get_attr a s | None => None end.
Definition oval_eqb : option val -> option val -> bool := option_eqb N.eqb.
Definition attr_keys (o : option sv) : list attr :=
  match o with Some s => map fst (sv_attrs s) | None => [] end.
Definition attr_differs (a : attr) (x y : option sv) : bool := negb (oval_eqb (ogetattr a x) (ogetattr a y)).
Definition any_attr_differs (x y : option sv) : bool :=
  existsb (fun a => attr_differs a x y) (attr_keys x ++ attr_keys y).
(* `value != old_value` on StateVal/None: str comparison only; None differs from every StateVal *)
Definition value_differs (x y : option sv) : bool :=
  negb (oval_eqb (option_map sv_val x) (option_map sv_val y)).
(* same state string and same attribute dict *)
Definition sv_same (x y : sv) : bool :=
  N.eqb (sv_val x) (sv_val y) && negb (any_attr_differs (Some x) (Some y)).

(* ---------- hass.states and the writes of a history ---------- *)
Definition hass := list (ent * sv).
Definition hget (h : hass) (e : ent) : option sv := assoc e h.
Definition hdel (h : hass) (e : ent) : hass := filter (fun p => negb (N.eqb (fst p) e)) h.
Definition hset (h : hass) (e : ent) (s : sv) : hass := (e, s) :: hdel h e.

Inductive op :=
  | OSet (e : ent) (v : val) (a : attrs)     (* hass.states.async_set(e, v, a): create / change value / change attrs / re-set same *)
  | ODel (e : ent).                          (* hass.states.async_remove(e) *)

(* EVENT_STATE_CHANGED; [ev_id] is the position of the write in the history (the harness passes it as Context id) *)
Record event := mkEv { ev_id : N; ev_ent : ent; ev_old : option sv; ev_new : option sv }.

(* Home Assistant fires state_changed unless state and attributes are both unchanged; removing a missing entity is a no-op *)
Definition apply_op (h : hass) (id : N) (o : op) : hass * option event :=
  match o with
  | OSet e v a =>
      let new := mkSv v a in
      match hget h e with
      | Some old => if sv_same old new then (h, None) else (hset h e new, Some (mkEv id e (Some old) (Some new)))
      | None => (hset h e new, Some (mkEv id e None (Some new)))
      end
  | ODel e =>
      match hget h e with
      | Some old => (hdel h e, Some (mkEv id e (Some old) None))
      | None => (h, None)
      end
  end.

(* ---------- dotted names ---------- *)
Inductive name :=
  | NEnt (e : ent)                  (* "d.e" *)
  | NAttr (e : ent) (a : attr)      (* "d.e.attr" *)
  | NOld (e : ent)                  (* "d.e.old" *)
  | NOldAttr (e : ent) (a : attr)   (* "d.e.old.attr" *)
  | NStar (e : ent).                (* "d.e.*" *)

Definition name_eqb (x y : name) : bool :=
  match x, y with
  | NEnt e, NEnt e' | NOld e, NOld e' | NStar e, NStar e' => N.eqb e e'
  | NAttr e a, NAttr e' a' | NOldAttr e a, NOldAttr e' a' => N.eqb e e' && N.eqb a a'
  | _, _ => false
  end.
Definition mem_name (n : name) (l : list name) : bool := existsb (name_eqb n) l.

(* notify_add / notify_del: only names with 2 or 3 dotted parts subscribe, to their "d.e" *)
Definition name_ent (n : name) : option ent :=
  match n with
  | NEnt e | NAttr e _ | NOld e | NStar e => Some e
  | NOldAttr _ _ => None
  end.
Definition names_have_ent (l : list name) (e : ent) : bool :=
  existsb (fun n => match name_ent n with Some e' => N.eqb e e' | None => false end) l.

(* ---------- values seen by the expression evaluator ---------- *)
Inductive pyval := PNone | PSv (s : sv) | PAtom (v : val).
Definition of_osv (o : option sv) : pyval := match o with Some s => PSv s | None => PNone end.
Definition of_oatom (o : option val) : pyval := match o with Some v => PAtom v | None => PNone end.

(* ---------- State.notify_var_last and State.update ---------- *)
Definition last_map := list (ent * option sv).       (* first binding wins *)

(* one queue entry ["state", [notify_vars, func_args]]: the event plus what notify_var_get could see when it ran *)
Record item := mkItem { it_ev : event; it_hass : hass; it_last : last_map }.

Section Notify.
  Context {Q : Type} (q_names : Q -> list name).      (* a subscriber (one trigger's queue) and the names it registered *)

  Definition subscribed (q : Q) (e : ent) : bool := names_have_ent (q_names q) e.
  Definition notify_has (subs : list Q) (e : ent) : bool := existsb (fun q => subscribed q e) subs.   (* e in State.notify *)

  (* State.update(new_vars, func_args) for the event [ev]; [h] is hass.states at that moment (the write is already
     applied).  Returns notify_var_last and the queue entries in subscription order. *)
  Definition state_update (subs : list Q) (h : hass) (last : last_map) (ev : event) : last_map * list (Q * item) :=
    if notify_has subs (ev_ent ev) then
      let last' := (ev_ent ev, ev_new ev) :: last in
      (last', flat_map (fun q => if subscribed q (ev_ent ev) then [(q, mkItem ev h last')] else []) subs)
    else (last, []).
End Notify.

(* notify_var_get for one name of var_names that is not a key of new_vars; [None] = the key stays absent *)
Definition fill (h : hass) (last : last_map) (ev : event) (n : name) : option pyval :=
  match n with
  | NEnt x =>
      match assoc x last with
      | Some v => Some (of_osv v)                                     (* var_name in notify_var_last *)
      | None => match hget h x with None => Some PNone | Some _ => None end   (* not State.exist -> None; else left out *)
      end
  | NAttr x a =>
      match assoc x last with
      | Some v => Some (of_oatom (ogetattr a v))                      (* getattr(notify_var_last["d.e"], attr, None) *)
      | None => match ogetattr a (hget h x) with None => Some PNone | Some _ => None end
      end
  | NOld x => Some PNone                                              (* no attribute is called "old" *)
  | NOldAttr x a =>
      if N.eqb x (ev_ent ev) then Some (of_oatom (ogetattr a (ev_old ev)))   (* getattr(notify_vars["d.e.old"], attr, None) *)
      else Some PNone                                                 (* 3 dots and not State.exist -> None *)
  | NStar x => Some PNone
  end.

(* the dictionary State.notify_var_get(var_names, new_vars) with new_vars = {"c": new, "c.old": old} *)
Definition nv_lookup (var_names : list name) (it : item) (n : name) : option pyval :=
  let ev := it_ev it in
  let filled := if mem_name n var_names then fill (it_hass it) (it_last it) ev n else None in
  match n with
  | NEnt x => if N.eqb x (ev_ent ev) then Some (of_osv (ev_new ev)) else filled
  | NOld x => if N.eqb x (ev_ent ev) then Some (of_osv (ev_old ev)) else filled
  | _ => filled
  end.
