(* Trig/EventFlowCheck.v — what the generated correspondence files evaluate for C08 (trace validation).
   A case = the decorators + the scripted behaviour of the generated functions + the trace the real pyscript
   produced (in the order a bus listener and the driver saw it).
     [ecase_model_ok cfg] : the trace is a path of the LTS of Trig/EventFlow.v (every observation is replayed through
                            [step]; invisible consumptions of filtered-out messages are inserted where needed) ending
                            in a quiescent state in which every queue is drained and every run did all it was scripted to.
     [ecase_spec_ok]      : computed from the observations alone, without the LTS: per decorator the runs are exactly the
                            Spec's runs in order, functions received those kwargs, contexts are parented, event.fire
                            emitted exactly what it was given. *)
From PV Require Import Common.Util Trig.EventBase Gen.EventFlowConsts Trig.EventFlow.

(* how a scripted event.fire passes `context=` *)
Inductive carg := CNone | COcc (* context=kw.get("context") *) | CVal (v : val) (* context=<a non-Context literal> *).
Inductive sact := SSleep | SFire (key : N) (kw : kwargs) (ca : carg) | SSet | SCall.

Inductive obs :=
  | OBus (o : occ)                                              (* the driver handed o to pyscript *)
  | ORunning (T : nat) (f : N) (kw : kwargs) (c : ctxv)         (* `pyscript_running` for function f; T = attribution hint *)
  | OBegin (rid : Z) (f : N) (kw : kwargs) (c : ctxv)           (* the function body reports its kwargs (pv_run) *)
  | OFire (rid : Z) (ai : nat) (key : N) (data : kwargs) (c : ctxv) (ep : N)
  | OSet (rid : Z) (ai : nat) (c : ctxv)
  | OCall (rid : Z) (ai : nat) (c : ctxv).

Record ecase := {
  ec_legacy : bool;
  ec_trigs : list trigger;
  ec_order : list (bool * nat);            (* webhook (un)registrations in the order they happened, see reg_sim *)
  ec_scripts : list (N * list sact);       (* per function: what its body does *)
  ec_obs : list obs
}.

Definition script_of (c : ecase) (f : N) : list sact :=
  match find (fun fs => N.eqb (fst fs) f) (ec_scripts c) with Some fs => snd fs | None => [] end.

(* the parameters a scripted event.fire is called with by run (rid, kwargs rkw) *)
Definition given_of (rid : Z) (ai : nat) (kw : kwargs) (ca : carg) (rkw : kwargs) : kwargs :=
  let base := kw_update [(s_rid, VInt rid); (s_ai, VInt (Z.of_nat ai))] kw in
  match ca with
  | CNone => base
  | COcc => kw_set base s_context (match kw_get s_context rkw with Some v => v | None => VNone end)
  | CVal v => kw_set base s_context v
  end.

(* ------------------------------------------------------------------------------------------------ *)
(* Model side: replay through [step]                                                                 *)
(* ------------------------------------------------------------------------------------------------ *)
Record rstate := {
  rs_st : state;
  rs_rids : list (Z * nat);        (* run id reported by the script -> index of the run *)
  rs_pcs : list (nat * nat);       (* run -> number of scripted actions done *)
  rs_path : list label             (* the path so far, reversed *)
}.

Definition do_step (Sy : sys) (rs : rstate) (l : label) : option rstate :=
  match step Sy (rs_st rs) l with
  | Some st' => Some {| rs_st := st'; rs_rids := rs_rids rs; rs_pcs := rs_pcs rs; rs_path := l :: rs_path rs |}
  | None => None
  end.

(* legacy: consume the filtered-out messages at the head of queue T (invisible steps) *)
Fixpoint drain (Sy : sys) (fuel : nat) (rs : rstate) (T : nat) : rstate :=
  match fuel with
  | O => rs
  | S fuel' =>
    match trig_at Sy T, st_q (rs_st rs) T with
    | Some tr, m :: _ =>
        if sy_legacy Sy && negb (passes tr (m_args m))
        then match do_step Sy rs (LConsume T 0) with Some rs' => drain Sy fuel' rs' T | None => rs end
        else rs
    | _, _ => rs
    end
  end.
Definition drain_all (Sy : sys) (rs : rstate) (T : nat) : rstate := drain Sy (length (st_q (rs_st rs) T)) rs T.

Fixpoint find_unbegun (f : N) (rs : list run) (i : nat) : option nat :=
  match rs with
  | [] => None
  | x :: r => if N.eqb (r_func x) f && negb (r_begun x) then Some i else find_unbegun f r (S i)
  end.

Definition rid_run (rs : rstate) (rid : Z) : option nat :=
  match find (fun p => Z.eqb (fst p) rid) (rs_rids rs) with Some p => Some (snd p) | None => None end.
Definition pc_of (rs : rstate) (r : nat) : nat :=
  match find (fun p => Nat.eqb (fst p) r) (rs_pcs rs) with Some p => snd p | None => O end.
Definition set_pc (rs : rstate) (r pc : nat) : rstate :=
  {| rs_st := rs_st rs; rs_rids := rs_rids rs; rs_pcs := (r, pc) :: rs_pcs rs; rs_path := rs_path rs |}.

Definition is_sleep (a : sact) : bool := match a with SSleep => true | _ => false end.
(* actions pc .. ai-1 are invisible, action ai exists *)
Definition pc_ok (script : list sact) (pc ai : nat) : bool :=
  Nat.leb pc ai && forallb is_sleep (firstn (ai - pc) (skipn pc script)).

Definition last_run (st : state) : option run := nth_error (st_runs st) (length (st_runs st) - 1).

Definition replay_obs (c : ecase) (Sy : sys) (rs : rstate) (ob : obs) : option rstate :=
  match ob with
  | OBus o => do_step Sy rs (LBus o)
  | ORunning T f kw cx =>
      let rs1 := drain_all Sy rs T in
      let n := length (st_runs (rs_st rs1)) in
      match do_step Sy rs1 (LConsume T (c_id cx)) with
      | Some rs2 =>
          match nth_error (st_runs (rs_st rs2)) n with
          | Some rn => if N.eqb (r_func rn) f && kw_eqb kw (r_kwargs rn) && ctxv_eqb cx (r_ctx rn) then Some rs2 else None
          | None => None
          end
      | None => None
      end
  | OBegin rid f kw cx =>
      match find_unbegun f (st_runs (rs_st rs)) 0 with
      | Some r =>
          match do_step Sy rs (LRun r (ABegin kw cx)) with
          | Some rs' => Some {| rs_st := rs_st rs'; rs_rids := (rid, r) :: rs_rids rs'; rs_pcs := rs_pcs rs'; rs_path := rs_path rs' |}
          | None => None
          end
      | None => None
      end
  | OFire rid ai key data cx ep =>
      match rid_run rs rid with
      | Some r =>
        match nth_error (st_runs (rs_st rs)) r with
        | Some rn =>
          let script := script_of c (r_func rn) in
          match nth_error script ai with
          | Some (SFire key' kw ca) =>
              if N.eqb key key' && pc_ok script (pc_of rs r) ai
              then match do_step Sy rs (LRun r (AFire key (given_of rid ai kw ca (r_kwargs rn)) data cx ep)) with
                   | Some rs' => Some (set_pc rs' r (S ai))
                   | None => None
                   end
              else None
          | _ => None
          end
        | None => None
        end
      | None => None
      end
  | OSet rid ai cx =>
      match rid_run rs rid with
      | Some r =>
        match nth_error (st_runs (rs_st rs)) r with
        | Some rn =>
          let script := script_of c (r_func rn) in
          match nth_error script ai with
          | Some SSet => if pc_ok script (pc_of rs r) ai
                         then match do_step Sy rs (LRun r (ASet cx)) with Some rs' => Some (set_pc rs' r (S ai)) | None => None end
                         else None
          | _ => None
          end
        | None => None
        end
      | None => None
      end
  | OCall rid ai cx =>
      match rid_run rs rid with
      | Some r =>
        match nth_error (st_runs (rs_st rs)) r with
        | Some rn =>
          let script := script_of c (r_func rn) in
          match nth_error script ai with
          | Some SCall => if pc_ok script (pc_of rs r) ai
                          then match do_step Sy rs (LRun r (ACall cx)) with Some rs' => Some (set_pc rs' r (S ai)) | None => None end
                          else None
          | _ => None
          end
        | None => None
        end
      | None => None
      end
  end.

(* -> (number of observations replayed, state reached) *)
Fixpoint replay (c : ecase) (Sy : sys) (rs : rstate) (l : list obs) (n : nat) : nat * rstate * bool :=
  match l with
  | [] => (n, rs, true)
  | ob :: r => match replay_obs c Sy rs ob with
               | Some rs' => replay c Sy rs' r (S n)
               | None => (n, rs, false)
               end
  end.

Definition case_sys (cfg : deviations) (c : ecase) : sys := mk_sys cfg (ec_legacy c) (ec_trigs c) (ec_order c).
Definition rs_init : rstate := {| rs_st := init_state; rs_rids := []; rs_pcs := []; rs_path := [] |}.

(* quiescent end: every queue drains by invisible steps only, every run began and did all its scripted actions *)
Definition final_ok (c : ecase) (Sy : sys) (rs : rstate) : bool :=
  let rs' := fold_left (drain_all Sy) (seq 0 (length (ec_trigs c))) rs in
  forallb (fun T => match st_q (rs_st rs') T with [] => true | _ => false end) (seq 0 (length (ec_trigs c)))
  && forallb (fun ir => r_begun (snd ir)
                        && forallb is_sleep (skipn (pc_of rs' (fst ir)) (script_of c (r_func (snd ir)))))
             (combine (seq 0 (length (st_runs (rs_st rs')))) (st_runs (rs_st rs'))).

Definition ecase_model_ok (cfg : deviations) (c : ecase) : bool :=
  let Sy := case_sys cfg c in
  match replay c Sy rs_init (ec_obs c) 0 with
  | (_, rs, true) => final_ok c Sy rs
  | _ => false
  end.

(* the path the replay found (for theorems/examples: it is a path of the LTS by construction) *)
Definition ecase_path (cfg : deviations) (c : ecase) : list label :=
  let Sy := case_sys cfg c in
  match replay c Sy rs_init (ec_obs c) 0 with (_, rs, _) => rev (rs_path rs) end.

(* ------------------------------------------------------------------------------------------------ *)
(* Spec side: from the observations alone                                                            *)
(* ------------------------------------------------------------------------------------------------ *)
Definition obs_occs (c : ecase) : list occ :=
  flat_map (fun ob => match ob with
                      | OBus o => [o]
                      | OFire _ _ key data cx ep =>
                          [ {| o_kind := KEvent; o_key := key; o_epoch := ep; o_ctx := Some (c_id cx); o_attrs := []; o_data := data; o_opt := None |} ]
                      | _ => []
                      end) (ec_obs c).

Definition attributed (c : ecase) (T : nat) : list (kwargs * option N) :=
  flat_map (fun ob => match ob with
                      | ORunning T' _ kw cx => if Nat.eqb T' T then [(kw, c_parent cx)] else []
                      | _ => []
                      end) (ec_obs c).

(* "whose parent is the context of the occurrence (when that occurrence has one)" *)
Definition parent_ok (expected observed : option N) : bool :=
  match expected with Some p => option_eqb N.eqb observed (Some p) | None => true end.
Definition runpair_ok (observed expected : kwargs * option N) : bool :=
  kw_eqb (fst observed) (fst expected) && parent_ok (snd expected) (snd observed).

Definition runs_exact (c : ecase) (expected : nat -> list (kwargs * option N)) : bool :=
  forallb (fun T => list_eqb runpair_ok (attributed c T) (expected T)) (seq 0 (length (ec_trigs c))).

Definition hints_ok (c : ecase) : bool :=
  forallb (fun ob => match ob with
                     | ORunning T f _ _ => match nth_error (ec_trigs c) T with Some tr => N.eqb (t_func tr) f | None => false end
                     | _ => true
                     end) (ec_obs c).

Definition runnings_of (c : ecase) (f : N) : list (kwargs * ctxv) :=
  flat_map (fun ob => match ob with ORunning _ f' kw cx => if N.eqb f' f then [(kw, cx)] else [] | _ => [] end) (ec_obs c).
Definition begins_of (c : ecase) (f : N) : list (kwargs * ctxv) :=
  flat_map (fun ob => match ob with OBegin _ f' kw cx => if N.eqb f' f then [(kw, cx)] else [] | _ => [] end) (ec_obs c).
Definition funcs_of (c : ecase) : list N := map fst (ec_scripts c).

(* every started task really ran the function, with exactly the announced kwargs, in the announced context *)
Definition begins_ok (c : ecase) : bool :=
  forallb (fun f => list_eqb (fun a b => kw_eqb (fst a) (fst b) && ctxv_eqb (snd a) (snd b)) (begins_of c f) (runnings_of c f))
          (funcs_of c)
  && forallb (fun ob => match ob with
                        | OBegin _ f _ _ | ORunning _ f _ _ => existsb (N.eqb f) (funcs_of c)
                        | _ => true end) (ec_obs c).

Definition begin_of (c : ecase) (rid : Z) : option (N * kwargs * ctxv) :=
  match find (fun ob => match ob with OBegin rid' _ _ _ => Z.eqb rid' rid | _ => false end) (ec_obs c) with
  | Some (OBegin _ f kw cx) => Some (f, kw, cx)
  | _ => None
  end.

(* what a run emits carries the run's context; event.fire emits exactly what it is given *)
Definition actions_ok (c : ecase) : bool :=
  forallb (fun ob =>
    match ob with
    | OFire rid ai key data cx _ =>
        match begin_of c rid with
        | Some (f, rkw, c0) =>
            match nth_error (script_of c f) ai with
            | Some (SFire key' kw ca) =>
                let given := given_of rid ai kw ca rkw in
                N.eqb key key' && kw_eqb data (spec_fire_data given)
                && match kw_get s_context given with
                   | Some (VCtx x) => N.eqb (c_id cx) x
                   | _ => ctxv_eqb cx c0
                   end
            | _ => false
            end
        | None => false
        end
    | OSet rid ai cx | OCall rid ai cx =>
        match begin_of c rid with Some (_, _, c0) => ctxv_eqb cx c0 | None => false end
    | _ => true
    end) (ec_obs c).

Definition spec_expected (c : ecase) (T : nat) : list (kwargs * option N) :=
  match nth_error (ec_trigs c) T with Some tr => spec_runs tr (obs_occs c) | None => [] end.

Definition ecase_spec_ok (c : ecase) : bool :=
  hints_ok c && runs_exact c (spec_expected c) && begins_ok c && actions_ok c.

(* the same with the expectation of a model that has some deviations: used only to decide which known finding
   explains a Spec failure *)
Definition ecase_spec_ok_cfg (cfg : deviations) (c : ecase) : bool :=
  hints_ok c && runs_exact c (fun T => model_runs (case_sys cfg c) T (obs_occs c)) && begins_ok c && actions_ok c.

Definition ecase_attrib (cfg : deviations) (c : ecase) : list nat :=
  let only80 := {| d_webhook_dup := d_webhook_dup cfg; d_ctx_shadow_legacy := false; d_ctx_shadow_new := false |} in
  let only81 := {| d_webhook_dup := false; d_ctx_shadow_legacy := d_ctx_shadow_legacy cfg; d_ctx_shadow_new := false |} in
  let only82 := {| d_webhook_dup := false; d_ctx_shadow_legacy := false; d_ctx_shadow_new := d_ctx_shadow_new cfg |} in
  if ecase_spec_ok c then []
  else if d_webhook_dup cfg && ecase_spec_ok_cfg only80 c then [80%nat]
  else if ec_legacy c && d_ctx_shadow_legacy cfg && ecase_spec_ok_cfg only81 c then [81%nat]
  else if negb (ec_legacy c) && d_ctx_shadow_new cfg && ecase_spec_ok_cfg only82 c then [82%nat]
  else if ecase_spec_ok_cfg cfg c
       then (if d_webhook_dup cfg then [80%nat] else [])
            ++ (if ec_legacy c then (if d_ctx_shadow_legacy cfg then [81%nat] else [])
                else (if d_ctx_shadow_new cfg then [82%nat] else []))
  else [].

(* printed into replays: (observations replayed, of, replay completed, final state ok),
   (hints, runs, begins, actions), per decorator (started, expected by Spec, expected by Model, left in queue) *)
Definition ecase_explain (cfg : deviations) (c : ecase) :=
  let Sy := case_sys cfg c in
  let '(n, rs, okr) := replay c Sy rs_init (ec_obs c) 0 in
  ((n, length (ec_obs c), okr, final_ok c Sy rs),
   (hints_ok c, runs_exact c (spec_expected c), begins_ok c, actions_ok c),
   map (fun T => (length (attributed c T), length (spec_expected c T), length (model_runs Sy T (obs_occs c)),
                  length (st_q (rs_st rs) T))) (seq 0 (length (ec_trigs c)))).
