(* Trig/Guards.v — executable model of the guard pipeline that sits between a trigger occurrence and a run:
     legacy subsystem : trigger.py TrigInfo.trigger_watch l.1284-1320 (state_active, then time_active, then hold_off against
                        last_trig_time, which is set only when call_action started a run);
     new subsystem    : decorator.py FunctionDecoratorManager.dispatch l.257-261 (handlers folded in decorator order),
                        decorators/state.py StateActiveDecorator.handle_dispatch, decorators/timing.py
                        TimeActiveDecorator.handle_dispatch (own last_trig_time; per-argument loop).
   Deviation switches (on = what the code does today, all off = conformant):
     d_time_active_per_arg (D15)  the new subsystem checks every @time_active argument separately and accepts if any passes;
     d_hold_early_update   (D70)  the new subsystem records last_trig_time as soon as the time_active guard passes, also when a
                                  later guard rejects the occurrence.
   The monotonic clock (hold_off) and the wall clock (time_active) are separate coordinates of an occurrence, as in the code.
   No proofs here (see Proofs/TrigGuards.v). *)
From PV Require Import Common.Util Gen.GuardConsts Time.Windows.

Local Open Scope Z_scope.

Record deviations := { d_time_active_per_arg : bool; d_hold_early_update : bool }.
Definition all_off (c : deviations) : Prop := d_time_active_per_arg c = false /\ d_hold_early_update c = false.
Definition cfg_off : deviations := {| d_time_active_per_arg := false; d_hold_early_update := false |}.

(* ---------- @state_active ---------- *)
(* identifiers (entity names, "name.old") are [N] ids; a value is [Some v] or [None] (python None / entity absent) *)
Definition env := list (N * option N).
Fixpoint env_get (e : env) (k : N) : option (option N) :=
  match e with
  | [] => None
  | (k', v) :: r => if N.eqb k k' then Some v else env_get r k
  end.

Inductive sexpr :=
  | SConst (b : bool)
  | SEq (k : N) (v : N)                 (* name == 'v' *)
  | SNot (a : sexpr)
  | SAnd (a b : sexpr)
  | SOr (a b : sexpr).

Fixpoint sa_names (e : sexpr) : list N :=
  match e with
  | SConst _ => []
  | SEq k _ => [k]
  | SNot a => sa_names a
  | SAnd a b | SOr a b => sa_names a ++ sa_names b
  end.

Definition opt_join (x : option (option N)) : option N := match x with Some v => v | None => None end.

(* evaluation of the expression; [vars] is the symbol table handed to AstEval.eval, [cur] what a name that is not in it
   resolves to (State.get: the current state) *)
Fixpoint sa_eval (e : sexpr) (vars cur : env) : bool :=
  match e with
  | SConst b => b
  | SEq k v =>
      let x := match env_get vars k with Some x => x | None => opt_join (env_get cur k) end in
      match x with Some w => N.eqb w v | None => false end
  | SNot a => negb (sa_eval a vars cur)
  | SAnd a b => sa_eval a vars cur && sa_eval b vars cur
  | SOr a b => sa_eval a vars cur || sa_eval b vars cur
  end.

(* State.notify_var_get(var_names, new_vars): new_vars.copy(), then every other name of the expression gets its
   last notified / current value *)
Fixpoint notify_var_get (names : list N) (cur : env) (acc : env) : env :=
  match names with
  | [] => acc
  | k :: r =>
      match env_get acc k with
      | Some _ => notify_var_get r cur acc
      | None => notify_var_get r cur (acc ++ [(k, opt_join (env_get cur k))])
      end
  end.

(* ---------- occurrences ---------- *)
Inductive okind := KEvent | KState | KTime | KDirect.      (* KDirect: the function is called directly *)

Record occ := {
  o_kind : okind;
  o_mono : Z;            (* time.monotonic() when the occurrence is processed (ticks of 2^-20 s) *)
  o_wall : Z;            (* occurrence time on the wall clock, microseconds (time triggers: the trigger time) *)
  o_trig : env;          (* the triggering values (state triggers: the variable and its .old) *)
  o_cur : env            (* current state of every entity when the occurrence is processed *)
}.

Definition state_active_model (e : sexpr) (o : occ) : bool :=
  sa_eval e (notify_var_get (sa_names e) (o_cur o) (o_trig o)) (o_cur o).

Record guards := {
  g_sa : option sexpr;              (* @state_active(expr) *)
  g_ta : option (list sspec);       (* @time_active(specs…); None = no such decorator *)
  g_hold : option Z;                (* hold_off kwarg of @time_active, ticks *)
  g_ta_first : bool                 (* @time_active is written above @state_active *)
}.
Definition hold_of (g : guards) : option Z := match g_ta g with Some _ => g_hold g | None => None end.

Definition is_direct (o : occ) : bool := match o_kind o with KDirect => true | _ => false end.

Fixpoint run {S : Type} (step : S -> occ -> bool * S) (s : S) (occs : list occ) : list bool :=
  match occs with
  | [] => []
  | o :: r => let '(a, s') := step s o in a :: run step s' r
  end.

(* ---------- legacy: trigger_watch ---------- *)
Definition lg_step (g : guards) (st : Z) (sun : suntab) (last : option Z) (o : occ) : bool * option Z :=
  if is_direct o then (true, last) else
  let ok1 := match g_sa g with Some e => state_active_model e o | None => true end in
  let ok2 := if ok1 then match g_ta g with
                         | Some (_ :: _ as specs) => active_check specs st sun (o_wall o)
                         | _ => true
                         end else false in
  if negb ok2 then (false, last) else
  match hold_of g, last with
  | Some n, Some l => if cmpZ lg_hold_cmp (o_mono o) (l + n) then (false, last) else (true, Some (o_mono o))
  | _, _ => (true, Some (o_mono o))
  end.

(* ---------- new: FunctionDecoratorManager.dispatch ---------- *)
Inductive handler := HSa (e : sexpr) | HTa (specs : list sspec) (hold : option Z).

Definition handlers_of (g : guards) : list handler :=
  let sa := match g_sa g with Some e => [HSa e] | None => [] end in
  let ta := match g_ta g with Some s => [HTa s (g_hold g)] | None => [] end in
  if g_ta_first g then ta ++ sa else sa ++ ta.

(* TimeActiveDecorator.handle_dispatch; [last] is self.last_trig_time (0.0 initially) *)
Definition ta_handle (cfg : deviations) (specs : list sspec) (hold : option Z) (st : Z) (sun : suntab)
           (last : Z) (o : occ) : bool * Z :=
  let held := match hold with
              | Some n => (0 <? last) && (0 <? n) && cmpZ nw_hold_cmp (o_mono o - last) n
              | None => false
              end in
  if held then (false, last) else
  match specs with
  | [] => (true, o_mono o)
  | _ =>
      let pass := if d_time_active_per_arg cfg
                  then existsb (fun s => active_check [s] st sun (o_wall o)) specs
                  else active_check specs st sun (o_wall o) in
      if pass then (true, o_mono o) else (false, last)
  end.

Definition handle (cfg : deviations) (st : Z) (sun : suntab) (o : occ) (h : handler) (last : Z) : bool * Z :=
  match h with
  | HSa e => (state_active_model e o, last)
  | HTa specs hold => ta_handle cfg specs hold st sun last o
  end.

Fixpoint dispatch_fold (cfg : deviations) (st : Z) (sun : suntab) (o : occ) (hs : list handler) (last : Z) : bool * Z :=
  match hs with
  | [] => (true, last)
  | h :: r => let '(ok, last1) := handle cfg st sun o h last in
              if ok then dispatch_fold cfg st sun o r last1 else (false, last1)
  end.

Definition nw_step (cfg : deviations) (g : guards) (st : Z) (sun : suntab) (last : Z) (o : occ) : bool * Z :=
  if is_direct o then (true, last) else
  let '(ok, last1) := dispatch_fold cfg st sun o (handlers_of g) last in
  if ok then (true, last1) else (false, if d_hold_early_update cfg then last1 else last).

Definition accepted_legacy (g : guards) (st : Z) (sun : suntab) (occs : list occ) : list bool :=
  run (lg_step g st sun) None occs.
Definition accepted_new (cfg : deviations) (g : guards) (st : Z) (sun : suntab) (occs : list occ) : list bool :=
  run (nw_step cfg g st sun) 0 occs.
Definition accepted_model (legacy : bool) (cfg : deviations) (g : guards) (st : Z) (sun : suntab) (occs : list occ) : list bool :=
  if legacy then accepted_legacy g st sun occs else accepted_new cfg g st sun occs.

(* ================= Spec (from the property text) ================= *)
(* the expression is evaluated on the triggering values; names they do not bind have their current value *)
Definition state_active_spec (e : sexpr) (o : occ) : bool := sa_eval e (o_trig o) (o_cur o).

Definition guards_spec (g : guards) (st : Z) (sun : suntab) (o : occ) : bool :=
  match g_sa g with Some e => state_active_spec e o | None => true end
  && match g_ta g with Some specs => active_spec_b specs st sun (o_wall o) | None => true end.

(* [last] = when the last accepted run was started by a trigger; a direct call always runs and leaves no trace *)
Definition sp_step (g : guards) (st : Z) (sun : suntab) (last : option Z) (o : occ) : bool * option Z :=
  if is_direct o then (true, last) else
  let too_soon := match hold_of g, last with Some n, Some l => o_mono o - l <? n | _, _ => false end in
  if guards_spec g st sun o && negb too_soon then (true, Some (o_mono o)) else (false, last).

Definition accepted_spec (g : guards) (st : Z) (sun : suntab) (occs : list occ) : list bool :=
  run (sp_step g st sun) None occs.
