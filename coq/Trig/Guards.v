(* Trig/Guards.v — executable model of the guard pipeline that sits between a trigger occurrence and a run:
     legacy subsystem : trigger.py TrigInfo.trigger_watch l.1284-1320 (state_active, then time_active, then hold_off against
                        last_trig_time, which is set only when call_action started a run);
     new subsystem    : decorator.py FunctionDecoratorManager.dispatch l.257-261 (handlers folded in decorator order),
                        decorators/state.py StateActiveDecorator.handle_dispatch, decorators/timing.py
                        TimeActiveDecorator.handle_dispatch (own last_trig_time; per-argument loop).
   Deviation switches (on = what the code does today, all off = conformant):
     d_time_active_per_arg (D15)  the new subsystem checks every @time_active argument separately and accepts if any passes;
     d_hold_early_update   (D70)  the new subsystem records last_trig_time as soon as the time_active guard passes, also when a
                                  later guard rejects the occurrence;
     d_stale_active_vars   (D71)  both subsystems: AstEval.eval keeps the previous symbol table when the new one is empty, so
                                  @state_active goes on seeing the None it was given for an entity that did not exist yet;
     d_hold_per_trigger    (D72)  legacy subsystem: a function that repeats a trigger decorator of one kind gets one TrigInfo per
                                  repetition, each with its own last_trig_time, so hold_off is measured per trigger decorator
                                  instead of per function.
   The monotonic clock (hold_off) and the wall clock (time_active) are separate coordinates of an occurrence, as in the code.
   No proofs here (see Proofs/TrigGuards.v). *)
From PV Require Import Common.Util Gen.GuardConsts Time.Windows.

Local Open Scope Z_scope.

Record deviations := { d_time_active_per_arg : bool; d_hold_early_update : bool; d_stale_active_vars : bool;
                       d_hold_per_trigger : bool }.
Definition all_off (c : deviations) : Prop :=
  d_time_active_per_arg c = false /\ d_hold_early_update c = false /\ d_stale_active_vars c = false /\
  d_hold_per_trigger c = false.
Definition cfg_off : deviations :=
  {| d_time_active_per_arg := false; d_hold_early_update := false; d_stale_active_vars := false;
     d_hold_per_trigger := false |}.

(* ---------- @state_active ---------- *)
(* identifiers (entity names, "name.old") are [N] ids; a value is [Some v] or [None] (python None / entity absent) *)
Definition env := list (N * option N).
Fixpoint env_get (e : env) (k : N) : option (option N) :=
  match e with
  | [] => None
  | (k', v) :: r => if N.eqb k k' then Some v else env_get r k
  end.

Inductive sexpr :=
  | SConst (b : bool)
  | SEq (k : N) (v : N)                 (* name == 'v' *)
  | SNot (a : sexpr)
  | SAnd (a b : sexpr)
  | SOr (a b : sexpr).

Fixpoint sa_names (e : sexpr) : list N :=
  match e with
  | SConst _ => []
  | SEq k _ => [k]
  | SNot a => sa_names a
  | SAnd a b | SOr a b => sa_names a ++ sa_names b
  end.

Definition opt_join (x : option (option N)) : option N := match x with Some v => v | None => None end.

(* name resolution of the evaluator: [vars] is the symbol table handed to AstEval.eval, a name that is not in it
   resolves to the current state [cur] (State.get) *)
Definition lookup (vars cur : env) (k : N) : option N :=
  match env_get vars k with Some x => x | None => opt_join (env_get cur k) end.

Fixpoint sa_eval (e : sexpr) (vars cur : env) : bool :=
  match e with
  | SConst b => b
  | SEq k v => match lookup vars cur k with Some w => N.eqb w v | None => false end
  | SNot a => negb (sa_eval a vars cur)
  | SAnd a b => sa_eval a vars cur && sa_eval b vars cur
  | SOr a b => sa_eval a vars cur || sa_eval b vars cur
  end.

(* State.notify_var_get(var_names, new_vars): new_vars.copy(); every other name of the expression gets its last notified
   value if some trigger watches it, None if the entity does not exist, and is otherwise left out (the evaluator then
   reads the current state) *)
Fixpoint notify_var_get (names : list N) (last cur : env) (acc : env) : env :=
  match names with
  | [] => acc
  | k :: r =>
      match env_get acc k with
      | Some _ => notify_var_get r last cur acc
      | None =>
          match env_get last k with
          | Some v => notify_var_get r last cur (acc ++ [(k, v)])
          | None =>
              match opt_join (env_get cur k) with
              | None => notify_var_get r last cur (acc ++ [(k, None)])
              | Some _ => notify_var_get r last cur acc
              end
          end
      end
  end.

(* ---------- occurrences ---------- *)
Inductive okind := KEvent | KState | KTime | KDirect.      (* KDirect: the function is called directly *)

Record occ := {
  o_kind : okind;
  o_grp : N;             (* which of the function's trigger decorators of this kind fired (0 = the first) *)
  o_mono : Z;            (* time.monotonic() when the occurrence is processed (ticks of 2^-20 s) *)
  o_wall : Z;            (* occurrence time on the wall clock, microseconds (time triggers: the trigger time) *)
  o_trig : env;          (* the triggering values (state triggers: the variable and its .old) *)
  o_last : env;          (* State.notify_var_last: last notified value of the entities some trigger watches *)
  o_cur : env            (* current state of every entity when the occurrence is processed *)
}.

(* one evaluation of the @state_active expression; [tbl] is the evaluator's local_sym_table left by the previous
   evaluation (AstEval.eval replaces it only `if new_state_vars:`) *)
Definition sa_check (cfg : deviations) (e : sexpr) (tbl : env) (o : occ) : bool * env :=
  let vars := notify_var_get (sa_names e) (o_last o) (o_cur o) (o_trig o) in
  let tbl' := if d_stale_active_vars cfg then match vars with [] => tbl | _ => vars end else vars in
  (sa_eval e tbl' (o_cur o), tbl').

Record guards := {
  g_sa : option sexpr;              (* @state_active(expr) *)
  g_ta : option (list sspec);       (* @time_active(specs…); None = no such decorator *)
  g_hold : option Z;                (* hold_off kwarg of @time_active, ticks *)
  g_ta_first : bool                 (* @time_active is written above @state_active *)
}.
Definition hold_of (g : guards) : option Z := match g_ta g with Some _ => g_hold g | None => None end.

Definition is_direct (o : occ) : bool := match o_kind o with KDirect => true | _ => false end.

Fixpoint run {S : Type} (step : S -> occ -> bool * S) (s : S) (occs : list occ) : list bool :=
  match occs with
  | [] => []
  | o :: r => let '(a, s') := step s o in a :: run step s' r
  end.

(* ---------- legacy: trigger_watch ---------- *)
Definition lg_core_state : Type := option Z * env.      (* last_trig_time, active_expr's symbol table *)
Definition lg_core (cfg : deviations) (g : guards) (st : Z) (sun : suntab) (s : lg_core_state) (o : occ) : bool * lg_core_state :=
  let '(last, tbl) := s in
  if is_direct o then (true, s) else
  let '(ok1, tbl') := match g_sa g with Some e => sa_check cfg e tbl o | None => (true, tbl) end in
  let ok2 := if ok1 then match g_ta g with
                         | Some ((_ :: _) as specs) => active_check specs st sun (o_wall o)
                         | _ => true
                         end else false in
  if negb ok2 then (false, (last, tbl')) else
  match hold_of g, last with
  | Some n, Some l => if cmpZ lg_hold_cmp (o_mono o) (l + n) then (false, (last, tbl')) else (true, (Some (o_mono o), tbl'))
  | _, _ => (true, (Some (o_mono o), tbl'))
  end.

(* EvalFunc.trigger_init builds one TrigInfo per repetition of a trigger decorator (the j-th state, time, event ...
   decorators share the j-th TrigInfo), all with the same guards.  State: the function-wide reference a conformant
   hold_off uses, and per TrigInfo its own last_trig_time and symbol table. *)
Definition amap (A : Type) : Type := list (N * A).
Fixpoint aget {A} (m : amap A) (k : N) : option A :=
  match m with
  | [] => None
  | (k', v) :: r => if N.eqb k k' then Some v else aget r k
  end.
Definition lg_state : Type := option Z * amap (option Z) * amap env.
Definition lg_step (cfg : deviations) (g : guards) (st : Z) (sun : suntab) (s : lg_state) (o : occ) : bool * lg_state :=
  if is_direct o then (true, s) else
  let '(glast, plast, tbls) := s in
  let k := o_grp o in
  let last := if d_hold_per_trigger cfg then match aget plast k with Some l => l | None => None end else glast in
  let tbl := match aget tbls k with Some t => t | None => [] end in
  let '(a, (last', tbl')) := lg_core cfg g st sun (last, tbl) o in
  (a, (last', (k, last') :: plast, (k, tbl') :: tbls)).

(* ---------- new: FunctionDecoratorManager.dispatch ---------- *)
Inductive handler := HSa (e : sexpr) | HTa (specs : list sspec) (hold : option Z).

Definition handlers_of (g : guards) : list handler :=
  let sa := match g_sa g with Some e => [HSa e] | None => [] end in
  let ta := match g_ta g with Some s => [HTa s (g_hold g)] | None => [] end in
  if g_ta_first g then ta ++ sa else sa ++ ta.

(* TimeActiveDecorator.handle_dispatch; [last] is self.last_trig_time (0.0 initially) *)
Definition ta_handle (cfg : deviations) (specs : list sspec) (hold : option Z) (st : Z) (sun : suntab)
           (last : Z) (o : occ) : bool * Z :=
  let held := match hold with
              | Some n => (0 <? last) && (0 <? n) && cmpZ nw_hold_cmp (o_mono o - last) n
              | None => false
              end in
  if held then (false, last) else
  match specs with
  | [] => (true, o_mono o)
  | _ =>
      let pass := if d_time_active_per_arg cfg
                  then existsb (fun s => active_check [s] st sun (o_wall o)) specs
                  else active_check specs st sun (o_wall o) in
      if pass then (true, o_mono o) else (false, last)
  end.

Definition nw_state : Type := Z * env.                   (* TimeActiveDecorator.last_trig_time, StateActiveDecorator's symbol table *)
Definition handle (cfg : deviations) (st : Z) (sun : suntab) (o : occ) (h : handler) (s : nw_state) : bool * nw_state :=
  let '(last, tbl) := s in
  match h with
  | HSa e => let '(ok, tbl') := sa_check cfg e tbl o in (ok, (last, tbl'))
  | HTa specs hold => let '(ok, last') := ta_handle cfg specs hold st sun last o in (ok, (last', tbl))
  end.

Fixpoint dispatch_fold (cfg : deviations) (st : Z) (sun : suntab) (o : occ) (hs : list handler) (s : nw_state) : bool * nw_state :=
  match hs with
  | [] => (true, s)
  | h :: r => let '(ok, s1) := handle cfg st sun o h s in
              if ok then dispatch_fold cfg st sun o r s1 else (false, s1)
  end.

(* a conformant dispatch records last_trig_time only when every handler accepted *)
Definition nw_step (cfg : deviations) (g : guards) (st : Z) (sun : suntab) (s : nw_state) (o : occ) : bool * nw_state :=
  if is_direct o then (true, s) else
  let '(ok, s1) := dispatch_fold cfg st sun o (handlers_of g) s in
  if ok then (true, s1) else (false, if d_hold_early_update cfg then s1 else (fst s, snd s1)).

Definition accepted_legacy (cfg : deviations) (g : guards) (st : Z) (sun : suntab) (occs : list occ) : list bool :=
  run (lg_step cfg g st sun) (None, [], []) occs.
Definition accepted_new (cfg : deviations) (g : guards) (st : Z) (sun : suntab) (occs : list occ) : list bool :=
  run (nw_step cfg g st sun) (0, []) occs.
Definition accepted_model (legacy : bool) (cfg : deviations) (g : guards) (st : Z) (sun : suntab) (occs : list occ) : list bool :=
  if legacy then accepted_legacy cfg g st sun occs else accepted_new cfg g st sun occs.

(* ================= Spec (from the property text) ================= *)
(* the expression is evaluated on the triggering values; names they do not bind have their current value *)
Definition state_active_spec (e : sexpr) (o : occ) : bool := sa_eval e (o_trig o) (o_cur o).

Definition guards_spec (g : guards) (st : Z) (sun : suntab) (o : occ) : bool :=
  match g_sa g with Some e => state_active_spec e o | None => true end
  && match g_ta g with Some specs => active_spec_b specs st sun (o_wall o) | None => true end.

(* [last] = when the last accepted run was started by a trigger; a direct call always runs and leaves no trace *)
Definition sp_step (g : guards) (st : Z) (sun : suntab) (last : option Z) (o : occ) : bool * option Z :=
  if is_direct o then (true, last) else
  let too_soon := match hold_of g, last with Some n, Some l => o_mono o - l <? n | _, _ => false end in
  if guards_spec g st sun o && negb too_soon then (true, Some (o_mono o)) else (false, last).

Definition accepted_spec (g : guards) (st : Z) (sun : suntab) (occs : list occ) : list bool :=
  run (sp_step g st sun) None occs.

(* the same, declaratively: when the last run accepted from a trigger was started, given the verdicts so far *)
Fixpoint last_from (sp : option Z) (occs : list occ) (acc : list bool) : option Z :=
  match occs, acc with
  | o :: r, a :: ar => last_from (if a && negb (is_direct o) then Some (o_mono o) else sp) r ar
  | _, _ => sp
  end.
Definition last_accepted (occs : list occ) (acc : list bool) : option Z := last_from None occs acc.

(* the verdict the property text demands for occurrence [o], given when the last accepted run was started *)
Definition verdict_spec (g : guards) (st : Z) (sun : suntab) (last : option Z) (o : occ) : bool :=
  is_direct o ||
  (guards_spec g st sun o &&
   match hold_of g, last with Some n, Some l => negb (o_mono o - l <? n) | _, _ => true end).

(* ---------- side conditions of the theorems ---------- *)
(* State.notify_var_last holds the current value of the entities it knows *)
Definition occ_ok (o : occ) : Prop :=
  forall k v, env_get (o_last o) k = Some v -> opt_join (env_get (o_cur o) k) = v.
(* the monotonic clock is positive and does not go backwards along the occurrence list *)
Fixpoint nondecr (lo : Z) (occs : list occ) : Prop :=
  match occs with
  | [] => True
  | o :: r => lo <= o_mono o /\ nondecr (o_mono o) r
  end.
Definition hold_nonneg (g : guards) : Prop := forall n, g_hold g = Some n -> 0 <= n.
