(* Trig/StateTrig.v — executable model of the @state_trigger decision (C04), legacy and default subsystem, and the Spec.

   Mirrors:
     trigger.py TrigInfo.__init__ (l.941-975) / decorators/state.py StateTriggerDecorator.validate (l.104):
         classification of the arguments by STATE_RE into any-change forms and expressions       -> [classify], [trig_anys], [trig_exprs]
         watched names: watch=... or get_names(expression) + any-change names                     -> [trig_ident]
     eval.py get_names / ast_attribute_collapse / ast_attribute / ast_name on dotted names         -> [bexp_names], [tev]
     trigger.py ident_any_values_changed (l.59), ident_values_changed (l.91)                       -> [any_changed], [values_changed]
     trigger.py trigger_watch, state branch (l.1185-1232) / decorators/state.py _cycle (l.221)     -> [decide]
     trigger.py call_action func_args.update(kwargs) / decorator_abc.py TriggerDecorator.dispatch   -> [merge_kw], [mk_run]
     the trigger tasks draining their queues after a burst                                         -> [burst_runs], [run_history]

   The trigger expression language shipped by the harness is the small total grammar [bexp] over dotted names; the model
   evaluates it with pyscript's name resolution ([tev]: notify_vars first, then hass.states at evaluation time, then the
   attribute fallback of ast_attribute), the Spec evaluates it on the event's own values ([spec_term]).
   Deviation switches ([sdev]): on = what the code does today, off = what the property text states.
   No proofs here (see Proofs/TrigStateTrig.v). *)
From PV Require Import Common.Util Gen.StateTrigConsts Trig.Notify.

(* ---------- deviation switches ---------- *)
Record sdev := {
  d_late_read : bool;        (* D40: names notify_var_get left out are read from hass.states when the trigger task runs,
                                     i.e. after the whole burst, not as of the event *)
  d_undef_raises : bool;     (* D41: a name that is not in the watched set (watch=...) and is undefined raises
                                     NameError/AttributeError instead of reading as None: the expression counts as false *)
  d_noexpr_runs : bool;      (* D42: default subsystem, no expression: a watched change that matches no any-change form runs *)
  d_grouped_order : bool;    (* D43: runs of a burst start grouped by trigger (decorator) in wake-up order, not in event order *)
  d_watch_hides_any : bool   (* D44: with watch=..., an any-change form whose entity is not watched is never notified *)
}.
Definition sdev_off : sdev :=
  {| d_late_read := false; d_undef_raises := false; d_noexpr_runs := false; d_grouped_order := false;
     d_watch_hides_any := false |}.
Definition sdev_code : sdev :=
  {| d_late_read := true; d_undef_raises := true; d_noexpr_runs := true; d_grouped_order := true;
     d_watch_hides_any := true |}.

(* ---------- trigger arguments ---------- *)
Inductive term :=
  | TVal (e : ent)                    (* d.e *)
  | TAttr (e : ent) (a : attr)        (* d.e.attr *)
  | TOld (e : ent)                    (* d.e.old *)
  | TOldAttr (e : ent) (a : attr).    (* d.e.old.attr *)
Definition term_name (t : term) : name :=
  match t with
  | TVal e => NEnt e | TAttr e a => NAttr e a | TOld e => NOld e | TOldAttr e a => NOldAttr e a
  end.

(* operands: shapes around a dotted name.  Method calls, subscripts and attribute accesses here are applied to the RESULT of
   a call / subscript / parenthesised expression (never directly to a dotted name, which would collapse into a longer name),
   except the slice, which is a Subscript and may sit on a bare name. *)
Inductive oexp :=
  | OTerm (t : term)                  (* d.e ... *)
  | OStr (o : oexp)                   (* str(o) *)
  | OInt (o : oexp)                   (* int(o) *)
  | OOrEmpty (o : oexp)               (* (o or '') *)
  | OOrZero (o : oexp)                (* (o or 0) *)
  | OStrip (o : oexp)                 (* o.strip()        o not a bare name *)
  | OSplit0 (o : oexp)                (* o.split(',')[0]  o not a bare name *)
  | OSlice (o : oexp).                (* o[0:] *)
Coercion OTerm : term >-> oexp.

Inductive const := CNone | CStr (v : val) | CInt (v : val) | CEmptyStr | CNoneStr.     (* None, '<v>', v, '', 'None' *)

Inductive bexp :=
  | BEqC (o : oexp) (c : const)       (* (o == c) *)
  | BNeC (o : oexp) (c : const)       (* (o != c) *)
  | BEqT (o u : oexp)                 (* (o == u) *)
  | BNeT (o u : oexp)                 (* (o != u) *)
  | BGtC (o : oexp) (n : N)           (* (o > n) *)
  | BTruthy (o : oexp)                (* o          (a bare dotted name when o is a term) *)
  | BNot (b : bexp)                   (* (not b) *)
  | BAnd (b c : bexp)                 (* (b and c) *)
  | BOr (b c : bexp).                 (* (b or c) *)

(* one string argument of @state_trigger *)
Inductive arg :=
  | AExpr (b : bexp)
  | AStarArg (e : ent).               (* "d.e.*" *)

Inductive anyform :=
  | AVal (e : ent)                    (* "d.e" *)
  | AAttr (e : ent) (a : attr)        (* "d.e.attr" *)
  | AOld (e : ent)                    (* "d.e.old": STATE_RE accepts it; an attribute named "old" *)
  | AStar (e : ent).                  (* "d.e.*" *)

(* STATE_RE (checked by the translator to be word.word with an optional .word or .star suffix, anchored at the end) is
   matched from the start of the string: it accepts exactly the bare names with 2 or 3 parts.
   Every other expression is rendered with parentheses or has 4 parts, and does not match. *)
Definition classify (a : arg) : anyform + bexp :=
  match a with
  | AStarArg e => inl (AStar e)
  | AExpr (BTruthy (OTerm (TVal e))) => inl (AVal e)
  | AExpr (BTruthy (OTerm (TAttr e x))) => inl (AAttr e x)
  | AExpr (BTruthy (OTerm (TOld e))) => inl (AOld e)
  | AExpr b => inr b
  end.
Definition args_anys (l : list arg) : list anyform :=
  flat_map (fun a => match classify a with inl f => [f] | inr _ => [] end) l.
Definition args_exprs (l : list arg) : list bexp :=
  flat_map (fun a => match classify a with inl _ => [] | inr b => [b] end) l.

Definition any_name (f : anyform) : name :=
  match f with AVal e => NEnt e | AAttr e a => NAttr e a | AOld e => NOld e | AStar e => NStar e end.

(* AstEval.get_names on the expression: every dotted name collapses to one name; the walk descends through calls,
   subscripts, attribute accesses on non-names and boolean operators *)
Fixpoint oexp_terms (o : oexp) : list term :=
  match o with
  | OTerm t => [t]
  | OStr o | OInt o | OOrEmpty o | OOrZero o | OStrip o | OSplit0 o | OSlice o => oexp_terms o
  end.
Definition oexp_names (o : oexp) : list name := map term_name (oexp_terms o).
Fixpoint bexp_names (b : bexp) : list name :=
  match b with
  | BEqC o _ | BNeC o _ | BGtC o _ | BTruthy o => oexp_names o
  | BEqT o u | BNeT o u => oexp_names o ++ oexp_names u
  | BNot b => bexp_names b
  | BAnd b c | BOr b c => bexp_names b ++ bexp_names c
  end.

(* keyword arguments handed to the trigger function *)
Inductive kwval :=
  | KNone
  | KSv (s : sv)           (* a StateVal *)
  | KTypeState             (* the string "state" *)
  | KEnt (e : ent)         (* an entity name string *)
  | KCtx (id : N)          (* the Context of event number id *)
  | KInt (n : N)           (* an int constant from the decorator's kwargs *)
  | KOther.                (* anything else the harness observed; equal to nothing *)

Record trig := {
  t_id : N;                          (* decorator number (unique in the case) *)
  t_fn : N;                          (* function it decorates *)
  t_args : list arg;                 (* positional arguments, lists/sets flattened *)
  t_watch : option (list name);      (* watch=... *)
  t_kwargs : list (N * kwval)        (* kwargs=... ; keys as in Gen.StateTrigConsts, >= 5 for user keys *)
}.
Definition trig_anys (T : trig) := args_anys (t_args T).
Definition trig_exprs (T : trig) := args_exprs (t_args T).
(* state_trig_ident *)
Definition trig_ident (T : trig) : list name :=
  match t_watch T with
  | Some w => w
  | None => flat_map bexp_names (trig_exprs T) ++ map any_name (trig_anys T)
  end.
(* the names whose entities the trigger's queue is subscribed to *)
Definition trig_sub_names (cfg : sdev) (T : trig) : list name :=
  match t_watch T with
  | Some w => if d_watch_hides_any cfg then w else w ++ map any_name (trig_anys T)
  | None => trig_ident T
  end.

(* ---------- which names changed ---------- *)
(* ident_any_values_changed(func_args, state_trig_ident_any) *)
Definition any_form_changed (ev : event) (f : anyform) : bool :=
  match f with
  | AVal e => N.eqb e (ev_ent ev) && value_differs (ev_old ev) (ev_new ev)
  | AAttr e a => N.eqb e (ev_ent ev) && attr_differs a (ev_new ev) (ev_old ev)
  | AOld e => false                                    (* getattr(value, "old", None) != getattr(old_value, "old", None) *)
  | AStar e => N.eqb e (ev_ent ev) && any_attr_differs (ev_new ev) (ev_old ev)
  end.
Definition any_changed (ev : event) (l : list anyform) : bool := existsb (any_form_changed ev) l.

(* ident_values_changed(func_args, state_trig_ident) *)
Definition name_changed (ev : event) (n : name) : bool :=
  match n with
  | NEnt e | NOld e => N.eqb e (ev_ent ev) && value_differs (ev_new ev) (ev_old ev)
  | NAttr e a => N.eqb e (ev_ent ev) && attr_differs a (ev_new ev) (ev_old ev)
  | NStar e => false                                   (* getattr(value, "*", None) is None on both sides *)
  | NOldAttr _ _ => false                              (* more than 3 parts: skipped *)
  end.
Definition values_changed (ev : event) (l : list name) : bool := existsb (name_changed ev) l.

(* ---------- evaluation of a term the way AstEval resolves dotted names ---------- *)
Inductive res := RVal (v : pyval) | RExc.

Section Eval.
  Variable cfg : sdev.
  Variable nv : name -> option pyval.     (* notify_vars (local symbol table of the expression) *)
  Variable hf : hass.                     (* hass.states when the expression is evaluated *)

  (* NameError / AttributeError, or None where the property text says undefined reads as None *)
  Definition undef : res := if d_undef_raises cfg then RExc else RVal PNone.

  (* ast_name("d.e"): symbol table, else State.get (NameError if missing) *)
  Definition eval_ent (x : ent) : res :=
    match nv (NEnt x) with
    | Some v => RVal v
    | None => match hget hf x with Some s => RVal (PSv s) | None => undef end
    end.
  (* getattr(val, attr) without default *)
  Definition getattr_strict (r : res) (a : attr) : res :=
    match r with
    | RExc => RExc
    | RVal (PSv s) => match get_attr a s with Some v => RVal (PAtom v) | None => undef end
    | RVal _ => undef
    end.
  Definition eval_old (x : ent) : res :=
    match nv (NOld x) with
    | Some v => RVal v
    | None => match eval_ent x with RExc => RExc | RVal _ => undef end     (* getattr(d.e, "old") *)
    end.
  Definition tev (t : term) : res :=
    match t with
    | TVal x => eval_ent x
    | TAttr x a =>
        match nv (NAttr x a) with
        | Some v => RVal v
        | None =>
            match ogetattr a (hget hf x) with
            | Some v => RVal (PAtom v)                      (* two dots and State.exist: State.get *)
            | None => getattr_strict (eval_ent x) a         (* EvalName: evaluate d.e, then getattr *)
            end
        end
    | TOld x => eval_old x
    | TOldAttr x a =>
        match nv (NOldAttr x a) with
        | Some v => RVal v
        | None => getattr_strict (eval_old x) a             (* three dots: evaluate d.e.old, then getattr *)
        end
    end.
End Eval.

(* values of operands: None, a StateVal, an int, a plain str ('' / 'None' / the digits of v) *)
Inductive strc := StrEmpty | StrNoneWord | StrDig (v : val).
Inductive xval := XNone | XSv (s : sv) | XInt (n : N) | XStr (c : strc).
Definition x_of_pyval (v : pyval) : xval := match v with PNone => XNone | PSv s => XSv s | PAtom n => XInt n end.
Definition x_str (x : xval) : option strc :=          (* the text when x is a str *)
  match x with XSv s => Some (StrDig (sv_val s)) | XStr c => Some c | _ => None end.
Definition strc_eqb (a b : strc) : bool :=
  match a, b with
  | StrEmpty, StrEmpty | StrNoneWord, StrNoneWord => true
  | StrDig v, StrDig w => N.eqb v w
  | _, _ => false
  end.
Definition x_truthy (x : xval) : bool :=
  match x with
  | XNone => false | XSv _ => true                      (* state strings are never empty *)
  | XInt n => negb (N.eqb n 0)
  | XStr StrEmpty => false | XStr _ => true
  end.
Definition x_eq_const (x : xval) (c : const) : bool :=
  match c with
  | CNone => match x with XNone => true | _ => false end
  | CInt m => match x with XInt n => N.eqb n m | _ => false end
  | CStr w => match x_str x with Some t => strc_eqb t (StrDig w) | None => false end
  | CEmptyStr => match x_str x with Some t => strc_eqb t StrEmpty | None => false end
  | CNoneStr => match x_str x with Some t => strc_eqb t StrNoneWord | None => false end
  end.
Definition x_eq (x y : xval) : bool :=
  match x, y with
  | XNone, XNone => true
  | XInt n, XInt m => N.eqb n m
  | _, _ => match x_str x, x_str y with Some a, Some b => strc_eqb a b | _, _ => false end
  end.

Section BEval.
  Variable ev_term : term -> res.
  (* [None] = an exception escaped *)
  Fixpoint oeval (o : oexp) : option xval :=
    match o with
    | OTerm t => match ev_term t with RVal v => Some (x_of_pyval v) | RExc => None end
    | OStr o =>
        match oeval o with
        | Some XNone => Some (XStr StrNoneWord)
        | Some (XSv s) => Some (XStr (StrDig (sv_val s)))
        | Some (XInt n) => Some (XStr (StrDig n))
        | Some (XStr c) => Some (XStr c)
        | None => None
        end
    | OInt o =>
        match oeval o with
        | Some (XInt n) => Some (XInt n)
        | Some (XSv s) => Some (XInt (sv_val s))
        | Some (XStr (StrDig n)) => Some (XInt n)
        | _ => None                                     (* int(None): TypeError; int(''), int('None'): ValueError *)
        end
    | OOrEmpty o => match oeval o with Some x => Some (if x_truthy x then x else XStr StrEmpty) | None => None end
    | OOrZero o => match oeval o with Some x => Some (if x_truthy x then x else XInt 0) | None => None end
    | OStrip o | OSplit0 o | OSlice o =>
        match oeval o with
        | Some x => match x_str x with Some c => Some (XStr c) | None => None end   (* None / int: AttributeError, TypeError *)
        | None => None
        end
    end.
  Fixpoint beval (b : bexp) : option bool :=
    match b with
    | BEqC o c => option_map (fun x => x_eq_const x c) (oeval o)
    | BNeC o c => option_map (fun x => negb (x_eq_const x c)) (oeval o)
    | BEqT o u => match oeval o with Some x => option_map (x_eq x) (oeval u) | None => None end
    | BNeT o u => match oeval o with Some x => option_map (fun y => negb (x_eq x y)) (oeval u) | None => None end
    | BGtC o n => match oeval o with Some (XInt m) => Some (N.ltb n m) | _ => None end   (* str/None > int: TypeError *)
    | BTruthy o => option_map x_truthy (oeval o)
    | BNot b => option_map negb (beval b)
    | BAnd b c => match beval b with Some true => beval c | r => r end
    | BOr b c => match beval b with Some false => beval c | r => r end
    end.
  (* one expression, or any([e1, e2, ...]) whose list display evaluates every element first *)
  Fixpoint all_vals (l : list bexp) : option (list bool) :=
    match l with
    | [] => Some []
    | b :: r => match beval b with
                | Some x => match all_vals r with Some xs => Some (x :: xs) | None => None end
                | None => None
                end
    end.
  Definition exprs_truthy (l : list bexp) : bool :=
    match all_vals l with Some xs => existsb (fun x => x) xs | None => false end.   (* exception: logged, False *)
End BEval.

(* ---------- the decision for one queue entry ---------- *)
Definition decide (cfg : sdev) (legacy : bool) (T : trig) (it : item) (hnow : hass) : bool :=
  let ev := it_ev it in
  if any_changed ev (trig_anys T) then true
  else if negb (values_changed ev (trig_ident T)) then false
  else match trig_exprs T with
       | [] => negb legacy && d_noexpr_runs cfg            (* legacy: trig_ok = False; default: _is_trig_ok() = True *)
       | es =>
           let hf := if d_late_read cfg then hnow else it_hass it in
           exprs_truthy (tev cfg (nv_lookup (trig_ident T) it) hf) es
       end.

(* ---------- keyword arguments ---------- *)
Definition std_kw_val (ev : event) (k : N) : kwval :=
  if N.eqb k key_trigger_type then KTypeState
  else if N.eqb k key_var_name then KEnt (ev_ent ev)
  else if N.eqb k key_value then match ev_new ev with Some s => KSv s | None => KNone end
  else if N.eqb k key_old_value then match ev_old ev with Some s => KSv s | None => KNone end
  else if N.eqb k key_context then KCtx (ev_id ev)
  else KOther.
(* func_args built by state_changed *)
Definition std_kw (ev : event) : list (N * kwval) := map (fun k => (k, std_kw_val ev k)) st_std_keys.
(* func_args.update(kwargs) *)
Definition merge_kw (std user : list (N * kwval)) : list (N * kwval) :=
  map (fun p => (fst p, match assoc (fst p) user with Some u => u | None => snd p end)) std
  ++ filter (fun p => negb (existsb (N.eqb (fst p)) (map fst std))) user.

Record run := mkRun { r_tid : N; r_fn : N; r_ev : N; r_kw : list (N * kwval) }.
Definition mk_run (T : trig) (ev : event) : run :=
  mkRun (t_id T) (t_fn T) (ev_id ev) (merge_kw (std_kw ev) (t_kwargs T)).

(* ---------- the whole system over a history of bursts ---------- *)
Record sys := { s_legacy : bool; s_trigs : list trig }.      (* triggers in start order *)
Record gstate := mkG { g_h : hass; g_last : last_map; g_next : N }.
Definition g_init (h0 : hass) : gstate := mkG h0 [] 1.

(* the writes of one burst, issued back to back: every state_changed handler runs to completion inside async_set *)
Fixpoint burst_events (cfg : sdev) (trigs : list trig) (st : gstate) (ops : list op) : gstate * list (trig * item) :=
  match ops with
  | [] => (st, [])
  | o :: r =>
      let '(h', oev) := apply_op (g_h st) (g_next st) o in
      match oev with
      | None => burst_events cfg trigs (mkG h' (g_last st) (N.succ (g_next st))) r
      | Some ev =>
          let '(last', pushes) := state_update (trig_sub_names cfg) trigs h' (g_last st) ev in
          let '(st2, more) := burst_events cfg trigs (mkG h' last' (N.succ (g_next st))) r in
          (st2, pushes ++ more)
      end
  end.

Definition decide_push (cfg : sdev) (legacy : bool) (hnow : hass) (p : trig * item) : list run :=
  if decide cfg legacy (fst p) (snd p) hnow then [mk_run (fst p) (it_ev (snd p))] else [].

Fixpoint dedup (l : list N) : list N :=
  match l with
  | [] => []
  | x :: r => x :: filter (fun y => negb (N.eqb y x)) (dedup r)
  end.

(* the trigger tasks wake in the order of their first queue entry; each drains its queue before the next one runs *)
Definition burst_runs (cfg : sdev) (legacy : bool) (hnow : hass) (pushes : list (trig * item)) : list run :=
  if d_grouped_order cfg then
    flat_map (fun tid => flat_map (decide_push cfg legacy hnow) (filter (fun p => N.eqb (t_id (fst p)) tid) pushes))
             (dedup (map (fun p => t_id (fst p)) pushes))
  else flat_map (decide_push cfg legacy hnow) pushes.

Fixpoint run_bursts (cfg : sdev) (s : sys) (st : gstate) (hist : list (list op)) : list run :=
  match hist with
  | [] => []
  | b :: r =>
      let '(st', pushes) := burst_events cfg (s_trigs s) st b in
      burst_runs cfg (s_legacy s) (g_h st') pushes ++ run_bursts cfg s st' r
  end.
Definition run_history (cfg : sdev) (s : sys) (h0 : hass) (hist : list (list op)) : list run :=
  run_bursts cfg s (g_init h0) hist.

Definition trig_runs (cfg : sdev) (s : sys) (tid : N) (h0 : hass) (hist : list (list op)) : list run :=
  filter (fun r => N.eqb (r_tid r) tid) (run_history cfg s h0 hist).
Definition fn_runs (cfg : sdev) (s : sys) (fn : N) (h0 : hass) (hist : list (list op)) : list run :=
  filter (fun r => N.eqb (r_fn r) fn) (run_history cfg s h0 hist).

(* ================================ Spec (from the property text) ================================ *)
(* the events of a history, each with hass.states as of that event *)
Fixpoint hist_events (h : hass) (id : N) (ops : list op) : list (event * hass) :=
  match ops with
  | [] => []
  | o :: r =>
      let '(h', oev) := apply_op h id o in
      match oev with
      | None => hist_events h' (N.succ id) r
      | Some ev => (ev, h') :: hist_events h' (N.succ id) r
      end
  end.

(* "evaluated on that event's values, with NAME.old bound to the changed variable's previous value and undefined
   variables or attributes read as None" *)
Definition spec_term (ev : event) (S : hass) (t : term) : pyval :=
  match t with
  | TVal x => of_osv (hget S x)
  | TAttr x a => of_oatom (ogetattr a (hget S x))
  | TOld x => if N.eqb x (ev_ent ev) then of_osv (ev_old ev) else PNone
  | TOldAttr x a => if N.eqb x (ev_ent ev) then of_oatom (ogetattr a (ev_old ev)) else PNone
  end.
(* the expression (several arguments: "logically or-ed into a single expression", any([...])) has Python's meaning on these
   values; an expression that raises is not truthy *)
Definition spec_truthy (ev : event) (S : hass) (l : list bexp) : bool :=
  exprs_truthy (fun t => RVal (spec_term ev S t)) l.

(* "a change of a watched variable or attribute at which the trigger expression is truthy, or which matches an
   any-change form" *)
Definition qualifies (T : trig) (ev : event) (S : hass) : bool :=
  any_changed ev (trig_anys T)
  || (values_changed ev (trig_ident T) && spec_truthy ev S (trig_exprs T)).

Definition spec_trig_runs (T : trig) (h0 : hass) (hist : list (list op)) : list run :=
  flat_map (fun p => if qualifies T (fst p) (snd p) then [mk_run T (fst p)] else []) (hist_events h0 1 (concat hist)).
(* runs of one function: in event order *)
Definition spec_fn_runs (s : sys) (fn : N) (h0 : hass) (hist : list (list op)) : list run :=
  flat_map (fun p => flat_map (fun T => if N.eqb (t_fn T) fn && qualifies T (fst p) (snd p) then [mk_run T (fst p)] else [])
                              (s_trigs s))
           (hist_events h0 1 (concat hist)).
