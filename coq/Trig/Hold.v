(* Trig/Hold.v — executable models of the state_check_now / state_hold / state_hold_false timing logic (C05).

   Time is [Z] microseconds since the instant the trigger is defined (time 0).  A history is a list of timed
   inputs with strictly increasing positive times.  Arguments (the kwargs handed to the trigger function) are
   [N] ids: 0 = the definition-time arguments {"trigger_type": "state"}, k>0 = the arguments of the k-th state
   write of the history (the harness keeps the id <-> kwargs table and checks var_name/value/old_value).

   Four implementation models, each a [machine] (step on an input, pending timer, timer expiry) run by the
   same driver [drive]:
     lg  : trigger.py  TrigInfo.trigger_watch        (legacy @state_trigger)           l.1098-1262
     wul : trigger.py  TrigTime.wait_until           (legacy task.wait_until)          l.257-324, 466-542
     dm  : decorators/state.py _cycle/_check_new_state/_check_state_hold  (@state_trigger, default subsystem)
     wud : the same code run by decorator.py WaitUntilDecoratorManager     (task.wait_until, default subsystem)
   and the Spec [sp], a fold written from docs/reference.rst (state_check_now / state_hold / state_hold_false
   paragraphs, l.422-457, 1451-1476) and the property text.
   Comparison operators and the 1 us epsilons come from Gen/HoldConsts.v (regenerated from /repo every run).
   No proofs here (see Proofs/TrigHold.v). *)
From PV Require Import Common.Util Gen.HoldConsts.
Local Open Scope Z_scope.

Definition zcmp (c : cmpop) (a b : Z) : bool :=
  match c with
  | CmpLe => a <=? b | CmpLt => a <? b | CmpGe => b <=? a | CmpGt => b <? a
  | CmpEq => a =? b | CmpNe => negb (a =? b)
  end.

(* ---------- inputs, configuration, observations ---------- *)
Inductive hin :=
  | HEval (truth : bool) (a : N)   (* watched value change; the expression evaluates to [truth] *)
  | HAny (a : N)                   (* change of a variable listed as a plain name ("any change" form) *)
  | HIrr (a : N)                   (* attribute-only update of a value-watched entity: delivered, not evaluated *)
  | HUnw.                          (* change of an unwatched entity: never delivered *)

Record hcfg := { check_now : option bool; hold : option Z; hold_false : option Z }.
Definition run : Type := (Z * N)%type.          (* virtual time of the run, argument id *)
Definition history := list (Z * hin).

Definition is_some {A} (o : option A) : bool := match o with Some _ => true | None => false end.
(* state_check_now: unset = False for decorators, = True for task.wait_until *)
Definition cn_dec (c : hcfg) : bool := match check_now c with Some true => true | _ => false end.
Definition cn_wu (c : hcfg) : bool := match check_now c with Some false => false | _ => true end.

(* deviation switches: on = what the code does today, off = conformant *)
Record deviations := {
  d_irr_as_false : bool;     (* D14: dm treats an attribute-only update as a false evaluation *)
  d_latest_args : bool;      (* D50: dm passes the latest notification's arguments after state_hold *)
  d_dm_start_hf : bool;      (* D51: dm decorator, check_now + hold_false + initially true: no trigger at start *)
  d_wul_init_false : bool;   (* D52: legacy wait_until, check_now + hold_false: initial false does not start the period *)
  d_wud_drop_hf : bool       (* D53: dm wait_until drops hold_false for good when initially true with check_now *)
}.
Definition no_dev : deviations :=
  {| d_irr_as_false := false; d_latest_args := false; d_dm_start_hf := false; d_wul_init_false := false;
     d_wud_drop_hf := false |}.
Definition all_off (d : deviations) : Prop := d = no_dev.

(* ---------- machines and the driver ---------- *)
Record machine (St : Type) := {
  m_step : St -> Z -> hin -> St * list run;     (* one delivered (or undelivered) input at time t *)
  m_due : St -> option Z;                       (* expiry instant of the pending state_hold timer *)
  m_post : St -> Z -> bool;                     (* loop top right after an input at t: does the timer fire at once? *)
  m_expire : St -> Z -> St * list run           (* the timeout branch *)
}.
Arguments m_step {St}. Arguments m_due {St}. Arguments m_post {St}. Arguments m_expire {St}.

(* timers that expired strictly before the next input fire first *)
Definition pre_expire {St} (m : machine St) (st : St) (t : Z) : St * list run :=
  match m_due m st with
  | Some e => if e <? t then m_expire m st e else (st, [])
  | None => (st, [])
  end.
Definition post_expire {St} (m : machine St) (st : St) (t : Z) : St * list run :=
  match m_due m st with
  | Some e => if m_post m st t then m_expire m st e else (st, [])
  | None => (st, [])
  end.

Fixpoint drive {St} (m : machine St) (st : St) (h : history) : list run :=
  match h with
  | [] => match m_due m st with Some e => snd (m_expire m st e) | None => [] end
  | (t, i) :: r =>
      let '(st1, o1) := pre_expire m st t in
      let '(st2, o2) := m_step m st1 t i in
      let '(st3, o3) := post_expire m st2 t in
      o1 ++ o2 ++ o3 ++ drive m st3 r
  end.

Definition run_machine {St} (m : machine St) (ini : St * list run) (h : history) : list run :=
  let '(st0, o0) := ini in
  let '(st1, o1) := post_expire m st0 0 in
  o0 ++ o1 ++ drive m st1 h.

(* ---------- legacy: trigger_watch and wait_until ---------- *)
Record lstate := { l_wait : bool; l_t0 : Z; l_info : N; l_ft : option Z }.
  (* state_trig_waiting, last_state_trig_time, state_trig_notify_info, state_false_time *)
Definition l_set_ft (st : lstate) (ft : option Z) : lstate :=
  {| l_wait := l_wait st; l_t0 := l_t0 st; l_info := l_info st; l_ft := ft |}.
Definition l_init_state : lstate := {| l_wait := false; l_t0 := 0; l_info := 0%N; l_ft := None |}.

(* the `if self.state_hold_false is not None:` block for an evaluation caused by a change; -> (ft', proceed) *)
Definition lg_hf_block (cmp : cmpop) (H : Z) (ft : option Z) (t : Z) (ok : bool) : option Z * bool :=
  match ft with
  | None => if ok then (None, false) else (Some t, true)
  | Some f => if ok then (None, negb (zcmp cmp (t - f) H)) else (Some f, true)
  end.

(* the `if self.state_hold is not None:` block followed by the call *)
Definition lg_hold_block (c : hcfg) (st : lstate) (t : Z) (ok : bool) (a : N) : lstate * list run :=
  match hold c with
  | Some _ =>
      if ok then
        (if l_wait st then st else {| l_wait := true; l_t0 := t; l_info := a; l_ft := l_ft st |}, [])
      else ({| l_wait := false; l_t0 := l_t0 st; l_info := l_info st; l_ft := l_ft st |}, [])
  | None => (st, if ok then [(t, a)] else [])
  end.

Definition lg_step (cmp : cmpop) (c : hcfg) (st : lstate) (t : Z) (i : hin) : lstate * list run :=
  match i with
  | HUnw => (st, [])
  | HIrr _ => (st, [])                                  (* ident_values_changed false -> continue *)
  | HAny a => lg_hold_block c st t true a               (* ident_any_values_changed: no evaluation, no hold_false *)
  | HEval ok a =>
      match hold_false c with
      | None => lg_hold_block c st t ok a
      | Some H =>
          let '(ft', go) := lg_hf_block cmp H (l_ft st) t ok in
          let st' := l_set_ft st ft' in
          if go then lg_hold_block c st' t ok a else (st', [])
      end
  end.

Definition lg_due (c : hcfg) (st : lstate) : option Z :=
  if l_wait st then match hold c with Some hs => Some (l_t0 st + hs) | None => None end else None.
(* time_left = last_state_trig_time + state_hold - now ; wait_for(..., max(0, time_left)) *)
Definition lg_post (c : hcfg) (st : lstate) (t : Z) : bool :=
  match hold c with Some hs => l_t0 st + hs - t <=? 0 | None => false end.
Definition lg_expire (st : lstate) (e : Z) : lstate * list run :=
  ({| l_wait := false; l_t0 := l_t0 st; l_info := l_info st; l_ft := l_ft st |}, [(e, l_info st)]).

Definition lg_machine (cmp : cmpop) (c : hcfg) : machine lstate :=
  {| m_step := lg_step cmp c; m_due := lg_due c; m_post := lg_post c; m_expire := lg_expire |}.

(* trigger_watch, first pass of the loop (check_state_expr_on_start) *)
Definition lg_init (c : hcfg) (truth : bool) : lstate * list run :=
  let cn := cn_dec c in
  if cn || is_some (hold_false c) then
    match hold_false c with
    | Some _ =>
        let st1 := l_set_ft l_init_state (if truth then None else Some 0) in
        if cn then lg_hold_block c st1 0 truth 0%N else (st1, [])
    | None => lg_hold_block c l_init_state 0 truth 0%N
    end
  else (l_init_state, []).

(* wait_until l.294-316 *)
Definition wul_init (dv : deviations) (c : hcfg) (truth : bool) : lstate * list run :=
  let cn := cn_wu c in
  let hf := is_some (hold_false c) in
  let ft0 := if truth then None else Some 0 in
  if cn || hf then
    if hf && negb cn then (l_set_ft l_init_state ft0, [])
    else
      let st1 := if hf && negb (d_wul_init_false dv) then l_set_ft l_init_state ft0 else l_init_state in
      lg_hold_block c st1 0 truth 0%N
  else (l_init_state, []).

(* ---------- default subsystem: decorators/state.py ---------- *)
Record dstate := { d_tea : option Z; d_fea : option Z; d_largs : N; d_hargs : N; d_hfe : option Z }.
  (* true_entered_at, false_entered_at, last_func_args, (conformant: arguments saved when the hold started),
     self.state_hold_false (wait_until may reset it) *)
Definition d_set_tea (st : dstate) (x : option Z) : dstate :=
  {| d_tea := x; d_fea := d_fea st; d_largs := d_largs st; d_hargs := d_hargs st; d_hfe := d_hfe st |}.
Definition d_set_fea (st : dstate) (x : option Z) : dstate :=
  {| d_tea := d_tea st; d_fea := x; d_largs := d_largs st; d_hargs := d_hargs st; d_hfe := d_hfe st |}.
Definition d_set_largs (st : dstate) (a : N) : dstate :=
  {| d_tea := d_tea st; d_fea := d_fea st; d_largs := a; d_hargs := d_hargs st; d_hfe := d_hfe st |}.
Definition d_start_hold (st : dstate) (t : Z) : dstate :=
  {| d_tea := Some t; d_fea := d_fea st; d_largs := d_largs st; d_hargs := d_largs st; d_hfe := d_hfe st |}.
Definition d_hold_args (dv : deviations) (st : dstate) : N := if d_latest_args dv then d_largs st else d_hargs st.

(* _check_new_state, the part under `if state_hold_false_passed:` *)
Definition dm_trigger (dv : deviations) (c : hcfg) (st : dstate) (t : Z) : dstate * list run :=
  match hold c with
  | None => (d_set_tea st None, [(t, d_largs st)])
  | Some hs =>
      match d_tea st with
      | Some t0 => if zcmp dm_true_cmp (t - t0) hs then (d_set_tea st None, [(t, d_hold_args dv st)]) else (st, [])
      | None => (d_start_hold st t, [])
      end
  end.

Definition dm_check (dv : deviations) (c : hcfg) (st : dstate) (t : Z) (ok : bool) : dstate * list run :=
  if ok then
    match d_hfe st with
    | None => dm_trigger dv c st t
    | Some H =>
        match d_fea st with
        | Some f =>
            let st' := d_set_fea st None in
            if zcmp dm_false_cmp (t - f) H then dm_trigger dv c st' t else (st', [])
        | None => (st, [])
        end
    end
  else
    let st1 := d_set_tea st None in
    (match d_hfe st with
     | Some _ => match d_fea st with None => d_set_fea st1 (Some t) | Some _ => st1 end
     | None => st1
     end, []).

Definition dm_step (dv : deviations) (c : hcfg) (st : dstate) (t : Z) (i : hin) : dstate * list run :=
  match i with
  | HUnw => (st, [])
  | HIrr a => if d_irr_as_false dv then dm_check dv c (d_set_largs st a) t false else (st, [])
  | HAny a => dm_check dv c (d_set_largs st a) t true
  | HEval ok a => dm_check dv c (d_set_largs st a) t ok
  end.

Definition dm_due (c : hcfg) (st : dstate) : option Z :=
  match d_tea st, hold c with Some t0, Some hs => Some (t0 + hs) | _, _ => None end.
(* _cycle: effective_timeout = state_hold - (now - true_entered_at); if effective_timeout <= 1e-6: _check_state_hold,
   which dispatches iff now - true_entered_at >= state_hold *)
Definition dm_post (c : hcfg) (st : dstate) (t : Z) : bool :=
  match d_tea st, hold c with
  | Some t0, Some hs => zcmp dm_eps_cmp (hs - (t - t0)) dm_eps_us && zcmp dm_hold_cmp (t - t0) hs
  | _, _ => false
  end.
Definition dm_expire (dv : deviations) (st : dstate) (e : Z) : dstate * list run :=
  (d_set_tea st None, [(e, d_hold_args dv st)]).

Definition dm_machine (dv : deviations) (c : hcfg) : machine dstate :=
  {| m_step := dm_step dv c; m_due := dm_due c; m_post := dm_post c; m_expire := dm_expire dv |}.

(* _cycle before the loop; [wu] = run by WaitUntilDecoratorManager *)
Definition dm_init (dv : deviations) (wu : bool) (c : hcfg) (truth : bool) : dstate * list run :=
  let cn := if wu then cn_wu c else cn_dec c in
  let hfe := if wu && truth && cn && d_wud_drop_hf dv then None else hold_false c in
  let st0 := {| d_tea := None; d_fea := None; d_largs := 0%N; d_hargs := 0%N; d_hfe := hfe |} in
  if cn || is_some (hold_false c) then
    if cn then
      if truth && (if wu then negb (d_wud_drop_hf dv) else negb (d_dm_start_hf dv))
      then dm_trigger dv c st0 0          (* conformant: the definition-time trigger is not subject to hold_false *)
      else dm_check dv c st0 0 truth
    else if negb truth && is_some (hold_false c) then (d_set_fea st0 (Some 0), []) else (st0, [])
  else (st0, []).

(* ---------- Spec: reference.rst + property text ---------- *)
Record sstate := { s_pend : option (Z * N); s_fs : option Z }.
  (* pending delayed run (instant and arguments of the first true evaluation);
     Some f = the expression was last seen false, continuously since f; None = last seen true *)

(* "the trigger occurs" *)
Definition sp_trigger (c : hcfg) (st : sstate) (t : Z) (a : N) : sstate * list run :=
  match hold c with
  | None => (st, [(t, a)])
  | Some _ =>
      match s_pend st with
      | Some _ => (st, [])                         (* neither restarted nor cancelled *)
      | None => ({| s_pend := Some (t, a); s_fs := s_fs st |}, [])
      end
  end.

Definition sp_step (c : hcfg) (st : sstate) (t : Z) (i : hin) : sstate * list run :=
  match i with
  | HUnw => (st, [])
  | HIrr _ => (st, [])
  | HAny a => sp_trigger c st t a                  (* "the expression is always True whenever the variable changes" *)
  | HEval false _ =>
      ({| s_pend := None; s_fs := match s_fs st with None => Some t | Some f => Some f end |}, [])
  | HEval true a =>
      match hold_false c with
      | None => sp_trigger c st t a
      | Some H =>
          match s_fs st with
          | Some f =>
              let st' := {| s_pend := s_pend st; s_fs := None |} in
              if H <=? t - f then sp_trigger c st' t a else (st', [])
          | None => (st, [])
          end
      end
  end.

Definition sp_due (c : hcfg) (st : sstate) : option Z :=
  match s_pend st, hold c with Some (t0, _), Some hs => Some (t0 + hs) | _, _ => None end.
Definition sp_post (c : hcfg) (st : sstate) (t : Z) : bool :=
  match sp_due c st with Some e => e <=? t | None => false end.
Definition sp_expire (st : sstate) (e : Z) : sstate * list run :=
  ({| s_pend := None; s_fs := s_fs st |}, match s_pend st with Some (_, a) => [(e, a)] | None => [] end).

Definition sp_machine (c : hcfg) : machine sstate :=
  {| m_step := sp_step c; m_due := sp_due c; m_post := sp_post c; m_expire := sp_expire |}.

Definition sp_init (wu : bool) (c : hcfg) (truth : bool) : sstate * list run :=
  let cn := if wu then cn_wu c else cn_dec c in
  let st0 := {| s_pend := None; s_fs := if truth then None else Some 0 |} in
  if cn && truth then sp_trigger c st0 0 0%N else (st0, []).

(* ---------- the five run functions ---------- *)
Definition once (wu : bool) (l : list run) : list run := if wu then firstn 1 l else l.

Definition legacy_runs (dv : deviations) (c : hcfg) (init : bool) (h : history) : list run :=
  run_machine (lg_machine lg_too_soon_cmp c) (lg_init c init) h.
Definition wul_runs (dv : deviations) (c : hcfg) (init : bool) (h : history) : list run :=
  once true (run_machine (lg_machine wu_too_soon_cmp c) (wul_init dv c init) h).
Definition dm_runs (dv : deviations) (c : hcfg) (init : bool) (h : history) : list run :=
  run_machine (dm_machine dv c) (dm_init dv false c init) h.
Definition wud_runs (dv : deviations) (c : hcfg) (init : bool) (h : history) : list run :=
  once true (run_machine (dm_machine dv c) (dm_init dv true c init) h).
Definition spec_runs (wu : bool) (c : hcfg) (init : bool) (h : history) : list run :=
  once wu (run_machine (sp_machine c) (sp_init wu c init) h).

(* ---------- task.wait_until(timeout=T): an overall timeout next to the state_hold timer ---------- *)
(* trigger.py wait_until l.408-422: this_timeout := remaining overall timeout; the remaining state_hold replaces it
   only if strictly smaller (state_trig_timeout); whichever is due ends the call.  decorator.py
   WaitUntilDecoratorManager: an independent `once(now + T s)` time trigger; first dispatch wins.
   State = (inner state, live); a {"trigger_type": "timeout"} result is the run (T, timeout_id). *)
Definition timeout_id : N := 1000000%N.

Section WithTimeout.
  Context {St : Type} (m : machine St) (T : option Z).
  Definition wt_is_tmo (s : St * bool) : bool :=            (* the overall timeout is what is due next *)
    match T, m_due m (fst s) with
    | Some tm, Some e => negb (e <? tm)
    | Some _, None => true
    | None, _ => false
    end.
  Definition wt_due (s : St * bool) : option Z :=
    if snd s then
      match T, m_due m (fst s) with
      | Some tm, Some e => Some (if e <? tm then e else tm)
      | Some tm, None => Some tm
      | None, d => d
      end
    else None.
  Definition wt_post (s : St * bool) (t : Z) : bool :=
    if wt_is_tmo s then match T with Some tm => tm <=? t | None => false end else m_post m (fst s) t.
  Definition wt_expire (s : St * bool) (x : Z) : (St * bool) * list run :=
    if wt_is_tmo s then ((fst s, false), [(x, timeout_id)])
    else let '(st', o) := m_expire m (fst s) x in ((st', false), o).
  Definition wt_step (s : St * bool) (t : Z) (i : hin) : (St * bool) * list run :=
    if snd s then let '(st', o) := m_step m (fst s) t i in ((st', true), o) else (s, []).
  Definition with_timeout : machine (St * bool) :=
    {| m_step := wt_step; m_due := wt_due; m_post := wt_post; m_expire := wt_expire |}.
End WithTimeout.
Definition lift_ini {St} (ini : St * list run) : (St * bool) * list run := ((fst ini, true), snd ini).

Definition wul_runs_t (dv : deviations) (c : hcfg) (T : option Z) (init : bool) (h : history) : list run :=
  once true (run_machine (with_timeout (lg_machine wu_too_soon_cmp c) T) (lift_ini (wul_init dv c init)) h).
Definition wud_runs_t (dv : deviations) (c : hcfg) (T : option Z) (init : bool) (h : history) : list run :=
  once true (run_machine (with_timeout (dm_machine dv c) T) (lift_ini (dm_init dv true c init)) h).
(* Spec: "return that number of seconds after the first state trigger (unless ... a timeout occurs first)" *)
Definition spec_runs_t (c : hcfg) (T : option Z) (init : bool) (h : history) : list run :=
  once true (run_machine (with_timeout (sp_machine c) T) (lift_ini (sp_init true c init)) h).

(* ---------- the quantifier's domain ---------- *)
(* strictly increasing positive times *)
Fixpoint sorted_from (t0 : Z) (h : history) : bool :=
  match h with
  | [] => true
  | (t, _) :: r => (t0 <? t) && sorted_from t r
  end.
Definition sorted_times (h : history) : bool := sorted_from 0 h.

(* no input within the epsilons of an instant  p + S  or  p + H, p an earlier input instant (or 0) *)
Definition tie_eps : Z := Z.max wu_eps_us dm_eps_us.
Definition far (x : Z) : bool := tie_eps <? Z.abs x.
Definition opt_list {A} (o : option A) : list A := match o with Some x => [x] | None => [] end.
Definition cfg_delays (c : hcfg) : list Z := opt_list (hold c) ++ opt_list (hold_false c).
Fixpoint no_ties_aux (ds prev : list Z) (h : history) : bool :=
  match h with
  | [] => true
  | (t, _) :: r => forallb (fun p => forallb (fun d => far (t - p - d)) ds) prev && no_ties_aux ds (t :: prev) r
  end.
Definition no_ties (c : hcfg) (h : history) : bool := no_ties_aux (cfg_delays c) [0] h.

(* with a timeout T: additionally no input within the epsilons of T, and T not within them of any p + S *)
Definition no_ties_t (c : hcfg) (T : option Z) (h : history) : bool :=
  no_ties c h &&
  match T with
  | None => true
  | Some tm => forallb (fun x => far (fst x - tm)) h
               && forallb (fun p => forallb (fun d => far (p + d - tm)) (opt_list (hold c))) (0 :: map fst h)
  end.

(* run-based form: no input arrives within the epsilons of a machine's pending expiry *)
Definition near_due {St} (m : machine St) (st : St) (t : Z) : bool :=
  match m_due m st with Some e => negb (far (e - t)) | None => false end.
Fixpoint tie_free {St} (m : machine St) (st : St) (h : history) : bool :=
  match h with
  | [] => true
  | (t, i) :: r =>
      let st1 := fst (pre_expire m st t) in
      negb (near_due m st1 t) &&
      tie_free m (fst (post_expire m (fst (m_step m st1 t i)) t)) r
  end.

(* The property speaks of evaluations; what an "any change" entry does under state_hold_false is not stated
   (the two subsystems differ: legacy bypasses hold_false, dm applies it).  Outside the quantifier. *)
Definition is_any (i : hin) : bool := match i with HAny _ => true | _ => false end.
Definition any_ok (c : hcfg) (h : history) : bool :=
  match hold_false c with None => true | Some _ => forallb (fun x => negb (is_any (snd x))) h end.

Definition relevant (i : hin) : bool := match i with HUnw => false | HIrr _ => false | _ => true end.
