(* Trig/StateTrigCheck.v — what the generated correspondence files evaluate for C04.
   [scase_model_ok cfg] : the Model (under the measured deviation switches) reproduces the runs of the real pyscript,
                          per decorator (order + kwargs) and per function (order of run starts);
   [scase_spec_ok]      : what the real code did is what the property text demands;
   [scase_attrib cfg]   : which open findings are needed to explain a Spec failure. *)
From PV Require Import Common.Util Gen.StateTrigConsts Trig.Notify Trig.StateTrig.

(* a run as reported by the generated function: its kwargs; the decorator is identified by the harness (only decorator of
   the function, or the pv_t kwarg) *)
(* [o_res]: the kwargs the same run reported after each of the [o_nsusp] suspension points (task.sleep) of its function -
   runs of one function overlap in bursts, and every run must keep the arguments of its own event for its whole life *)
Record orun := mkORun { o_fn : N; o_tid : N; o_kw : list (N * kwval); o_nsusp : N; o_res : list (list (N * kwval)) }.

Record scase := {
  sc_legacy : bool;
  sc_init : hass;                    (* entities existing before the script is loaded *)
  sc_trigs : list trig;
  sc_hist : list (list op);
  sc_obs : list orun;                (* observed runs in start order *)
  sc_clean : bool                    (* the harness itself worked *)
}.

Definition kwval_eqb (a b : kwval) : bool :=
  match a, b with
  | KNone, KNone | KTypeState, KTypeState => true
  | KSv s, KSv s' => sv_same s s'
  | KEnt e, KEnt e' => N.eqb e e'
  | KCtx i, KCtx j => N.eqb i j
  | KInt n, KInt m => N.eqb n m
  | _, _ => false
  end.
(* equality of kwargs as dictionaries *)
Definition kw_eqb (a b : list (N * kwval)) : bool :=
  forallb (fun k => option_eqb kwval_eqb (assoc k a) (assoc k b)) (map fst a ++ map fst b).

Definition run_matches (m : run) (o : orun) : bool :=
  N.eqb (r_fn m) (o_fn o) && N.eqb (r_tid m) (o_tid o) && kw_eqb (r_kw m) (o_kw o)
  && (N.eqb (N.of_nat (length (o_res o))) (o_nsusp o) && forallb (kw_eqb (r_kw m)) (o_res o)).
Fixpoint runs_match (ms : list run) (os : list orun) : bool :=
  match ms, os with
  | [], [] => true
  | m :: ms', o :: os' => run_matches m o && runs_match ms' os'
  | _, _ => false
  end.

Definition o_evid (o : orun) : N := match assoc key_context (o_kw o) with Some (KCtx n) => n | _ => 0%N end.
Fixpoint nondecreasing (l : list N) : bool :=
  match l with
  | x :: ((y :: _) as r) => N.leb x y && nondecreasing r
  | _ => true
  end.

Definition case_sys (c : scase) : sys := {| s_legacy := sc_legacy c; s_trigs := sc_trigs c |}.
Definition case_fns (c : scase) : list N := dedup (map t_fn (sc_trigs c)).
(* every observed run belongs to a decorator of the case *)
Definition obs_attributed (c : scase) : bool :=
  forallb (fun o => existsb (fun T => N.eqb (t_id T) (o_tid o) && N.eqb (t_fn T) (o_fn o)) (sc_trigs c)) (sc_obs c).

Definition scase_model_ok (cfg : sdev) (c : scase) : bool :=
  let all := run_history cfg (case_sys c) (sc_init c) (sc_hist c) in
  sc_clean c && obs_attributed c
  && forallb (fun T => runs_match (filter (fun r => N.eqb (r_tid r) (t_id T)) all)
                                  (filter (fun o => N.eqb (o_tid o) (t_id T)) (sc_obs c))) (sc_trigs c)
  && forallb (fun f => runs_match (filter (fun r => N.eqb (r_fn r) f) all)
                                  (filter (fun o => N.eqb (o_fn o) f) (sc_obs c))) (case_fns c).

(* the property: per decorator exactly the qualifying events, in order, with their own kwargs; per function the runs start
   in event order *)
Definition scase_spec_ok (c : scase) : bool :=
  sc_clean c && obs_attributed c
  && forallb (fun T => runs_match (spec_trig_runs T (sc_init c) (sc_hist c))
                                  (filter (fun o => N.eqb (o_tid o) (t_id T)) (sc_obs c))) (sc_trigs c)
  && forallb (fun f => nondecreasing (map o_evid (filter (fun o => N.eqb (o_fn o) f) (sc_obs c)))) (case_fns c).

(* switch k of [cfg] turned off *)
Definition sdev_without (cfg : sdev) (k : nat) : sdev :=
  {| d_late_read := if Nat.eqb k 40 then false else d_late_read cfg;
     d_undef_raises := if Nat.eqb k 41 then false else d_undef_raises cfg;
     d_noexpr_runs := if Nat.eqb k 42 then false else d_noexpr_runs cfg;
     d_grouped_order := if Nat.eqb k 43 then false else d_grouped_order cfg;
     d_watch_hides_any := if Nat.eqb k 44 then false else d_watch_hides_any cfg |}.
Definition sdev_on (cfg : sdev) (k : nat) : bool :=
  match k with
  | 40 => d_late_read cfg | 41 => d_undef_raises cfg | 42 => d_noexpr_runs cfg | 43 => d_grouped_order cfg
  | 44 => d_watch_hides_any cfg | _ => false
  end%nat.
Definition sdev_ids : list nat := [40; 41; 42; 43; 44]%nat.

(* Findings that explain a Spec failure: the Model under [cfg] reproduces the observation, and switch k is needed for that
   (with k off the Model no longer reproduces it).  If the observation is reproduced but no single switch is necessary,
   all switches that are on are named.  [] = unexplained. *)
Definition scase_attrib (cfg : sdev) (c : scase) : list nat :=
  if scase_model_ok cfg c then
    let need := filter (fun k => sdev_on cfg k && negb (scase_model_ok (sdev_without cfg k) c)) sdev_ids in
    match need with [] => filter (sdev_on cfg) sdev_ids | _ => need end
  else [].

Definition show_run (r : run) := (r_fn r, r_tid r, r_ev r).
Definition scase_explain (cfg : sdev) (c : scase) :=
  (map show_run (run_history cfg (case_sys c) (sc_init c) (sc_hist c)),
   map (fun T => (t_id T, map show_run (spec_trig_runs T (sc_init c) (sc_hist c)))) (sc_trigs c),
   map (fun o => (o_fn o, o_tid o, o_evid o)) (sc_obs c)).

(* ---------- get_names: the names the real AstEval.get_names reported for an expression vs [bexp_names] ---------- *)
Definition ncase : Type := (bexp * list name * bool).      (* expression, reported dotted names, "other names are builtins" *)
Definition names_subset (a b : list name) : bool := forallb (fun n => mem_name n b) a.
Definition ncase_ok (c : ncase) : bool :=
  let '(b, obs, ok) := c in ok && names_subset (bexp_names b) obs && names_subset obs (bexp_names b).
Definition ncase_explain (c : ncase) := let '(b, obs, ok) := c in (bexp_names b, obs, ok).
