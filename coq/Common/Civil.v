(* Common/Civil.v — proleptic Gregorian calendar arithmetic on Z (definitions only; lemmas in Proofs/Civil.v).
   Written the way CPython's datetime module counts (days before year + days before month + day), because those
   formulas are linear in floor-divisions by constants and so are decided by [lia].
   Day numbers: day 0 = 1970-01-01 (a Thursday).  Instants: Z microseconds since 1970-01-01 00:00:00 of a *naive*
   (time-zone-less) clock, exactly like the naive datetime objects pyscript computes with. *)
From Coq Require Import ZArith List Bool Lia.
Import ListNotations.
Local Open Scope Z_scope.

Definition is_leap (y : Z) : bool :=
  (y mod 4 =? 0) && (negb (y mod 100 =? 0) || (y mod 400 =? 0)).

(* number of days before January 1st of year y, counted from 0001-01-01 *)
Definition days_before_year (y : Z) : Z :=
  let p := y - 1 in 365 * p + p / 4 - p / 100 + p / 400.

(* number of days of a non-leap year before the first of month m (m = 13: the whole year) *)
Definition month_offset (m : Z) : Z :=
  match m with
  | 1 => 0 | 2 => 31 | 3 => 59 | 4 => 90 | 5 => 120 | 6 => 151 | 7 => 181
  | 8 => 212 | 9 => 243 | 10 => 273 | 11 => 304 | 12 => 334 | _ => 365
  end.

Definition days_before_month (y m : Z) : Z :=
  month_offset m + (if (2 <? m) && is_leap y then 1 else 0).

Definition days_in_month (y m : Z) : Z := days_before_month y (m + 1) - days_before_month y m.

Definition valid_date (y m d : Z) : bool :=
  (1 <=? m) && (m <=? 12) && (1 <=? d) && (d <=? days_in_month y m).

Definition EPOCH_ORD : Z := 719163.      (* date(1970,1,1).toordinal() *)

Definition days_from_civil (y m d : Z) : Z :=
  days_before_year y + days_before_month y m + d - EPOCH_ORD.

(* the year containing day n: estimate from the mean year length, then correct by at most one *)
Definition year_of_day (n : Z) : Z :=
  let y0 := ((n + EPOCH_ORD - 1) * 400) / 146097 + 1 in
  if days_from_civil (y0 + 1) 1 1 <=? n then y0 + 1
  else if n <? days_from_civil y0 1 1 then y0 - 1
  else y0.

(* month containing the 0-based day-of-year [doy] of year y *)
Definition month_of_doy (y doy : Z) : Z :=
  if doy <? days_before_month y 2 then 1 else
  if doy <? days_before_month y 3 then 2 else
  if doy <? days_before_month y 4 then 3 else
  if doy <? days_before_month y 5 then 4 else
  if doy <? days_before_month y 6 then 5 else
  if doy <? days_before_month y 7 then 6 else
  if doy <? days_before_month y 8 then 7 else
  if doy <? days_before_month y 9 then 8 else
  if doy <? days_before_month y 10 then 9 else
  if doy <? days_before_month y 11 then 10 else
  if doy <? days_before_month y 12 then 11 else 12.

Definition civil_from_days (n : Z) : Z * Z * Z :=
  let y := year_of_day n in
  let doy := n - days_from_civil y 1 1 in
  let m := month_of_doy y doy in
  (y, m, doy - days_before_month y m + 1).

(* 0 = Sunday ... 6 = Saturday (datetime.isoweekday() % 7, pyscript's dow2int numbering) *)
Definition weekday_sun0 (n : Z) : Z := (n + 4) mod 7.

(* ---------- instants ---------- *)
Definition USEC : Z := 1000000.
Definition MINUTE : Z := 60000000.
Definition HOUR : Z := 3600000000.
Definition DAY : Z := 86400000000.

Definition day_of (t : Z) : Z := t / DAY.          (* floor: the calendar day containing instant t *)
Definition tod_of (t : Z) : Z := t mod DAY.        (* microseconds since that day's midnight *)
Definition midnight (n : Z) : Z := n * DAY.

Definition hms_us (h mi s us : Z) : Z := ((h * 60 + mi) * 60 + s) * USEC + us.

Definition datetime_us (y m d h mi s us : Z) : Z := midnight (days_from_civil y m d) + hms_us h mi s us.

Record datetime := { dt_y : Z; dt_m : Z; dt_d : Z; dt_h : Z; dt_mi : Z; dt_s : Z; dt_us : Z }.

Definition us_datetime (t : Z) : datetime :=
  let '(y, m, d) := civil_from_days (day_of t) in
  let r := tod_of t in
  {| dt_y := y; dt_m := m; dt_d := d; dt_h := r / HOUR; dt_mi := (r mod HOUR) / MINUTE;
     dt_s := (r mod MINUTE) / USEC; dt_us := r mod USEC |}.

Definition datetime_to_us (x : datetime) : Z :=
  datetime_us (dt_y x) (dt_m x) (dt_d x) (dt_h x) (dt_mi x) (dt_s x) (dt_us x).

Definition valid_datetime (x : datetime) : bool :=
  valid_date (dt_y x) (dt_m x) (dt_d x) && (0 <=? dt_h x) && (dt_h x <? 24) && (0 <=? dt_mi x) && (dt_mi x <? 60)
  && (0 <=? dt_s x) && (dt_s x <? 60) && (0 <=? dt_us x) && (dt_us x <? USEC).

(* a / b rounded to the nearest integer, ties to even (b > 0): how datetime.timedelta rounds to microseconds *)
Definition div_rhe (a b : Z) : Z :=
  let q := a / b in
  let r := a mod b in
  if 2 * r <? b then q
  else if b <? 2 * r then q + 1
  else if Z.even q then q else q + 1.
