(* Common/Util.v — small executable helpers shared by every model and by the
   generated correspondence files (cases_k.v).  No axioms, stdlib only. *)
From Coq Require Export List NArith ZArith Bool Lia.
Export ListNotations.

(* indices (0-based) of the elements of [l] satisfying [f]; used by cases_k.v so that Coq itself
   reports *which* cases disagree and nothing long has to be parsed *)
Fixpoint filter_idx_from {A} (f : A -> bool) (i : nat) (l : list A) : list nat :=
  match l with
  | [] => []
  | x :: r => if f x then i :: filter_idx_from f (S i) r else filter_idx_from f (S i) r
  end.
Definition filter_idx {A} (f : A -> bool) (l : list A) : list nat := filter_idx_from f 0 l.

Lemma filter_idx_from_nil {A} (f : A -> bool) l :
  forall i, filter_idx_from f i l = [] <-> forallb (fun x => negb (f x)) l = true.
Proof.
  induction l as [|x r IH]; intros i; cbn; [tauto|].
  destruct (f x); cbn; [split; discriminate|apply IH].
Qed.

(* comparison operators as read from the source by the translator *)
Inductive cmpop := CmpLe | CmpLt | CmpGe | CmpGt | CmpEq | CmpNe.

(* run-length encoded byte strings: the harness ships long frames as (value, count) runs *)
Definition rle_expand (r : list (N * N)) : list N :=
  concat (map (fun '(b, n) => N.iter n (cons b) []) r).

Fixpoint list_eqb {A} (eqb : A -> A -> bool) (a b : list A) : bool :=
  match a, b with
  | [], [] => true
  | x :: a', y :: b' => eqb x y && list_eqb eqb a' b'
  | _, _ => false
  end.

Lemma list_eqb_eq {A} (eqb : A -> A -> bool) :
  (forall x y, eqb x y = true <-> x = y) ->
  forall a b, list_eqb eqb a b = true <-> a = b.
Proof.
  intros H a; induction a as [|x a IH]; intros [|y b]; cbn; try (split; (reflexivity || discriminate)).
  rewrite andb_true_iff, H, IH. split; [intros [-> ->]; reflexivity| intros E; inversion E; auto].
Qed.

Definition bytes_eqb := list_eqb N.eqb.
Definition frames_eqb := list_eqb bytes_eqb.

Lemma bytes_eqb_eq a b : bytes_eqb a b = true <-> a = b.
Proof. apply list_eqb_eq. intros; apply N.eqb_eq. Qed.
Lemma frames_eqb_eq a b : frames_eqb a b = true <-> a = b.
Proof. apply list_eqb_eq. apply bytes_eqb_eq. Qed.

Definition option_eqb {A} (eqb : A -> A -> bool) (a b : option A) : bool :=
  match a, b with
  | Some x, Some y => eqb x y
  | None, None => true
  | _, _ => false
  end.

Fixpoint fold_left_opt {S L} (step : S -> L -> option S) (ls : list L) (s : S) : option S :=
  match ls with
  | [] => Some s
  | l :: r => match step s l with Some s' => fold_left_opt step r s' | None => None end
  end.
