(* Proofs/TrigHold.v — C05: each implementation model of the hold logic (all deviation switches off) produces
   exactly the Spec's runs (times and arguments) on every tie-free timed history, for every configuration.
   Method: one generic simulation lemma for the driver ([drive_sim]) + a coupling invariant per machine. *)
From PV Require Import Common.Util Gen.HoldConsts Trig.Hold Trig.HoldCheck.
From Coq Require Import ZArith List Bool Lia ZifyBool.
Local Open Scope Z_scope.

(* ---------- facts about the translated constants ---------- *)
Lemma far_neq x : far x = true -> x <> 0.
Proof. unfold far, tie_eps, wu_eps_us, dm_eps_us. lia. Qed.

Lemma far_opp x y : x = - y -> far x = far y.
Proof. intros ->. unfold far. rewrite Z.abs_opp. reflexivity. Qed.

Lemma lg_cmp_ok x y : negb (zcmp lg_too_soon_cmp x y) = (y <=? x).
Proof. unfold lg_too_soon_cmp, zcmp. lia. Qed.
Lemma wu_cmp_ok x y : negb (zcmp wu_too_soon_cmp x y) = (y <=? x).
Proof. unfold wu_too_soon_cmp, zcmp. lia. Qed.
Lemma dm_false_cmp_ok x y : zcmp dm_false_cmp x y = (y <=? x).
Proof. reflexivity. Qed.
Lemma dm_true_cmp_ok x y : zcmp dm_true_cmp x y = (y <=? x).
Proof. reflexivity. Qed.
Lemma dm_post_ok s t t0 :
  zcmp dm_eps_cmp (s - (t - t0)) dm_eps_us && zcmp dm_hold_cmp (t - t0) s = (t0 + s <=? t).
Proof. unfold dm_eps_cmp, dm_hold_cmp, dm_eps_us, zcmp. lia. Qed.

(* ---------- generic simulation for the driver ---------- *)
Section Sim.
  Context {A B : Type} (ma : machine A) (mb : machine B) (R : A -> B -> Prop) (okin : hin -> bool).
  Hypothesis due_eq : forall a b, R a b -> m_due ma a = m_due mb b.
  Hypothesis post_eq : forall a b t e, R a b -> m_due mb b = Some e -> m_post ma a t = m_post mb b t.
  Hypothesis expire_sim : forall a b e, R a b -> m_due mb b = Some e ->
    snd (m_expire ma a e) = snd (m_expire mb b e) /\ R (fst (m_expire ma a e)) (fst (m_expire mb b e)).
  Hypothesis expire_clears : forall b e, m_due mb b = Some e -> m_due mb (fst (m_expire mb b e)) = None.
  Hypothesis step_sim : forall a b t i, R a b -> okin i = true -> (forall e, m_due mb b = Some e -> t < e) ->
    snd (m_step ma a t i) = snd (m_step mb b t i) /\ R (fst (m_step ma a t i)) (fst (m_step mb b t i)).

  Lemma pre_sim a b t : R a b ->
    snd (pre_expire ma a t) = snd (pre_expire mb b t) /\ R (fst (pre_expire ma a t)) (fst (pre_expire mb b t)).
  Proof.
    intros HR. unfold pre_expire. rewrite (due_eq _ _ HR).
    destruct (m_due mb b) as [e|] eqn:E; [|auto].
    destruct (e <? t); [apply expire_sim; auto|auto].
  Qed.

  Lemma post_sim a b t : R a b ->
    snd (post_expire ma a t) = snd (post_expire mb b t) /\ R (fst (post_expire ma a t)) (fst (post_expire mb b t)).
  Proof.
    intros HR. unfold post_expire. rewrite (due_eq _ _ HR).
    destruct (m_due mb b) as [e|] eqn:E; [|auto].
    rewrite (post_eq _ _ t e HR E).
    destruct (m_post mb b t); [apply expire_sim; auto|auto].
  Qed.

  Lemma pre_due b t e : m_due mb (fst (pre_expire mb b t)) = Some e -> t <= e.
  Proof.
    unfold pre_expire. destruct (m_due mb b) as [e0|] eqn:E.
    - destruct (e0 <? t) eqn:L.
      + rewrite (expire_clears _ _ E). discriminate.
      + cbn [fst]. rewrite E. intros [= <-]. lia.
    - cbn [fst]. rewrite E. discriminate.
  Qed.

  Lemma drive_sim : forall h a b, R a b -> forallb (fun x => okin (snd x)) h = true ->
    tie_free mb b h = true -> drive ma a h = drive mb b h.
  Proof.
    induction h as [|[t i] r IH]; intros a b HR Hok Htf.
    - cbn [drive]. rewrite (due_eq _ _ HR). destruct (m_due mb b) as [e|] eqn:E; [|reflexivity].
      apply expire_sim; assumption.
    - cbn [drive]. cbn [tie_free] in Htf. cbn [forallb snd] in Hok.
      apply andb_true_iff in Hok as [Hi Hok]. apply andb_true_iff in Htf as [Hn Htf].
      destruct (pre_sim a b t HR) as [Ho1 HR1].
      destruct (pre_expire ma a t) as [a1 o1]. destruct (pre_expire mb b t) as [b1 p1] eqn:Pb.
      cbn [fst snd] in *.
      assert (Hlt : forall e, m_due mb b1 = Some e -> t < e).
      { intros e He. pose proof (pre_due b t e) as Hle. rewrite Pb in Hle. cbn [fst] in Hle. specialize (Hle He).
        unfold near_due in Hn. rewrite He in Hn. rewrite negb_involutive in Hn. apply far_neq in Hn. lia. }
      destruct (step_sim a1 b1 t i HR1 Hi Hlt) as [Ho2 HR2].
      destruct (m_step ma a1 t i) as [a2 o2]. destruct (m_step mb b1 t i) as [b2 p2].
      cbn [fst snd] in *.
      destruct (post_sim a2 b2 t HR2) as [Ho3 HR3].
      destruct (post_expire ma a2 t) as [a3 o3]. destruct (post_expire mb b2 t) as [b3 p3].
      cbn [fst snd] in *. subst.
      rewrite (IH a3 b3 HR3 Hok Htf). reflexivity.
  Qed.

  Lemma run_machine_sim ia ib h : snd ia = snd ib -> R (fst ia) (fst ib) ->
    forallb (fun x => okin (snd x)) h = true ->
    tie_free mb (fst (post_expire mb (fst ib) 0)) h = true ->
    run_machine ma ia h = run_machine mb ib h.
  Proof.
    destruct ia as [a0 o0], ib as [b0 p0]. cbn [fst snd]. intros -> HR Hok Htf. unfold run_machine.
    destruct (post_sim a0 b0 0 HR) as [Ho HR1].
    destruct (post_expire ma a0 0) as [a1 o1]. destruct (post_expire mb b0 0) as [b1 p1].
    cbn [fst snd] in *. subst. rewrite (drive_sim h a1 b1 HR1 Hok Htf). reflexivity.
  Qed.
End Sim.

(* ---------- Spec machine: expiry clears the timer; pairwise no_ties implies tie-freeness ---------- *)
Lemma sp_expire_clears c b e : sp_due c b = Some e -> sp_due c (fst (sp_expire b e)) = None.
Proof. intros _. reflexivity. Qed.

Definition pend_in (prev : list Z) (sp : sstate) : Prop :=
  match s_pend sp with Some (t0, _) => In t0 prev | None => True end.

Lemma pend_in_mono prev t sp : pend_in prev sp -> pend_in (t :: prev) sp.
Proof. unfold pend_in. destruct (s_pend sp) as [[t0 a]|]; cbn; auto. Qed.

Lemma sp_trigger_pend c prev sp t a : pend_in (t :: prev) sp -> pend_in (t :: prev) (fst (sp_trigger c sp t a)).
Proof.
  unfold sp_trigger, pend_in. destruct (hold c); [|auto].
  destruct (s_pend sp) as [[t0 a0]|] eqn:E; cbn [fst s_pend]; [rewrite E; auto|]. intros _. cbn. auto.
Qed.

Lemma sp_step_pend c prev sp t i : pend_in prev sp -> pend_in (t :: prev) (fst (sp_step c sp t i)).
Proof.
  intros H. apply (pend_in_mono prev t) in H. destruct i as [[|] a|a|a|]; cbn [sp_step]; auto.
  - destruct (hold_false c) as [hf|]; [|apply sp_trigger_pend; assumption].
    destruct (s_fs sp) as [f|]; [|assumption].
    destruct (hf <=? t - f); [apply sp_trigger_pend|cbn [fst]]; exact H.
  - cbn. unfold pend_in. cbn. exact I.
  - apply sp_trigger_pend; assumption.
Qed.

Lemma sp_expire_pend prev sp e : pend_in prev (fst (sp_expire sp e)).
Proof. unfold pend_in. cbn. exact I. Qed.

Lemma sp_pre_pend c prev sp t : pend_in prev sp -> pend_in prev (fst (pre_expire (sp_machine c) sp t)).
Proof.
  intros H. unfold pre_expire. cbn [m_due m_expire sp_machine].
  destruct (sp_due c sp) as [e|]; [|exact H]. destruct (e <? t); [apply sp_expire_pend|exact H].
Qed.

Lemma sp_post_pend c prev sp t : pend_in prev sp -> pend_in prev (fst (post_expire (sp_machine c) sp t)).
Proof.
  intros H. unfold post_expire. cbn [m_due m_post m_expire sp_machine].
  destruct (sp_due c sp) as [e|]; [|exact H]. destruct (sp_post c sp t); [apply sp_expire_pend|exact H].
Qed.

Lemma no_ties_tie_free c : forall h prev sp, pend_in prev sp ->
  no_ties_aux (cfg_delays c) prev h = true -> tie_free (sp_machine c) sp h = true.
Proof.
  induction h as [|[t i] r IH]; intros prev sp Hp Hn; [reflexivity|].
  cbn [no_ties_aux] in Hn. apply andb_true_iff in Hn as [Hnow Hn].
  cbn [tie_free]. apply andb_true_iff. split.
  - pose proof (sp_pre_pend c prev sp t Hp) as Hp1.
    set (sp1 := fst (pre_expire (sp_machine c) sp t)) in *.
    unfold near_due. cbn [m_due sp_machine]. unfold sp_due.
    destruct (s_pend sp1) as [[t0 a]|] eqn:E; [|reflexivity].
    destruct (hold c) as [hs|] eqn:Eh; [|reflexivity].
    rewrite negb_involutive.
    unfold pend_in in Hp1. rewrite E in Hp1.
    rewrite forallb_forall in Hnow. specialize (Hnow t0 Hp1).
    unfold cfg_delays in Hnow. rewrite Eh in Hnow. cbn [opt_list app forallb] in Hnow.
    apply andb_true_iff in Hnow as [Hf _].
    rewrite (far_opp (t0 + hs - t) (t - t0 - hs)); [exact Hf|lia].
  - apply (IH (t :: prev)); [|exact Hn].
    apply sp_post_pend. apply sp_step_pend. apply sp_pre_pend. exact Hp.
Qed.

Lemma sp_init_pend wu c truth : pend_in [0] (fst (sp_init wu c truth)).
Proof.
  unfold sp_init. destruct ((if wu then cn_wu c else cn_dec c) && truth).
  - unfold sp_trigger, pend_in. destruct (hold c); cbn; auto.
  - unfold pend_in. cbn. exact I.
Qed.

Lemma no_ties_run_tie_free wu c truth h : no_ties c h = true ->
  tie_free (sp_machine c) (fst (post_expire (sp_machine c) (fst (sp_init wu c truth)) 0)) h = true.
Proof.
  intros H. apply (no_ties_tie_free c h [0]); [|exact H].
  apply sp_post_pend. apply sp_init_pend.
Qed.

(* ---------- inputs admitted by the property's quantifier ---------- *)
Definition okin (c : hcfg) (i : hin) : bool := negb (is_some (hold_false c) && is_any i).
Definition okall (i : hin) : bool := true.

Lemma any_ok_okin c h : any_ok c h = true -> forallb (fun x => okin c (snd x)) h = true.
Proof.
  unfold any_ok, okin. destruct (hold_false c); cbn [is_some andb]; intros H.
  - exact H.
  - clear H. induction h; cbn; auto.
Qed.

Lemma okall_all (h : history) : forallb (fun x => okall (snd x)) h = true.
Proof. induction h; cbn; auto. Qed.

(* ---------- legacy machines (trigger_watch, wait_until) vs Spec ---------- *)
Definition R_lg (c : hcfg) (st : lstate) (sp : sstate) : Prop :=
  (if l_wait st then s_pend sp = Some (l_t0 st, l_info st) else s_pend sp = None)
  /\ (hold_false c <> None -> l_ft st = s_fs sp)
  /\ (hold c = None -> l_wait st = false).

Lemma lg_hold_block_sim c st sp t a :
  R_lg c st sp ->
  snd (lg_hold_block c st t true a) = snd (sp_trigger c sp t a)
  /\ R_lg c (fst (lg_hold_block c st t true a)) (fst (sp_trigger c sp t a)).
Proof.
  intros (Hp & Hf & Hh). unfold lg_hold_block, sp_trigger, R_lg.
  destruct (hold c) as [hs|] eqn:Eh.
  - destruct (l_wait st) eqn:W.
    + rewrite Hp. cbn [fst snd]. rewrite W. auto.
    + rewrite Hp. cbn [fst snd l_wait l_t0 l_info l_ft s_pend s_fs]. repeat split; auto; try discriminate.
  - cbn [fst snd]. auto.
Qed.

Lemma lg_hold_block_false_sim c st sp t a fs' :
  R_lg c st sp -> (hold_false c <> None -> l_ft st = fs') ->
  snd (lg_hold_block c st t false a) = []
  /\ R_lg c (fst (lg_hold_block c st t false a)) {| s_pend := None; s_fs := fs' |}.
Proof.
  intros (Hp & Hf & Hh) Hfs. unfold lg_hold_block, R_lg.
  destruct (hold c) as [hs|] eqn:Eh; cbn [fst snd l_wait l_t0 l_info l_ft s_pend s_fs].
  - repeat split; auto; try discriminate.
  - rewrite (Hh eq_refl). repeat split; auto.
Qed.

Lemma R_lg_set_ft c st sp x :
  R_lg c st sp -> R_lg c (l_set_ft st x) {| s_pend := s_pend sp; s_fs := x |}.
Proof. intros (Hp & Hf & Hh). unfold R_lg, l_set_ft. cbn. auto. Qed.

Lemma R_lg_intro c st sp :
  (if l_wait st then s_pend sp = Some (l_t0 st, l_info st) else s_pend sp = None) ->
  l_ft st = s_fs sp -> (hold c = None -> l_wait st = false) -> R_lg c st sp.
Proof. intros H1 H2 H3. repeat split; auto. Qed.

Lemma lg_step_sim cmp c :
  (forall x y, negb (zcmp cmp x y) = (y <=? x)) ->
  forall st sp t i, R_lg c st sp -> okall i = true -> (forall e, sp_due c sp = Some e -> t < e) ->
  snd (lg_step cmp c st t i) = snd (sp_step c sp t i)
  /\ R_lg c (fst (lg_step cmp c st t i)) (fst (sp_step c sp t i)).
Proof.
  intros Hcmp st sp t i HR _ _. destruct i as [ok a|a|a|]; cbn [lg_step sp_step]; auto.
  - destruct (hold_false c) as [hf|] eqn:Ehf.
    + assert (Eft : l_ft st = s_fs sp) by (destruct HR as (_ & Hf & _); apply Hf; congruence).
      unfold lg_hf_block. rewrite Eft.
      destruct (s_fs sp) as [f|] eqn:Efs; destruct ok; cbv iota beta; cbn [fst snd].
      * rewrite Hcmp. destruct (hf <=? t - f).
        -- apply lg_hold_block_sim. apply (R_lg_set_ft c st sp None). exact HR.
        -- cbn [fst snd]. split; [reflexivity|]. apply (R_lg_set_ft c st sp None). exact HR.
      * eapply lg_hold_block_false_sim; [apply (R_lg_set_ft c st sp (Some f)); exact HR|reflexivity].
      * cbn [fst snd]. split; [reflexivity|]. destruct HR as (Hp & Hf & Hh).
        apply R_lg_intro; cbn; auto.
      * eapply lg_hold_block_false_sim; [apply (R_lg_set_ft c st sp (Some t)); exact HR|reflexivity].
    + destruct ok.
      * apply lg_hold_block_sim. exact HR.
      * cbn [fst snd]. eapply lg_hold_block_false_sim; [exact HR|]. intros H; congruence.
  - apply lg_hold_block_sim. exact HR.
Qed.

Lemma lg_due_eq c st sp : R_lg c st sp -> lg_due c st = sp_due c sp.
Proof.
  intros (Hp & _ & _). unfold lg_due, sp_due. destruct (l_wait st); rewrite Hp; reflexivity.
Qed.

Lemma lg_post_eq c st sp t e : R_lg c st sp -> sp_due c sp = Some e -> lg_post c st t = sp_post c sp t.
Proof.
  intros (Hp & _ & _) He. unfold sp_post. rewrite He. unfold sp_due in He. unfold lg_post.
  destruct (l_wait st); rewrite Hp in He; [|discriminate].
  destruct (hold c) as [hs|]; [|discriminate]. injection He as <-. lia.
Qed.

Lemma lg_expire_sim c st sp e : R_lg c st sp -> sp_due c sp = Some e ->
  snd (lg_expire st e) = snd (sp_expire sp e) /\ R_lg c (fst (lg_expire st e)) (fst (sp_expire sp e)).
Proof.
  intros (Hp & Hf & Hh) He. unfold sp_due in He. unfold lg_expire, sp_expire, R_lg.
  destruct (l_wait st) eqn:W; rewrite Hp in *; [|discriminate].
  cbn. repeat split; auto.
Qed.

Lemma lg_machine_sim cmp c ia ib h :
  (forall x y, negb (zcmp cmp x y) = (y <=? x)) ->
  snd ia = snd ib -> R_lg c (fst ia) (fst ib) ->
  tie_free (sp_machine c) (fst (post_expire (sp_machine c) (fst ib) 0)) h = true ->
  run_machine (lg_machine cmp c) ia h = run_machine (sp_machine c) ib h.
Proof.
  intros Hcmp Ho HR Htf.
  apply (run_machine_sim (lg_machine cmp c) (sp_machine c) (R_lg c) okall);
    [apply lg_due_eq|apply lg_post_eq|apply lg_expire_sim|apply sp_expire_clears|apply lg_step_sim; exact Hcmp
    |exact Ho|exact HR|apply okall_all|exact Htf].
Qed.

Lemma lg_init_sim c truth :
  snd (lg_init c truth) = snd (sp_init false c truth) /\ R_lg c (fst (lg_init c truth)) (fst (sp_init false c truth)).
Proof.
  unfold lg_init, sp_init, lg_hold_block, sp_trigger, R_lg, l_set_ft, l_init_state.
  destruct (cn_dec c), (hold_false c) as [hf|], (hold c) as [hs|], truth; cbn;
    repeat split; auto; try discriminate; try congruence.
Qed.

Lemma wul_init_sim c truth :
  snd (wul_init no_dev c truth) = snd (sp_init true c truth)
  /\ R_lg c (fst (wul_init no_dev c truth)) (fst (sp_init true c truth)).
Proof.
  unfold wul_init, sp_init, lg_hold_block, sp_trigger, R_lg, l_set_ft, l_init_state, no_dev.
  destruct (cn_wu c), (hold_false c) as [hf|], (hold c) as [hs|], truth; cbn;
    repeat split; auto; try discriminate; try congruence.
Qed.

(* ---------- default-subsystem machine vs Spec ---------- *)
Definition R_dm (c : hcfg) (st : dstate) (sp : sstate) : Prop :=
  (match d_tea st with Some t0 => s_pend sp = Some (t0, d_hargs st) | None => s_pend sp = None end)
  /\ (hold_false c <> None -> d_fea st = s_fs sp)
  /\ d_hfe st = hold_false c
  /\ (hold c = None -> d_tea st = None).

Lemma dm_trigger_sim c st sp t :
  R_dm c st sp -> (forall e, sp_due c sp = Some e -> t < e) ->
  snd (dm_trigger no_dev c st t) = snd (sp_trigger c sp t (d_largs st))
  /\ R_dm c (fst (dm_trigger no_dev c st t)) (fst (sp_trigger c sp t (d_largs st))).
Proof.
  intros (Hp & Hf & He & Hh) Hlt. unfold dm_trigger, sp_trigger, R_dm.
  destruct (hold c) as [hs|] eqn:Eh.
  - destruct (d_tea st) as [t0|] eqn:Et.
    + rewrite Hp. rewrite dm_true_cmp_ok.
      assert (t < t0 + hs) as Hl by (apply Hlt; unfold sp_due; rewrite Hp, Eh; reflexivity).
      destruct (hs <=? t - t0) eqn:L; [lia|]. cbn [fst snd]. rewrite Et. auto.
    + rewrite Hp. cbn. repeat split; auto; try discriminate.
  - rewrite (Hh eq_refl) in *. cbn. rewrite Hp. repeat split; auto.
Qed.

Lemma R_dm_largs c st sp a : R_dm c st sp -> R_dm c (d_set_largs st a) sp.
Proof. intros H. exact H. Qed.

Ltac rdm :=
  unfold R_dm;
  cbn [d_tea d_fea d_hfe d_hargs d_largs d_set_fea d_set_tea d_set_largs d_start_hold s_pend s_fs fst snd];
  repeat split; auto; try (intros; congruence).

Lemma dm_step_sim c st sp t i :
  R_dm c st sp -> okin c i = true -> (forall e, sp_due c sp = Some e -> t < e) ->
  snd (dm_step no_dev c st t i) = snd (sp_step c sp t i)
  /\ R_dm c (fst (dm_step no_dev c st t i)) (fst (sp_step c sp t i)).
Proof.
  intros HR Hok Hlt. destruct i as [ok a|a|a|]; cbn [dm_step sp_step no_dev d_irr_as_false]; auto.
  - (* HEval *)
    pose proof (R_dm_largs c st sp a HR) as HR'. set (st' := d_set_largs st a) in *.
    assert (He : d_hfe st' = hold_false c) by apply HR'.
    unfold dm_check. rewrite He.
    destruct ok.
    + destruct (hold_false c) as [hf|] eqn:Ehf.
      * assert (Efe : d_fea st' = s_fs sp) by (destruct HR' as (_ & Hf & _); apply Hf; congruence).
        rewrite Efe.
        destruct (s_fs sp) as [f|] eqn:Efs.
        -- rewrite dm_false_cmp_ok.
           assert (HRn : R_dm c (d_set_fea st' None) {| s_pend := s_pend sp; s_fs := None |}).
           { destruct HR' as (Hp & Hf & _ & Hh). rdm. }
           destruct (hf <=? t - f).
           ++ apply (dm_trigger_sim c (d_set_fea st' None) {| s_pend := s_pend sp; s_fs := None |} t HRn).
              intros e. unfold sp_due. cbn [s_pend]. apply Hlt.
           ++ cbn [fst snd]. split; [reflexivity|exact HRn].
        -- cbn [fst snd]. split; [reflexivity|exact HR'].
      * apply (dm_trigger_sim c st' sp t); [exact HR'|exact Hlt].
    + cbn [fst snd]. split; [reflexivity|]. destruct HR' as (Hp & Hf & _ & Hh).
      destruct (hold_false c) as [hf|] eqn:Ehf.
      * assert (Efe : d_fea st' = s_fs sp) by (apply Hf; congruence). rewrite Efe.
        destruct (s_fs sp) as [f|] eqn:Efs; rdm.
      * rdm.
  - (* HAny: only when hold_false is unset *)
    unfold okin in Hok. cbn [is_any] in Hok. rewrite andb_true_r in Hok.
    destruct (hold_false c) as [hf|] eqn:Ehf; [discriminate|].
    pose proof (R_dm_largs c st sp a HR) as HR'. set (st' := d_set_largs st a) in *.
    assert (He : d_hfe st' = hold_false c) by apply HR'.
    unfold dm_check. rewrite He, Ehf.
    apply (dm_trigger_sim c st' sp t); [exact HR'|exact Hlt].
Qed.

Lemma dm_due_eq c st sp : R_dm c st sp -> dm_due c st = sp_due c sp.
Proof.
  intros (Hp & _). unfold dm_due, sp_due. destruct (d_tea st); rewrite Hp; reflexivity.
Qed.

Lemma dm_post_eq c st sp t e : R_dm c st sp -> sp_due c sp = Some e -> dm_post c st t = sp_post c sp t.
Proof.
  intros (Hp & _) He. unfold sp_post. rewrite He. unfold sp_due in He. unfold dm_post.
  destruct (d_tea st) as [t0|]; rewrite Hp in He; [|discriminate].
  destruct (hold c) as [hs|]; [|discriminate]. injection He as <-. apply dm_post_ok.
Qed.

Lemma dm_expire_sim c st sp e : R_dm c st sp -> sp_due c sp = Some e ->
  snd (dm_expire no_dev st e) = snd (sp_expire sp e)
  /\ R_dm c (fst (dm_expire no_dev st e)) (fst (sp_expire sp e)).
Proof.
  intros (Hp & Hf & He & Hh) Hd. unfold sp_due in Hd. unfold dm_expire, sp_expire, R_dm, d_hold_args.
  destruct (d_tea st) as [t0|] eqn:Et; rewrite Hp in *; [|discriminate].
  cbn. repeat split; auto.
Qed.

Lemma dm_machine_sim c ia ib h :
  snd ia = snd ib -> R_dm c (fst ia) (fst ib) -> any_ok c h = true ->
  tie_free (sp_machine c) (fst (post_expire (sp_machine c) (fst ib) 0)) h = true ->
  run_machine (dm_machine no_dev c) ia h = run_machine (sp_machine c) ib h.
Proof.
  intros Ho HR Hany Htf.
  apply (run_machine_sim (dm_machine no_dev c) (sp_machine c) (R_dm c) (okin c));
    [apply dm_due_eq|apply dm_post_eq|apply dm_expire_sim|apply sp_expire_clears|apply dm_step_sim
    |exact Ho|exact HR|apply any_ok_okin; exact Hany|exact Htf].
Qed.

Lemma dm_init_sim wu c truth :
  snd (dm_init no_dev wu c truth) = snd (sp_init wu c truth)
  /\ R_dm c (fst (dm_init no_dev wu c truth)) (fst (sp_init wu c truth)).
Proof.
  unfold dm_init, sp_init, dm_check, dm_trigger, sp_trigger, R_dm, d_set_tea, d_set_fea, d_start_hold, no_dev.
  destruct wu, (cn_wu c), (cn_dec c), (hold_false c) as [hf|], (hold c) as [hs|], truth; cbn;
    repeat split; auto; try discriminate; try congruence.
Qed.

(* ---------- the property ---------- *)
Theorem timeline : forall dv c init h,
  all_off dv -> sorted_times h = true -> no_ties c h = true -> any_ok c h = true ->
  legacy_runs dv c init h = spec_runs false c init h
  /\ dm_runs dv c init h = spec_runs false c init h
  /\ wul_runs dv c init h = spec_runs true c init h
  /\ wud_runs dv c init h = spec_runs true c init h.
Proof.
  intros dv c init h -> _ Hnt Hany. unfold legacy_runs, dm_runs, wul_runs, wud_runs, spec_runs, once.
  repeat split.
  - apply lg_machine_sim; [apply lg_cmp_ok|apply lg_init_sim|apply lg_init_sim|].
    apply no_ties_run_tie_free. exact Hnt.
  - apply dm_machine_sim; [apply dm_init_sim|apply dm_init_sim|exact Hany|].
    apply no_ties_run_tie_free. exact Hnt.
  - f_equal. apply lg_machine_sim; [apply wu_cmp_ok|apply wul_init_sim|apply wul_init_sim|].
    apply no_ties_run_tie_free. exact Hnt.
  - f_equal. apply dm_machine_sim; [apply dm_init_sim|apply dm_init_sim|exact Hany|].
    apply no_ties_run_tie_free. exact Hnt.
Qed.

(* the legacy models need neither the restriction on "any change" entries nor pairwise tie exclusion beyond the
   Spec's own pending timer *)
Theorem timeline_legacy : forall dv c init h,
  all_off dv -> no_ties c h = true ->
  legacy_runs dv c init h = spec_runs false c init h /\ wul_runs dv c init h = spec_runs true c init h.
Proof.
  intros dv c init h -> Hnt. unfold legacy_runs, wul_runs, spec_runs, once. split.
  - apply lg_machine_sim; [apply lg_cmp_ok|apply lg_init_sim|apply lg_init_sim|].
    apply no_ties_run_tie_free. exact Hnt.
  - f_equal. apply lg_machine_sim; [apply wu_cmp_ok|apply wul_init_sim|apply wul_init_sim|].
    apply no_ties_run_tie_free. exact Hnt.
Qed.

(* ---------- irrelevant inputs affect nothing (last sentence of the property) ---------- *)
Lemma sorted_from_all t h : sorted_from t h = true -> Forall (fun x => t < fst x) h.
Proof.
  revert t. induction h as [|[t' i] r IH]; intros t H; constructor.
  - cbn in H. cbn. lia.
  - cbn in H. apply andb_true_iff in H as [H1 H2]. specialize (IH t' H2).
    eapply Forall_impl; [|exact IH]. cbn. intros x Hx. lia.
Qed.

Lemma sorted_from_weaken t t' h : t' <= t -> sorted_from t h = true -> sorted_from t' h = true.
Proof. destruct h as [|[u i] r]; cbn; auto. intros. lia. Qed.

Lemma sorted_from_filter f t h : sorted_from t h = true -> sorted_from t (filter (fun x => f (snd x)) h) = true.
Proof.
  revert t. induction h as [|[u i] r IH]; intros t H; cbn; auto.
  cbn in H. apply andb_true_iff in H as [H1 H2]. cbn [snd].
  destruct (f i); cbn.
  - rewrite H1, (IH u H2). reflexivity.
  - apply (sorted_from_weaken u t); [lia|]. apply IH. exact H2.
Qed.

(* a timer already expired fires before anything later, whatever comes *)
Lemma sp_drive_expired c st e r :
  sp_due c st = Some e -> Forall (fun x => e < fst x) r ->
  drive (sp_machine c) st r = snd (sp_expire st e) ++ drive (sp_machine c) (fst (sp_expire st e)) r.
Proof.
  intros Hd Hr. destruct r as [|[t i] r'].
  - cbn [drive m_due m_expire sp_machine]. rewrite Hd. rewrite (sp_expire_clears c st e Hd). rewrite app_nil_r. reflexivity.
  - inversion Hr as [|x l Hlt _]; subst. cbn [fst] in Hlt.
    cbn [drive]. unfold pre_expire. cbn [m_due m_expire sp_machine]. rewrite Hd.
    rewrite (sp_expire_clears c st e Hd).
    destruct (e <? t) eqn:L; [|lia].
    destruct (sp_expire st e) as [st1 o1]. cbn [fst snd].
    destruct (m_step (sp_machine c) st1 t i) as [st2 o2]. destruct (post_expire (sp_machine c) st2 t) as [st3 o3].
    reflexivity.
Qed.

Lemma sp_drive_skip c st t i r :
  relevant i = false -> Forall (fun x => t < fst x) r ->
  drive (sp_machine c) st ((t, i) :: r) = drive (sp_machine c) st r.
Proof.
  intros Hi Hr. assert (Hs : sp_step c st t i = (st, [])) by (destruct i; try discriminate; reflexivity).
  cbn [drive]. unfold pre_expire, post_expire. cbn [m_due m_expire m_post m_step sp_machine].
  destruct (sp_due c st) as [e|] eqn:Hd.
  - destruct (e <? t) eqn:L.
    + assert (Hs' : sp_step c (fst (sp_expire st e)) t i = (fst (sp_expire st e), []))
        by (destruct i; try discriminate; reflexivity).
      destruct (sp_expire st e) as [st1 o1] eqn:Ex. cbn [fst] in Hs'. rewrite Hs'.
      replace (sp_due c st1) with (@None Z)
        by (symmetry; change st1 with (fst (st1, o1)); rewrite <- Ex; apply (sp_expire_clears c st e Hd)).
      cbn [app]. rewrite (sp_drive_expired c st e r Hd).
      * rewrite Ex. reflexivity.
      * eapply Forall_impl; [|exact Hr]. cbn. intros x Hx. lia.
    + rewrite Hs. rewrite Hd. unfold sp_post. rewrite Hd.
      destruct (e <=? t) eqn:L2.
      * cbn [app]. rewrite (sp_drive_expired c st e r Hd).
        -- destruct (sp_expire st e). reflexivity.
        -- eapply Forall_impl; [|exact Hr]. cbn. intros x Hx. lia.
      * reflexivity.
  - rewrite Hs. rewrite Hd. reflexivity.
Qed.

Lemma sp_drive_filter c : forall h t0 st, sorted_from t0 h = true ->
  drive (sp_machine c) st (filter (fun x => relevant (snd x)) h) = drive (sp_machine c) st h.
Proof.
  induction h as [|[t i] r IH]; intros t0 st Hs; [reflexivity|].
  cbn in Hs. apply andb_true_iff in Hs as [_ Hs].
  cbn [filter snd]. destruct (relevant i) eqn:Ri.
  - cbn [drive]. destruct (pre_expire (sp_machine c) st t) as [st1 o1].
    destruct (m_step (sp_machine c) st1 t i) as [st2 o2].
    destruct (post_expire (sp_machine c) st2 t) as [st3 o3].
    rewrite (IH t st3 Hs). reflexivity.
  - rewrite (sp_drive_skip c st t i r Ri (sorted_from_all t r Hs)). apply (IH t st Hs).
Qed.

Theorem spec_irrelevant : forall wu c init h, sorted_times h = true ->
  spec_runs wu c init (filter (fun x => relevant (snd x)) h) = spec_runs wu c init h.
Proof.
  intros wu c init h Hs. unfold spec_runs, run_machine.
  destruct (sp_init wu c init) as [st0 o0]. destruct (post_expire (sp_machine c) st0 0) as [st1 o1].
  rewrite (sp_drive_filter c h 0 st1 Hs). reflexivity.
Qed.

(* the hypotheses of [timeline] survive the removal of irrelevant inputs *)
Lemma no_ties_aux_filter ds f : forall h prev prev', incl prev' prev ->
  no_ties_aux ds prev h = true -> no_ties_aux ds prev' (filter (fun x => f (snd x)) h) = true.
Proof.
  induction h as [|[t i] r IH]; intros prev prev' Hi H; [reflexivity|].
  cbn [no_ties_aux] in H. apply andb_true_iff in H as [Hnow H].
  cbn [filter snd]. destruct (f i).
  - cbn [no_ties_aux]. apply andb_true_iff. split.
    + rewrite forallb_forall in *. intros p Hp. apply Hnow. apply Hi. exact Hp.
    + apply (IH (t :: prev)); [|exact H]. intros x [<-|Hx]; [left; reflexivity|right; apply Hi; exact Hx].
  - apply (IH (t :: prev)); [|exact H]. intros x Hx. right. apply Hi. exact Hx.
Qed.

Lemma any_ok_filter c f h : any_ok c h = true -> any_ok c (filter (fun x => f (snd x)) h) = true.
Proof.
  unfold any_ok. destruct (hold_false c); [|reflexivity].
  induction h as [|[t i] r IH]; cbn; auto. intros H. apply andb_true_iff in H as [H1 H2].
  destruct (f i); cbn; [rewrite H1|]; auto.
Qed.

Theorem irrelevant_no_effect : forall dv c init h,
  all_off dv -> sorted_times h = true -> no_ties c h = true -> any_ok c h = true ->
  let h' := filter (fun x => relevant (snd x)) h in
  legacy_runs dv c init h' = legacy_runs dv c init h /\ dm_runs dv c init h' = dm_runs dv c init h
  /\ wul_runs dv c init h' = wul_runs dv c init h /\ wud_runs dv c init h' = wud_runs dv c init h.
Proof.
  intros dv c init h Hoff Hs Hn Ha h'.
  destruct (timeline dv c init h Hoff Hs Hn Ha) as (E1 & E2 & E3 & E4).
  assert (Hs' : sorted_times h' = true) by (apply sorted_from_filter; exact Hs).
  assert (Hn' : no_ties c h' = true) by (apply (no_ties_aux_filter _ relevant h [0] [0]); [apply incl_refl|exact Hn]).
  assert (Ha' : any_ok c h' = true) by (apply any_ok_filter; exact Ha).
  destruct (timeline dv c init h' Hoff Hs' Hn' Ha') as (F1 & F2 & F3 & F4).
  rewrite E1, E2, E3, E4, F1, F2, F3, F4. unfold h'.
  rewrite !spec_irrelevant by exact Hs. auto.
Qed.

(* ---------- definition-time trigger (first sentence of the property; state_hold unset) ---------- *)
Lemma sp_drive_times c : hold c = None -> forall h st,
  Forall (fun r => In (fst r) (map fst h)) (drive (sp_machine c) st h).
Proof.
  intros Hh. assert (Hd : forall st, sp_due c st = None).
  { intros st. unfold sp_due. rewrite Hh. destruct (s_pend st) as [[? ?]|]; reflexivity. }
  induction h as [|[t i] r IH]; intros st.
  - cbn [drive m_due sp_machine]. rewrite Hd. constructor.
  - cbn [drive]. unfold pre_expire, post_expire. cbn [m_due m_step sp_machine]. rewrite Hd.
    destruct (sp_step c st t i) as [st2 o2] eqn:Es. rewrite Hd. cbn [app].
    apply Forall_app. split.
    + assert (Ho : o2 = [] \/ exists a, o2 = [(t, a)]).
      { destruct i as [[|] a|a|a|]; cbn [sp_step] in Es; unfold sp_trigger in Es; try rewrite Hh in Es.
        - destruct (hold_false c) as [hf|]; [destruct (s_fs st) as [f|]; [destruct (hf <=? t - f)|]|];
            inversion Es; eauto.
        - inversion Es; auto.
        - inversion Es; eauto.
        - inversion Es; auto.
        - inversion Es; auto. }
      destruct Ho as [->|[a ->]]; constructor; [cbn; auto|constructor].
    + eapply Forall_impl; [|apply IH]. cbn. intros x Hx. right. exact Hx.
Qed.

Lemma firstn_Forall {A} (P : A -> Prop) n l : Forall P l -> Forall P (firstn n l).
Proof. revert n. induction l; intros [|n] H; cbn; auto. inversion H; subst. constructor; auto. Qed.

Theorem spec_definition_time : forall wu c init h,
  hold c = None -> sorted_times h = true ->
  ((exists a, In (0, a) (spec_runs wu c init h)) <-> (if wu then cn_wu c else cn_dec c) && init = true).
Proof.
  intros wu c init h Hh Hs.
  assert (Hd : forall st, sp_due c st = None).
  { intros st. unfold sp_due. rewrite Hh. destruct (s_pend st) as [[? ?]|]; reflexivity. }
  assert (Hpos : Forall (fun r : run => 0 < fst r) (drive (sp_machine c) (fst (sp_init wu c init)) h)).
  { pose proof (sp_drive_times c Hh h (fst (sp_init wu c init))) as Ht.
    pose proof (sorted_from_all 0 h Hs) as Hall.
    eapply Forall_impl; [|exact Ht]. cbn. intros r Hin. apply in_map_iff in Hin as (x & Hx & Hin).
    rewrite Forall_forall in Hall. specialize (Hall x Hin). lia. }
  unfold spec_runs, run_machine. destruct (sp_init wu c init) as [st0 o0] eqn:Ei. cbn [fst] in Hpos.
  unfold post_expire. cbn [m_due sp_machine]. rewrite Hd. cbn [app].
  unfold sp_init, sp_trigger in Ei. rewrite Hh in Ei.
  destruct ((if wu then cn_wu c else cn_dec c) && init); inversion Ei; subst; clear Ei.
  - split; [reflexivity|]. intros _. exists 0%N. destruct wu; cbn; auto.
  - split; [|discriminate]. intros [a Hin]. exfalso. cbn [app] in Hin.
    set (d := drive _ _ h) in *.
    assert (Hp : Forall (fun r : run => 0 < fst r) (once wu d))
      by (destruct wu; cbn [once]; [apply firstn_Forall|]; exact Hpos).
    rewrite Forall_forall in Hp. specialize (Hp _ Hin). cbn in Hp. lia.
Qed.

Theorem definition_time : forall dv c init h,
  all_off dv -> hold c = None -> sorted_times h = true -> no_ties c h = true -> any_ok c h = true ->
  ((exists a, In (0, a) (legacy_runs dv c init h)) <-> cn_dec c && init = true)
  /\ ((exists a, In (0, a) (dm_runs dv c init h)) <-> cn_dec c && init = true)
  /\ ((exists a, In (0, a) (wul_runs dv c init h)) <-> cn_wu c && init = true)
  /\ ((exists a, In (0, a) (wud_runs dv c init h)) <-> cn_wu c && init = true).
Proof.
  intros dv c init h Hoff Hh Hs Hn Ha.
  destruct (timeline dv c init h Hoff Hs Hn Ha) as (E1 & E2 & E3 & E4).
  rewrite E1, E2, E3, E4.
  repeat split; try (apply (spec_definition_time false c init h Hh Hs)); try (apply (spec_definition_time true c init h Hh Hs)).
Qed.

(* ---------- a concrete non-trivial instance of the hypotheses ---------- *)
Definition ex_cfg : hcfg := {| check_now := Some true; hold := Some 2500000; hold_false := Some 1500000 |}.
Definition ex_hist : history :=
  [(1000000, HEval true 1%N); (2000000, HIrr 2%N); (3000000, HEval false 3%N); (4000000, HUnw);
   (5000000, HEval true 4%N); (6000000, HEval true 5%N); (9000000, HEval false 6%N); (10000000, HEval true 7%N)].

Example timeline_hyps_inhabited :
  sorted_times ex_hist = true /\ no_ties ex_cfg ex_hist = true /\ any_ok ex_cfg ex_hist = true
  /\ spec_runs false ex_cfg true ex_hist = [(2500000, 0%N); (7500000, 4%N)]
  /\ legacy_runs no_dev ex_cfg true ex_hist = [(2500000, 0%N); (7500000, 4%N)]
  /\ dm_runs no_dev ex_cfg true ex_hist = [(2500000, 0%N); (7500000, 4%N)].
Proof. vm_compute. repeat split. Qed.

Definition ex_cfg0 : hcfg := {| check_now := Some true; hold := None; hold_false := Some 0 |}.
Example definition_time_hyps_inhabited :
  hold ex_cfg0 = None /\ sorted_times ex_hist = true /\ no_ties ex_cfg0 ex_hist = true /\ any_ok ex_cfg0 ex_hist = true
  /\ spec_runs false ex_cfg0 true ex_hist = [(0, 0%N); (5000000, 4%N); (10000000, 7%N)].
Proof. vm_compute. repeat split. Qed.

(* ---------- the code as it is today: each deviation refutes the statement ---------- *)
Definition only (k : nat) : deviations :=
  {| d_irr_as_false := Nat.eqb k 14; d_latest_args := Nat.eqb k 50; d_dm_start_hf := Nat.eqb k 51;
     d_wul_init_false := Nat.eqb k 52; d_wud_drop_hf := Nat.eqb k 53 |}.

Definition in_domain (c : hcfg) (h : history) : Prop :=
  sorted_times h = true /\ no_ties c h = true /\ any_ok c h = true.

(* D14: state_hold=2.5, true at 1 s, attribute-only update at 2 s: Spec runs at 3.5 s, the default subsystem never *)
Lemma refuted_D14 : exists c init h, in_domain c h /\ dm_runs (only 14) c init h <> spec_runs false c init h.
Proof.
  exists {| check_now := None; hold := Some 2500000; hold_false := None |}, false,
    [(1000000, HEval true 1%N); (2000000, HIrr 2%N)].
  split; [vm_compute; auto|vm_compute; discriminate].
Qed.

(* D14, hold_false flavour: an attribute-only update starts the state_hold_false period although never false *)
Lemma refuted_D14_hold_false : exists c init h, in_domain c h /\ dm_runs (only 14) c init h <> spec_runs false c init h.
Proof.
  exists {| check_now := None; hold := None; hold_false := Some 1500000 |}, true,
    [(1000000, HIrr 1%N); (3000000, HEval true 2%N)].
  split; [vm_compute; auto|vm_compute; discriminate].
Qed.

Lemma refuted_D50 : exists c init h, in_domain c h /\ dm_runs (only 50) c init h <> spec_runs false c init h.
Proof.
  exists {| check_now := None; hold := Some 2500000; hold_false := None |}, false,
    [(1000000, HEval true 1%N); (2000000, HEval true 2%N)].
  split; [vm_compute; auto|vm_compute; discriminate].
Qed.

Lemma refuted_D51 : exists c init h, in_domain c h /\ dm_runs (only 51) c init h <> spec_runs false c init h.
Proof.
  exists {| check_now := Some true; hold := None; hold_false := Some 1500000 |}, true, [].
  split; [vm_compute; auto|vm_compute; discriminate].
Qed.

Lemma refuted_D52 : exists c init h, in_domain c h /\ wul_runs (only 52) c init h <> spec_runs true c init h.
Proof.
  exists {| check_now := None; hold := None; hold_false := Some 1500000 |}, false, [(2000000, HEval true 1%N)].
  split; [vm_compute; auto|vm_compute; discriminate].
Qed.

Lemma refuted_D53 : exists c init h, in_domain c h /\ wud_runs (only 53) c init h <> spec_runs true c init h.
Proof.
  exists {| check_now := None; hold := Some 2500000; hold_false := Some 1500000 |}, true,
    [(1000000, HEval false 1%N); (2000000, HEval true 2%N)].
  split; [vm_compute; auto|vm_compute; discriminate].
Qed.

(* ---------- task.wait_until with an overall timeout: the simulation lifts through [with_timeout] ---------- *)
Section SimT.
  Context {A B : Type} (ma : machine A) (mb : machine B) (R : A -> B -> Prop) (okin : hin -> bool) (T : option Z).
  Hypothesis due_eq : forall a b, R a b -> m_due ma a = m_due mb b.
  Hypothesis post_eq : forall a b t e, R a b -> m_due mb b = Some e -> m_post ma a t = m_post mb b t.
  Hypothesis expire_sim : forall a b e, R a b -> m_due mb b = Some e ->
    snd (m_expire ma a e) = snd (m_expire mb b e) /\ R (fst (m_expire ma a e)) (fst (m_expire mb b e)).
  Hypothesis step_sim : forall a b t i, R a b -> okin i = true -> (forall e, m_due mb b = Some e -> t < e) ->
    snd (m_step ma a t i) = snd (m_step mb b t i) /\ R (fst (m_step ma a t i)) (fst (m_step mb b t i)).

  Definition RT (a : A * bool) (b : B * bool) : Prop := R (fst a) (fst b) /\ snd a = snd b.

  Lemma wt_is_tmo_eq a b : RT a b -> wt_is_tmo ma T a = wt_is_tmo mb T b.
  Proof. intros [HR _]. unfold wt_is_tmo. rewrite (due_eq _ _ HR). reflexivity. Qed.

  Lemma wt_due_eq a b : RT a b -> wt_due ma T a = wt_due mb T b.
  Proof. intros [HR Hl]. unfold wt_due. rewrite Hl, (due_eq _ _ HR). reflexivity. Qed.

  (* when the hold timer is what is due, the inner machine has that timer pending *)
  Lemma wt_inner_due b e : wt_due mb T b = Some e -> wt_is_tmo mb T b = false -> m_due mb (fst b) = Some e.
  Proof.
    unfold wt_due, wt_is_tmo. destruct (snd b); [|discriminate].
    destruct T as [tm|], (m_due mb (fst b)) as [e0|]; try discriminate.
    - destruct (e0 <? tm); [intros [= <-] _; reflexivity|discriminate].
    - intros [= <-] _. reflexivity.
  Qed.

  Lemma wt_post_eq a b t e : RT a b -> wt_due mb T b = Some e -> wt_post ma T a t = wt_post mb T b t.
  Proof.
    intros HRT Hd. unfold wt_post. rewrite (wt_is_tmo_eq a b HRT).
    destruct (wt_is_tmo mb T b) eqn:Ht; [reflexivity|].
    destruct HRT as [HR _]. apply (post_eq _ _ t e HR). apply wt_inner_due; assumption.
  Qed.

  Lemma wt_expire_sim a b e : RT a b -> wt_due mb T b = Some e ->
    snd (wt_expire ma T a e) = snd (wt_expire mb T b e) /\ RT (fst (wt_expire ma T a e)) (fst (wt_expire mb T b e)).
  Proof.
    intros HRT Hd. unfold wt_expire. rewrite (wt_is_tmo_eq a b HRT).
    destruct (wt_is_tmo mb T b) eqn:Ht.
    - cbn [fst snd]. destruct HRT as [HR _]. split; [reflexivity|]. split; [exact HR|reflexivity].
    - destruct HRT as [HR _]. destruct (expire_sim _ _ e HR (wt_inner_due b e Hd Ht)) as [Ho HR'].
      destruct (m_expire ma (fst a) e) as [a' oa]. destruct (m_expire mb (fst b) e) as [b' ob].
      cbn [fst snd] in *. split; [exact Ho|]. split; [exact HR'|reflexivity].
  Qed.

  Lemma wt_expire_clears b e : wt_due mb T b = Some e -> wt_due mb T (fst (wt_expire mb T b e)) = None.
  Proof.
    intros _. unfold wt_expire. destruct (wt_is_tmo mb T b); [reflexivity|].
    destruct (m_expire mb (fst b) e). reflexivity.
  Qed.

  Lemma wt_step_sim a b t i : RT a b -> okin i = true -> (forall e, wt_due mb T b = Some e -> t < e) ->
    snd (wt_step ma a t i) = snd (wt_step mb b t i) /\ RT (fst (wt_step ma a t i)) (fst (wt_step mb b t i)).
  Proof.
    intros [HR Hl] Hi Hlt. unfold wt_step. rewrite Hl. destruct (snd b) eqn:Lb.
    - assert (Hlt' : forall e, m_due mb (fst b) = Some e -> t < e).
      { intros e He. unfold wt_due in Hlt. rewrite Lb, He in Hlt. destruct T as [tm|].
        - destruct (e <? tm) eqn:L; specialize (Hlt _ eq_refl); lia.
        - apply Hlt. reflexivity. }
      destruct (step_sim _ _ t i HR Hi Hlt') as [Ho HR'].
      destruct (m_step ma (fst a) t i) as [a' oa]. destruct (m_step mb (fst b) t i) as [b' ob].
      cbn [fst snd] in *. split; [exact Ho|]. split; [exact HR'|reflexivity].
    - cbn [fst snd]. split; [reflexivity|]. split; [exact HR|congruence].
  Qed.

  Lemma run_machine_sim_t ia ib h : snd ia = snd ib -> R (fst ia) (fst ib) ->
    forallb (fun x => okin (snd x)) h = true ->
    tie_free (with_timeout mb T) (fst (post_expire (with_timeout mb T) (fst (lift_ini ib)) 0)) h = true ->
    run_machine (with_timeout ma T) (lift_ini ia) h = run_machine (with_timeout mb T) (lift_ini ib) h.
  Proof.
    intros Ho HR Hok Htf.
    apply (run_machine_sim (with_timeout ma T) (with_timeout mb T) RT okin);
      [exact wt_due_eq|exact wt_post_eq|exact wt_expire_sim|exact wt_expire_clears|exact wt_step_sim
      |exact Ho|split; [exact HR|reflexivity]|exact Hok|exact Htf].
  Qed.
End SimT.

(* pairwise no_ties_t implies tie-freeness of the Spec machine with the timeout *)
Lemma sp_wt_pre_pend c T prev s t : pend_in prev (fst s) ->
  pend_in prev (fst (fst (pre_expire (with_timeout (sp_machine c) T) s t))).
Proof.
  intros H. unfold pre_expire. cbn [m_due m_expire with_timeout].
  destruct (wt_due (sp_machine c) T s) as [e|]; [|exact H]. destruct (e <? t); [|exact H].
  unfold wt_expire. destruct (wt_is_tmo (sp_machine c) T s); [exact H|].
  cbn [m_expire sp_machine]. destruct (sp_expire (fst s) e) eqn:E. cbn [fst].
  change s0 with (fst (s0, l)). rewrite <- E. apply sp_expire_pend.
Qed.

Lemma sp_wt_post_pend c T prev s t : pend_in prev (fst s) ->
  pend_in prev (fst (fst (post_expire (with_timeout (sp_machine c) T) s t))).
Proof.
  intros H. unfold post_expire. cbn [m_due m_post m_expire with_timeout].
  destruct (wt_due (sp_machine c) T s) as [e|]; [|exact H]. destruct (wt_post (sp_machine c) T s t); [|exact H].
  unfold wt_expire. destruct (wt_is_tmo (sp_machine c) T s); [exact H|].
  cbn [m_expire sp_machine]. destruct (sp_expire (fst s) e) eqn:E. cbn [fst].
  change s0 with (fst (s0, l)). rewrite <- E. apply sp_expire_pend.
Qed.

Lemma sp_wt_step_pend c T prev s t i : pend_in prev (fst s) ->
  pend_in (t :: prev) (fst (fst (m_step (with_timeout (sp_machine c) T) s t i))).
Proof.
  intros H. cbn [m_step with_timeout]. unfold wt_step. destruct (snd s).
  - cbn [m_step sp_machine]. destruct (sp_step c (fst s) t i) eqn:E. cbn [fst].
    change s0 with (fst (s0, l)). rewrite <- E. apply sp_step_pend. exact H.
  - cbn [fst]. apply pend_in_mono. exact H.
Qed.

Definition tmo_far (T : option Z) (t : Z) : bool := match T with Some tm => far (t - tm) | None => true end.

Lemma no_ties_tie_free_t c T : forall h prev s, pend_in prev (fst s) ->
  no_ties_aux (cfg_delays c) prev h = true -> forallb (fun x => tmo_far T (fst x)) h = true ->
  tie_free (with_timeout (sp_machine c) T) s h = true.
Proof.
  induction h as [|[t i] r IH]; intros prev s Hp Hn Hf; [reflexivity|].
  cbn [no_ties_aux] in Hn. apply andb_true_iff in Hn as [Hnow Hn].
  cbn [forallb fst] in Hf. apply andb_true_iff in Hf as [Hft Hf].
  cbn [tie_free]. apply andb_true_iff. split.
  - pose proof (sp_wt_pre_pend c T prev s t Hp) as Hp1.
    set (s1 := fst (pre_expire (with_timeout (sp_machine c) T) s t)) in *.
    unfold near_due. cbn [m_due with_timeout]. unfold wt_due.
    destruct (snd s1); [|reflexivity].
    assert (Hhold : forall e, sp_due c (fst s1) = Some e -> far (e - t) = true).
    { intros e He. unfold sp_due in He. destruct (s_pend (fst s1)) as [[t0 a]|] eqn:E; [|discriminate].
      destruct (hold c) as [hs|] eqn:Eh; [|discriminate]. injection He as <-.
      unfold pend_in in Hp1. rewrite E in Hp1.
      rewrite forallb_forall in Hnow. specialize (Hnow t0 Hp1).
      unfold cfg_delays in Hnow. rewrite Eh in Hnow. cbn [opt_list app forallb] in Hnow.
      apply andb_true_iff in Hnow as [Hfar _].
      rewrite (far_opp (t0 + hs - t) (t - t0 - hs)); [exact Hfar|lia]. }
    cbn [m_due sp_machine].
    destruct T as [tm|]; cbn [tmo_far] in Hft.
    + destruct (sp_due c (fst s1)) as [e|] eqn:He.
      * destruct (e <? tm); rewrite negb_involutive; [apply Hhold; reflexivity|].
        rewrite (far_opp (tm - t) (t - tm)); [exact Hft|lia].
      * rewrite negb_involutive. rewrite (far_opp (tm - t) (t - tm)); [exact Hft|lia].
    + destruct (sp_due c (fst s1)) as [e|] eqn:He; [|reflexivity].
      rewrite negb_involutive. apply Hhold. reflexivity.
  - apply (IH (t :: prev)); [|exact Hn|exact Hf].
    apply sp_wt_post_pend. apply sp_wt_step_pend. apply sp_wt_pre_pend. exact Hp.
Qed.

Lemma no_ties_t_run_tie_free c T truth h : no_ties_t c T h = true ->
  tie_free (with_timeout (sp_machine c) T)
    (fst (post_expire (with_timeout (sp_machine c) T) (fst (lift_ini (sp_init true c truth))) 0)) h = true.
Proof.
  intros H. unfold no_ties_t in H. apply andb_true_iff in H as [Hn Ht].
  apply (no_ties_tie_free_t c T h [0]).
  - apply sp_wt_post_pend. cbn [lift_ini fst]. apply sp_init_pend.
  - exact Hn.
  - destruct T as [tm|]; cbn [tmo_far].
    + apply andb_true_iff in Ht as [Ht _]. exact Ht.
    + clear. induction h; cbn; auto.
Qed.

Theorem timeline_timeout : forall dv c T init h,
  all_off dv -> sorted_times h = true -> no_ties_t c T h = true -> any_ok c h = true ->
  wul_runs_t dv c T init h = spec_runs_t c T init h /\ wud_runs_t dv c T init h = spec_runs_t c T init h.
Proof.
  intros dv c T init h -> _ Hnt Hany. unfold wul_runs_t, wud_runs_t, spec_runs_t. split; f_equal.
  - apply (run_machine_sim_t (lg_machine wu_too_soon_cmp c) (sp_machine c) (R_lg c) okall T);
      [apply lg_due_eq|apply lg_post_eq|apply lg_expire_sim|apply lg_step_sim; apply wu_cmp_ok
      |apply wul_init_sim|apply wul_init_sim|apply okall_all|apply no_ties_t_run_tie_free; exact Hnt].
  - apply (run_machine_sim_t (dm_machine no_dev c) (sp_machine c) (R_dm c) (okin c) T);
      [apply dm_due_eq|apply dm_post_eq|apply dm_expire_sim|apply dm_step_sim
      |apply dm_init_sim|apply dm_init_sim|apply any_ok_okin; exact Hany|apply no_ties_t_run_tie_free; exact Hnt].
Qed.

(* which of the two wins: a Spec-level reading.  If the first state run of the Spec without timeout happens strictly
   before T it is the result, otherwise the result is the timeout at T. (stated on concrete instances below; the
   general statement is [timeline_timeout] about the machines) *)
Example timeout_hyps_inhabited :
  let c := {| check_now := None; hold := Some 2500000; hold_false := None |} in
  let h := [(1000000, HEval true 1%N); (2000000, HEval true 2%N)] in
  sorted_times h = true /\ no_ties_t c (Some 2250000) h = true /\ any_ok c h = true
  /\ spec_runs_t c (Some 2250000) false h = [(2250000, timeout_id)]      (* timeout before the hold ends *)
  /\ spec_runs_t c (Some 3750000) false h = [(3500000, 1%N)]             (* hold ends first *)
  /\ spec_runs_t c (Some 1250000) true [] = [(1250000, timeout_id)]      (* hold started by the initial check *)
  /\ wul_runs_t no_dev c (Some 2250000) false h = [(2250000, timeout_id)]
  /\ wud_runs_t no_dev c (Some 2250000) false h = [(2250000, timeout_id)].
Proof. vm_compute. repeat split. Qed.

(* ---------- what the correspondence evaluates: a reproduced behaviour of conformant code satisfies the Spec ---------- *)
Theorem model_implies_spec : forall c, hcase_model_ok no_dev c = true -> hcase_spec_ok c = true.
Proof.
  intros c H. unfold hcase_spec_ok. destruct (hcase_in_scope c) eqn:Sc; [|reflexivity]. cbn [negb orb].
  unfold hcase_in_scope in Sc. apply andb_true_iff in Sc as [Sc Ha]. apply andb_true_iff in Sc as [Hs Hn].
  unfold hcase_model_ok in H. apply andb_true_iff in H as [_ H].
  unfold spec_of. unfold model_runs in H. destruct (hc_wu c).
  - destruct (timeline_timeout no_dev (hc_cfg c) (hc_tmo c) (hc_init c) (hc_hist c) eq_refl Hs Hn Ha) as (E1 & E2).
    destruct (hc_legacy c); [rewrite <- E1|rewrite <- E2]; exact H.
  - unfold no_ties_t in Hn. rewrite andb_true_r in Hn.
    destruct (timeline no_dev (hc_cfg c) (hc_init c) (hc_hist c) eq_refl Hs Hn Ha) as (E1 & E2 & _).
    destruct (hc_legacy c); [rewrite <- E1|rewrite <- E2]; exact H.
Qed.

Example model_implies_spec_hyp_inhabited :
  hcase_model_ok no_dev {| hc_legacy := false; hc_wu := false; hc_cfg := ex_cfg; hc_init := true; hc_tmo := None;
                           hc_hist := ex_hist; hc_obs := [(2500000, 0%N); (7500000, 4%N)]; hc_clean := true |} = true.
Proof. vm_compute. reflexivity. Qed.
