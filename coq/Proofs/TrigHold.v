(* Proofs/TrigHold.v — C05: each implementation model of the hold logic (all deviation switches off) produces
   exactly the Spec's runs (times and arguments) on every tie-free timed history, for every configuration.
   Method: one generic simulation lemma for the driver ([drive_sim]) + a coupling invariant per machine. *)
From PV Require Import Common.Util Gen.HoldConsts Trig.Hold Trig.HoldCheck.
From Coq Require Import ZArith List Bool Lia ZifyBool.
Local Open Scope Z_scope.

(* ---------- facts about the translated constants ---------- *)
Lemma far_neq x : far x = true -> x <> 0.
Proof. unfold far, tie_eps, wu_eps_us, dm_eps_us. lia. Qed.

Lemma far_opp x y : x = - y -> far x = far y.
Proof. intros ->. unfold far. rewrite Z.abs_opp. reflexivity. Qed.

Lemma lg_cmp_ok x y : negb (zcmp lg_too_soon_cmp x y) = (y <=? x).
Proof. unfold lg_too_soon_cmp, zcmp. lia. Qed.
Lemma wu_cmp_ok x y : negb (zcmp wu_too_soon_cmp x y) = (y <=? x).
Proof. unfold wu_too_soon_cmp, zcmp. lia. Qed.
Lemma dm_false_cmp_ok x y : zcmp dm_false_cmp x y = (y <=? x).
Proof. reflexivity. Qed.
Lemma dm_true_cmp_ok x y : zcmp dm_true_cmp x y = (y <=? x).
Proof. reflexivity. Qed.
Lemma dm_post_ok s t t0 :
  zcmp dm_eps_cmp (s - (t - t0)) dm_eps_us && zcmp dm_hold_cmp (t - t0) s = (t0 + s <=? t).
Proof. unfold dm_eps_cmp, dm_hold_cmp, dm_eps_us, zcmp. lia. Qed.

(* ---------- generic simulation for the driver ---------- *)
Section Sim.
  Context {A B : Type} (ma : machine A) (mb : machine B) (R : A -> B -> Prop) (okin : hin -> bool).
  Hypothesis due_eq : forall a b, R a b -> m_due ma a = m_due mb b.
  Hypothesis post_eq : forall a b t e, R a b -> m_due mb b = Some e -> m_post ma a t = m_post mb b t.
  Hypothesis expire_sim : forall a b e, R a b -> m_due mb b = Some e ->
    snd (m_expire ma a e) = snd (m_expire mb b e) /\ R (fst (m_expire ma a e)) (fst (m_expire mb b e)).
  Hypothesis expire_clears : forall b e, m_due mb b = Some e -> m_due mb (fst (m_expire mb b e)) = None.
  Hypothesis step_sim : forall a b t i, R a b -> okin i = true -> (forall e, m_due mb b = Some e -> t < e) ->
    snd (m_step ma a t i) = snd (m_step mb b t i) /\ R (fst (m_step ma a t i)) (fst (m_step mb b t i)).

  Lemma pre_sim a b t : R a b ->
    snd (pre_expire ma a t) = snd (pre_expire mb b t) /\ R (fst (pre_expire ma a t)) (fst (pre_expire mb b t)).
  Proof.
    intros HR. unfold pre_expire. rewrite (due_eq _ _ HR).
    destruct (m_due mb b) as [e|] eqn:E; [|auto].
    destruct (e <? t); [apply expire_sim; auto|auto].
  Qed.

  Lemma post_sim a b t : R a b ->
    snd (post_expire ma a t) = snd (post_expire mb b t) /\ R (fst (post_expire ma a t)) (fst (post_expire mb b t)).
  Proof.
    intros HR. unfold post_expire. rewrite (due_eq _ _ HR).
    destruct (m_due mb b) as [e|] eqn:E; [|auto].
    rewrite (post_eq _ _ t e HR E).
    destruct (m_post mb b t); [apply expire_sim; auto|auto].
  Qed.

  Lemma pre_due b t e : m_due mb (fst (pre_expire mb b t)) = Some e -> t <= e.
  Proof.
    unfold pre_expire. destruct (m_due mb b) as [e0|] eqn:E.
    - destruct (e0 <? t) eqn:L.
      + rewrite (expire_clears _ _ E). discriminate.
      + cbn [fst]. rewrite E. intros [= <-]. lia.
    - cbn [fst]. rewrite E. discriminate.
  Qed.

  Lemma drive_sim : forall h a b, R a b -> forallb (fun x => okin (snd x)) h = true ->
    tie_free mb b h = true -> drive ma a h = drive mb b h.
  Proof.
    induction h as [|[t i] r IH]; intros a b HR Hok Htf.
    - cbn [drive]. rewrite (due_eq _ _ HR). destruct (m_due mb b) as [e|] eqn:E; [|reflexivity].
      apply expire_sim; assumption.
    - cbn [drive]. cbn [tie_free] in Htf. cbn [forallb snd] in Hok.
      apply andb_true_iff in Hok as [Hi Hok]. apply andb_true_iff in Htf as [Hn Htf].
      destruct (pre_sim a b t HR) as [Ho1 HR1].
      destruct (pre_expire ma a t) as [a1 o1]. destruct (pre_expire mb b t) as [b1 p1] eqn:Pb.
      cbn [fst snd] in *.
      assert (Hlt : forall e, m_due mb b1 = Some e -> t < e).
      { intros e He. pose proof (pre_due b t e) as Hle. rewrite Pb in Hle. cbn [fst] in Hle. specialize (Hle He).
        unfold near_due in Hn. rewrite He in Hn. rewrite negb_involutive in Hn. apply far_neq in Hn. lia. }
      destruct (step_sim a1 b1 t i HR1 Hi Hlt) as [Ho2 HR2].
      destruct (m_step ma a1 t i) as [a2 o2]. destruct (m_step mb b1 t i) as [b2 p2].
      cbn [fst snd] in *.
      destruct (post_sim a2 b2 t HR2) as [Ho3 HR3].
      destruct (post_expire ma a2 t) as [a3 o3]. destruct (post_expire mb b2 t) as [b3 p3].
      cbn [fst snd] in *. subst.
      rewrite (IH a3 b3 HR3 Hok Htf). reflexivity.
  Qed.

  Lemma run_machine_sim ia ib h : snd ia = snd ib -> R (fst ia) (fst ib) ->
    forallb (fun x => okin (snd x)) h = true ->
    tie_free mb (fst (post_expire mb (fst ib) 0)) h = true ->
    run_machine ma ia h = run_machine mb ib h.
  Proof.
    destruct ia as [a0 o0], ib as [b0 p0]. cbn [fst snd]. intros -> HR Hok Htf. unfold run_machine.
    destruct (post_sim a0 b0 0 HR) as [Ho HR1].
    destruct (post_expire ma a0 0) as [a1 o1]. destruct (post_expire mb b0 0) as [b1 p1].
    cbn [fst snd] in *. subst. rewrite (drive_sim h a1 b1 HR1 Hok Htf). reflexivity.
  Qed.
End Sim.

(* ---------- Spec machine: expiry clears the timer; pairwise no_ties implies tie-freeness ---------- *)
Lemma sp_expire_clears c b e : sp_due c b = Some e -> sp_due c (fst (sp_expire b e)) = None.
Proof. intros _. reflexivity. Qed.

Definition pend_in (prev : list Z) (sp : sstate) : Prop :=
  match s_pend sp with Some (t0, _) => In t0 prev | None => True end.

Lemma pend_in_mono prev t sp : pend_in prev sp -> pend_in (t :: prev) sp.
Proof. unfold pend_in. destruct (s_pend sp) as [[t0 a]|]; cbn; auto. Qed.

Lemma sp_trigger_pend c prev sp t a : pend_in (t :: prev) sp -> pend_in (t :: prev) (fst (sp_trigger c sp t a)).
Proof.
  unfold sp_trigger, pend_in. destruct (hold c); [|auto].
  destruct (s_pend sp) as [[t0 a0]|] eqn:E; cbn [fst s_pend]; [rewrite E; auto|]. intros _. cbn. auto.
Qed.

Lemma sp_step_pend c prev sp t i : pend_in prev sp -> pend_in (t :: prev) (fst (sp_step c sp t i)).
Proof.
  intros H. apply (pend_in_mono prev t) in H. destruct i as [[|] a|a|a|]; cbn [sp_step]; auto.
  - destruct (hold_false c) as [hf|]; [|apply sp_trigger_pend; assumption].
    destruct (s_fs sp) as [f|]; [|assumption].
    destruct (hf <=? t - f); [apply sp_trigger_pend|cbn [fst]]; exact H.
  - cbn. unfold pend_in. cbn. exact I.
  - apply sp_trigger_pend; assumption.
Qed.

Lemma sp_expire_pend prev sp e : pend_in prev (fst (sp_expire sp e)).
Proof. unfold pend_in. cbn. exact I. Qed.

Lemma sp_pre_pend c prev sp t : pend_in prev sp -> pend_in prev (fst (pre_expire (sp_machine c) sp t)).
Proof.
  intros H. unfold pre_expire. cbn [m_due m_expire sp_machine].
  destruct (sp_due c sp) as [e|]; [|exact H]. destruct (e <? t); [apply sp_expire_pend|exact H].
Qed.

Lemma sp_post_pend c prev sp t : pend_in prev sp -> pend_in prev (fst (post_expire (sp_machine c) sp t)).
Proof.
  intros H. unfold post_expire. cbn [m_due m_post m_expire sp_machine].
  destruct (sp_due c sp) as [e|]; [|exact H]. destruct (sp_post c sp t); [apply sp_expire_pend|exact H].
Qed.

Lemma no_ties_tie_free c : forall h prev sp, pend_in prev sp ->
  no_ties_aux (cfg_delays c) prev h = true -> tie_free (sp_machine c) sp h = true.
Proof.
  induction h as [|[t i] r IH]; intros prev sp Hp Hn; [reflexivity|].
  cbn [no_ties_aux] in Hn. apply andb_true_iff in Hn as [Hnow Hn].
  cbn [tie_free]. apply andb_true_iff. split.
  - pose proof (sp_pre_pend c prev sp t Hp) as Hp1.
    set (sp1 := fst (pre_expire (sp_machine c) sp t)) in *.
    unfold near_due. cbn [m_due sp_machine]. unfold sp_due.
    destruct (s_pend sp1) as [[t0 a]|] eqn:E; [|reflexivity].
    destruct (hold c) as [hs|] eqn:Eh; [|reflexivity].
    rewrite negb_involutive.
    unfold pend_in in Hp1. rewrite E in Hp1.
    rewrite forallb_forall in Hnow. specialize (Hnow t0 Hp1).
    unfold cfg_delays in Hnow. rewrite Eh in Hnow. cbn [opt_list app forallb] in Hnow.
    apply andb_true_iff in Hnow as [Hf _].
    rewrite (far_opp (t0 + hs - t) (t - t0 - hs)); [exact Hf|lia].
  - apply (IH (t :: prev)); [|exact Hn].
    apply sp_post_pend. apply sp_step_pend. apply sp_pre_pend. exact Hp.
Qed.

Lemma sp_init_pend wu c truth : pend_in [0] (fst (sp_init wu c truth)).
Proof.
  unfold sp_init. destruct ((if wu then cn_wu c else cn_dec c) && truth).
  - unfold sp_trigger, pend_in. destruct (hold c); cbn; auto.
  - unfold pend_in. cbn. exact I.
Qed.

Lemma no_ties_run_tie_free wu c truth h : no_ties c h = true ->
  tie_free (sp_machine c) (fst (post_expire (sp_machine c) (fst (sp_init wu c truth)) 0)) h = true.
Proof.
  intros H. apply (no_ties_tie_free c h [0]); [|exact H].
  apply sp_post_pend. apply sp_init_pend.
Qed.

(* ---------- inputs admitted by the property's quantifier ---------- *)
Definition okin (c : hcfg) (i : hin) : bool := negb (is_some (hold_false c) && is_any i).
Definition okall (i : hin) : bool := true.

Lemma any_ok_okin c h : any_ok c h = true -> forallb (fun x => okin c (snd x)) h = true.
Proof.
  unfold any_ok, okin. destruct (hold_false c); cbn [is_some andb]; intros H.
  - exact H.
  - clear H. induction h; cbn; auto.
Qed.

Lemma okall_all (h : history) : forallb (fun x => okall (snd x)) h = true.
Proof. induction h; cbn; auto. Qed.

(* ---------- legacy machines (trigger_watch, wait_until) vs Spec ---------- *)
Definition R_lg (c : hcfg) (st : lstate) (sp : sstate) : Prop :=
  (if l_wait st then s_pend sp = Some (l_t0 st, l_info st) else s_pend sp = None)
  /\ (hold_false c <> None -> l_ft st = s_fs sp)
  /\ (hold c = None -> l_wait st = false).

Lemma lg_hold_block_sim c st sp t a :
  R_lg c st sp ->
  snd (lg_hold_block c st t true a) = snd (sp_trigger c sp t a)
  /\ R_lg c (fst (lg_hold_block c st t true a)) (fst (sp_trigger c sp t a)).
Proof.
  intros (Hp & Hf & Hh). unfold lg_hold_block, sp_trigger, R_lg.
  destruct (hold c) as [hs|] eqn:Eh.
  - destruct (l_wait st) eqn:W.
    + rewrite Hp. cbn [fst snd]. rewrite W. auto.
    + rewrite Hp. cbn [fst snd l_wait l_t0 l_info l_ft s_pend s_fs]. repeat split; auto; try discriminate.
  - cbn [fst snd]. auto.
Qed.

Lemma lg_hold_block_false_sim c st sp t a fs' :
  R_lg c st sp -> (hold_false c <> None -> l_ft st = fs') ->
  snd (lg_hold_block c st t false a) = []
  /\ R_lg c (fst (lg_hold_block c st t false a)) {| s_pend := None; s_fs := fs' |}.
Proof.
  intros (Hp & Hf & Hh) Hfs. unfold lg_hold_block, R_lg.
  destruct (hold c) as [hs|] eqn:Eh; cbn [fst snd l_wait l_t0 l_info l_ft s_pend s_fs].
  - repeat split; auto; try discriminate.
  - rewrite (Hh eq_refl). repeat split; auto.
Qed.

Lemma R_lg_set_ft c st sp x :
  R_lg c st sp -> R_lg c (l_set_ft st x) {| s_pend := s_pend sp; s_fs := x |}.
Proof. intros (Hp & Hf & Hh). unfold R_lg, l_set_ft. cbn. auto. Qed.

Lemma lg_step_sim cmp c :
  (forall x y, negb (zcmp cmp x y) = (y <=? x)) ->
  forall st sp t i, R_lg c st sp -> okall i = true -> (forall e, sp_due c sp = Some e -> t < e) ->
  snd (lg_step cmp c st t i) = snd (sp_step c sp t i)
  /\ R_lg c (fst (lg_step cmp c st t i)) (fst (sp_step c sp t i)).
Proof.
  intros Hcmp st sp t i HR _ _. destruct i as [ok a|a|a|]; cbn [lg_step sp_step]; auto.
  - destruct (hold_false c) as [hf|] eqn:Ehf.
    + destruct HR as (Hp & Hf & Hh). assert (Eft : l_ft st = s_fs sp) by (apply Hf; discriminate).
      unfold lg_hf_block. rewrite Eft.
      destruct (s_fs sp) as [f|] eqn:Efs; destruct ok.
      * rewrite Hcmp. destruct (hf <=? t - f).
        -- apply lg_hold_block_sim. apply (R_lg_set_ft c st sp None). repeat split; auto.
        -- cbn [fst snd]. split; [reflexivity|]. apply (R_lg_set_ft c st sp None). repeat split; auto.
      * apply lg_hold_block_false_sim.
        -- apply (R_lg_set_ft c st sp (Some f)). repeat split; auto.
        -- reflexivity.
      * cbn [fst snd]. split; [reflexivity|]. unfold R_lg, l_set_ft. cbn. rewrite Efs. repeat split; auto.
      * apply lg_hold_block_false_sim.
        -- apply (R_lg_set_ft c st sp (Some t)). repeat split; auto.
        -- reflexivity.
    + destruct ok.
      * apply lg_hold_block_sim. exact HR.
      * apply lg_hold_block_false_sim; [exact HR|]. intros H; congruence.
  - apply lg_hold_block_sim. exact HR.
Qed.

Lemma lg_due_eq c st sp : R_lg c st sp -> lg_due c st = sp_due c sp.
Proof.
  intros (Hp & _ & _). unfold lg_due, sp_due. destruct (l_wait st); rewrite Hp; reflexivity.
Qed.

Lemma lg_post_eq c st sp t e : R_lg c st sp -> sp_due c sp = Some e -> lg_post c st t = sp_post c sp t.
Proof.
  intros (Hp & _ & _) He. unfold sp_post. rewrite He. unfold sp_due in He. unfold lg_post.
  destruct (l_wait st); rewrite Hp in He; [|discriminate].
  destruct (hold c) as [hs|]; [|discriminate]. injection He as <-. lia.
Qed.

Lemma lg_expire_sim c st sp e : R_lg c st sp -> sp_due c sp = Some e ->
  snd (lg_expire st e) = snd (sp_expire sp e) /\ R_lg c (fst (lg_expire st e)) (fst (sp_expire sp e)).
Proof.
  intros (Hp & Hf & Hh) He. unfold sp_due in He. unfold lg_expire, sp_expire, R_lg.
  destruct (l_wait st) eqn:W; rewrite Hp in *; [|discriminate].
  cbn. repeat split; auto.
Qed.

Lemma lg_machine_sim cmp c ia ib h :
  (forall x y, negb (zcmp cmp x y) = (y <=? x)) ->
  snd ia = snd ib -> R_lg c (fst ia) (fst ib) ->
  tie_free (sp_machine c) (fst (post_expire (sp_machine c) (fst ib) 0)) h = true ->
  run_machine (lg_machine cmp c) ia h = run_machine (sp_machine c) ib h.
Proof.
  intros Hcmp Ho HR Htf.
  apply (run_machine_sim (lg_machine cmp c) (sp_machine c) (R_lg c) okall); auto.
  - apply lg_due_eq.
  - apply lg_post_eq.
  - apply lg_expire_sim.
  - apply sp_expire_clears.
  - apply lg_step_sim. exact Hcmp.
  - apply okall_all.
Qed.

Lemma lg_init_sim c truth :
  snd (lg_init c truth) = snd (sp_init false c truth) /\ R_lg c (fst (lg_init c truth)) (fst (sp_init false c truth)).
Proof.
  unfold lg_init, sp_init, lg_hold_block, sp_trigger, R_lg, l_set_ft, l_init_state.
  destruct (cn_dec c), (hold_false c) as [hf|], (hold c) as [hs|], truth; cbn;
    repeat split; auto; try discriminate; try congruence.
Qed.

Lemma wul_init_sim c truth :
  snd (wul_init no_dev c truth) = snd (sp_init true c truth)
  /\ R_lg c (fst (wul_init no_dev c truth)) (fst (sp_init true c truth)).
Proof.
  unfold wul_init, sp_init, lg_hold_block, sp_trigger, R_lg, l_set_ft, l_init_state, no_dev.
  destruct (cn_wu c), (hold_false c) as [hf|], (hold c) as [hs|], truth; cbn;
    repeat split; auto; try discriminate; try congruence.
Qed.

(* ---------- default-subsystem machine vs Spec ---------- *)
Definition R_dm (c : hcfg) (st : dstate) (sp : sstate) : Prop :=
  (match d_tea st with Some t0 => s_pend sp = Some (t0, d_hargs st) | None => s_pend sp = None end)
  /\ (hold_false c <> None -> d_fea st = s_fs sp)
  /\ d_hfe st = hold_false c
  /\ (hold c = None -> d_tea st = None).

Lemma dm_trigger_sim c st sp t :
  R_dm c st sp -> (forall e, sp_due c sp = Some e -> t < e) ->
  snd (dm_trigger no_dev c st t) = snd (sp_trigger c sp t (d_largs st))
  /\ R_dm c (fst (dm_trigger no_dev c st t)) (fst (sp_trigger c sp t (d_largs st))).
Proof.
  intros (Hp & Hf & He & Hh) Hlt. unfold dm_trigger, sp_trigger, R_dm.
  destruct (hold c) as [hs|] eqn:Eh.
  - destruct (d_tea st) as [t0|] eqn:Et.
    + rewrite Hp. rewrite dm_true_cmp_ok.
      assert (t < t0 + hs) as Hl by (apply Hlt; unfold sp_due; rewrite Hp, Eh; reflexivity).
      destruct (hs <=? t - t0) eqn:L; [lia|]. cbn [fst snd]. rewrite Et. auto.
    + rewrite Hp. cbn. repeat split; auto; try discriminate.
  - rewrite (Hh eq_refl) in *. cbn. rewrite Hp. repeat split; auto.
Qed.

Lemma R_dm_largs c st sp a : R_dm c st sp -> R_dm c (d_set_largs st a) sp.
Proof. intros H. exact H. Qed.

Lemma dm_step_sim c st sp t i :
  R_dm c st sp -> okin c i = true -> (forall e, sp_due c sp = Some e -> t < e) ->
  snd (dm_step no_dev c st t i) = snd (sp_step c sp t i)
  /\ R_dm c (fst (dm_step no_dev c st t i)) (fst (sp_step c sp t i)).
Proof.
  intros HR Hok Hlt. destruct i as [ok a|a|a|]; cbn [dm_step sp_step no_dev d_irr_as_false]; auto.
  - (* HEval *)
    pose proof (R_dm_largs c st sp a HR) as HR'. set (st' := d_set_largs st a) in *.
    destruct HR' as (Hp & Hf & He & Hh). unfold dm_check. rewrite He.
    destruct ok.
    + destruct (hold_false c) as [hf|] eqn:Ehf.
      * assert (Efe : d_fea st' = s_fs sp) by (apply Hf; discriminate). rewrite Efe.
        destruct (s_fs sp) as [f|] eqn:Efs.
        -- rewrite dm_false_cmp_ok.
           assert (HRn : R_dm c (d_set_fea st' None) {| s_pend := s_pend sp; s_fs := None |}).
           { unfold R_dm. cbn. rewrite Ehf. repeat split; auto. }
           destruct (hf <=? t - f).
           ++ apply (dm_trigger_sim c (d_set_fea st' None) {| s_pend := s_pend sp; s_fs := None |} t HRn).
              intros e. unfold sp_due. cbn [s_pend]. apply Hlt.
           ++ cbn [fst snd]. split; [reflexivity|exact HRn].
        -- cbn [fst snd]. split; [reflexivity|]. unfold R_dm. rewrite Ehf. repeat split; auto.
      * apply (dm_trigger_sim c st' sp t); [|exact Hlt]. unfold R_dm. rewrite Ehf. repeat split; auto.
    + cbn [fst snd]. split; [reflexivity|].
      destruct (hold_false c) as [hf|] eqn:Ehf.
      * assert (Efe : d_fea st' = s_fs sp) by (apply Hf; discriminate). rewrite Efe.
        destruct (s_fs sp) as [f|] eqn:Efs; unfold R_dm; cbn; rewrite Ehf; repeat split; auto.
      * unfold R_dm. cbn. rewrite Ehf. repeat split; auto. intros H; congruence.
  - (* HAny: only when hold_false is unset *)
    unfold okin in Hok. cbn [is_any] in Hok. rewrite andb_true_r in Hok.
    destruct (hold_false c) as [hf|] eqn:Ehf; [discriminate|].
    pose proof (R_dm_largs c st sp a HR) as HR'. set (st' := d_set_largs st a) in *.
    unfold dm_check. destruct HR' as (Hp & Hf & He & Hh). rewrite He.
    apply (dm_trigger_sim c st' sp t); [|exact Hlt]. unfold R_dm. rewrite Ehf. repeat split; auto.
Qed.

Lemma dm_due_eq c st sp : R_dm c st sp -> dm_due c st = sp_due c sp.
Proof.
  intros (Hp & _). unfold dm_due, sp_due. destruct (d_tea st); rewrite Hp; reflexivity.
Qed.

Lemma dm_post_eq c st sp t e : R_dm c st sp -> sp_due c sp = Some e -> dm_post c st t = sp_post c sp t.
Proof.
  intros (Hp & _) He. unfold sp_post. rewrite He. unfold sp_due in He. unfold dm_post.
  destruct (d_tea st) as [t0|]; rewrite Hp in He; [|discriminate].
  destruct (hold c) as [hs|]; [|discriminate]. injection He as <-. apply dm_post_ok.
Qed.

Lemma dm_expire_sim c st sp e : R_dm c st sp -> sp_due c sp = Some e ->
  snd (dm_expire no_dev st e) = snd (sp_expire sp e)
  /\ R_dm c (fst (dm_expire no_dev st e)) (fst (sp_expire sp e)).
Proof.
  intros (Hp & Hf & He & Hh) Hd. unfold sp_due in Hd. unfold dm_expire, sp_expire, R_dm, d_hold_args.
  destruct (d_tea st) as [t0|] eqn:Et; rewrite Hp in *; [|discriminate].
  cbn. repeat split; auto.
Qed.

Lemma dm_machine_sim c ia ib h :
  snd ia = snd ib -> R_dm c (fst ia) (fst ib) -> any_ok c h = true ->
  tie_free (sp_machine c) (fst (post_expire (sp_machine c) (fst ib) 0)) h = true ->
  run_machine (dm_machine no_dev c) ia h = run_machine (sp_machine c) ib h.
Proof.
  intros Ho HR Hany Htf.
  apply (run_machine_sim (dm_machine no_dev c) (sp_machine c) (R_dm c) (okin c)); auto.
  - apply dm_due_eq.
  - apply dm_post_eq.
  - apply dm_expire_sim.
  - apply sp_expire_clears.
  - apply dm_step_sim.
  - apply any_ok_okin. exact Hany.
Qed.

Lemma dm_init_sim wu c truth :
  snd (dm_init no_dev wu c truth) = snd (sp_init wu c truth)
  /\ R_dm c (fst (dm_init no_dev wu c truth)) (fst (sp_init wu c truth)).
Proof.
  unfold dm_init, sp_init, dm_check, dm_trigger, sp_trigger, R_dm, d_set_tea, d_set_fea, d_start_hold, no_dev.
  destruct wu, (cn_wu c), (cn_dec c), (hold_false c) as [hf|], (hold c) as [hs|], truth; cbn;
    repeat split; auto; try discriminate; try congruence.
Qed.

(* ---------- the property ---------- *)
Theorem timeline : forall dv c init h,
  all_off dv -> sorted_times h = true -> no_ties c h = true -> any_ok c h = true ->
  legacy_runs dv c init h = spec_runs false c init h
  /\ dm_runs dv c init h = spec_runs false c init h
  /\ wul_runs dv c init h = spec_runs true c init h
  /\ wud_runs dv c init h = spec_runs true c init h.
Proof.
  intros dv c init h -> _ Hnt Hany. unfold legacy_runs, dm_runs, wul_runs, wud_runs, spec_runs, once.
  repeat split.
  - apply lg_machine_sim; [apply lg_cmp_ok|apply lg_init_sim|apply lg_init_sim|].
    apply no_ties_run_tie_free. exact Hnt.
  - apply dm_machine_sim; [apply dm_init_sim|apply dm_init_sim|exact Hany|].
    apply no_ties_run_tie_free. exact Hnt.
  - f_equal. apply lg_machine_sim; [apply wu_cmp_ok|apply wul_init_sim|apply wul_init_sim|].
    apply no_ties_run_tie_free. exact Hnt.
  - f_equal. apply dm_machine_sim; [apply dm_init_sim|apply dm_init_sim|exact Hany|].
    apply no_ties_run_tie_free. exact Hnt.
Qed.

(* the legacy models need neither the restriction on "any change" entries nor pairwise tie exclusion beyond the
   Spec's own pending timer *)
Theorem timeline_legacy : forall dv c init h,
  all_off dv -> no_ties c h = true ->
  legacy_runs dv c init h = spec_runs false c init h /\ wul_runs dv c init h = spec_runs true c init h.
Proof.
  intros dv c init h -> Hnt. unfold legacy_runs, wul_runs, spec_runs, once. split.
  - apply lg_machine_sim; [apply lg_cmp_ok|apply lg_init_sim|apply lg_init_sim|].
    apply no_ties_run_tie_free. exact Hnt.
  - f_equal. apply lg_machine_sim; [apply wu_cmp_ok|apply wul_init_sim|apply wul_init_sim|].
    apply no_ties_run_tie_free. exact Hnt.
Qed.
