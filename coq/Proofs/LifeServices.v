(* Proofs/LifeServices.v — C12: the reference-counting invariant of @service registration, for every sequence of
   define / redefine / delete / reload / unload operations over any number of contexts, both subsystems. *)
From PV Require Import Common.Util Gen.ServiceConsts Life.Services.
From Coq Require Import Lia Sorted.

Local Open Scope N_scope.

(* ---------- facts about the regenerated constants (a changed constant breaks these) ---------- *)
Lemma consts :
  reg_owner_cmp = CmpNe /\ reg_inc = 1 /\ reg_check_before_inc = true /\
  rm_cmp = CmpGt /\ rm_thresh = 1 /\ rm_dec = 1 /\ rm_reset = 0 /\ rm_pops_owner = true.
Proof. repeat split; reflexivity. Qed.

(* ---------- counting ---------- *)
Fixpoint countN (k : N) (l : list N) : N :=
  match l with [] => 0 | x :: r => (if N.eqb x k then 1 else 0) + countN k r end.

Lemma countN_app k a b : countN k (a ++ b) = countN k a + countN k b.
Proof. induction a as [|x a IH]; cbn [app countN]; [lia|]. rewrite IH. lia. Qed.

Lemma memN_cons k x l : memN k (x :: l) = N.eqb k x || memN k l.
Proof. reflexivity. Qed.

Lemma memN_app k a b : memN k (a ++ b) = memN k a || memN k b.
Proof. unfold memN. apply existsb_app. Qed.

Lemma memN_count k l : memN k l = negb (N.eqb (countN k l) 0).
Proof.
  induction l as [|x l IH]; [reflexivity|]. rewrite memN_cons, IH. cbn [countN].
  rewrite (N.eqb_sym k x). destruct (N.eqb x k); cbn [orb].
  - destruct (N.eqb_spec (1 + countN k l) 0); [lia|reflexivity].
  - rewrite N.add_0_l. reflexivity.
Qed.

Lemma memN_false_count k l : memN k l = false -> countN k l = 0.
Proof. rewrite memN_count. destruct (N.eqb_spec (countN k l) 0); [auto|discriminate]. Qed.

Lemma memN_true_count k l : memN k l = true -> 0 < countN k l.
Proof. rewrite memN_count. destruct (N.eqb_spec (countN k l) 0); [discriminate|lia]. Qed.

Lemma memN_In k l : memN k l = true <-> In k l.
Proof.
  unfold memN. rewrite existsb_exists. split.
  - intros (x & Hx & E). apply N.eqb_eq in E. subst. assumption.
  - intros H. exists k. split; [assumption|apply N.eqb_refl].
Qed.

Lemma memN_filter_ne k x l : memN k (filter (fun y => negb (N.eqb y x)) l) = negb (N.eqb k x) && memN k l.
Proof.
  induction l as [|y l IH]; [rewrite andb_false_r; reflexivity|]. cbn [filter].
  destruct (N.eqb_spec y x) as [->|Hne]; cbn [negb].
  - rewrite IH, memN_cons. destruct (N.eqb_spec k x); reflexivity.
  - rewrite !memN_cons, IH. destruct (N.eqb_spec k y) as [->|]; [|reflexivity].
    destruct (N.eqb_spec y x); [congruence|reflexivity].
Qed.

Lemma memN_nodupN k l : memN k (nodupN l) = memN k l.
Proof.
  induction l as [|x l IH]; [reflexivity|]. cbn [nodupN]. rewrite !memN_cons, memN_filter_ne, IH.
  destruct (N.eqb_spec k x); reflexivity.
Qed.

Definition hcount (k : N) (l : list frec) : N := fold_right (fun r a => countN k (f_held r) + a) 0 l.

Lemma hcount_cons k r l : hcount k (r :: l) = countN k (f_held r) + hcount k l.
Proof. reflexivity. Qed.

Lemma hcount_app k a b : hcount k (a ++ b) = hcount k a + hcount k b.
Proof.
  induction a as [|x a IH]; [reflexivity|].
  rewrite <- app_comm_cons, !hcount_cons, IH. lia.
Qed.

Lemma hcount_pos_holder k l : 0 < hcount k l -> exists r, In r l /\ memN k (f_held r) = true.
Proof.
  induction l as [|r l IH]; [cbn; lia|]. rewrite hcount_cons. intros H.
  destruct (memN k (f_held r)) eqn:E.
  - exists r. split; [left; reflexivity|assumption].
  - apply memN_false_count in E. destruct IH as (r' & Hin & Hm); [lia|]. exists r'. split; [right; assumption|assumption].
Qed.

Lemma hcount_holder_pos k l r : In r l -> memN k (f_held r) = true -> 0 < hcount k l.
Proof.
  induction l as [|x l IH]; [contradiction|]. rewrite hcount_cons. intros [->|Hin] Hm.
  - apply memN_true_count in Hm. lia.
  - specialize (IH Hin Hm). lia.
Qed.

(* ---------- pointwise effect of the two primitives ---------- *)
Definition okf (s : st) (c : cid) (k : key) : bool :=
  match s_owner s k with None => true | Some o => N.eqb o c end.

Lemma register_spec s c k h :
  s_funcs (fst (register s c k h)) = s_funcs s /\ s_files (fst (register s c k h)) = s_files s /\
  s_next (fst (register s c k h)) = s_next s /\
  snd (register s c k h) = okf s c k /\
  (forall x, s_cnt (fst (register s c k h)) x = if okf s c k && N.eqb x k then s_cnt s x + 1 else s_cnt s x) /\
  (forall x, s_owner (fst (register s c k h)) x = if okf s c k && N.eqb x k then Some c else s_owner s x) /\
  (forall x, s_reg (fst (register s c k h)) x = if okf s c k && N.eqb x k then Some h else s_reg s x).
Proof.
  destruct consts as (Hc & Hi & Hb & _). unfold register, okf. rewrite Hc, Hi, Hb. cbn [cmpN].
  destruct (s_owner s k) as [o|] eqn:Eo.
  - destruct (N.eqb_spec o c) as [->|Hne]; cbn.
    + repeat split; intros x; unfold upd; destruct (N.eqb_spec x k) as [->|]; cbn; try reflexivity.
    + repeat split; intros x; unfold upd; destruct (N.eqb_spec x k) as [->|]; cbn; try reflexivity. symmetry; assumption.
  - rewrite N.eqb_refl. cbn.
    repeat split; intros x; unfold upd; destruct (N.eqb_spec x k) as [->|]; cbn; reflexivity.
Qed.

Lemma remove_spec s k :
  s_funcs (remove s k) = s_funcs s /\ s_files (remove s k) = s_files s /\ s_next (remove s k) = s_next s /\
  (forall x, s_cnt (remove s k) x = if N.eqb x k then (if 1 <? s_cnt s k then s_cnt s k - 1 else 0) else s_cnt s x) /\
  (forall x, s_owner (remove s k) x = if N.eqb x k && negb (1 <? s_cnt s k) then None else s_owner s x) /\
  (forall x, s_reg (remove s k) x = if N.eqb x k && negb (1 <? s_cnt s k) then None else s_reg s x).
Proof.
  destruct consts as (_ & _ & _ & Hc & Ht & Hd & Hr & Hp). unfold remove. rewrite Hc, Ht, Hd, Hr, Hp. cbn [cmpN].
  destruct (1 <? s_cnt s k) eqn:E; cbn.
  - repeat split; intros x; unfold upd; destruct (N.eqb_spec x k) as [->|]; cbn; reflexivity.
  - repeat split; intros x; unfold upd; destruct (N.eqb_spec x k) as [->|]; cbn; reflexivity.
Qed.

(* a function object gives up the names in [ks] *)
Lemma fold_remove_frame ks : forall s,
  s_funcs (fold_left remove ks s) = s_funcs s /\ s_files (fold_left remove ks s) = s_files s /\
  s_next (fold_left remove ks s) = s_next s.
Proof.
  induction ks as [|a ks IH]; intros s; cbn [fold_left]; [auto|].
  destruct (IH (remove s a)) as (A & B & C). destruct (remove_spec s a) as (A' & B' & C' & _).
  rewrite A, B, C. auto.
Qed.

Lemma fold_remove_spec ks : forall s x, countN x ks <= s_cnt s x ->
  s_cnt (fold_left remove ks s) x = s_cnt s x - countN x ks /\
  s_reg (fold_left remove ks s) x = (if memN x ks && N.eqb (s_cnt s x - countN x ks) 0 then None else s_reg s x) /\
  s_owner (fold_left remove ks s) x = (if memN x ks && N.eqb (s_cnt s x - countN x ks) 0 then None else s_owner s x).
Proof.
  induction ks as [|a ks IH]; intros s x Hle; cbn [fold_left].
  - cbn. rewrite N.sub_0_r. auto.
  - destruct (remove_spec s a) as (_ & _ & _ & Hc & Ho & Hr).
    cbn [countN] in Hle. rewrite memN_cons.
    destruct (N.eqb_spec a x) as [->|Hne].
    + (* this removal concerns x *)
      assert (Hc1 : s_cnt (remove s x) x = s_cnt s x - 1).
      { rewrite Hc, N.eqb_refl. destruct (N.ltb_spec 1 (s_cnt s x)); lia. }
      destruct (IH (remove s x) x) as (A & B & C); [lia|].
      cbn [countN]. rewrite N.eqb_refl.
      replace (s_cnt s x - (1 + countN x ks)) with (s_cnt (remove s x) x - countN x ks) by lia.
      rewrite A, B, C. split; [reflexivity|].
      rewrite Hr, Ho, !N.eqb_refl. cbn [andb orb].
      destruct (N.ltb_spec 1 (s_cnt s x)) as [Hgt|Hle1]; cbn [negb].
      * (* more than one left: this step kept the entries *)
        destruct (memN x ks) eqn:Em; cbn [andb]; [auto|].
        apply memN_false_count in Em.
        destruct (N.eqb_spec (s_cnt (remove s x) x - countN x ks) 0); [lia|auto].
      * (* last one: removed now, stays removed *)
        assert (s_cnt (remove s x) x - countN x ks = 0) by lia.
        destruct (memN x ks && N.eqb (s_cnt (remove s x) x - countN x ks) 0);
          destruct (N.eqb_spec (s_cnt (remove s x) x - countN x ks) 0); try lia; auto.
    + assert (Hc1 : s_cnt (remove s a) x = s_cnt s x).
      { rewrite Hc. destruct (N.eqb_spec x a); [congruence|reflexivity]. }
      destruct (IH (remove s a) x) as (A & B & C); [cbn in Hle; destruct (N.eqb_spec a x); [congruence|]; lia|].
      cbn [countN]. destruct (N.eqb_spec a x) as [|_]; [congruence|]. rewrite N.add_0_l.
      rewrite A, B, C, Hc1, Hr, Ho.
      destruct (N.eqb_spec x a) as [|_]; [congruence|]. cbn [andb orb].
      destruct (N.eqb_spec x a); [congruence|]. auto.
Qed.

(* ---------- most recent holder ---------- *)
Lemma latest_acc l : forall a,
  match fold_left later l a with
  | None => a = None /\ l = []
  | Some r => (In r l \/ a = Some r) /\ (forall r', In r' l -> f_gen r' <= f_gen r) /\
              (forall x, a = Some x -> f_gen x <= f_gen r)
  end.
Proof.
  induction l as [|y l IH]; intros a; cbn [fold_left].
  - destruct a as [x|]; [|auto]. repeat split; auto. intros ? []. intros z E; inversion E; subst; lia.
  - specialize (IH (later a y)). destruct (fold_left later l (later a y)) as [r|].
    + destruct IH as (Hin & Hmax & Hacc). unfold later in *.
      destruct a as [x|].
      * destruct (N.ltb_spec (f_gen x) (f_gen y)) as [Hlt|Hge].
        -- repeat split.
           ++ destruct Hin as [Hin|E]; [left; right; assumption|left; left; inversion E; reflexivity].
           ++ intros r' [->|Hr']; [apply Hacc; reflexivity|apply Hmax; assumption].
           ++ intros z E; inversion E; subst. specialize (Hacc y eq_refl). lia.
        -- repeat split.
           ++ destruct Hin as [Hin|E]; [left; right; assumption|right; assumption].
           ++ intros r' [->|Hr']; [specialize (Hacc x eq_refl); lia|apply Hmax; assumption].
           ++ intros z E; inversion E; subst. apply Hacc; reflexivity.
      * repeat split.
        -- destruct Hin as [Hin|E]; [left; right; assumption|left; left; inversion E; reflexivity].
        -- intros r' [->|Hr']; [apply Hacc; reflexivity|apply Hmax; assumption].
        -- intros z E; discriminate.
    + destruct IH as (E & _). unfold later in E. destruct a as [x|]; [destruct (f_gen x <? f_gen y)|]; discriminate.
Qed.

Lemma latest_some l r : latest l = Some r -> In r l /\ forall r', In r' l -> f_gen r' <= f_gen r.
Proof.
  unfold latest. intros E. pose proof (latest_acc l None) as H. rewrite E in H.
  destruct H as ([Hin|Hx] & Hmax & _); [auto|discriminate].
Qed.

Lemma latest_none l : latest l = None -> l = [].
Proof. unfold latest. intros E. pose proof (latest_acc l None) as H. rewrite E in H. tauto. Qed.

Definition refreshed (s : st) (k : key) : option hinfo :=
  match s_reg s k, latest (holders s k) with
  | Some _, Some r => Some (f_gen r, f_sr r)
  | _, _ => s_reg s k
  end.

Lemma refresh_spec s k :
  s_funcs (refresh s k) = s_funcs s /\ s_files (refresh s k) = s_files s /\ s_next (refresh s k) = s_next s /\
  (forall x, s_cnt (refresh s k) x = s_cnt s x) /\ (forall x, s_owner (refresh s k) x = s_owner s x) /\
  (forall x, s_reg (refresh s k) x = if N.eqb x k then refreshed s k else s_reg s x).
Proof.
  unfold refresh, refreshed. destruct (s_reg s k) as [h|] eqn:Er; [destruct (latest (holders s k)) as [r|] eqn:El|]; cbn;
    repeat split; auto; intros x; unfold upd; destruct (N.eqb_spec x k) as [->|]; auto.
Qed.

Lemma fold_refresh_spec ks : forall s,
  s_funcs (fold_left refresh ks s) = s_funcs s /\ s_files (fold_left refresh ks s) = s_files s /\
  s_next (fold_left refresh ks s) = s_next s /\
  (forall x, s_cnt (fold_left refresh ks s) x = s_cnt s x) /\ (forall x, s_owner (fold_left refresh ks s) x = s_owner s x) /\
  (forall x, s_reg (fold_left refresh ks s) x = if memN x ks then refreshed s x else s_reg s x).
Proof.
  induction ks as [|a ks IH]; intros s; cbn [fold_left]; [repeat split; auto|].
  destruct (IH (refresh s a)) as (A & B & C & D & E & F).
  destruct (refresh_spec s a) as (A' & B' & C' & D' & E' & F').
  rewrite A, B, C. repeat split; auto.
  - intros x. rewrite D. apply D'.
  - intros x. rewrite E. apply E'.
  - intros x. rewrite F, memN_cons.
    assert (Hh : holders (refresh s a) x = holders s x) by (unfold holders; rewrite A'; reflexivity).
    unfold refreshed at 1. rewrite Hh, F'.
    destruct (N.eqb_spec x a) as [->|Hne].
    + cbn [orb].
      assert (Hidem : match refreshed s a, latest (holders s a) with Some _, Some r => Some (f_gen r, f_sr r) | _, _ => refreshed s a end
                      = refreshed s a).
      { unfold refreshed. destruct (s_reg s a); [destruct (latest (holders s a))|]; reflexivity. }
      destruct (memN a ks); [exact Hidem|reflexivity].
    + cbn [orb]. reflexivity.
Qed.

(* ---------- the registration loop (no abort) ---------- *)
Lemma okf_after_register s c k h x : okf s c k = true -> okf (fst (register s c k h)) c x = okf s c x.
Proof.
  intros Hk. destruct (register_spec s c k h) as (_ & _ & _ & _ & _ & Ho & _).
  unfold okf at 1. rewrite Ho, Hk. cbn [andb].
  destruct (N.eqb_spec x k) as [->|]; [rewrite N.eqb_refl; symmetry; assumption|reflexivity].
Qed.

Lemma okf_after_reject s c k h x : okf s c k = false -> okf (fst (register s c k h)) c x = okf s c x.
Proof.
  intros Hk. destruct (register_spec s c k h) as (_ & _ & _ & _ & _ & Ho & _).
  unfold okf at 1. rewrite Ho, Hk. reflexivity.
Qed.

Lemma reg_loop_spec c h ks : forall s held,
  snd (reg_loop false c h ks s held) = true /\
  snd (fst (reg_loop false c h ks s held)) = held ++ filter (okf s c) ks /\
  s_funcs (fst (fst (reg_loop false c h ks s held))) = s_funcs s /\
  s_files (fst (fst (reg_loop false c h ks s held))) = s_files s /\
  s_next (fst (fst (reg_loop false c h ks s held))) = s_next s /\
  (forall x, s_cnt (fst (fst (reg_loop false c h ks s held))) x = s_cnt s x + countN x (filter (okf s c) ks)) /\
  (forall x, s_owner (fst (fst (reg_loop false c h ks s held))) x =
             if memN x (filter (okf s c) ks) then Some c else s_owner s x) /\
  (forall x, s_reg (fst (fst (reg_loop false c h ks s held))) x =
             if memN x (filter (okf s c) ks) then Some h else s_reg s x).
Proof.
  induction ks as [|k ks IH]; intros s held; cbn [reg_loop filter].
  - cbn. rewrite app_nil_r. repeat split; auto. intros; lia.
  - destruct (register_spec s c k h) as (A & B & C & D & E & F & G).
    destruct (register s c k h) as [s1 ok] eqn:Er. cbn [fst snd] in *. subst ok.
    assert (Hext : filter (okf s1 c) ks = filter (okf s c) ks).
    { apply filter_ext. intros x. destruct (okf s c k) eqn:Ek.
      - pose proof (okf_after_register s c k h x Ek) as H. rewrite Er in H. exact H.
      - pose proof (okf_after_reject s c k h x Ek) as H. rewrite Er in H. exact H. }
    destruct (okf s c k) eqn:Ek.
    + destruct (IH s1 (held ++ [k])) as (I1 & I2 & I3 & I4 & I5 & I6 & I7 & I8).
      rewrite Hext in *. rewrite I1, I2, I3, I4, I5, <- app_assoc. repeat split; auto.
      * intros x. rewrite I6, E. cbn [andb countN]. destruct (N.eqb_spec x k) as [->|Hne].
        -- rewrite N.eqb_refl. lia.
        -- destruct (N.eqb_spec k x); [congruence|]. lia.
      * intros x. rewrite I7, F, memN_cons. cbn [andb]. destruct (N.eqb_spec x k) as [->|Hne]; cbn [orb].
        -- destruct (memN k (filter (okf s c) ks)); reflexivity.
        -- reflexivity.
      * intros x. rewrite I8, G, memN_cons. cbn [andb]. destruct (N.eqb_spec x k) as [->|Hne]; cbn [orb].
        -- destruct (memN k (filter (okf s c) ks)); reflexivity.
        -- reflexivity.
    + destruct (IH s1 held) as (I1 & I2 & I3 & I4 & I5 & I6 & I7 & I8).
      rewrite Hext in *. rewrite I1, I2, I3, I4, I5. repeat split; auto.
      * intros x. rewrite I6, E. reflexivity.
      * intros x. rewrite I7, F. reflexivity.
      * intros x. rewrite I8, G. reflexivity.
Qed.

(* ---------- lists of function objects ---------- *)
Definition gens (l : list frec) : list N := map f_gen l.

Lemma sorted_nodup l : StronglySorted N.lt l -> NoDup l.
Proof.
  induction 1 as [|a l Hs IH Hall]; constructor; [|assumption].
  intros Hin. rewrite Forall_forall in Hall. specialize (Hall a Hin). lia.
Qed.

Lemma unique_gen l r r' : NoDup (gens l) -> In r l -> In r' l -> f_gen r = f_gen r' -> r = r'.
Proof.
  induction l as [|x l IH]; intros Hnd Hr Hr' E; [contradiction|].
  cbn in Hnd. inversion Hnd as [|? ? Hnot Hnd']; subst.
  destruct Hr as [->|Hr], Hr' as [->|Hr']; auto.
  - exfalso. apply Hnot. rewrite E. apply in_map. assumption.
  - exfalso. apply Hnot. rewrite <- E. apply in_map. assumption.
Qed.

Lemma gens_upd_rec g f l : (forall r, f_gen (f r) = f_gen r) -> gens (upd_rec g f l) = gens l.
Proof.
  intros Hf. unfold gens, upd_rec. rewrite map_map. apply map_ext. intros r.
  destruct (N.eqb (f_gen r) g); [apply Hf|reflexivity].
Qed.

Lemma in_upd_rec g f l r' :
  In r' (upd_rec g f l) <-> exists r0, In r0 l /\ r' = (if N.eqb (f_gen r0) g then f r0 else r0).
Proof.
  unfold upd_rec. rewrite in_map_iff. split; intros (r0 & A & B); exists r0; [split; [assumption|symmetry; assumption]|split; [symmetry; assumption|assumption]].
Qed.

Lemma hcount_upd_same k g f l : (forall x, f_held (f x) = f_held x) -> hcount k (upd_rec g f l) = hcount k l.
Proof.
  intros Hf. induction l as [|x l IH]; [reflexivity|]. cbn [upd_rec map]. fold (upd_rec g f l).
  rewrite !hcount_cons, IH. destruct (N.eqb (f_gen x) g); [rewrite Hf|]; reflexivity.
Qed.

Lemma hcount_upd_notin k g f l : ~ In g (gens l) -> hcount k (upd_rec g f l) = hcount k l.
Proof.
  induction l as [|x l IH]; intros Hn; [reflexivity|]. cbn [upd_rec map]. fold (upd_rec g f l).
  rewrite !hcount_cons, IH; [|intros H; apply Hn; right; assumption].
  destruct (N.eqb_spec (f_gen x) g) as [E|]; [exfalso; apply Hn; left; assumption|reflexivity].
Qed.

Lemma hcount_upd_held k g f l h : NoDup (gens l) -> (forall x, f_held (f x) = h) ->
  forall r, In r l -> f_gen r = g -> hcount k (upd_rec g f l) + countN k (f_held r) = hcount k l + countN k h.
Proof.
  intros Hnd Hf. induction l as [|x l IH]; intros r Hin Hg; [contradiction|].
  cbn in Hnd. inversion Hnd as [|? ? Hnot Hnd']; subst.
  cbn [upd_rec map]. fold (upd_rec (f_gen r) f l). rewrite !hcount_cons.
  destruct Hin as [->|Hin].
  - rewrite N.eqb_refl, Hf, hcount_upd_notin by assumption. lia.
  - destruct (N.eqb_spec (f_gen x) (f_gen r)) as [E|Hne].
    + exfalso. apply Hnot. rewrite E. apply in_map. assumption.
    + specialize (IH Hnd' r Hin eq_refl). lia.
Qed.

Lemma hcount_ge_member k l r : In r l -> countN k (f_held r) <= hcount k l.
Proof.
  induction l as [|x l IH]; [contradiction|]. rewrite hcount_cons. intros [->|Hin]; [lia|]. specialize (IH Hin). lia.
Qed.

Lemma hcount_filter k p l : (forall r, In r l -> p r = false -> f_held r = []) -> hcount k (filter p l) = hcount k l.
Proof.
  induction l as [|x l IH]; intros H; [reflexivity|]. cbn [filter].
  assert (IH' : hcount k (filter p l) = hcount k l) by (apply IH; intros r Hr; apply H; right; assumption).
  destruct (p x) eqn:E; rewrite !hcount_cons, ?IH'; [reflexivity|].
  rewrite (H x (or_introl eq_refl) E). cbn. lia.
Qed.

(* ---------- the invariant ---------- *)
Record Core (s : st) : Prop := {
  w_cnt : forall k, s_cnt s k = hcount k (s_funcs s);                  (* count = number of live holdings *)
  w_reg : forall k, s_reg s k = None <-> s_cnt s k = 0;               (* registered in HA iff count positive *)
  w_own : forall k, s_owner s k = None <-> s_cnt s k = 0;
  w_ctx : forall r k, In r (s_funcs s) -> memN k (f_held r) = true -> s_owner s k = Some (f_ctx r);
  w_decl : forall r k, In r (s_funcs s) -> memN k (f_held r) = true -> memN k (f_decl r) = true;
  w_sorted : StronglySorted N.lt (gens (s_funcs s));
  w_next : forall r, In r (s_funcs s) -> f_gen r < s_next s;
  w_hand : forall k g m, s_reg s k = Some (g, m) ->                   (* HA's handler = most recent live holder *)
     exists r, In r (s_funcs s) /\ f_gen r = g /\ f_sr r = m /\ memN k (f_held r) = true /\
               forall r', In r' (s_funcs s) -> memN k (f_held r') = true -> f_gen r' <= g
}.

Lemma core_nodup s : Core s -> NoDup (gens (s_funcs s)).
Proof. intros H. apply sorted_nodup, (w_sorted _ H). Qed.

Lemma core_init : Core init_st.
Proof.
  constructor; cbn; try tauto; try (intros; contradiction).
  - constructor.
  - intros; discriminate.
Qed.

(* a state that differs only in files / a larger generation counter *)
Lemma core_set_files s f : Core s -> Core (set_files s f).
Proof. intros []; constructor; cbn; auto. Qed.

Lemma core_set_next s n : Core s -> s_next s <= n -> Core (set_next s n).
Proof. intros [] Hn; constructor; cbn; auto. intros r Hr. specialize (w_next0 r Hr). lia. Qed.

(* flags of one function object change *)
Lemma core_flagupd s g f : Core s ->
  (forall r, f_held (f r) = f_held r /\ f_gen (f r) = f_gen r /\ f_ctx (f r) = f_ctx r /\ f_sr (f r) = f_sr r /\ f_decl (f r) = f_decl r) ->
  Core (set_funcs s (upd_rec g f (s_funcs s))).
Proof.
  intros HC Hf.
  assert (Hin : forall r', In r' (upd_rec g f (s_funcs s)) -> exists r0, In r0 (s_funcs s) /\
            f_held r' = f_held r0 /\ f_gen r' = f_gen r0 /\ f_ctx r' = f_ctx r0 /\ f_sr r' = f_sr r0 /\ f_decl r' = f_decl r0).
  { intros r' H. apply in_upd_rec in H. destruct H as (r0 & Hr0 & ->). exists r0. split; [assumption|].
    destruct (N.eqb (f_gen r0) g); [apply Hf|auto 6]. }
  assert (Hin2 : forall r0, In r0 (s_funcs s) -> exists r', In r' (upd_rec g f (s_funcs s)) /\
            f_held r' = f_held r0 /\ f_gen r' = f_gen r0 /\ f_sr r' = f_sr r0).
  { intros r0 H. exists (if N.eqb (f_gen r0) g then f r0 else r0). split; [apply in_upd_rec; exists r0; auto|].
    destruct (N.eqb (f_gen r0) g); [destruct (Hf r0) as (A & B & C & D & E); auto|auto]. }
  destruct HC. constructor; cbn [set_funcs s_cnt s_owner s_reg s_funcs s_next s_files].
  - intros k. rewrite hcount_upd_same; [apply w_cnt0|apply Hf].
  - assumption.
  - assumption.
  - intros r' k H Hm. destruct (Hin r' H) as (r0 & Hr0 & Eh & _ & Ec & _). rewrite Eh in Hm. rewrite Ec. eauto.
  - intros r' k H Hm. destruct (Hin r' H) as (r0 & Hr0 & Eh & _ & _ & _ & Ed). rewrite Eh in Hm. rewrite Ed. eauto.
  - rewrite gens_upd_rec; [assumption|apply Hf].
  - intros r' H. destruct (Hin r' H) as (r0 & Hr0 & _ & Eg & _). rewrite Eg. auto.
  - intros k g0 m Hr. destruct (w_hand0 k g0 m Hr) as (r0 & Hr0 & Eg & Em & Hh & Hmax).
    destruct (Hin2 r0 Hr0) as (r' & Hr' & Eh' & Eg' & Em').
    exists r'. repeat split; try congruence.
    intros r'' H'' Hm''. destruct (Hin r'' H'') as (r1 & Hr1 & Eh1 & Eg1 & _). rewrite Eg1. apply Hmax; [assumption|congruence].
Qed.

(* a new function object that holds nothing yet *)
Lemma core_append s nr : Core s -> f_held nr = [] -> f_gen nr = s_next s ->
  Core (set_funcs (set_next s (s_next s + 1)) (s_funcs s ++ [nr])).
Proof.
  intros HC Hh Hg. destruct HC. constructor; cbn [set_funcs set_next s_cnt s_owner s_reg s_funcs s_next s_files].
  - intros k. rewrite hcount_app, hcount_cons, Hh. cbn. rewrite w_cnt0. lia.
  - assumption.
  - assumption.
  - intros r k H Hm. apply in_app_or in H. destruct H as [H|[<-|[]]]; [eauto|]. rewrite Hh in Hm. discriminate.
  - intros r k H Hm. apply in_app_or in H. destruct H as [H|[<-|[]]]; [eauto|]. rewrite Hh in Hm. discriminate.
  - unfold gens. rewrite map_app. cbn [map].
    assert (Hall : Forall (fun x => x < f_gen nr) (map f_gen (s_funcs s))).
    { rewrite Forall_forall. intros x Hx. apply in_map_iff in Hx. destruct Hx as (r & <- & Hr). rewrite Hg. auto. }
    clear - w_sorted0 Hall. unfold gens in w_sorted0. induction (map f_gen (s_funcs s)) as [|a l IH]; cbn.
    + repeat constructor.
    + inversion w_sorted0; subst. inversion Hall; subst. constructor; [apply IH; assumption|].
      rewrite Forall_app. split; [assumption|repeat constructor; assumption].
  - intros r H. apply in_app_or in H. destruct H as [H|[<-|[]]]; [specialize (w_next0 r H); lia|lia].
  - intros k g m Hr. destruct (w_hand0 k g m Hr) as (r0 & Hr0 & Eg & Em & Hm & Hmax).
    exists r0. repeat split; auto; [apply in_or_app; left; assumption|].
    intros r' H' Hm'. apply in_app_or in H'. destruct H' as [H'|[<-|[]]]; [auto|]. rewrite Hh in Hm'. discriminate.
Qed.

(* ---------- a function object gives up everything it holds (conformant: handler re-pointed) ---------- *)
Lemma release_off legacy s r :
  release all_off legacy s r =
  fold_left refresh (f_held r) (fold_left remove (f_held r) (set_funcs s (upd_rec (f_gen r) (with_held []) (s_funcs s)))).
Proof. unfold release. cbn [all_off d_dup_set d_stale_handler]. rewrite andb_false_r. reflexivity. Qed.

Lemma core_release legacy s r r0 : Core s -> In r0 (s_funcs s) -> f_gen r0 = f_gen r -> f_held r0 = f_held r ->
  Core (release all_off legacy s r) /\
  s_funcs (release all_off legacy s r) = upd_rec (f_gen r) (with_held []) (s_funcs s) /\
  s_files (release all_off legacy s r) = s_files s /\ s_next (release all_off legacy s r) = s_next s.
Proof.
  intros HC Hr0 Eg Eh. rewrite release_off.
  set (g := f_gen r) in *. set (ks := f_held r) in *. set (F := s_funcs s) in *.
  set (F1 := upd_rec g (with_held []) F).
  set (s1 := set_funcs s F1). set (s2 := fold_left remove ks s1). set (s3 := fold_left refresh ks s2).
  destruct (fold_remove_frame ks s1) as (Rf & Rfi & Rn). fold s2 in Rf, Rfi, Rn.
  destruct (fold_refresh_spec ks s2) as (Ff & Ffi & Fn & Fc & Fo & Fr). fold s3 in Ff, Ffi, Fn, Fc, Fo, Fr.
  pose proof (core_nodup s HC) as Hnd. fold F in Hnd.
  assert (Hle : forall x, countN x ks <= s_cnt s1 x).
  { intros x. cbn. rewrite (w_cnt _ HC). fold F. rewrite <- Eh. apply hcount_ge_member. assumption. }
  assert (HF1 : forall x, hcount x F1 + countN x ks = hcount x F).
  { intros x. pose proof (hcount_upd_held x g (with_held []) F [] Hnd (fun _ => eq_refl) r0 Hr0 Eg) as H.
    fold F1 in H. rewrite Eh in H. cbn in H. lia. }
  assert (Hc3 : forall x, s_cnt s3 x = hcount x F1).
  { intros x. rewrite Fc. destruct (fold_remove_spec ks s1 x (Hle x)) as (A & _). fold s2 in A. rewrite A. cbn.
    rewrite (w_cnt _ HC). fold F. specialize (HF1 x). lia. }
  assert (Hr2 : forall x, s_reg s2 x = if memN x ks && N.eqb (hcount x F1) 0 then None else s_reg s x).
  { intros x. destruct (fold_remove_spec ks s1 x (Hle x)) as (_ & B & _). fold s2 in B. rewrite B. cbn.
    rewrite (w_cnt _ HC). fold F. replace (hcount x F - countN x ks) with (hcount x F1) by (specialize (HF1 x); lia). reflexivity. }
  assert (Ho2 : forall x, s_owner s2 x = if memN x ks && N.eqb (hcount x F1) 0 then None else s_owner s x).
  { intros x. destruct (fold_remove_spec ks s1 x (Hle x)) as (_ & _ & B). fold s2 in B. rewrite B. cbn.
    rewrite (w_cnt _ HC). fold F. replace (hcount x F - countN x ks) with (hcount x F1) by (specialize (HF1 x); lia). reflexivity. }
  (* elements of F1 *)
  assert (HinF1 : forall r', In r' F1 -> exists r1, In r1 F /\ f_gen r' = f_gen r1 /\ f_ctx r' = f_ctx r1 /\ f_sr r' = f_sr r1 /\
            f_decl r' = f_decl r1 /\ ((r1 = r0 /\ f_held r' = []) \/ (r1 <> r0 /\ r' = r1))).
  { intros r' H. apply in_upd_rec in H. destruct H as (r1 & Hr1 & ->). exists r1. split; [assumption|].
    destruct (N.eqb_spec (f_gen r1) g) as [E|Hne].
    - cbn. repeat split; auto. left. split; [|reflexivity]. apply (unique_gen F); auto. congruence.
    - repeat split; auto. right. split; [|reflexivity]. intros ->. congruence. }
  assert (HF1in : forall r1, In r1 F -> r1 <> r0 -> In r1 F1).
  { intros r1 H Hne. apply in_upd_rec. exists r1. split; [assumption|].
    destruct (N.eqb_spec (f_gen r1) g) as [E|]; [|reflexivity]. exfalso. apply Hne. apply (unique_gen F); auto. congruence. }
  assert (Hpos : forall x r', In r' F1 -> memN x (f_held r') = true -> 0 < hcount x F1).
  { intros x r' H Hm. eapply hcount_holder_pos; eassumption. }
  assert (Hnotks : forall x, memN x ks = false -> hcount x F1 = hcount x F).
  { intros x Hm. apply memN_false_count in Hm. specialize (HF1 x). lia. }
  split; [|rewrite Ff, Rf, Ffi, Rfi, Fn, Rn; auto].
  constructor.
  - (* w_cnt *) intros k. rewrite Hc3, Ff, Rf. reflexivity.
  - (* w_reg *) intros k. rewrite Hc3, Fr. unfold refreshed. rewrite Hr2.
    destruct (memN k ks) eqn:Em; cbn [andb].
    + destruct (N.eqb_spec (hcount k F1) 0) as [E0|Hn0].
      * tauto.
      * assert (Hs : s_reg s k <> None).
        { intros Hn. apply (w_reg _ HC) in Hn. rewrite (w_cnt _ HC) in Hn. fold F in Hn. specialize (HF1 k). lia. }
        destruct (s_reg s k) as [h|]; [|congruence].
        destruct (latest (holders s2 k)); split; intros; try discriminate; lia.
    + rewrite (Hnotks k Em). rewrite <- (w_cnt _ HC). apply (w_reg _ HC).
  - (* w_own *) intros k. rewrite Hc3, Fo, Ho2.
    destruct (memN k ks) eqn:Em; cbn [andb].
    + destruct (N.eqb_spec (hcount k F1) 0) as [E0|Hn0]; [tauto|].
      split; [intros Hn|lia]. apply (w_own _ HC) in Hn. rewrite (w_cnt _ HC) in Hn. fold F in Hn. specialize (HF1 k). lia.
    + rewrite (Hnotks k Em). rewrite <- (w_cnt _ HC). apply (w_own _ HC).
  - (* w_ctx *) intros r' k H Hm. rewrite Ff, Rf in H. rewrite Fo, Ho2.
    pose proof (Hpos k r' H Hm) as Hp.
    destruct (N.eqb_spec (hcount k F1) 0); [lia|]. rewrite andb_false_r.
    destruct (HinF1 r' H) as (r1 & Hr1 & _ & Ec & _ & _ & [[-> Hh]|[Hne ->]]).
    * rewrite Hh in Hm. discriminate.
    * apply (w_ctx _ HC); assumption.
  - (* w_decl *) intros r' k H Hm. rewrite Ff, Rf in H.
    destruct (HinF1 r' H) as (r1 & Hr1 & _ & _ & _ & Ed & [[-> Hh]|[Hne ->]]).
    * rewrite Hh in Hm. discriminate.
    * apply (w_decl _ HC); assumption.
  - (* w_sorted *) rewrite Ff, Rf. change (s_funcs s1) with (upd_rec g (with_held []) F). rewrite gens_upd_rec by reflexivity. apply (w_sorted _ HC).
  - (* w_next *) intros r' H. rewrite Ff, Rf in H. rewrite Fn, Rn.
    destruct (HinF1 r' H) as (r1 & Hr1 & Eg1 & _). rewrite Eg1. apply (w_next _ HC). assumption.
  - (* w_hand *) intros k g0 m Hreg. rewrite Ff, Rf. rewrite Fr in Hreg.
    destruct (memN k ks) eqn:Em.
    + unfold refreshed in Hreg. rewrite Hr2, Em in Hreg. cbn [andb] in Hreg.
      destruct (N.eqb_spec (hcount k F1) 0) as [E0|Hn0]; [discriminate|].
      destruct (s_reg s k) as [h|] eqn:Es; [|discriminate].
      assert (Hh : holders s2 k = filter (holds k) F1) by (unfold holders; rewrite Rf; reflexivity).
      rewrite Hh in Hreg.
      destruct (latest (filter (holds k) F1)) as [rl|] eqn:El.
      * inversion Hreg; subst. apply latest_some in El. destruct El as (Hin & Hmax).
        apply filter_In in Hin. destruct Hin as (Hin & Hk). unfold holds in Hk.
        exists rl. repeat split; auto.
        intros r' H' Hm'. apply Hmax. apply filter_In. split; assumption.
      * apply latest_none in El. exfalso.
        destruct (hcount_pos_holder k F1) as (rh & Hrh & Hmh); [lia|].
        assert (Hf : In rh (filter (holds k) F1)) by (apply filter_In; split; assumption).
        rewrite El in Hf. contradiction.
    + rewrite Hr2, Em in Hreg. cbn [andb] in Hreg.
      destruct (w_hand _ HC k g0 m Hreg) as (r1 & Hr1 & Eg1 & Em1 & Hm1 & Hmax).
      assert (Hne : r1 <> r0).
      { intros ->. rewrite Eh in Hm1. fold ks in Hm1. congruence. }
      exists r1. repeat split; auto.
      intros r' H' Hm'. destruct (HinF1 r' H') as (r2 & Hr2' & Eg2 & _ & _ & _ & [[-> Hh]|[Hne2 ->]]).
      * rewrite Hh in Hm'. discriminate.
      * apply Hmax; assumption.
Qed.

(* ---------- a function object registers what it declares (no abort) ---------- *)
Definition committed (held : list key) (x : frec) : frec := with_tracked true (with_pending false (with_held held x)).

Lemma commit_false_eq s r : f_own r = f_ctx r ->
  commit false s r =
  set_funcs (fst (fst (reg_loop false (f_ctx r) (f_gen r, f_sr r) (f_decl r) s [])))
            (upd_rec (f_gen r) (committed (filter (okf s (f_ctx r)) (f_decl r)))
                     (s_funcs s)).
Proof.
  intros Eo. unfold commit. rewrite Eo. destruct (reg_loop_spec (f_ctx r) (f_gen r, f_sr r) (f_decl r) s []) as (A & B & C & _).
  destruct (reg_loop false (f_ctx r) (f_gen r, f_sr r) (f_decl r) s []) as [[s' held] ok]. cbn [fst snd] in *.
  subst ok held. rewrite C. reflexivity.
Qed.

Lemma core_commit s r : Core s -> In r (s_funcs s) -> f_held r = [] -> f_own r = f_ctx r ->
  (forall r', In r' (s_funcs s) -> f_ctx r' = f_ctx r -> f_held r' <> [] -> f_gen r' < f_gen r) ->
  Core (commit false s r) /\
  s_funcs (commit false s r) = upd_rec (f_gen r) (committed (filter (okf s (f_ctx r)) (f_decl r))) (s_funcs s) /\
  s_files (commit false s r) = s_files s /\ s_next (commit false s r) = s_next s.
Proof.
  intros HC Hr Hh Eown Hord. rewrite (commit_false_eq s r Eown).
  set (c := f_ctx r) in *. set (g := f_gen r) in *. set (held := filter (okf s c) (f_decl r)).
  set (F := s_funcs s) in *. set (F2 := upd_rec g (committed held) F).
  destruct (reg_loop_spec c (g, f_sr r) (f_decl r) s []) as (_ & _ & Lf & Lfi & Ln & Lc & Lo & Lr).
  fold held in Lc, Lo, Lr.
  set (s' := fst (fst (reg_loop false c (g, f_sr r) (f_decl r) s []))) in *.
  pose proof (core_nodup s HC) as Hnd. fold F in Hnd.
  assert (HF2 : forall x, hcount x F2 = hcount x F + countN x held).
  { intros x. pose proof (hcount_upd_held x g (committed held) F held Hnd (fun _ => eq_refl) r Hr eq_refl) as H.
    fold F2 in H. rewrite Hh in H. cbn in H. lia. }
  assert (HinF2 : forall r', In r' F2 -> exists r1, In r1 F /\ f_gen r' = f_gen r1 /\ f_ctx r' = f_ctx r1 /\ f_sr r' = f_sr r1 /\
            f_decl r' = f_decl r1 /\ ((r1 = r /\ f_held r' = held) \/ (r1 <> r /\ r' = r1))).
  { intros r' H. apply in_upd_rec in H. destruct H as (r1 & Hr1 & ->). exists r1. split; [assumption|].
    destruct (N.eqb_spec (f_gen r1) g) as [E|Hne].
    - cbn. repeat split; auto. left. split; [|reflexivity]. apply (unique_gen F); auto.
    - repeat split; auto. right. split; [|reflexivity]. intros ->. apply Hne. reflexivity. }
  assert (HF2r : In (committed held r) F2).
  { apply in_upd_rec. exists r. split; [assumption|]. fold g. rewrite N.eqb_refl. reflexivity. }
  assert (HF2in : forall r1, In r1 F -> r1 <> r -> In r1 F2).
  { intros r1 H Hne. apply in_upd_rec. exists r1. split; [assumption|].
    destruct (N.eqb_spec (f_gen r1) g) as [E|]; [|reflexivity]. exfalso. apply Hne. apply (unique_gen F); auto. }
  assert (Hheld_ok : forall k, memN k held = true -> okf s c k = true /\ memN k (f_decl r) = true).
  { intros k Hm. apply memN_In in Hm. unfold held in Hm. apply filter_In in Hm. destruct Hm as (A & B).
    split; [assumption|apply memN_In; assumption]. }
  assert (Hsamectx : forall k r1, memN k held = true -> In r1 F -> memN k (f_held r1) = true -> f_ctx r1 = c).
  { intros k r1 Hm H1 Hm1. destruct (Hheld_ok k Hm) as (Hok & _). unfold okf in Hok.
    rewrite (w_ctx _ HC r1 k H1 Hm1) in Hok. apply N.eqb_eq in Hok. assumption. }
  split; [|cbn [set_funcs s_funcs s_files s_next]; auto].
  constructor; cbn [set_funcs s_cnt s_owner s_reg s_funcs s_next s_files].
  - intros k. rewrite Lc, HF2, (w_cnt _ HC). reflexivity.
  - intros k. rewrite Lr, Lc. destruct (memN k held) eqn:Em.
    + apply memN_true_count in Em. split; [discriminate|lia].
    + apply memN_false_count in Em. rewrite Em, N.add_0_r. apply (w_reg _ HC).
  - intros k. rewrite Lo, Lc. destruct (memN k held) eqn:Em.
    + apply memN_true_count in Em. split; [discriminate|lia].
    + apply memN_false_count in Em. rewrite Em, N.add_0_r. apply (w_own _ HC).
  - intros r' k H Hm. rewrite Lo.
    destruct (HinF2 r' H) as (r1 & Hr1 & _ & Ec & _ & _ & [[-> Hhr]|[Hne ->]]).
    + rewrite Hhr in Hm. rewrite Hm, Ec. reflexivity.
    + destruct (memN k held) eqn:Em.
      * rewrite (Hsamectx k r1 Em Hr1 Hm). reflexivity.
      * apply (w_ctx _ HC); assumption.
  - intros r' k H Hm.
    destruct (HinF2 r' H) as (r1 & Hr1 & _ & _ & _ & Ed & [[-> Hhr]|[Hne ->]]).
    + rewrite Hhr in Hm. rewrite Ed. apply Hheld_ok. assumption.
    + apply (w_decl _ HC); assumption.
  - unfold F2. rewrite gens_upd_rec by reflexivity. apply (w_sorted _ HC).
  - intros r' H. rewrite Ln. destruct (HinF2 r' H) as (r1 & Hr1 & Eg1 & _). rewrite Eg1. apply (w_next _ HC). assumption.
  - intros k g0 m Hreg. rewrite Lr in Hreg. destruct (memN k held) eqn:Em.
    + inversion Hreg; subst g0 m. exists (committed held r). repeat split; auto.
      intros r' H' Hm'. destruct (HinF2 r' H') as (r1 & Hr1 & Eg1 & _ & _ & _ & [[-> _]|[Hne ->]]).
      * rewrite Eg1. fold g. lia.
      * assert (Hlt : f_gen r1 < f_gen r).
        { apply Hord; [assumption|apply (Hsamectx k); assumption|]. intros E. rewrite E in Hm'. discriminate. }
        fold g in Hlt. lia.
    + destruct (w_hand _ HC k g0 m Hreg) as (r1 & Hr1 & Eg1 & Em1 & Hm1 & Hmax).
      assert (Hne : r1 <> r) by (intros ->; rewrite Hh in Hm1; discriminate).
      exists r1. repeat split; auto.
      intros r' H' Hm'. destruct (HinF2 r' H') as (r2 & Hr2 & Eg2 & _ & _ & _ & [[-> Hhr]|[Hne2 ->]]).
      * rewrite Hhr in Hm'. congruence.
      * apply Hmax; assumption.
Qed.

(* function objects that hold nothing can be forgotten *)
Lemma core_filter s p : Core s -> (forall r, In r (s_funcs s) -> p r = false -> f_held r = []) ->
  Core (set_funcs s (filter p (s_funcs s))).
Proof.
  intros HC Hp. constructor; cbn [set_funcs s_cnt s_owner s_reg s_funcs s_next s_files].
  - intros k. rewrite hcount_filter by assumption. apply (w_cnt _ HC).
  - apply (w_reg _ HC).
  - apply (w_own _ HC).
  - intros r k H Hm. apply filter_In in H. apply (w_ctx _ HC); tauto.
  - intros r k H Hm. apply filter_In in H. apply (w_decl _ HC); tauto.
  - pose proof (w_sorted _ HC) as Hs. unfold gens in *. clear - Hs.
    induction (s_funcs s) as [|x l IH]; cbn; [constructor|].
    cbn in Hs. inversion Hs as [|? ? Hs' Hall]; subst.
    destruct (p x); [|apply IH; assumption]. cbn. constructor; [apply IH; assumption|].
    rewrite Forall_forall in *. intros y Hy. apply Hall. apply in_map_iff in Hy. destruct Hy as (r & <- & Hr).
    apply filter_In in Hr. apply in_map. tauto.
  - intros r H. apply filter_In in H. apply (w_next _ HC); tauto.
  - intros k g m Hreg. destruct (w_hand _ HC k g m Hreg) as (r1 & Hr1 & Eg1 & Em1 & Hm1 & Hmax).
    exists r1. repeat split; auto.
    + apply filter_In. split; [assumption|]. destruct (p r1) eqn:E; [reflexivity|].
      rewrite (Hp r1 Hr1 E) in Hm1. discriminate.
    + intros r' H' Hm'. apply filter_In in H'. apply Hmax; tauto.
Qed.

(* ---------- flags of function objects ---------- *)
Definition flags_ok (r : frec) : Prop :=
  (f_pending r = true -> f_held r = [] /\ f_bound r = true) /\     (* waiting for start: holds nothing, still bound *)
  (f_bound r = false -> f_held r = []) /\                          (* unbound (deleted/rebound): holds nothing *)
  (f_held r <> [] -> f_tracked r = true) /\                        (* whatever holds a name is released by ctx.stop() *)
  f_tracked r = true /\                                            (* conformant: every function object is recorded in its context *)
  f_own r = f_ctx r.                                               (* ... and registers under its context's name *)
Definition Flags (s : st) : Prop := forall r, In r (s_funcs s) -> flags_ok r.
Definition WInv (s : st) : Prop := Core s /\ Flags s.

Lemma flags_held_nil r : flags_ok r -> flags_ok (with_held [] r).
Proof. intros (A & B & C & D & E). repeat split; cbn; auto; try tauto. Qed.

(* F' is F where some objects lost holdings / flags; nothing was added *)
Definition shrinks (F F' : list frec) : Prop :=
  forall r', In r' F' -> exists r1, In r1 F /\ f_gen r' = f_gen r1 /\ f_ctx r' = f_ctx r1 /\
     (f_held r' <> [] -> f_held r1 <> []) /\ (f_pending r' = true -> f_pending r1 = true).

Lemma shrinks_refl F : shrinks F F.
Proof. intros r H. exists r. auto. Qed.

Lemma shrinks_trans F G H : shrinks F G -> shrinks G H -> shrinks F H.
Proof.
  intros A B r Hr. destruct (B r Hr) as (r1 & H1 & E1 & C1 & X1 & Y1). destruct (A r1 H1) as (r2 & H2 & E2 & C2 & X2 & Y2).
  exists r2. repeat split; auto; congruence.
Qed.

Lemma shrinks_upd g f F : (forall r, f_gen (f r) = f_gen r /\ f_ctx (f r) = f_ctx r /\
     (f_held (f r) <> [] -> f_held r <> []) /\ (f_pending (f r) = true -> f_pending r = true)) ->
  shrinks F (upd_rec g f F).
Proof.
  intros Hf r' H. apply in_upd_rec in H. destruct H as (r0 & Hr0 & ->). exists r0. split; [assumption|].
  destruct (N.eqb (f_gen r0) g); [apply Hf|auto].
Qed.

Lemma shrinks_filter p F : shrinks F (filter p F).
Proof. intros r H. apply filter_In in H. exists r. tauto. Qed.

(* "in every context the holders are older than the objects still waiting for start" *)
Definition K (F : list frec) : Prop :=
  forall r r', In r F -> In r' F -> f_ctx r = f_ctx r' -> f_held r <> [] -> f_pending r' = true -> f_gen r < f_gen r'.
Definition NoPend (F : list frec) : Prop := forall r, In r F -> f_pending r = false.

Lemma K_shrinks F F' : shrinks F F' -> K F -> K F'.
Proof.
  intros Hs HK r r' Hr Hr' Ec Hh Hp.
  destruct (Hs r Hr) as (r1 & H1 & E1 & C1 & X1 & _). destruct (Hs r' Hr') as (r2 & H2 & E2 & C2 & _ & Y2).
  rewrite E1, E2. apply HK; auto. congruence.
Qed.

Lemma NoPend_shrinks F F' : shrinks F F' -> NoPend F -> NoPend F'.
Proof.
  intros Hs HN r Hr. destruct (Hs r Hr) as (r1 & H1 & _ & _ & _ & Y). destruct (f_pending r) eqn:E; [|reflexivity].
  rewrite (HN r1 H1) in Y. specialize (Y eq_refl). discriminate.
Qed.

Lemma NoPend_K F : NoPend F -> K F.
Proof. intros HN r r' _ Hr' _ _ Hp. rewrite (HN r' Hr') in Hp. discriminate. Qed.

(* ---------- unbinding a function object (rebinding of its name, or del) ---------- *)
Lemma winv_unbind legacy s r : WInv s -> In r (s_funcs s) -> (legacy = true -> f_pending r = false) ->
  WInv (unbind all_off legacy s r) /\ shrinks (s_funcs s) (s_funcs (unbind all_off legacy s r)) /\
  s_files (unbind all_off legacy s r) = s_files s /\ s_next (unbind all_off legacy s r) = s_next s.
Proof.
  intros (HC & HF) Hr Hleg. unfold unbind. cbn [all_off d_pending_zombie].
  set (F := s_funcs s). set (F1 := upd_rec (f_gen r) (with_bound false) F). set (s1 := set_funcs s F1).
  assert (HC1 : Core s1) by (apply core_flagupd; [assumption|intros; cbn; auto]).
  assert (Hr1 : In (with_bound false r) (s_funcs s1)).
  { cbn. apply in_upd_rec. exists r. split; [assumption|]. rewrite N.eqb_refl. reflexivity. }
  assert (Hsh1 : shrinks F F1) by (apply shrinks_upd; intros; cbn; auto).
  assert (Hfl1 : forall r', In r' F1 -> f_gen r' <> f_gen r -> flags_ok r').
  { intros r' H Hne. apply in_upd_rec in H. destruct H as (r0 & Hr0 & ->).
    destruct (N.eqb_spec (f_gen r0) (f_gen r)) as [E|_]; [cbn in Hne; congruence|]. apply HF; assumption. }
  assert (Hgen1 : forall r', In r' F1 -> f_gen r' = f_gen r -> r' = with_bound false r).
  { intros r' H E. apply in_upd_rec in H. destruct H as (r0 & Hr0 & ->).
    destruct (N.eqb_spec (f_gen r0) (f_gen r)) as [E0|Hne].
    - f_equal. apply (unique_gen F); auto. apply core_nodup; assumption.
    - congruence. }
  assert (Hrel : forall s', f_pending r = false -> Core s' -> s_funcs s' = upd_rec (f_gen r) (with_held []) F1 -> s_files s' = s_files s1 ->
             s_next s' = s_next s1 -> WInv s' /\ shrinks F (s_funcs s') /\ s_files s' = s_files s /\ s_next s' = s_next s).
  { intros s' Hnp HC' Ef Efi En.
    split; [split; [exact HC'|]|split; [|split; [rewrite Efi; reflexivity|rewrite En; reflexivity]]].
    - intros r' H. rewrite Ef in H. apply in_upd_rec in H. destruct H as (r0 & Hr0 & ->).
      destruct (N.eqb_spec (f_gen r0) (f_gen r)) as [E|Hne].
      + rewrite (Hgen1 r0 Hr0 E). destruct (proj2 (proj2 (proj2 (HF r Hr)))) as (Htr & Hown). unfold flags_ok. cbn. repeat split; auto; congruence.
      + apply Hfl1; assumption.
    - rewrite Ef. eapply shrinks_trans; [exact Hsh1|]. apply shrinks_upd. intros; cbn; auto 6. }
  assert (Hrelease : forall lg, f_pending r = false -> WInv (release all_off lg s1 r) /\ shrinks F (s_funcs (release all_off lg s1 r)) /\
             s_files (release all_off lg s1 r) = s_files s /\ s_next (release all_off lg s1 r) = s_next s).
  { intros lg Hnp. destruct (core_release lg s1 r (with_bound false r) HC1 Hr1 eq_refl eq_refl) as (HC2 & Ef & Efi & En).
    apply Hrel; assumption. }
  destruct legacy; [apply Hrelease; auto|].
  destruct (f_pending r) eqn:Ep; [|apply Hrelease; reflexivity].
  (* new subsystem, manager still waiting for start: it is cancelled *)
  set (F2 := upd_rec (f_gen r) (with_pending false) (s_funcs s1)).
  assert (HC2 : Core (set_funcs s1 F2)) by (apply core_flagupd; [assumption|intros; cbn; auto]).
  split; [split; [exact HC2|]|split; [|split; reflexivity]].
  - intros r' H. cbn in H. apply in_upd_rec in H. destruct H as (r0 & Hr0 & ->).
    destruct (N.eqb_spec (f_gen r0) (f_gen r)) as [E|Hne].
    + rewrite (Hgen1 r0 Hr0 E). destruct (proj2 (proj2 (proj2 (HF r Hr)))) as (Htr & Hown). destruct (HF r Hr) as (A & _). destruct (A Ep) as (Hh & _).
      unfold flags_ok. cbn. rewrite Hh. repeat split; auto; congruence.
    + apply Hfl1; assumption.
  - cbn. eapply shrinks_trans; [exact Hsh1|]. apply shrinks_upd. intros; cbn. repeat split; auto; discriminate.
Qed.

(* ---------- def / del statements (conformant model) ---------- *)
Definition AllCtx (L : list cid) (F : list frec) : Prop := forall r, In r F -> In (f_ctx r) L.
Definition PendIn (L : list cid) (F : list frec) : Prop := forall r, In r F -> f_pending r = true -> In (f_ctx r) L.

Lemma AllCtx_shrinks L F F' : shrinks F F' -> AllCtx L F -> AllCtx L F'.
Proof. intros Hs HA r Hr. destruct (Hs r Hr) as (r1 & H1 & _ & Ec & _). rewrite Ec. auto. Qed.
Lemma PendIn_shrinks L F F' : shrinks F F' -> PendIn L F -> PendIn L F'.
Proof. intros Hs HA r Hr Hp. destruct (Hs r Hr) as (r1 & H1 & _ & Ec & _ & Y). rewrite Ec. auto. Qed.

Lemma do_def_off legacy started rt stk c f decl d s :
  do_def all_off legacy started rt stk c f decl d s =
  let g := s_next s in
  let pend := negb legacy && negb started in
  let nr := mk_frec c f g (eff_sr legacy d) (nodupN decl) [] true true pend (s_inc s c) c stk in
  let s1 := set_funcs (set_next s (g + 1)) (s_funcs s ++ [nr]) in
  let s2 := if pend then s1 else commit false s1 nr in
  match find_bound (set_next s (g + 1)) c f with Some r => unbind all_off legacy s2 r | None => s2 end.
Proof. unfold do_def. cbn [all_off d_no_alias d_alias_abort d_dup_set d_rt_owner d_stack_rollback]. unfold commit_new. cbn [all_off d_stack_rollback andb]. destruct legacy, started, rt, stk; reflexivity. Qed.

Lemma find_bound_in s c f r : find_bound s c f = Some r -> In r (s_funcs s) /\ f_ctx r = c.
Proof.
  unfold find_bound. intros H. apply find_some in H. destruct H as (A & B).
  apply andb_prop in B. destruct B as (B & _). apply andb_prop in B. destruct B as (_ & B). apply N.eqb_eq in B. auto.
Qed.

(* immediate registration: legacy, or new subsystem in a started context *)
Lemma winv_do_def_imm legacy started rt stk c f decl d s L :
  negb legacy && negb started = false -> WInv s -> NoPend (s_funcs s) -> AllCtx L (s_funcs s) -> In c L ->
  let s' := do_def all_off legacy started rt stk c f decl d s in
  WInv s' /\ NoPend (s_funcs s') /\ AllCtx L (s_funcs s') /\ s_files s' = s_files s /\ s_next s <= s_next s'.
Proof.
  intros Hmode (HC & HF) HNP HA HcL. rewrite do_def_off. cbn zeta. rewrite Hmode.
  set (g := s_next s). set (nr := mk_frec c f g (eff_sr legacy d) (nodupN decl) [] true true false (s_inc s c) c stk).
  set (F := s_funcs s). set (s1 := set_funcs (set_next s (g + 1)) (F ++ [nr])).
  assert (HC1 : Core s1) by (apply core_append; [assumption|reflexivity|reflexivity]).
  assert (Hnr1 : In nr (s_funcs s1)) by (cbn; apply in_or_app; right; left; reflexivity).
  destruct (core_commit s1 nr HC1 Hnr1 eq_refl eq_refl) as (HC2 & Ef2 & Efi2 & En2).
  { intros r' H _ Hh. cbn in H. apply in_app_or in H. destruct H as [H|[<-|[]]]; [apply (w_next _ HC); assumption|contradiction]. }
  set (s2 := commit false s1 nr) in *.
  set (held := filter (okf s1 (f_ctx nr)) (f_decl nr)) in *.
  assert (Hin2 : forall r', In r' (s_funcs s2) -> (In r' F) \/ r' = committed held nr).
  { intros r' H. rewrite Ef2 in H. apply in_upd_rec in H. destruct H as (r0 & Hr0 & ->). cbn in Hr0.
    apply in_app_or in Hr0. destruct Hr0 as [Hr0|[<-|[]]].
    - destruct (N.eqb_spec (f_gen r0) (f_gen nr)) as [E|_]; [|left; assumption].
      exfalso. pose proof (w_next _ HC r0 Hr0) as Hlt. cbn in E. fold g in Hlt. lia.
    - rewrite N.eqb_refl. right. reflexivity. }
  assert (HF2 : Flags s2).
  { intros r' H. destruct (Hin2 r' H) as [H0| ->]; [apply HF; assumption|]. unfold flags_ok. cbn. repeat split; auto; discriminate. }
  assert (HNP2 : NoPend (s_funcs s2)).
  { intros r' H. destruct (Hin2 r' H) as [H0| ->]; [apply HNP; assumption|reflexivity]. }
  assert (HA2 : AllCtx L (s_funcs s2)).
  { intros r' H. destruct (Hin2 r' H) as [H0| ->]; [apply HA; assumption|exact HcL]. }
  assert (Hn2 : s_next s <= s_next s2) by (rewrite En2; cbn; lia).
  destruct (find_bound (set_next s (g + 1)) c f) as [r|] eqn:Efb.
  - apply find_bound_in in Efb. destruct Efb as (Hr & _). cbn in Hr.
    assert (Hr2 : In r (s_funcs s2)).
    { rewrite Ef2. apply in_upd_rec. exists r. split; [cbn; apply in_or_app; left; assumption|].
      destruct (N.eqb_spec (f_gen r) (f_gen nr)) as [E|_]; [|reflexivity].
      exfalso. pose proof (w_next _ HC r Hr) as Hlt. cbn in E. fold g in Hlt. lia. }
    destruct (winv_unbind legacy s2 r (conj HC2 HF2) Hr2) as (HW3 & Hsh & Efi3 & En3).
    { intros _. apply HNP2. assumption. }
    split; [assumption|]. split; [eapply NoPend_shrinks; eassumption|]. split; [eapply AllCtx_shrinks; eassumption|].
    split; [rewrite Efi3, Efi2; reflexivity|rewrite En3; assumption].
  - split; [split; assumption|]. split; [assumption|]. split; [assumption|]. split; [rewrite Efi2; reflexivity|assumption].
Qed.

(* new subsystem while the file is still loading: the manager waits for ctx.start() *)
Lemma winv_do_def_pend rt stk c f decl d s L Lp :
  WInv s -> K (s_funcs s) -> AllCtx L (s_funcs s) -> PendIn Lp (s_funcs s) -> In c L -> In c Lp ->
  let s' := do_def all_off false false rt stk c f decl d s in
  WInv s' /\ K (s_funcs s') /\ AllCtx L (s_funcs s') /\ PendIn Lp (s_funcs s') /\ s_files s' = s_files s /\ s_next s <= s_next s'.
Proof.
  intros (HC & HF) HK HA HP HcL HcLp. rewrite do_def_off. cbn zeta. cbn [negb andb].
  set (g := s_next s). set (nr := mk_frec c f g (eff_sr false d) (nodupN decl) [] true true true (s_inc s c) c stk).
  set (F := s_funcs s). set (s1 := set_funcs (set_next s (g + 1)) (F ++ [nr])).
  assert (HC1 : Core s1) by (apply core_append; [assumption|reflexivity|reflexivity]).
  assert (HF1 : Flags s1).
  { intros r' H. cbn in H. apply in_app_or in H. destruct H as [H|[<-|[]]]; [apply HF; assumption|].
    unfold flags_ok. cbn. repeat split; auto; congruence. }
  assert (HK1 : K (s_funcs s1)).
  { intros r r' Hr Hr' Ec Hh Hp. cbn in Hr, Hr'. apply in_app_or in Hr. apply in_app_or in Hr'.
    destruct Hr as [Hr|[<-|[]]]; [|cbn in Hh; contradiction].
    destruct Hr' as [Hr'|[<-|[]]]; [apply HK; assumption|]. cbn. apply (w_next _ HC). assumption. }
  assert (HA1 : AllCtx L (s_funcs s1)).
  { intros r' H. cbn in H. apply in_app_or in H. destruct H as [H|[<-|[]]]; [apply HA; assumption|exact HcL]. }
  assert (HP1 : PendIn Lp (s_funcs s1)).
  { intros r' H Hp. cbn in H. apply in_app_or in H. destruct H as [H|[<-|[]]]; [apply HP; assumption|exact HcLp]. }
  destruct (find_bound (set_next s (g + 1)) c f) as [r|] eqn:Efb.
  - apply find_bound_in in Efb. destruct Efb as (Hr & _). cbn in Hr.
    assert (Hr1 : In r (s_funcs s1)) by (cbn; apply in_or_app; left; assumption).
    destruct (winv_unbind false s1 r (conj HC1 HF1) Hr1) as (HW3 & Hsh & Efi3 & En3); [discriminate|].
    split; [assumption|]. split; [eapply K_shrinks; eassumption|]. split; [eapply AllCtx_shrinks; eassumption|].
    split; [eapply PendIn_shrinks; eassumption|]. split; [rewrite Efi3; reflexivity|rewrite En3; cbn; lia].
  - split; [split; assumption|]. split; [assumption|]. split; [assumption|]. split; [assumption|]. split; [reflexivity|cbn; lia].
Qed.

Lemma winv_do_del legacy c f s :
  WInv s -> (legacy = true -> NoPend (s_funcs s)) ->
  let s' := do_del all_off legacy c f s in
  WInv s' /\ shrinks (s_funcs s) (s_funcs s') /\ s_files s' = s_files s /\ s_next s' = s_next s.
Proof.
  intros HW HNP. unfold do_del. destruct (find_bound s c f) as [r|] eqn:Efb.
  - apply find_bound_in in Efb. destruct Efb as (Hr & _). apply winv_unbind; auto. intros E. apply (HNP E). assumption.
  - cbn zeta. split; [assumption|]. split; [apply shrinks_refl|auto].
Qed.

(* a body executed with immediate registration *)
Lemma winv_body_imm legacy started c L b : forall s,
  negb legacy && negb started = false -> WInv s -> NoPend (s_funcs s) -> AllCtx L (s_funcs s) -> In c L ->
  let s' := run_body all_off legacy started c b s in
  WInv s' /\ NoPend (s_funcs s') /\ AllCtx L (s_funcs s') /\ s_files s' = s_files s /\ s_next s <= s_next s'.
Proof.
  unfold run_body. induction b as [|x b IH]; intros s Hmode HW HNP HA HcL; cbn [fold_left].
  - split; [assumption|]. split; [assumption|]. split; [assumption|]. split; [reflexivity|lia].
  - assert (Hstep : let s1 := run_stmt all_off legacy started c s x in
              WInv s1 /\ NoPend (s_funcs s1) /\ AllCtx L (s_funcs s1) /\ s_files s1 = s_files s /\ s_next s <= s_next s1).
    { destruct x as [f decl d|f decl d|f decl d|f]; cbn [run_stmt].
      - apply winv_do_def_imm; assumption.
      - apply winv_do_def_imm; assumption.
      - apply winv_do_def_imm; assumption.
      - destruct (winv_do_del legacy c f s HW (fun _ => HNP)) as (A & B & C & D).
        split; [assumption|]. split; [eapply NoPend_shrinks; eassumption|]. split; [eapply AllCtx_shrinks; eassumption|].
        split; [assumption|rewrite D; lia]. }
    cbn zeta in Hstep. destruct Hstep as (A & B & C & D & E).
    destruct (IH _ Hmode A B C HcL) as (A' & B' & C' & D' & E').
    split; [assumption|]. split; [assumption|]. split; [assumption|]. split; [congruence|lia].
Qed.

(* a body executed while the (new subsystem) context is still loading *)
Lemma winv_body_pend c L Lp b : forall s,
  WInv s -> K (s_funcs s) -> AllCtx L (s_funcs s) -> PendIn Lp (s_funcs s) -> In c L -> In c Lp ->
  let s' := run_body all_off false false c b s in
  WInv s' /\ K (s_funcs s') /\ AllCtx L (s_funcs s') /\ PendIn Lp (s_funcs s') /\ s_files s' = s_files s /\ s_next s <= s_next s'.
Proof.
  unfold run_body. induction b as [|x b IH]; intros s HW HK HA HP HcL HcLp; cbn [fold_left].
  - split; [assumption|]. split; [assumption|]. split; [assumption|]. split; [assumption|]. split; [reflexivity|lia].
  - assert (Hstep : let s1 := run_stmt all_off false false c s x in
              WInv s1 /\ K (s_funcs s1) /\ AllCtx L (s_funcs s1) /\ PendIn Lp (s_funcs s1) /\ s_files s1 = s_files s /\ s_next s <= s_next s1).
    { destruct x as [f decl d|f decl d|f decl d|f]; cbn [run_stmt].
      - apply winv_do_def_pend; assumption.
      - apply winv_do_def_pend; assumption.
      - apply winv_do_def_pend; assumption.
      - destruct (winv_do_del false c f s HW) as (A & B & C & D); [discriminate|].
        split; [assumption|]. split; [eapply K_shrinks; eassumption|]. split; [eapply AllCtx_shrinks; eassumption|].
        split; [eapply PendIn_shrinks; eassumption|]. split; [assumption|rewrite D; lia]. }
    cbn zeta in Hstep. destruct Hstep as (A & B & C & D & E & G).
    destruct (IH _ A B C D HcL HcLp) as (A' & B' & C' & D' & E' & G').
    split; [assumption|]. split; [assumption|]. split; [assumption|]. split; [assumption|]. split; [congruence|lia].
Qed.

(* ---------- ctx.stop() ---------- *)
Lemma winv_release legacy s r : WInv s -> In r (s_funcs s) ->
  WInv (release all_off legacy s r) /\
  s_funcs (release all_off legacy s r) = upd_rec (f_gen r) (with_held []) (s_funcs s) /\
  s_files (release all_off legacy s r) = s_files s /\ s_next (release all_off legacy s r) = s_next s.
Proof.
  intros (HC & HF) Hr. destruct (core_release legacy s r r HC Hr eq_refl eq_refl) as (HC' & Ef & Efi & En).
  split; [split; [assumption|]|auto].
  intros r' H. rewrite Ef in H. apply in_upd_rec in H. destruct H as (r0 & Hr0 & ->).
  destruct (N.eqb (f_gen r0) (f_gen r)); [apply flags_held_nil|]; apply HF; assumption.
Qed.

Lemma release_list legacy todo : forall s, WInv s -> NoDup (gens todo) -> (forall r, In r todo -> In r (s_funcs s)) ->
  let s' := fold_left (stop_step all_off legacy) todo s in
  WInv s' /\ shrinks (s_funcs s) (s_funcs s') /\ s_files s' = s_files s /\ s_next s' = s_next s /\
  (forall r', In r' (s_funcs s') -> In (f_gen r') (gens (filter f_tracked todo)) -> f_held r' = []).
Proof.
  induction todo as [|r todo IH]; intros s HW Hnd Hin; cbn [fold_left].
  - split; [assumption|]. split; [apply shrinks_refl|]. repeat split; auto. intros r' _ [].
  - cbn in Hnd. inversion Hnd as [|? ? Hnot Hnd']; subst.
    assert (Hr : In r (s_funcs s)) by (apply Hin; left; reflexivity).
    set (s1 := stop_step all_off legacy s r).
    assert (H1 : WInv s1 /\ shrinks (s_funcs s) (s_funcs s1) /\ s_files s1 = s_files s /\ s_next s1 = s_next s /\
                 (forall r2, In r2 todo -> In r2 (s_funcs s1)) /\
                 (f_tracked r = true -> forall r', In r' (s_funcs s1) -> f_gen r' = f_gen r -> f_held r' = [])).
    { unfold s1, stop_step. destruct (f_tracked r) eqn:Et.
      - destruct (winv_release legacy s r HW Hr) as (A & B & C & D). rewrite B.
        split; [assumption|]. split; [apply shrinks_upd; intros; cbn; auto 6|]. split; [assumption|]. split; [assumption|]. split.
        + intros r2 H2. apply in_upd_rec. exists r2. split; [apply Hin; right; assumption|].
          destruct (N.eqb_spec (f_gen r2) (f_gen r)) as [E|_]; [|reflexivity].
          exfalso. apply Hnot. rewrite <- E. apply in_map. assumption.
        + intros _ r' H' E. apply in_upd_rec in H'. destruct H' as (r0 & Hr0 & ->).
          destruct (N.eqb_spec (f_gen r0) (f_gen r)) as [_|Hne]; [reflexivity|congruence].
      - exfalso. destruct (proj2 (proj2 (proj2 (proj2 HW r Hr)))) as (Htr & _). congruence. }
    destruct H1 as (A & B & C & D & E & G).
    destruct (IH s1 A Hnd' E) as (A' & B' & C' & D' & E').
    split; [assumption|]. split; [eapply shrinks_trans; eassumption|]. split; [congruence|]. split; [congruence|].
    intros r' H' Hg. cbn [filter] in Hg. destruct (f_tracked r) eqn:Et.
    + cbn in Hg. destruct Hg as [Eg|Hg]; [|apply E'; assumption].
      destruct (B' r' H') as (r1 & Hr1 & Eg1 & _ & Hh & _).
      destruct (f_held r') eqn:Ehr; [reflexivity|]. exfalso. apply Hh; [discriminate|]. apply G; [reflexivity|assumption|congruence].
    + apply E'; assumption.
Qed.

Definition NoCtx (c : cid) (F : list frec) : Prop := forall r, In r F -> f_ctx r <> c.

Lemma stop_ctx_eq legacy s c :
  stop_ctx all_off legacy s c =
  let s1 := fold_left (stop_step all_off legacy) (filter (fun r => N.eqb (f_ctx r) c) (s_funcs s)) s in
  set_funcs s1 (map (fun r => if N.eqb (f_ctx r) c then with_bound false r else r)
                    (filter (fun r => negb (N.eqb (f_ctx r) c) || nonempty (f_held r) || is_handler s1 r) (s_funcs s1))).
Proof. reflexivity. Qed.

Lemma map_filter_same {A} (m : A -> A) (p q : A -> bool) l :
  (forall r, In r l -> p r = q r) -> (forall r, In r l -> q r = true -> m r = r) -> map m (filter p l) = filter q l.
Proof.
  induction l as [|x l IH]; intros Hp Hm; [reflexivity|]. cbn [filter].
  rewrite (Hp x (or_introl eq_refl)). destruct (q x) eqn:E; cbn [map].
  - rewrite (Hm x (or_introl eq_refl) E). f_equal. apply IH; intros r Hr; [apply Hp|apply Hm]; right; assumption.
  - apply IH; intros r Hr; [apply Hp|apply Hm]; right; assumption.
Qed.

(* a function object that holds nothing is not HA's handler of anything *)
Lemma core_not_handler s r : Core s -> In r (s_funcs s) -> f_held r = [] -> is_handler s r = false.
Proof.
  intros HC Hr Hh. unfold is_handler. destruct (existsb _ (f_decl r)) eqn:E; [|reflexivity]. exfalso.
  apply existsb_exists in E. destruct E as (k & _ & Hk). destruct (s_reg s k) as [[g m]|] eqn:Er; [|discriminate].
  apply N.eqb_eq in Hk. destruct (w_hand _ HC k g m Er) as (r0 & Hr0 & Eg & _ & Hm & _).
  assert (r0 = r) by (apply (unique_gen (s_funcs s)); auto; [apply core_nodup; assumption|congruence]). subst r0.
  rewrite Hh in Hm. discriminate.
Qed.

Lemma nodup_gens_filter p F : NoDup (gens F) -> NoDup (gens (filter p F)).
Proof.
  induction F as [|x F IH]; intros H; cbn; [constructor|]. cbn in H. inversion H as [|? ? Hnot Hnd]; subst.
  destruct (p x); [|apply IH; assumption]. cbn. constructor; [|apply IH; assumption].
  intros Hin. apply Hnot. apply in_map_iff in Hin. destruct Hin as (r & E & Hr). apply filter_In in Hr.
  rewrite <- E. apply in_map. tauto.
Qed.

Lemma winv_stop_ctx legacy s c : WInv s ->
  let s' := stop_ctx all_off legacy s c in
  WInv s' /\ shrinks (s_funcs s) (s_funcs s') /\ NoCtx c (s_funcs s') /\ s_files s' = s_files s /\ s_next s' = s_next s.
Proof.
  intros HW. rewrite stop_ctx_eq. cbn zeta.
  set (todo := filter (fun r => N.eqb (f_ctx r) c) (s_funcs s)).
  destruct (release_list legacy todo s HW) as (HW1 & Hsh & Efi & En & Hrel).
  { apply nodup_gens_filter, core_nodup, HW. }
  { intros r H. apply filter_In in H. tauto. }
  set (s1 := fold_left (stop_step all_off legacy) todo s) in *.
  assert (Hempty : forall r', In r' (s_funcs s1) -> N.eqb (f_ctx r') c = true -> f_held r' = []).
  { intros r' H' Ec. apply N.eqb_eq in Ec.
    destruct (Hsh r' H') as (r1 & Hr1 & Eg1 & Ec1 & Hh & _).
    assert (Ht : In r1 todo) by (apply filter_In; split; [assumption|apply N.eqb_eq; congruence]).
    apply Hrel; [assumption|]. rewrite Eg1. apply in_map. apply filter_In. split; [assumption|].
    apply (proj2 HW r1 Hr1). }
  destruct HW1 as (HC1 & HF1).
  assert (Hl : map (fun r => if N.eqb (f_ctx r) c then with_bound false r else r)
                   (filter (fun r => negb (N.eqb (f_ctx r) c) || nonempty (f_held r) || is_handler s1 r) (s_funcs s1))
               = filter (fun r => negb (N.eqb (f_ctx r) c)) (s_funcs s1)).
  { apply map_filter_same.
    - intros r' H'. destruct (N.eqb (f_ctx r') c) eqn:Ec; cbn [negb orb]; [|reflexivity].
      rewrite (Hempty r' H' Ec). cbn [nonempty orb]. apply core_not_handler; auto.
    - intros r' H' E. apply negb_true_iff in E. rewrite E. reflexivity. }
  rewrite Hl.
  assert (Hp : forall r', In r' (s_funcs s1) -> negb (N.eqb (f_ctx r') c) = false -> f_held r' = []).
  { intros r' H' E. apply negb_false_iff in E. apply Hempty; assumption. }
  split; [split|].
  - apply core_filter; assumption.
  - intros r' H'. cbn in H'. apply filter_In in H'. apply HF1. tauto.
  - split; [eapply shrinks_trans; [exact Hsh|apply shrinks_filter]|]. split; [|auto].
    intros r' H'. cbn in H'. apply filter_In in H'. destruct H' as (_ & E). apply negb_true_iff in E. apply N.eqb_neq in E. assumption.
Qed.

(* ---------- ctx.start(): the waiting managers of context c start, oldest first ---------- *)
Lemma sorted_map_filter (p : frec -> bool) F : StronglySorted N.lt (gens F) -> StronglySorted N.lt (gens (filter p F)).
Proof.
  induction F as [|x F IH]; intros H; cbn; [constructor|]. cbn in H. inversion H as [|? ? Hs Hall]; subst.
  destruct (p x); [|apply IH; assumption]. cbn. constructor; [apply IH; assumption|].
  rewrite Forall_forall in *. intros y Hy. apply Hall. apply in_map_iff in Hy. destruct Hy as (r & <- & Hr).
  apply filter_In in Hr. apply in_map. tauto.
Qed.

Lemma find_gen F g r : NoDup (gens F) -> In r F -> f_gen r = g -> find (fun x => N.eqb (f_gen x) g) F = Some r.
Proof.
  intros Hnd Hr Eg. destruct (find (fun x => N.eqb (f_gen x) g) F) as [r0|] eqn:Ef.
  - apply find_some in Ef. destruct Ef as (H0 & E0). apply N.eqb_eq in E0. f_equal. apply (unique_gen F); auto. congruence.
  - exfalso. pose proof (find_none _ _ Ef r Hr) as H. cbn in H. rewrite Eg, N.eqb_refl in H. discriminate.
Qed.

(* what a start phase over the generations [todo] (all of context c) does to the function objects *)
Definition started_rel (todo : list gen) (F F' : list frec) : Prop :=
  forall r', In r' F' -> exists r1, In r1 F /\ f_gen r' = f_gen r1 /\ f_ctx r' = f_ctx r1 /\
     (f_pending r' = true -> f_pending r1 = true /\ ~ In (f_gen r1) todo) /\
     (f_held r' <> [] -> f_held r1 <> [] \/ In (f_gen r1) todo).

Lemma winv_start_loop c todo : forall s, WInv s -> StronglySorted N.lt todo ->
  (forall g, In g todo -> exists r, In r (s_funcs s) /\ f_gen r = g /\ f_ctx r = c /\ f_pending r = true) ->
  (forall r, In r (s_funcs s) -> f_ctx r = c -> f_held r <> [] -> forall g, In g todo -> f_gen r < g) ->
  let s' := fold_left (start_one all_off) todo s in
  WInv s' /\ started_rel todo (s_funcs s) (s_funcs s') /\ s_files s' = s_files s /\ s_next s' = s_next s.
Proof.
  induction todo as [|g todo IH]; intros s HW Hs Hex Hord; cbn [fold_left].
  - split; [assumption|]. split; [|auto]. intros r' H'. exists r'. repeat split; auto.
  - inversion Hs as [|? ? Hs' Hall]; subst. rewrite Forall_forall in Hall.
    destruct (Hex g (or_introl eq_refl)) as (r & Hr & Eg & Ec & Ep).
    destruct HW as (HC & HF).
    pose proof (core_nodup s HC) as Hnd.
    assert (Hh : f_held r = []) by (destruct (HF r Hr) as (A & _); apply A; assumption).
    assert (Hb : f_bound r = true) by (destruct (HF r Hr) as (A & _); apply A; assumption).
    assert (Hso : start_one all_off s g = commit false s r) by (unfold start_one; rewrite (find_gen _ g r Hnd Hr Eg), Ep; reflexivity).
    rewrite Hso.
    assert (Eown : f_own r = f_ctx r) by (apply (HF r Hr)).
    destruct (core_commit s r HC Hr Hh Eown) as (HC1 & Ef1 & Efi1 & En1).
    { intros r' H' Ec' Hh'. rewrite Eg. apply Hord; auto. congruence. left; reflexivity. }
    set (s1 := commit false s r) in *. set (held := filter (okf s (f_ctx r)) (f_decl r)) in *.
    assert (Hin1 : forall r', In r' (s_funcs s1) -> (In r' (s_funcs s) /\ f_gen r' <> g) \/ r' = committed held r).
    { intros r' H. rewrite Ef1 in H. apply in_upd_rec in H. destruct H as (r0 & Hr0 & ->).
      destruct (N.eqb_spec (f_gen r0) (f_gen r)) as [E|Hne].
      - right. f_equal. apply (unique_gen (s_funcs s)); auto.
      - left. split; [assumption|congruence]. }
    assert (Hkeep : forall r0, In r0 (s_funcs s) -> f_gen r0 <> g -> In r0 (s_funcs s1)).
    { intros r0 H0 Hne. rewrite Ef1. apply in_upd_rec. exists r0. split; [assumption|].
      destruct (N.eqb_spec (f_gen r0) (f_gen r)); [congruence|reflexivity]. }
    assert (HF1 : Flags s1).
    { intros r' H. destruct (Hin1 r' H) as [[H0 _]| ->]; [apply HF; assumption|].
      unfold flags_ok. cbn. rewrite Hb. repeat split; auto; discriminate. }
    destruct (IH s1 (conj HC1 HF1) Hs') as (HW' & Hrel & Efi' & En').
    { intros g' Hg'. destruct (Hex g' (or_intror Hg')) as (r2 & Hr2 & Eg2 & Ec2 & Ep2).
      exists r2. repeat split; auto. apply Hkeep; [assumption|]. specialize (Hall g' Hg'). lia. }
    { intros r' H' Ec' Hh' g' Hg'. destruct (Hin1 r' H') as [[H0 _]| ->].
      - apply Hord; auto. right; assumption.
      - cbn. rewrite Eg. apply Hall. assumption. }
    split; [assumption|]. split; [|split; congruence].
    intros r'' H''. destruct (Hrel r'' H'') as (r1 & Hr1 & Eg1 & Ec1 & Hp1 & Hh1).
    destruct (Hin1 r1 Hr1) as [[H0 Hne]| ->].
    + exists r1. split; [assumption|]. split; [assumption|]. split; [assumption|]. split.
      * intros Hp. destruct (Hp1 Hp) as (A & B). split; [assumption|]. intros [E|Hin]; [congruence|contradiction].
      * intros Hx. destruct (Hh1 Hx) as [A|A]; [left; assumption|right; right; assumption].
    + exists r. split; [assumption|]. split; [exact Eg1|]. split; [exact Ec1|]. split.
      * intros Hp. apply Hp1 in Hp. cbn in Hp. destruct Hp; discriminate.
      * intros _. right. left. symmetry; assumption.
Qed.

Lemma start_ctx_off oracle s c : start_ctx all_off oracle s c = fold_left (start_one all_off) (pending_gens s c) s.
Proof. reflexivity. Qed.

Lemma winv_start_ctx oracle s c L Lp : WInv s -> K (s_funcs s) -> AllCtx L (s_funcs s) -> PendIn (c :: Lp) (s_funcs s) ->
  let s' := start_ctx all_off oracle s c in
  WInv s' /\ K (s_funcs s') /\ AllCtx L (s_funcs s') /\ PendIn Lp (s_funcs s') /\ s_files s' = s_files s /\ s_next s' = s_next s.
Proof.
  intros HW HK HA HP. rewrite start_ctx_off. cbn zeta.
  set (todo := pending_gens s c).
  assert (Htodo : forall g, In g todo <-> exists r, In r (s_funcs s) /\ f_gen r = g /\ f_ctx r = c /\ f_pending r = true).
  { intros g. unfold todo, pending_gens. rewrite in_map_iff. split.
    - intros (r & Eg & Hr). apply filter_In in Hr. destruct Hr as (Hr & E). apply andb_prop in E. destruct E as (Ep & Ec).
      apply N.eqb_eq in Ec. exists r. auto.
    - intros (r & Hr & Eg & Ec & Ep). exists r. split; [assumption|]. apply filter_In. split; [assumption|].
      rewrite Ep, Ec, N.eqb_refl. reflexivity. }
  destruct (winv_start_loop c todo s HW) as (HW' & Hrel & Efi & En).
  { apply (sorted_map_filter _ _ (w_sorted _ (proj1 HW))). }
  { intros g Hg. apply Htodo. assumption. }
  { intros r Hr Ec Hh g Hg. apply Htodo in Hg. destruct Hg as (r2 & Hr2 & Eg2 & Ec2 & Ep2). rewrite <- Eg2.
    apply HK; auto. congruence. }
  split; [assumption|]. split; [|split; [|split; [|auto]]].
  - (* K *) intros r r' Hr Hr' Ec Hh Hp.
    destruct (Hrel r Hr) as (r1 & H1 & Eg1 & Ec1 & _ & Hh1). destruct (Hrel r' Hr') as (r2 & H2 & Eg2 & Ec2 & Hp2 & _).
    destruct (Hp2 Hp) as (Hp2' & Hnot). rewrite Eg1, Eg2.
    destruct (Hh1 Hh) as [Hx|Hx].
    + apply HK; auto. congruence.
    + exfalso. apply Htodo in Hx. destruct Hx as (r3 & Hr3 & Eg3 & Ec3 & _).
      assert (r3 = r1) by (apply (unique_gen (s_funcs s)); auto; apply core_nodup, HW). subst r3.
      apply Hnot. apply Htodo. exists r2. repeat split; auto. congruence.
  - intros r' Hr'. destruct (Hrel r' Hr') as (r1 & H1 & _ & Ec1 & _). rewrite Ec1. auto.
  - intros r' Hr' Hp. destruct (Hrel r' Hr') as (r1 & H1 & Eg1 & Ec1 & Hp1 & _). destruct (Hp1 Hp) as (Hp1' & Hnot).
    rewrite Ec1. destruct (HP r1 H1 Hp1') as [E|Hin]; [|assumption].
    exfalso. apply Hnot. apply Htodo. exists r1. auto.
Qed.

(* ---------- files ---------- *)
Lemma loaded_In s c : loaded s c = true <-> In c (map fst (s_files s)).
Proof.
  unfold loaded. rewrite existsb_exists, in_map_iff. split.
  - intros (p & Hp & E). apply N.eqb_eq in E. exists p. auto.
  - intros (p & E & Hp). exists p. split; [assumption|]. apply N.eqb_eq. assumption.
Qed.

Lemma file_set_In c b l c' : In c' (map fst (file_set c b l)) <-> c' = c \/ In c' (map fst l).
Proof.
  induction l as [|[c0 b0] l IH]; cbn [file_set map fst In].
  - intuition.
  - destruct (N.ltb_spec c c0); cbn [map fst In]; [intuition|].
    destruct (N.eqb_spec c c0) as [->|]; cbn [map fst In]; [intuition|]. rewrite IH. intuition.
Qed.

Lemma file_del_In c l c' : In c' (map fst (file_del c l)) <-> c' <> c /\ In c' (map fst l).
Proof.
  unfold file_del. rewrite !in_map_iff. split.
  - intros (p & E & Hp). apply filter_In in Hp. destruct Hp as (Hp & Hn). apply negb_true_iff in Hn. apply N.eqb_neq in Hn.
    split; [congruence|]. exists p. auto.
  - intros (Hne & p & E & Hp). exists p. split; [assumption|]. apply filter_In. split; [assumption|].
    apply negb_true_iff. apply N.eqb_neq. subst c'. exact Hne.
Qed.

Lemma file_write_mono w : forall l c', In c' (map fst l) ->
  In c' (map fst (fold_left (fun l p => file_set (fst p) (snd p) l) w l)).
Proof.
  induction w as [|p w IH]; intros l c' H; cbn [fold_left]; [assumption|]. apply IH. apply file_set_In. right. assumption.
Qed.

Lemma AllCtx_mono L L' F : (forall c, In c L -> In c L') -> AllCtx L F -> AllCtx L' F.
Proof. intros H HA r Hr. apply H, HA, Hr. Qed.

(* ---------- the invariant between operations ---------- *)
Definition SInv (s : st) : Prop :=
  WInv s /\ NoPend (s_funcs s) /\ (forall r, In r (s_funcs s) -> f_bound r = true) /\ AllCtx (map fst (s_files s)) (s_funcs s).

Lemma sinv_prune s : WInv s -> NoPend (s_funcs s) -> AllCtx (map fst (s_files s)) (s_funcs s) -> SInv (prune s).
Proof.
  intros (HC & HF) HNP HA. unfold prune.
  assert (Hsh : shrinks (s_funcs s) (filter (fun r => negb (inert r) || is_handler s r) (s_funcs s))) by apply shrinks_filter.
  split; [split|split; [|split]].
  - apply core_filter; [assumption|]. intros r Hr E. apply orb_false_elim in E. destruct E as (E & _).
    apply negb_false_iff in E. unfold inert in E.
    destruct (f_held r); [reflexivity|]. rewrite andb_false_r in E. discriminate.
  - intros r Hr. cbn in Hr. apply filter_In in Hr. apply HF. tauto.
  - cbn. eapply NoPend_shrinks; eassumption.
  - intros r Hr. cbn in Hr. apply filter_In in Hr. destruct Hr as (Hr & E).
    destruct (f_bound r) eqn:Eb; [reflexivity|]. exfalso.
    destruct (HF r Hr) as (_ & B & _). specialize (B Eb).
    rewrite (core_not_handler s r HC Hr B), orb_false_r in E. apply negb_true_iff in E. unfold inert in E.
    rewrite Eb, B, (HNP r Hr) in E. discriminate.
  - cbn. eapply AllCtx_shrinks; eassumption.
Qed.

(* with every function object recorded in its context the garbage collector has nothing to finalise *)
Lemma gc_off legacy s : Flags s -> gc all_off legacy s = s.
Proof.
  intros HF. assert (Hp : gc_pass all_off legacy s = s).
  { unfold gc_pass. replace (filter (collectable s) (s_funcs s)) with (@nil frec); [reflexivity|].
    symmetry. assert (H : forall r, In r (s_funcs s) -> f_tracked r = true) by (intros r Hr; apply (HF r Hr)).
    revert H. induction (s_funcs s) as [|x l IH]; intros H; [reflexivity|]. cbn [filter].
    unfold collectable at 1. rewrite (H x (or_introl eq_refl)). cbn [negb andb]. rewrite andb_false_r. cbn [andb].
    apply IH. intros r Hr. apply H. right. assumption. }
  unfold gc. rewrite !Hp. reflexivity.
Qed.

Lemma sinv_prune_gc legacy s : WInv s -> NoPend (s_funcs s) -> AllCtx (map fst (s_files s)) (s_funcs s) ->
  SInv (prune (gc all_off legacy s)).
Proof. intros HW HNP HA. rewrite (gc_off legacy s (proj2 HW)). apply sinv_prune; assumption. Qed.

Lemma stop_all legacy cs : forall s, WInv s ->
  let s' := fold_left (stop_ctx all_off legacy) cs s in
  WInv s' /\ shrinks (s_funcs s) (s_funcs s') /\ s_files s' = s_files s /\ s_next s' = s_next s.
Proof.
  induction cs as [|c cs IH]; intros s HW; cbn [fold_left].
  - split; [assumption|]. split; [apply shrinks_refl|auto].
  - destruct (winv_stop_ctx legacy s c HW) as (A & B & _ & C & D).
    destruct (IH _ A) as (A' & B' & C' & D').
    split; [assumption|]. split; [eapply shrinks_trans; eassumption|]. split; congruence.
Qed.

Lemma winv_set_inc s c i : WInv s -> WInv (set_inc s c i).
Proof. intros ([] & HF). split; [constructor; cbn; auto|exact HF]. Qed.

Lemma bodies_imm legacy L fs : forall s, negb legacy = false -> WInv s -> NoPend (s_funcs s) -> AllCtx L (s_funcs s) ->
  (forall p, In p fs -> In (fst p) L) ->
  let s' := fold_left (fun s p => run_body all_off legacy false (fst p) (snd p) (set_inc s (fst p) (s_next s))) fs s in
  WInv s' /\ NoPend (s_funcs s') /\ AllCtx L (s_funcs s') /\ s_files s' = s_files s.
Proof.
  induction fs as [|p fs IH]; intros s Hl HW HNP HA HL; cbn [fold_left].
  - auto.
  - destruct (winv_body_imm legacy false (fst p) L (snd p) (set_inc s (fst p) (s_next s))) as (A & B & C & D & _); auto.
    { rewrite Hl. reflexivity. } { apply winv_set_inc; assumption. } { apply HL. left; reflexivity. }
    cbn [set_inc s_files] in D.
    destruct (IH _ Hl A B C) as (A' & B' & C' & D'); [intros q Hq; apply HL; right; assumption|].
    split; [assumption|]. split; [assumption|]. split; [assumption|congruence].
Qed.

Lemma bodies_pend L fs : forall s, WInv s -> K (s_funcs s) -> AllCtx L (s_funcs s) -> PendIn L (s_funcs s) ->
  (forall p, In p fs -> In (fst p) L) ->
  let s' := fold_left (fun s p => run_body all_off false false (fst p) (snd p) (set_inc s (fst p) (s_next s))) fs s in
  WInv s' /\ K (s_funcs s') /\ AllCtx L (s_funcs s') /\ PendIn L (s_funcs s') /\ s_files s' = s_files s.
Proof.
  induction fs as [|p fs IH]; intros s HW HK HA HP HL; cbn [fold_left].
  - auto 6.
  - destruct (winv_body_pend (fst p) L L (snd p) (set_inc s (fst p) (s_next s))) as (A & B & C & D & E & _); auto; try (apply HL; left; reflexivity).
    { apply winv_set_inc; assumption. }
    cbn [set_inc s_files] in E.
    destruct (IH _ A B C D) as (A' & B' & C' & D' & E'); [intros q Hq; apply HL; right; assumption|].
    split; [assumption|]. split; [assumption|]. split; [assumption|]. split; [assumption|congruence].
Qed.

Lemma starts_all oracle L cs : forall s, WInv s -> K (s_funcs s) -> AllCtx L (s_funcs s) -> PendIn cs (s_funcs s) ->
  let s' := fold_left (start_ctx all_off oracle) cs s in
  WInv s' /\ NoPend (s_funcs s') /\ AllCtx L (s_funcs s') /\ s_files s' = s_files s.
Proof.
  induction cs as [|c cs IH]; intros s HW HK HA HP; cbn [fold_left].
  - split; [assumption|]. split; [|auto]. intros r Hr. destruct (f_pending r) eqn:E; [|reflexivity]. destruct (HP r Hr E).
  - destruct (winv_start_ctx oracle s c L cs HW HK HA HP) as (A & B & C & D & E & _).
    destruct (IH _ A B C D) as (A' & B' & C' & D').
    split; [assumption|]. split; [assumption|]. split; [assumption|congruence].
Qed.

Lemma NoPend_PendIn L F : NoPend F -> PendIn L F.
Proof. intros H r Hr Hp. rewrite (H r Hr) in Hp. discriminate. Qed.

Theorem sinv_run_op legacy s o : SInv s -> SInv (run_op all_off legacy s o).
Proof.
  intros (HW & HNP & HB & HA). unfold run_op.
  destruct o as [c b|c b oracle|c|w oracle].
  - (* exec in a live context *)
    destruct (loaded s c) eqn:El; [|apply sinv_prune_gc; assumption].
    apply loaded_In in El.
    destruct (winv_body_imm legacy true c (map fst (s_files s)) b s) as (A & B & C & D & _); auto.
    { destruct legacy; reflexivity. }
    apply sinv_prune_gc; [assumption|assumption|rewrite D; assumption].
  - (* (re)load one file *)
    set (s1 := if loaded s c then stop_ctx all_off legacy s c else s).
    assert (H1 : WInv s1 /\ shrinks (s_funcs s) (s_funcs s1) /\ s_files s1 = s_files s).
    { unfold s1. destruct (loaded s c).
      - destruct (winv_stop_ctx legacy s c HW) as (A & B & _ & C & _). auto.
      - split; [assumption|]. split; [apply shrinks_refl|reflexivity]. }
    destruct H1 as (HW1 & Hsh1 & Efi1).
    set (s2 := set_files s1 (file_set c b (s_files s1))).
    set (L2 := map fst (s_files s2)).
    assert (HcL : In c L2) by (unfold L2; cbn [s2 set_files s_files]; apply file_set_In; left; reflexivity).
    assert (HW2 : WInv s2) by (destruct HW1; split; [apply core_set_files; assumption|assumption]).
    assert (HNP2 : NoPend (s_funcs s2)) by (cbn [s2 set_files s_funcs]; eapply NoPend_shrinks; eassumption).
    assert (HA2 : AllCtx L2 (s_funcs s2)).
    { cbn [s2 set_files s_funcs]. eapply AllCtx_shrinks; [eassumption|]. eapply AllCtx_mono; [|eassumption].
      intros c' H. unfold L2. cbn [s2 set_files s_files]. apply file_set_In. right. rewrite Efi1. assumption. }
    destruct legacy.
    + destruct (winv_body_imm true false c L2 b (set_inc s2 c (s_next s2))) as (A & B & C & D & _); auto.
      { apply winv_set_inc; assumption. }
      cbn [set_inc s_files] in D.
      apply sinv_prune_gc; [assumption|assumption|rewrite D; assumption].
    + destruct (winv_body_pend c L2 [c] b (set_inc s2 c (s_next s2))) as (A & B & C & D & E & _); auto.
      { apply winv_set_inc; assumption. } { apply NoPend_K; assumption. } { apply NoPend_PendIn; assumption. } { left; reflexivity. }
      cbn [set_inc s_files] in E.
      destruct (winv_start_ctx oracle _ c L2 [] A B C D) as (A' & _ & C' & D' & E' & _).
      apply sinv_prune_gc; [assumption| |rewrite E', E; assumption].
      intros r Hr. destruct (f_pending r) eqn:Ep; [|reflexivity]. destruct (D' r Hr Ep).
  - (* unload *)
    destruct (loaded s c) eqn:El; [|apply sinv_prune_gc; assumption].
    destruct (winv_stop_ctx legacy s c HW) as (A & B & N & C & _).
    set (s1 := stop_ctx all_off legacy s c) in *.
    apply sinv_prune_gc.
    + destruct A; split; [apply core_set_files; assumption|assumption].
    + cbn [set_files s_funcs]. eapply NoPend_shrinks; eassumption.
    + cbn [set_files s_funcs s_files]. intros r Hr. apply file_del_In. split; [apply N; assumption|]. rewrite C.
      eapply AllCtx_shrinks; eassumption.
  - (* reload everything / start-up *)
    destruct (stop_all legacy (map fst (s_files s)) s HW) as (HW1 & Hsh1 & Efi1 & _).
    set (s1 := fold_left (stop_ctx all_off legacy) (map fst (s_files s)) s) in *.
    set (s2 := set_files s1 (fold_left (fun l p => file_set (fst p) (snd p) l) w (s_files s1))).
    set (L2 := map fst (s_files s2)).
    assert (HW2 : WInv s2) by (destruct HW1; split; [apply core_set_files; assumption|assumption]).
    assert (HNP2 : NoPend (s_funcs s2)) by (cbn [s2 set_files s_funcs]; eapply NoPend_shrinks; eassumption).
    assert (HA2 : AllCtx L2 (s_funcs s2)).
    { cbn [s2 set_files s_funcs]. eapply AllCtx_shrinks; [eassumption|]. eapply AllCtx_mono; [|eassumption].
      intros c' H. unfold L2. cbn [s2 set_files s_files]. apply file_write_mono. rewrite Efi1. assumption. }
    assert (HL : forall p, In p (s_files s2) -> In (fst p) L2) by (intros p Hp; unfold L2; apply in_map; assumption).
    destruct legacy.
    + destruct (bodies_imm true L2 (s_files s2) s2) as (A & B & C & D); auto.
      apply sinv_prune_gc; [assumption|assumption|rewrite D; assumption].
    + destruct (bodies_pend L2 (s_files s2) s2) as (A & B & C & D & E); auto.
      { apply NoPend_K; assumption. } { apply NoPend_PendIn; assumption. }
      set (s3 := fold_left (fun s p => run_body all_off false false (fst p) (snd p) (set_inc s (fst p) (s_next s))) (s_files s2) s2) in *.
      change (start_all all_off oracle s3 (map fst (s_files s3))) with (fold_left (start_ctx all_off oracle) (map fst (s_files s3)) s3).
      destruct (starts_all oracle L2 (map fst (s_files s3)) s3 A B C) as (A' & B' & C' & D').
      { rewrite E. exact D. }
      apply sinv_prune_gc; [assumption|assumption|].
      rewrite D'. eapply AllCtx_mono; [|exact C']. intros c0 H. unfold L2 in H. rewrite <- E in H. exact H.
Qed.

Lemma sinv_init : SInv init_st.
Proof.
  split; [split; [apply core_init|intros r []]|]. split; [intros r []|]. split; intros r [].
Qed.

Theorem sinv_run_ops legacy ops : forall s, SInv s -> SInv (run_ops all_off legacy ops s).
Proof.
  unfold run_ops. induction ops as [|o ops IH]; intros s H; cbn [fold_left]; [assumption|].
  apply IH. apply sinv_run_op. assumption.
Qed.

(* ================= property-level statements ================= *)
Definition reachable (legacy : bool) (s : st) : Prop := exists ops, s = run_ops all_off legacy ops init_st.

Lemma reachable_sinv legacy s : reachable legacy s -> SInv s.
Proof. intros (ops & ->). apply sinv_run_ops, sinv_init. Qed.

(* what "the registry is exactly what live functions declare and own" means on a model state *)
Definition Registry_ok (s : st) : Prop :=
  (* a name is registered in HA iff some live function object holds it; count = number of live holdings *)
  (forall k, (exists h, s_reg s k = Some h) <-> exists r, In r (s_funcs s) /\ memN k (f_held r) = true) /\
  (forall k, s_cnt s k = hcount k (s_funcs s)) /\
  (forall k, (exists h, s_reg s k = Some h) <-> 0 < s_cnt s k) /\
  (* every holding is a declared name of its function, and the owner table names the holder's context *)
  (forall r k, In r (s_funcs s) -> memN k (f_held r) = true -> memN k (f_decl r) = true /\ s_owner s k = Some (f_ctx r)) /\
  (forall k, s_owner s k = None <-> s_cnt s k = 0) /\
  (* nothing but live functions: bound to their name, started, in a loaded context *)
  (forall r, In r (s_funcs s) -> f_bound r = true /\ f_pending r = false /\ loaded s (f_ctx r) = true).

Lemma sinv_registry_ok s : SInv s -> Registry_ok s.
Proof.
  intros ((HC & HF) & HNP & HB & HA).
  assert (Hreg : forall k, (exists h, s_reg s k = Some h) <-> 0 < s_cnt s k).
  { intros k. pose proof (w_reg _ HC k) as H. destruct (s_reg s k) as [h|].
    - split; [intros _|intros _; eauto]. destruct (N.eq_dec (s_cnt s k) 0) as [E|]; [|lia]. apply H in E. discriminate.
    - split; [intros (h & E); discriminate|]. intros Hp. destruct H as (H & _). specialize (H eq_refl). lia. }
  repeat split.
  - intros H. apply Hreg in H. rewrite (w_cnt _ HC) in H. apply hcount_pos_holder. assumption.
  - intros (r & Hr & Hm). apply Hreg. rewrite (w_cnt _ HC). eapply hcount_holder_pos; eassumption.
  - apply (w_cnt _ HC).
  - apply Hreg.
  - apply Hreg.
  - eapply (w_decl _ HC); eassumption.
  - eapply (w_ctx _ HC); eassumption.
  - apply (w_own _ HC).
  - apply (w_own _ HC).
  - apply HB; assumption.
  - apply HNP; assumption.
  - apply loaded_In. apply HA. assumption.
Qed.

Theorem registry_invariant legacy ops : Registry_ok (run_ops all_off legacy ops init_st).
Proof. apply sinv_registry_ok, sinv_run_ops, sinv_init. Qed.

(* one owner at a time; the function HA calls belongs to the owning context *)
Theorem no_takeover_static legacy ops : let s := run_ops all_off legacy ops init_st in
  (forall k r1 r2, In r1 (s_funcs s) -> In r2 (s_funcs s) -> memN k (f_held r1) = true -> memN k (f_held r2) = true ->
                   f_ctx r1 = f_ctx r2) /\
  (forall k g m, s_reg s k = Some (g, m) ->
     exists r, In r (s_funcs s) /\ f_gen r = g /\ memN k (f_held r) = true /\ s_owner s k = Some (f_ctx r)).
Proof.
  cbn zeta. destruct (sinv_run_ops legacy ops init_st sinv_init) as ((HC & _) & _). split.
  - intros k r1 r2 H1 H2 M1 M2. pose proof (w_ctx _ HC r1 k H1 M1) as A. pose proof (w_ctx _ HC r2 k H2 M2) as B. congruence.
  - intros k g m Hr. destruct (w_hand _ HC k g m Hr) as (r & Hin & Eg & _ & Hm & _).
    exists r. repeat split; auto. eapply (w_ctx _ HC); eassumption.
Qed.

(* calling a registered service runs the most recent live definition that holds the name, with the call's data
   plus trigger_type='service', and returns its result when a response is requested *)
Theorem calls_current legacy ops k data resp g kw ret : let s := run_ops all_off legacy ops init_st in
  model_call s k data resp = OcRun g kw ret ->
  (exists r, In r (s_funcs s) /\ f_gen r = g /\ f_bound r = true /\ memN k (f_held r) = true /\ memN k (f_decl r) = true /\
             forall r', In r' (s_funcs s) -> memN k (f_held r') = true -> f_gen r' <= g) /\
  kw = call_kwargs data /\ ret = (if resp then Some g else None).
Proof.
  cbn zeta. destruct (sinv_run_ops legacy ops init_st sinv_init) as ((HC & _) & _ & HB & _).
  unfold model_call. destruct (s_reg _ k) as [[g0 m]|] eqn:Er; [|discriminate].
  intros H. assert (E : g0 = g /\ kw = call_kwargs data /\ ret = (if resp then Some g else None)).
  { destruct m, resp; inversion H; subst; auto. }
  destruct E as (-> & -> & ->). split; [|auto].
  destruct (w_hand _ HC k g m Er) as (r & Hin & Eg & _ & Hm & Hmax).
  exists r. repeat split; auto. eapply (w_decl _ HC); eassumption.
Qed.

(* ---------- one definition step: what it registers, what it cannot touch ---------- *)
Lemma release_funcs legacy s r :
  s_funcs (release all_off legacy s r) = upd_rec (f_gen r) (with_held []) (s_funcs s).
Proof.
  rewrite release_off. destruct (fold_refresh_spec (f_held r) (fold_left remove (f_held r) (set_funcs s (upd_rec (f_gen r) (with_held []) (s_funcs s))))) as (A & _).
  rewrite A. destruct (fold_remove_frame (f_held r) (set_funcs s (upd_rec (f_gen r) (with_held []) (s_funcs s)))) as (B & _).
  rewrite B. reflexivity.
Qed.

Lemma release_at legacy s r k : memN k (f_held r) = false ->
  s_cnt (release all_off legacy s r) k = s_cnt s k /\ s_owner (release all_off legacy s r) k = s_owner s k /\
  s_reg (release all_off legacy s r) k = s_reg s k.
Proof.
  intros Hm. rewrite release_off.
  set (s1 := set_funcs s (upd_rec (f_gen r) (with_held []) (s_funcs s))).
  destruct (fold_refresh_spec (f_held r) (fold_left remove (f_held r) s1)) as (_ & _ & _ & Fc & Fo & Fr).
  rewrite Fc, Fo, Fr, Hm.
  pose proof (memN_false_count _ _ Hm) as H0.
  destruct (fold_remove_spec (f_held r) s1 k) as (A & B & C); [rewrite H0; lia|].
  rewrite A, B, C, Hm, H0. cbn. rewrite N.sub_0_r. auto.
Qed.

Lemma unbind_at legacy s r k : memN k (f_held r) = false ->
  s_cnt (unbind all_off legacy s r) k = s_cnt s k /\ s_owner (unbind all_off legacy s r) k = s_owner s k /\
  s_reg (unbind all_off legacy s r) k = s_reg s k.
Proof.
  intros Hm. unfold unbind. cbn [all_off d_pending_zombie].
  destruct legacy; [exact (release_at true _ r k Hm)|].
  destruct (f_pending r); [cbn; auto|exact (release_at false _ r k Hm)].
Qed.

Lemma unbind_keeps legacy s r r0 : In r0 (s_funcs s) -> f_gen r0 <> f_gen r -> In r0 (s_funcs (unbind all_off legacy s r)).
Proof.
  intros H0 Hne. unfold unbind. cbn [all_off d_pending_zombie].
  assert (K1 : forall F g f, In r0 F -> f_gen r0 <> g -> In r0 (upd_rec g f F)).
  { intros F g f H Hn. apply in_upd_rec. exists r0. split; [assumption|]. destruct (N.eqb_spec (f_gen r0) g); [congruence|reflexivity]. }
  destruct legacy; cbv zeta iota beta; [rewrite release_funcs; cbn [set_funcs s_funcs]; auto|].
  destruct (f_pending r); [cbn [set_funcs s_funcs]; auto|rewrite release_funcs; cbn [set_funcs s_funcs]; auto].
Qed.

Lemma commit_at s r k : f_own r = f_ctx r ->
  s_cnt (commit false s r) k = s_cnt s k + countN k (filter (okf s (f_ctx r)) (f_decl r)) /\
  s_owner (commit false s r) k = (if memN k (filter (okf s (f_ctx r)) (f_decl r)) then Some (f_ctx r) else s_owner s k) /\
  s_reg (commit false s r) k = (if memN k (filter (okf s (f_ctx r)) (f_decl r)) then Some (f_gen r, f_sr r) else s_reg s k).
Proof.
  intros Eo. rewrite (commit_false_eq s r Eo). cbn [set_funcs s_cnt s_owner s_reg].
  destruct (reg_loop_spec (f_ctx r) (f_gen r, f_sr r) (f_decl r) s []) as (_ & _ & _ & _ & _ & A & B & C). auto.
Qed.

Theorem define_effective legacy ops c f decl d :
  let s := run_ops all_off legacy ops init_st in
  loaded s c = true ->
  let s' := run_op all_off legacy s (OExec c [SDef f decl d]) in
  (exists r, In r (s_funcs s') /\ f_gen r = s_next s /\ f_ctx r = c /\ f_name r = f /\ f_decl r = nodupN decl /\ f_bound r = true /\
             forall k, memN k (f_held r) = memN k decl && okf s c k) /\
  (forall k, okf s c k = false -> s_reg s' k = s_reg s k /\ s_owner s' k = s_owner s k /\ s_cnt s' k = s_cnt s k).
Proof.
  cbn zeta. set (s := run_ops all_off legacy ops init_st). intros Hl.
  destruct (sinv_run_ops legacy ops init_st sinv_init) as ((HC & HF) & HNP & HB & HA). fold s in HC, HF, HNP, HB, HA.
  unfold run_op. rewrite Hl. unfold run_body. cbn [fold_left run_stmt].
  assert (HWd : WInv (do_def all_off legacy true false false c f decl d s)).
  { apply (winv_do_def_imm legacy true false false c f decl d s (map fst (s_files s))); auto.
    - destruct legacy; reflexivity.
    - split; assumption.
    - apply loaded_In; assumption. }
  rewrite (gc_off legacy _ (proj2 HWd)). clear HWd.
  rewrite do_def_off. cbn zeta.
  replace (negb legacy && negb true) with false by (destruct legacy; reflexivity).
  set (g := s_next s). set (nr := mk_frec c f g (eff_sr legacy d) (nodupN decl) [] true true false (s_inc s c) c false).
  set (s1 := set_funcs (set_next s (g + 1)) (s_funcs s ++ [nr])).
  set (held := filter (okf s c) (nodupN decl)).
  assert (Hokf : forall k, okf s1 c k = okf s c k) by reflexivity.
  assert (Hheld : filter (okf s1 (f_ctx nr)) (f_decl nr) = held) by reflexivity.
  assert (Hf2 : s_funcs (commit false s1 nr) = upd_rec g (committed held) (s_funcs s ++ [nr])).
  { rewrite (commit_false_eq s1 nr eq_refl). cbn [set_funcs s_funcs]. rewrite Hheld. reflexivity. }
  assert (Hnr2 : In (committed held nr) (s_funcs (commit false s1 nr))).
  { rewrite Hf2. apply in_upd_rec. exists nr. split; [apply in_or_app; right; left; reflexivity|]. cbn. rewrite N.eqb_refl. reflexivity. }
  assert (Hmem : forall k, memN k held = memN k decl && okf s c k).
  { intros k. unfold held. rewrite <- (memN_nodupN k decl). destruct (memN k (filter (okf s c) (nodupN decl))) eqn:E.
    - apply memN_In in E. apply filter_In in E. destruct E as (A & B). rewrite B. apply memN_In in A. rewrite A. reflexivity.
    - destruct (memN k (nodupN decl)) eqn:Ed; [|reflexivity]. destruct (okf s c k) eqn:Eo; [|reflexivity].
      exfalso. apply memN_In in Ed. assert (In k (filter (okf s c) (nodupN decl))) by (apply filter_In; auto).
      apply memN_In in H. congruence. }
  assert (Hmaps2 : forall k, okf s c k = false ->
            s_reg (commit false s1 nr) k = s_reg s k /\ s_owner (commit false s1 nr) k = s_owner s k /\ s_cnt (commit false s1 nr) k = s_cnt s k).
  { intros k Ek. destruct (commit_at s1 nr k eq_refl) as (A & B & C). rewrite Hheld in A, B, C.
    assert (Em : memN k held = false) by (rewrite Hmem, Ek; apply andb_false_r).
    rewrite A, B, C, Em, (memN_false_count _ _ Em). cbn. rewrite N.add_0_r. auto. }
  assert (Hkeep_prune : forall s2, In (committed held nr) (s_funcs s2) -> In (committed held nr) (s_funcs (prune s2))).
  { intros s2 H. unfold prune. cbn. apply filter_In. split; [assumption|reflexivity]. }
  destruct (find_bound (set_next s (g + 1)) c f) as [r|] eqn:Efb.
  - apply find_bound_in in Efb. destruct Efb as (Hr & Ecr). cbn in Hr.
    assert (Hgr : f_gen r <> g) by (pose proof (w_next _ HC r Hr); unfold g; lia).
    split.
    + exists (committed held nr). split; [apply Hkeep_prune; apply unbind_keeps; [assumption|cbn; congruence]|].
      repeat split; auto.
    + intros k Ek.
      assert (Hnk : memN k (f_held r) = false).
      { destruct (memN k (f_held r)) eqn:E; [|reflexivity]. exfalso.
        pose proof (w_ctx _ HC r k Hr E) as Ho. unfold okf in Ek. rewrite Ho, Ecr, N.eqb_refl in Ek. discriminate. }
      destruct (unbind_at legacy (commit false s1 nr) r k Hnk) as (A & B & C).
      destruct (Hmaps2 k Ek) as (A2 & B2 & C2). cbn [prune set_funcs s_reg s_owner s_cnt]. split; [|split]; congruence.
  - split.
    + exists (committed held nr). split; [apply Hkeep_prune; assumption|]. repeat split; auto.
    + intros k Ek. apply Hmaps2. assumption.
Qed.
