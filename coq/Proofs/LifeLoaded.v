(* Proofs/LifeLoaded.v — executing files with the lazy module_import (lookup-before-load, depth-first, in sorted order)
   loads exactly the by-source closure [spec_loaded], each file at the tree's current source (C10_post_state). *)
From PV Require Import Common.Util Life.ReloadBase Gen.ReloadConsts Life.Modules Life.Reload Life.ReloadPlanSpec Life.ReloadSpec
  Life.ReloadLoaded
  Proofs.LifeReloadBase Proofs.LifeClosure Proofs.LifePlan Proofs.LifeUntouched Proofs.LifeExec Proofs.LifeDiscover
  Proofs.LifeDiscoverDoc Proofs.LifeReloadThms.
From Coq Require Import Lia.

Lemma has_iff st n : has st n <-> exists c, In c st /\ c_name c = n.
Proof. unfold has, st_names. rewrite in_map_iff. split; intros (c & A & B); eauto. Qed.

Lemma st_del_notin st n : ~ has st n -> st_del st n = st.
Proof.
  intros H. unfold st_del. induction st as [|c st IH]; [reflexivity|]. cbn.
  destruct (nl_eqb (c_name c) n) eqn:E.
  - apply nl_eqb_eq in E. exfalso. apply H. unfold has. cbn. auto.
  - cbn. rewrite IH; [reflexivity|]. intros HI. apply H. unfold has in *. cbn. auto.
Qed.

Lemma has_set st c n : has (st_set st c) n <-> n = c_name c \/ has st n.
Proof.
  rewrite !has_iff. split.
  - intros (x & Hx & En). apply st_set_In in Hx. destruct Hx as [->|[Hx _]]; [auto|right; eauto].
  - intros [->|(x & Hx & En)].
    + exists c. split; [apply st_set_In; auto|reflexivity].
    + destruct (list_eq_dec N.eq_dec (c_name x) (c_name c)) as [E|E].
      * exists c. split; [apply st_set_In; auto|congruence].
      * exists x. split; [apply st_set_In; auto|exact En].
Qed.

Lemma uniq_get st c : uniq_ctx st -> In c st -> st_get st (c_name c) = Some c.
Proof.
  unfold uniq_ctx, st_get. induction st as [|x st IH]; intros Hu Hc; [destruct Hc|].
  cbn in Hu. inversion Hu as [|? ? Hnot Hu']; subst. cbn [find].
  destruct Hc as [->|Hc]; [rewrite nl_eqb_refl; reflexivity|].
  destruct (nl_eqb (c_name x) (c_name c)) eqn:E; [|apply IH; assumption].
  apply nl_eqb_eq in E. exfalso. apply Hnot. rewrite E. apply in_map. exact Hc.
Qed.

Lemma find_loaded_Some st cs n : find_loaded st cs = Some n ->
  exists c cnd, In c st /\ c_ismod c = true /\ In cnd cs /\ cd_name cnd = c_name c /\ n = c_name c.
Proof.
  induction cs as [|x cs IH]; cbn [find_loaded]; [discriminate|].
  destruct (st_get st (cd_name x)) as [y|] eqn:G.
  - destruct (c_ismod y) eqn:My.
    + intros H; inversion H; subst. apply st_get_Some in G. destruct G as [Hy Ey]. exists y, x. cbn. auto.
    + intros H. destruct (IH H) as (c & cnd & A & B & C & D). exists c, cnd. cbn. auto.
  - intros H. destruct (IH H) as (c & cnd & A & B & C & D). exists c, cnd. cbn. auto.
Qed.

Lemma find_loaded_None st cs : uniq_ctx st -> find_loaded st cs = None ->
  forall cnd c, In cnd cs -> In c st -> c_name c = cd_name cnd -> c_ismod c = false.
Proof.
  intros Hu. induction cs as [|x cs IH]; cbn [find_loaded]; intros H cnd c Hcnd Hc En; [destruct Hcnd|].
  destruct Hcnd as [->|Hcnd].
  - rewrite <- En, (uniq_get st c Hu Hc) in H. destruct (c_ismod c); [discriminate|reflexivity].
  - destruct (st_get st (cd_name x)) as [y|]; [destruct (c_ismod y); [discriminate|]|]; eapply IH; eassumption.
Qed.

Section Loading.
  Variable t : tree.
  Variable k : apps_config.
  Variable born : N.
  Variable started : bool.
  Hypothesis GT : good_tree t k.
  Variable rank : desc -> nat.
  Hypothesis rank_dec : forall d f i d', Reach t k d -> tree_get t (d_path d) = Some f -> In i (f_imps f) -> child t d i = Some d' -> (rank d' < rank d)%nat.

  Lemma Desc_reach d d' : Reach t k d -> Desc t d d' -> Reach t k d' /\ (rank d' <= rank d)%nat.
  Proof.
    intros Hr H. induction H as [d|d f i d1 d2 Hf Hi Hc _ IH]; [split; [exact Hr|lia]|].
    assert (Hr1 : Reach t k d1) by (eapply R_imp; eassumption).
    destruct (IH Hr1) as [A B]. split; [exact A|]. pose proof (rank_dec d f i d1 Hr Hf Hi Hc). lia.
  Qed.

  Lemma Desc_trans d1 d2 d3 : Desc t d1 d2 -> Desc t d2 d3 -> Desc t d1 d3.
  Proof. induction 1; intros H'; [exact H'|]. eapply D_step; eauto. Qed.

  Definition grows (st st' : state) (P : cname -> Prop) : Prop := forall n, has st' n <-> has st n \/ P n.

  (* what loading the module file of a candidate does (the induction hypothesis at the lower fuel) *)
  Definition load_spec (load : cand -> file -> state -> list event -> xres) (bound : nat) : Prop :=
    forall cnd f st ev, Reach t k (desc_of_cand cnd) -> (rank (desc_of_cand cnd) < bound)%nat ->
      tree_get t (cd_path cnd) = Some f -> consistent t k st -> ~ has st (cd_name cnd) ->
      exists st' ev' imps, load cnd f st ev = XOk st' ev' imps /\ consistent t k st'
        /\ grows st st' (fun n => exists d'', Desc t (desc_of_cand cnd) d'' /\ d_name d'' = n).

  Lemma imports_loop_spec load bound d f : load_spec load bound -> Reach t k d -> tree_get t (d_path d) = Some f ->
    (rank d <= bound)%nat ->
    forall imps st ev acc, incl imps (f_imps f) -> consistent t k st -> ~ has st (d_name d) ->
      exists st' ev' acc', imports_loop load all_off t (d_name d) (d_rel d) imps st ev acc = XOk st' ev' acc'
        /\ consistent t k st' /\ ~ has st' (d_name d)
        /\ grows st st' (fun n => exists i d' d'', In i imps /\ child t d i = Some d' /\ Desc t d' d'' /\ d_name d'' = n)
        /\ (forall i d', In i imps -> child t d i = Some d' -> has st' (d_name d')).
  Proof.
    intros Hload Hr Hf Hb. induction imps as [|i rest IH]; intros st ev acc Hinc Hst Hself; cbn [imports_loop].
    - exists st, ev, acc. split; [reflexivity|]. split; [exact Hst|]. split; [exact Hself|]. split.
      + intros n. split; [auto|intros [H|(i & _ & _ & [] & _)]; exact H].
      + intros i d' [].
    - assert (Hi : In i (f_imps f)) by (apply Hinc; cbn; auto).
      destruct (gt_closed t k GT d Hr) as (f0 & Hf0 & Hcl). rewrite Hf in Hf0. inversion Hf0; subst f0.
      destruct (Hcl i Hi) as (d1 & Hc1). pose proof Hc1 as Hc1'. unfold child in Hc1'.
      destruct (candidates all_off (d_name d) (d_rel d) i) as [cs|] eqn:Ecs; [|discriminate].
      destruct (find_file t cs) as [[cnd f1]|] eqn:Eff; [|discriminate]. inversion Hc1'; subst d1. clear Hc1'.
      destruct (find_file_In _ _ _ _ Eff) as [Hcnd Hf1].
      assert (Hr1 : Reach t k (desc_of_cand cnd)) by (eapply R_imp; eassumption).
      assert (Hrk : (rank (desc_of_cand cnd) < bound)%nat) by (pose proof (rank_dec d f i _ Hr Hf Hi Hc1); lia).
      (* the state after this import, in both cases *)
      assert (Hstep : exists st1 ev1 acc1,
                 (match find_loaded st cs with
                  | Some n => imports_loop load all_off t (d_name d) (d_rel d) rest st ev (nl_add n acc)
                  | None => match load cnd f1 st ev with
                            | XOk st2 ev2 _ => imports_loop load all_off t (d_name d) (d_rel d) rest st2 ev2 (nl_add (cd_name cnd) acc)
                            | XFail st2 ev2 => XFail st2 ev2
                            | XFuel => XFuel
                            end
                  end) = imports_loop load all_off t (d_name d) (d_rel d) rest st1 ev1 acc1
                 /\ consistent t k st1 /\ ~ has st1 (d_name d)
                 /\ grows st st1 (fun n => exists d'', Desc t (desc_of_cand cnd) d'' /\ d_name d'' = n)).
      { destruct (find_loaded st cs) as [n|] eqn:El.
        - (* already loaded *)
          exists st, ev, (nl_add n acc). split; [reflexivity|]. split; [exact Hst|]. split; [exact Hself|].
          destruct (find_loaded_Some _ _ _ El) as (c & cnd' & Hc & Hm & Hcnd' & En' & ->).
          destruct Hst as [Hu Hall]. destruct (Hall c Hc) as (dc & Hrc & Hmc & Hdesc).
          destruct (gt_unique t k GT d f i cs cnd' Hr Hf Hi Ecs Hcnd') as (d' & Hc' & Ed').
          { exists dc. split; [exact Hrc|]. destruct Hmc as (A & _). congruence. }
          rewrite Hc1 in Hc'. inversion Hc'; subst d'.
          assert (dc = desc_of_cand cnd).
          { apply (gt_coherent t k GT); auto. destruct Hmc as (A & _). congruence. }
          subst dc. intros m. split; [auto|]. intros [H|(d'' & HD & <-)]; [exact H|]. apply Hdesc. exact HD.
        - (* load it *)
          assert (Hnot : ~ has st (cd_name cnd)).
          { intros H. apply has_iff in H. destruct H as (c & Hc & En).
            destruct Hst as [Hu Hall]. destruct (Hall c Hc) as (dc & Hrc & (A & B & C & _) & _).
            assert (dc = desc_of_cand cnd) by (apply (gt_coherent t k GT); auto; cbn; congruence).
            subst dc. cbn in C. pose proof (find_loaded_None st cs Hu El cnd c Hcnd Hc En). congruence. }
          destruct (Hload cnd f1 st ev Hr1 Hrk Hf1 Hst Hnot) as (st2 & ev2 & imps2 & E & Hst2 & Hg).
          rewrite E. exists st2, ev2, (nl_add (cd_name cnd) acc). split; [reflexivity|]. split; [exact Hst2|]. split; [|exact Hg].
          intros H. apply Hg in H. destruct H as [H|(d'' & HD & En)]; [exact (Hself H)|].
          destruct (Desc_reach _ _ Hr1 HD) as [Hr'' Hrk''].
          assert (d'' = d) by (apply (gt_coherent t k GT); auto). subst d''.
          pose proof (rank_dec d f i _ Hr Hf Hi Hc1). lia. }
      destruct Hstep as (st1 & ev1 & acc1 & Eq & Hst1 & Hself1 & Hg1). rewrite Eq.
      destruct (IH st1 ev1 acc1) as (st' & ev' & acc' & E' & Hst' & Hself' & Hg' & Hch'); [intros x Hx; apply Hinc; cbn; auto|exact Hst1|exact Hself1|].
      exists st', ev', acc'. split; [exact E'|]. split; [exact Hst'|]. split; [exact Hself'|]. split.
      + intros n. rewrite (Hg' n), (Hg1 n). split.
        * intros [[H|(d'' & HD & En)]|(j & dj & d'' & Hj & Hcj & HD & En)]; [auto| |].
          -- right. exists i, (desc_of_cand cnd), d''. cbn. auto.
          -- right. exists j, dj, d''. cbn. auto.
        * intros [H|(j & dj & d'' & [<-|Hj] & Hcj & HD & En)]; [auto| |].
          -- rewrite Hc1 in Hcj. inversion Hcj; subst dj. left. right. eauto.
          -- right. exists j, dj, d''. auto.
      + intros j dj [<-|Hj] Hcj.
        * rewrite Hc1 in Hcj. inversion Hcj; subst dj. apply Hg'. left. apply Hg1. right. exists (desc_of_cand cnd). split; [apply D_refl|reflexivity].
        * eapply Hch'; eassumption.
  Qed.

  Lemma consistent_set st c d : consistent t k st -> ~ has st (c_name c) -> Reach t k d -> ctx_matches t c d ->
    (forall d', Desc t d d' -> d' = d \/ has st (d_name d')) -> consistent t k (st_set st c).
  Proof.
    intros [Hu Hall] Hn Hr Hm Hd. split; [apply uniq_st_set; exact Hu|].
    intros x Hx. apply st_set_In in Hx. destruct Hx as [->|[Hx _]].
    - exists d. split; [exact Hr|]. split; [exact Hm|]. intros d' HD. apply has_set.
      destruct (Hd d' HD) as [->|H]; [left; symmetry; apply Hm|right; exact H].
    - destruct (Hall x Hx) as (dx & Hrx & Hmx & Hdx). exists dx. split; [exact Hrx|]. split; [exact Hmx|].
      intros d' HD. apply has_set. right. apply Hdx. exact HD.
  Qed.

  Lemma load_module_spec : forall fuel, load_spec (load_module fuel all_off t born started) fuel.
  Proof.
    induction fuel as [|fuel IH]; intros cnd f st ev Hr Hrk Hf Hst Hnot; [lia|].
    cbn [load_module]. set (d := desc_of_cand cnd) in *.
    rewrite (st_del_notin st (cd_name cnd) Hnot).
    destruct (imports_loop_spec (load_module fuel all_off t born started) fuel d f IH Hr Hf) with (imps := f_imps f) (st := st)
      (ev := ev ++ [(cd_name cnd, f_gen f)]) (acc := @nil cname) as (st2 & ev2 & imps2 & E & Hst2 & Hself2 & Hg2 & Hch2);
      [lia|apply incl_refl|exact Hst|exact Hnot|].
    change (d_name d) with (cd_name cnd) in E, Hself2. change (d_rel d) with (cd_rel cnd) in E. rewrite E.
    eexists _, ev2, imps2. split; [reflexivity|]. split.
    - apply (consistent_set st2 _ d Hst2); [exact Hself2|exact Hr| |].
      + cbn. repeat split; auto. exists f. auto.
      + intros d' HD. inversion HD as [|? f0 i d1 ? Hf0 Hi Hc HD1]; subst; [left; reflexivity|right].
        change (d_path d) with (cd_path cnd) in Hf0. rewrite Hf in Hf0. inversion Hf0; subst f0.
        apply Hg2. right. exists i, d1, d'. auto.
    - intros n. rewrite has_set. cbn [c_name]. rewrite (Hg2 n). split.
      + intros [->|[H|(i & d1 & d'' & Hi & Hc & HD & En)]].
        * right. exists d. split; [apply D_refl|reflexivity].
        * left. exact H.
        * right. exists d''. split; [|exact En]. eapply D_step; eauto.
      + intros [H|(d'' & HD & En)]; [right; left; exact H|].
        inversion HD as [|? f0 i d1 ? Hf0 Hi Hc HD1]; subst; [left; reflexivity|right; right].
        change (d_path d) with (cd_path cnd) in Hf0. rewrite Hf in Hf0. inversion Hf0; subst f0.
        exists i, d1, d''. auto.
  Qed.
End Loading.

Section Reloaded.
  Variable t : tree.
  Variable k : apps_config.
  Variable born : N.
  Hypothesis GT : good_tree t k.

  Definition root_ok (s : sfile) : Prop :=
    Reach t k (root_desc s) /\ exists f, tree_get t (sf_path s) = Some f /\ sf_gen s = f_gen f /\ sf_mtime s = f_mtime f /\ sf_imps s = f_imps f.

  Lemma Desc_mod d d' : Desc t d d' -> d' = d \/ d_mod d' = true.
  Proof.
    induction 1 as [d|d f i d1 d2 Hf Hi Hc _ IH]; [left; reflexivity|right].
    assert (Hm : d_mod d1 = true).
    { unfold child in Hc. destruct (candidates _ _ _ _); [|discriminate]. destruct (find_file t l) as [[c g]|]; [|discriminate].
      inversion Hc; reflexivity. }
    destruct IH as [->|H]; [exact Hm|exact H].
  Qed.

  Lemma load_one_spec rank w s :
    (forall d f i d', Reach t k d -> tree_get t (d_path d) = Some f -> In i (f_imps f) -> child t d i = Some d' -> (rank d' < rank d)%nat) ->
    (forall d, Reach t k d -> (rank d <= length t)%nat) ->
    root_ok s -> consistent t k (w_st w) -> ~ has (w_st w) (sf_name s) ->
    consistent t k (w_st (load_one all_off t born w s))
    /\ grows (w_st w) (w_st (load_one all_off t born w s)) (fun n => exists d'', Desc t (root_desc s) d'' /\ d_name d'' = n).
  Proof.
    intros Hrk Hbound (Hr & f & Hf & Eg & Em & Ei) Hst Hnot. unfold load_one, exec_body.
    rewrite (st_del_notin _ _ Hnot). set (d := root_desc s) in *.
    destruct (imports_loop_spec t k GT rank Hrk (load_module (exec_fuel t) all_off t born false) (exec_fuel t) d f
                (load_module_spec t k born false GT rank Hrk (exec_fuel t)) Hr Hf) with (imps := sf_imps s) (st := w_st w)
      (ev := w_ev w ++ [(sf_name s, sf_gen s)]) (acc := @nil cname) as (st2 & ev2 & imps2 & E & Hst2 & Hself2 & Hg2 & Hch2);
      [unfold exec_fuel; pose proof (Hbound d Hr); lia|rewrite Ei; apply incl_refl|exact Hst|exact Hnot|].
    change (d_name d) with (sf_name s) in E, Hself2. change (d_rel d) with (sf_rel s) in E. rewrite E. cbn [w_st].
    split.
    - apply (consistent_set t k st2 _ d Hst2); [exact Hself2|exact Hr| |].
      + cbn. repeat split; auto. exists f. auto.
      + intros d' HD. inversion HD as [|? f0 i d1 ? Hf0 Hi Hc HD1]; subst; [left; reflexivity|right].
        change (d_path d) with (sf_path s) in Hf0. rewrite Hf in Hf0. inversion Hf0; subst f0.
        apply Hg2. right. exists i, d1, d'. rewrite Ei. auto.
    - intros n. rewrite has_set. cbn [c_name]. rewrite (Hg2 n). split.
      + intros [->|[H|(i & d1 & d'' & Hi & Hc & HD & En)]].
        * right. exists d. split; [apply D_refl|reflexivity].
        * left. exact H.
        * right. exists d''. split; [|exact En]. rewrite Ei in Hi. eapply D_step; eauto.
      + intros [H|(d'' & HD & En)]; [right; left; exact H|].
        inversion HD as [|? f0 i d1 ? Hf0 Hi Hc HD1]; subst; [left; reflexivity|right; right].
        change (d_path d) with (sf_path s) in Hf0. rewrite Hf in Hf0. inversion Hf0; subst f0.
        exists i, d1, d''. rewrite Ei. auto.
  Qed.

  Lemma load_fold_spec rank :
    (forall d f i d', Reach t k d -> tree_get t (d_path d) = Some f -> In i (f_imps f) -> child t d i = Some d' -> (rank d' < rank d)%nat) ->
    (forall d, Reach t k d -> (rank d <= length t)%nat) ->
    forall L w, consistent t k (w_st w) -> (forall s, In s L -> root_ok s) -> NoDup (map sf_name L) ->
      (forall s, In s L -> ~ has (w_st w) (sf_name s)) ->
      let w' := fold_left (load_one all_off t born) L w in
      consistent t k (w_st w') /\ grows (w_st w) (w_st w') (fun n => exists s d'', In s L /\ Desc t (root_desc s) d'' /\ d_name d'' = n).
  Proof.
    intros Hrk Hbound. induction L as [|s L IH]; intros w Hst Hok Hnd Hnot; cbn [fold_left].
    - cbv zeta. split; [exact Hst|]. intros n. split; [auto|intros [H|(s & _ & [] & _)]; exact H].
    - cbn [map] in Hnd. inversion Hnd as [|? ? Hns Hnd']; subst.
      destruct (load_one_spec rank w s Hrk Hbound (Hok s (or_introl eq_refl)) Hst (Hnot s (or_introl eq_refl))) as [Hst1 Hg1].
      destruct (IH (load_one all_off t born w s) Hst1) as [Hst' Hg']; [intros x Hx; apply Hok; cbn; auto|exact Hnd'| |].
      + intros s2 Hs2 H. apply Hg1 in H. destruct H as [H|(d'' & HD & En)]; [exact (Hnot s2 (or_intror Hs2) H)|].
        destruct (Hok s (or_introl eq_refl)) as [Hr _]. destruct (Hok s2 (or_intror Hs2)) as [Hr2 _].
        destruct (Desc_reach t k rank Hrk _ _ Hr HD) as [Hr'' _].
        assert (E : d'' = root_desc s2) by (apply (gt_coherent t k GT); auto).
        destruct (Desc_mod _ _ HD) as [E2|E2].
        * apply Hns. rewrite E in E2. apply in_map_iff. exists s2. split; [|exact Hs2].
          apply (f_equal d_name) in E2. exact E2.
        * rewrite E in E2. discriminate.
      + cbv zeta. split; [exact Hst'|]. intros n. rewrite (Hg' n), (Hg1 n). split.
        * intros [[H|(d'' & HD & En)]|(s2 & d'' & Hs2 & HD & En)]; [auto|right; exists s, d''; cbn; auto|right; exists s2, d''; cbn; auto].
        * intros [H|(s2 & d'' & [<-|Hs2] & HD & En)]; [auto|left; right; eauto|right; exists s2, d''; auto].
  Qed.
End Reloaded.

Lemma Desc_trans' t d1 d2 d3 : Desc t d1 d2 -> Desc t d2 d3 -> Desc t d1 d3.
Proof. induction 1; intros H'; [exact H'|]. eapply D_step; eauto. Qed.

Lemma Reach_from_root t k d : Reach t k d -> exists s, In s (discover t k) /\ sf_auto s = true /\ Desc t (root_desc s) d.
Proof.
  induction 1 as [s Hs Ha|d f i d' Hr IH Hf Hi Hc].
  - exists s. split; [exact Hs|]. split; [exact Ha|apply D_refl].
  - destruct IH as (s & Hs & Ha & HD). exists s. split; [exact Hs|]. split; [exact Ha|].
    eapply Desc_trans'; [exact HD|]. eapply D_step; [exact Hf|exact Hi|exact Hc|apply D_refl].
Qed.

Lemma consistent_map t k (g : gctx -> gctx) st :
  (forall c, c_name (g c) = c_name c /\ c_rel (g c) = c_rel c /\ c_ismod (g c) = c_ismod c /\ c_gen (g c) = c_gen c /\ c_mtime (g c) = c_mtime c) ->
  consistent t k st -> consistent t k (map g st) /\ forall n, has (map g st) n <-> has st n.
Proof.
  intros Hg [Hu Hall].
  assert (Hn : forall n, has (map g st) n <-> has st n).
  { intros n. unfold has, st_names. rewrite map_map. assert (E : map (fun x => c_name (g x)) st = map c_name st) by (apply map_ext; intros; apply Hg).
    rewrite E. reflexivity. }
  split; [|exact Hn]. split; [apply uniq_map_names; [intros; apply Hg|exact Hu]|].
  intros c' Hc'. apply in_map_iff in Hc'. destruct Hc' as (c & <- & Hc). destruct (Hall c Hc) as (d & Hr & (A & B & C & f & Hf & Eg & Em) & Hd).
  destruct (Hg c) as (G1 & G2 & G3 & G4 & G5). exists d. split; [exact Hr|]. split.
  - unfold ctx_matches. rewrite G1, G2, G3, G4, G5. repeat split; auto. exists f. auto.
  - intros d' HD. apply Hn. apply Hd. exact HD.
Qed.

Lemma start_phase_fields dv a c0 : forall c, In c (start_phase dv a [c0]) ->
  c_name c = c_name c0 /\ c_rel c = c_rel c0 /\ c_ismod c = c_ismod c0 /\ c_gen c = c_gen c0 /\ c_mtime c = c_mtime c0.
Proof.
  intros c Hc. apply start_phase_In in Hc. destruct Hc as (x & [<-|[]] & [->| ->]); cbn; auto.
Qed.

Lemma load_list_nodup fs : NoDup (map sf_name fs) -> NoDup (map sf_name (load_list fs)).
Proof.
  intros H. unfold load_list. apply NoDup_map_filter.
  eapply Permutation.Permutation_NoDup; [|exact H]. apply Permutation.Permutation_map. apply Permutation.Permutation_sym. apply sort_by_perm.
Qed.

(* C10_post_state: after a default or '*' reload whose survivors are consistent with the new tree (trivially so
   after '*' and at start-up, where nothing survives), the table is exactly the by-source closure of the existing
   auto-loaded files, every context at the tree's current source *)
Theorem post_state_exact born st t k a : good_tree t k -> uniq_ctx st -> acyclic st -> (forall n, a <> RName n) ->
  consistent t k (delete_phase st (p_del (plan all_off st (discover t k) a))) ->
  let st' := r_st (reload all_off born st t k a) in
  consistent t k st' /\ forall n, has st' n <-> spec_loaded t k n.
Proof.
  intros GT Hu Hac Ha Hsurv. set (fs := discover t k). set (pl := plan all_off st fs a).
  pose proof (plan_ok_full all_off st fs a Ha) as Eok.
  destruct (plan_exact st fs a Hac (discover_fresh t k) (discover_uniq t k) (ctx_all_uniq st Hu) Eok) as (_ & Hsame & Hd & HF).
  fold pl in Hsame, Hd, HF, Eok, Hsurv.
  destruct (gt_rank t k GT) as (rank & Hrk & Hbound).
  set (st0 := delete_phase st (p_del pl)) in *. set (L := load_list (p_files pl)).
  (* the files the plan loads are discovered auto-loaded files *)
  assert (HL : forall s', In s' L -> exists s, In s fs /\ sf_auto s = true /\ s' = sf_set_force true s).
  { intros s' Hs'. apply load_list_In in Hs'. destruct Hs' as (Hin & Hau & Hfo).
    destruct (same_files_In _ _ _ Hsame Hin) as (s & b & Hs & ->). cbn in Hau, Hfo. subst b. eauto. }
  assert (Hok : forall s', In s' L -> root_ok t k s').
  { intros s' Hs'. destruct (HL s' Hs') as (s & Hs & Hau & ->). split; [apply (R_root t k s Hs Hau)|].
    destruct (discover_entry_ok t k s Hs) as [(f & Hf & Eg & Em & Ei) _ _ _ _]. exists f. cbn.
    split; [apply (tree_get_In t _ _ (gt_nodup t k GT)); exact Hf|auto]. }
  assert (Hnd : NoDup (map sf_name L)).
  { apply load_list_nodup. rewrite (same_files_names _ _ Hsame). apply discover_uniq. }
  assert (Hnot : forall s', In s' L -> ~ has st0 (sf_name s')).
  { intros s' Hs' H. apply has_iff in H. destruct H as (c & Hc & En). apply delete_phase_In in Hc. destruct Hc as [Hc Hn].
    destruct (Hok s' Hs') as [Hr _]. pose proof (gt_roots t k GT _ Hr) as Hroot. cbn in Hroot.
    assert (Hl : loaded st (sf_name s')) by (rewrite <- En; apply loaded_of_In; [exact Hc|rewrite En; exact Hroot]).
    apply load_list_In in Hs'. destruct Hs' as (Hin & Hau & Hfo). apply (HF s' Hin) in Hfo.
    assert (Hdel : In (c_name c) (p_del pl)).
    { rewrite En. apply Hd. destruct (Forced_discarded _ _ _ _ Hfo Hl) as [H|H]; [exact H|]. left. left.
      destruct a as [| |m]; [| |exfalso; apply (Ha m); reflexivity]; unfold Changed.
      - split; [exact Hl|]. destruct H as (s2 & Fs2 & [(c2 & Hc2 & En2 & Hch)|[Hnl _]]); [|tauto]. right. exists c2, s2. auto.
      - exact Hl. }
    destruct Hn as [Hn|Hn]; [exact (Hn Hdel)|]. apply Hn. rewrite En. exact Hl. }
  destruct (load_fold_spec t k born GT rank Hrk Hbound L {| w_st := st0; w_ev := []; w_fuel := true |} Hsurv Hok Hnd Hnot) as [Hst1 Hg1].
  cbv zeta in Hst1, Hg1. cbn [w_st] in Hg1.
  set (st1 := w_st (fold_left (load_one all_off t born) L {| w_st := st0; w_ev := []; w_fuel := true |})) in *.
  assert (Est : r_st (reload all_off born st t k a) = start_phase all_off a st1).
  { unfold reload. fold fs pl. rewrite Eok. reflexivity. }
  cbv zeta. rewrite Est.
  assert (Hsp : consistent t k (start_phase all_off a st1) /\ forall n, has (start_phase all_off a st1) n <-> has st1 n).
  { unfold start_phase. apply consistent_map; [|exact Hst1]. intros c.
    destruct (negb (in_ctx_roots (c_name c))); [auto|]. destruct a; cbn; auto. }
  destruct Hsp as [Hc' Hn']. split; [exact Hc'|]. intros n. rewrite Hn', (Hg1 n). split.
  - intros [H|(s' & d'' & Hs' & HD & En)].
    + apply has_iff in H. destruct H as (c & Hc & En). destruct Hsurv as [_ Hall]. destruct (Hall c Hc) as (d & Hr & (A & _) & _).
      exists d. split; [exact Hr|congruence].
    + destruct (Hok s' Hs') as [Hr _]. exists d''. split; [|exact En]. apply (Desc_reach t k rank Hrk _ _ Hr HD).
  - intros (d & Hr & En). destruct (Reach_from_root t k d Hr) as (s & Hs & Hau & HD).
    destruct (autoload_cases born st t k a s Hu Hac Ha Hs Hau) as [Hin|(c & Hc & Ecn & Hroot & Hnd' & Hnf)].
    + right. exists (sf_set_force true s), d. split; [exact Hin|]. split; [exact HD|exact En].
    + left. destruct (delete_phase_keeps st (p_del pl) c Hu Hc) as [_ Hc0].
      { rewrite Hd, Ecn. exact Hnd'. }
      destruct Hsurv as [_ Hall]. destruct (Hall c Hc0) as (dc & Hrc & (A & _) & Hdesc).
      assert (dc = root_desc s) by (apply (gt_coherent t k GT); [exact Hrc|apply R_root; assumption|cbn; congruence]).
      subst dc. rewrite <- En. apply Hdesc. exact HD.
Qed.

Lemma consistent_nil t k : consistent t k [].
Proof. split; [constructor|intros c []]. Qed.

Lemma delete_phase_nil del : delete_phase [] del = [].
Proof. unfold delete_phase. cbn. induction del as [|n del IH]; cbn; [reflexivity|exact IH]. Qed.

Lemma delete_all st del : (forall c, In c st -> In (c_name c) del /\ in_ctx_roots (c_name c) = true) -> delete_phase st del = [].
Proof.
  intros H. destruct (delete_phase st del) as [|c l] eqn:E; [reflexivity|]. exfalso.
  assert (Hc : In c (delete_phase st del)) by (rewrite E; cbn; auto).
  apply delete_phase_In in Hc. destruct Hc as [Hc [Hn|Hn]].
  - apply Hn. apply H. exact Hc.
  - apply Hn. apply in_map. apply ctx_all_In. split; [exact Hc|apply H; exact Hc].
Qed.

(* after '*' (also when forced by a change of the global options) the table is exactly spec_loaded *)
Theorem star_post_state born st t k : good_tree t k -> uniq_ctx st -> acyclic st ->
  (forall c, In c st -> in_ctx_roots (c_name c) = true) ->
  let st' := r_st (reload all_off born st t k RAll) in
  consistent t k st' /\ forall n, has st' n <-> spec_loaded t k n.
Proof.
  intros GT Hu Hac Hroots. apply post_state_exact; try assumption; [discriminate|].
  assert (Eok : p_ok (plan all_off st (discover t k) RAll) = true) by (apply plan_ok_full; discriminate).
  destruct (plan_exact st (discover t k) RAll Hac (discover_fresh t k) (discover_uniq t k) (ctx_all_uniq st Hu) Eok) as (_ & _ & Hd & _).
  rewrite delete_all; [apply consistent_nil|]. intros c Hc. split; [|apply Hroots; exact Hc].
  apply Hd. left. left. apply loaded_of_In; [exact Hc|apply Hroots; exact Hc].
Qed.

(* start-up *)
Theorem startup_post_state born t k : good_tree t k ->
  let st' := r_st (reload all_off born [] t k RNone) in
  consistent t k st' /\ forall n, has st' n <-> spec_loaded t k n.
Proof.
  intros GT. apply post_state_exact; try assumption; [constructor| |discriminate|].
  - exists (fun _ => 0%nat). intros a b (c & G & _). discriminate.
  - rewrite delete_phase_nil. apply consistent_nil.
Qed.

(* lifted over histories: at every step that is a default or '*' reload (after the global-option rule [eff_arg]) *)
Definition step_post (born : N) (st : state) (s : rstep) (a : rarg) : Prop :=
  let t := rs_tree s in let k := rs_cfg s in
  good_tree t k -> (forall n, a <> RName n) ->
  (consistent t k (delete_phase st (p_del (plan all_off st (discover t k) a)))
   \/ (a = RAll /\ forall c, In c st -> in_ctx_roots (c_name c) = true) \/ st = []) ->
  let st' := r_st (reload all_off born st t k a) in
  consistent t k st' /\ forall n, has st' n <-> spec_loaded t k n.

Theorem history_post : forall steps born old st, uniq_ctx st ->
  hist_all (fun _ st _ _ => acyclic st) born old st steps -> hist_all step_post born old st steps.
Proof.
  induction steps as [|s rest IH]; intros born old st Hu Hac; cbn [hist_all]; [exact I|].
  destruct Hac as [Hac Hrest]. set (a := eff_arg old s) in *. split.
  - unfold step_post. intros GT Ha [Hs|[[-> Hroots]| ->]].
    + apply post_state_exact; assumption.
    + apply star_post_state; assumption.
    + apply post_state_exact; try assumption. rewrite delete_phase_nil. apply consistent_nil.
  - apply IH; [|exact Hrest]. apply ping_uniq. apply (reload_origin all_off born st (rs_tree s) (rs_cfg s) a Hu).
Qed.

(* ---------- good_tree is inhabited: the diamond + app-with-sibling + script tree of LifeReloadFindings ---------- *)
From PV Require Import Proofs.LifeReloadFindings.

Definition ex_descs : list desc :=
  [ {| d_name := [1; 40]; d_rel := Some [1; 40; 0]; d_path := [1; 40; 0]; d_mod := false |};
    {| d_name := [2; 10]; d_rel := None; d_path := [10]; d_mod := false |};
    {| d_name := [4; 30; 21]; d_rel := None; d_path := [4; 30; 21]; d_mod := false |};
    {| d_name := [1; 40; 50]; d_rel := Some [1; 40]; d_path := [1; 40; 50]; d_mod := true |};
    {| d_name := [3; 60]; d_rel := None; d_path := [3; 60]; d_mod := true |};
    {| d_name := [3; 61]; d_rel := None; d_path := [3; 61]; d_mod := true |};
    {| d_name := [3; 62]; d_rel := None; d_path := [3; 62]; d_mod := true |} ]%N.

Definition ex_rank (d : desc) : nat :=
  rank_by_table [([2; 10]%N, 2%nat); ([3; 60]%N, 1%nat); ([3; 61]%N, 1%nat); ([3; 62]%N, 0%nat); ([1; 40]%N, 2%nat); ([1; 40; 50]%N, 1%nat); ([4; 30; 21]%N, 0%nat)] (d_name d).

Ltac in_cases H := repeat (destruct H as [<-|H]; [|]); [..|destruct H].

Lemma ex_reach_enum d : Reach ex_tree ex_cfg d -> In d ex_descs.
Proof.
  induction 1 as [s Hs Ha|d f i d' Hr IH Hf Hi Hc].
  - vm_compute in Hs. repeat (destruct Hs as [<-|Hs]; [cbn in Ha; try discriminate; vm_compute; tauto|]). destruct Hs.
  - unfold ex_descs in IH. cbn [In] in IH.
    repeat (destruct IH as [<-|IH]; [vm_compute in Hf; inversion Hf; subst f; cbn [f_imps fl] in Hi;
      repeat (destruct Hi as [<-|Hi]; [vm_compute in Hc; inversion Hc; subst d'; vm_compute; tauto|]); destruct Hi|]).
    destruct IH.
Qed.

Example ex_good_tree : good_tree ex_tree ex_cfg.
Proof.
  split.
  - vm_compute. repeat constructor; cbn; intuition discriminate.
  - intros d Hr. apply ex_reach_enum in Hr. unfold ex_descs in Hr. cbn [In] in Hr.
    repeat (destruct Hr as [<-|Hr]; [reflexivity|]). destruct Hr.
  - intros d Hr. apply ex_reach_enum in Hr. unfold ex_descs in Hr. cbn [In] in Hr.
    repeat (destruct Hr as [<-|Hr]; [eexists; split; [vm_compute; reflexivity|];
      cbn [f_imps fl]; intros i Hi; repeat (destruct Hi as [<-|Hi]; [eexists; vm_compute; reflexivity|]); destruct Hi|]).
    destruct Hr.
  - intros d d' Hr Hr' En. apply ex_reach_enum in Hr, Hr'. unfold ex_descs in Hr, Hr'. cbn [In] in Hr, Hr'.
    repeat (destruct Hr as [<-|Hr]; [repeat (destruct Hr' as [<-|Hr']; [first [reflexivity|cbn in En; discriminate]|]); destruct Hr'|]).
    destruct Hr.
  - intros d f i cs c' Hr Hf Hi Hcs Hc' (d2 & Hr2 & En2). apply ex_reach_enum in Hr, Hr2. unfold ex_descs in Hr, Hr2. cbn [In] in Hr, Hr2.
    repeat (destruct Hr as [<-|Hr]; [vm_compute in Hf; inversion Hf; subst f; cbn [f_imps fl] in Hi;
      repeat (destruct Hi as [<-|Hi]; [vm_compute in Hcs; inversion Hcs; subst cs; cbn [In] in Hc';
        repeat (destruct Hc' as [<-|Hc']; [cbn [cd_name] in En2;
           first [ eexists; split; [vm_compute; reflexivity|reflexivity]
                 | exfalso; repeat (destruct Hr2 as [<-|Hr2]; [cbn in En2; discriminate|]); destruct Hr2 ]|]); destruct Hc'|]); destruct Hi|]).
    destruct Hr.
  - exists ex_rank. split.
    + intros d f i d' Hr Hf Hi Hc. apply ex_reach_enum in Hr. unfold ex_descs in Hr. cbn [In] in Hr.
      repeat (destruct Hr as [<-|Hr]; [vm_compute in Hf; inversion Hf; subst f; cbn [f_imps fl] in Hi;
        repeat (destruct Hi as [<-|Hi]; [vm_compute in Hc; inversion Hc; subst d'; vm_compute; lia|]); destruct Hi|]).
      destruct Hr.
    + intros d Hr. apply ex_reach_enum in Hr. unfold ex_descs in Hr. cbn [In] in Hr.
      repeat (destruct Hr as [<-|Hr]; [vm_compute; lia|]). destruct Hr.
Qed.

(* and there the start-up loads exactly the closure *)
Example ex_startup_exact :
  forall n, has (r_st (reload all_off 0 [] ex_tree ex_cfg RNone)) n <-> spec_loaded ex_tree ex_cfg n.
Proof. apply (startup_post_state 0%N ex_tree ex_cfg ex_good_tree). Qed.
