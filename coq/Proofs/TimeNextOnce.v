(* Proofs/TimeNextOnce.v — the once(...) branch of timer_trigger_next returns the successor among the denoted instants. *)
From Coq Require Import ZArith List Bool Lia.
From PV Require Import Common.Civil Proofs.Civil Time.DtExpr Time.Next Gen.TimeConsts Proofs.TimeNext.
Import ListNotations.
Local Open Scope Z_scope.
Ltac Zify.zify_post_hook ::= Z.to_euclidean_division_equations.

Section Once.
  Variable scale : N -> Z.
  Variable sun : Z -> bool -> option Z.
  Variable cfg : deviations.
  Hypothesis Hmd : d_once_md_this_year cfg = false.
  Hypothesis Hsu : d_su_coincidence cfg = false.

  Lemma fires_point now T su : successor_of (fun t => t = T) now su (fires now T su).
  Proof.
    unfold fires, startup_eq, successor_of.
    destruct ((now <? T) || ((now =? T) && (now =? su))) eqn:E.
    - rewrite orb_true_iff, andb_true_iff, Z.ltb_lt, !Z.eqb_eq in E.
      split; [lia|]. split; [reflexivity|]. intros t' L1 L2 ->. lia.
    - rewrite orb_false_iff, Z.ltb_ge in E. intros t' L ->. lia.
  Qed.

  (* expressions that name one instant, whatever the day offset *)
  Definition single (e : dtexpr) : bool :=
    match de_time e with
    | TNow => true
    | _ => match de_date e with DNone | DMonthDay _ _ => false | _ => true end
    end.

  Lemma inst_val_single e ys k now su : single e = true -> inst_val scale e ys k now su = inst_val scale e 0 0 now su.
  Proof.
    unfold single, inst_val. destruct (de_time e) eqn:Et; try reflexivity;
      destruct (de_date e) eqn:Ed; try discriminate; reflexivity.
  Qed.

  Lemma day_denoted_fixed d yearly now day b ys k : date_ok d = true ->
    match d with DNone | DMonthDay _ _ => False | _ => True end ->
    (day_denoted d yearly now day <-> day = day_val d b ys k now).
  Proof.
    destruct d as [y m dd|m dd|w| | |]; cbn [date_ok day_denoted day_val]; intros DO F; try contradiction.
    - split; [intros (_ & ->); reflexivity|intros ->; split; auto].
    - rewrite andb_true_iff, !Z.leb_le in DO. apply dow_unique. lia.
    - tauto.
    - tauto.
  Qed.

  Lemma inst_single_iff e yearly now su t : expr_ok e = true -> single e = true ->
    inst scale sun e yearly su now t <-> t = inst_val scale e 0 0 now su.
  Proof.
    unfold expr_ok. rewrite !andb_true_iff. intros ((NS & DO) & NO) SG.
    unfold inst. setoid_rewrite (time_on_iff scale sun e su _ t NS).
    unfold single, inst_val, now_ok in *.
    destruct (de_time e) eqn:Et.
    all: try (destruct (de_date e) eqn:Ed; try discriminate;
              (split; [intros (day & H1 & H2); apply (proj1 (day_denoted_fixed _ yearly now day (uses_now e) 0 0 DO I)) in H1; subst; reflexivity
                      |intros ->; eexists; split; [apply (proj2 (day_denoted_fixed _ yearly now _ (uses_now e) 0 0 DO I)); reflexivity|reflexivity]])).
    (* TNow *)
    destruct (de_date e) eqn:Ed; try discriminate. cbn [day_denoted].
    split; [intros (day & _ & ->); reflexivity|intros ->; exists 0; split; [exact I|reflexivity]].
  Qed.

  Lemma once_single e now su : expr_ok e = true -> single e = true ->
    exists r, once_next scale sun cfg e now su = ROk r /\ successor_of (inst scale sun e true su now) now su r.
  Proof.
    intros OK SG. unfold once_next.
    assert (is_monthday e = false) as NM.
    { unfold expr_ok, now_ok in OK. rewrite !andb_true_iff in OK. destruct OK as (_ & NO).
      unfold single, is_monthday in *. destruct (de_time e); destruct (de_date e); try discriminate; reflexivity. }
    rewrite NM. cbn [andb]. unfold denote_dt.
    rewrite (denote_gen_ok scale sun e 0 0 now su OK). cbn [rbind].
    set (T := inst_val scale e 0 0 now su).
    assert (forall k, denote_gen scale sun e 0 k now su = ROk (T, fixed_date e)) as DK.
    { intros k. rewrite (denote_gen_ok scale sun e 0 k now su OK). rewrite (inst_val_single e 0 k now su SG). reflexivity. }
    assert (successor_of (inst scale sun e true su now) now su (fires now T su)) as SF.
    { eapply successor_ext; [intros t; symmetry; apply (inst_single_iff e true now su t OK SG)|apply fires_point]. }
    match goal with |- context [if ?c then _ else _] => destruct c end; rewrite ?DK; cbn [rbind]; eexists; split; try reflexivity; exact SF.
  Qed.

  (* ---- once(h:m:s ...): every day ---- *)
  Lemma once_daily e now su : expr_ok e = true -> fixed_date e = false ->
    exists r, once_next scale sun cfg e now su = ROk r /\ successor_of (inst scale sun e true su now) now su r.
  Proof.
    intros OK UF.
    assert (de_date e = DNone /\ uses_now e = false) as (Ed & Un).
    { unfold fixed_date in UF. destruct (de_date e); try discriminate. split; [reflexivity|exact UF]. }
    assert (no_sun e = true) as NS by (unfold expr_ok in OK; rewrite !andb_true_iff in OK; tauto).
    assert (forall k, inst_val scale e 0 k now su = midnight (day_of now + k) + tod_off scale e) as IV.
    { intros k. unfold inst_val, uses_now in *. rewrite Ed. destruct (de_time e); try discriminate; reflexivity. }
    assert (forall t, inst scale sun e true su now t <-> exists day, t = midnight day + tod_off scale e) as IN.
    { intros t. unfold inst. rewrite Ed. cbn [day_denoted].
      split; intros (day & H).
      - exists day. destruct H as (_ & H). apply (time_on_iff scale sun e su day t NS) in H.
        unfold uses_now in Un. destruct (de_time e); try discriminate; exact H.
      - exists day. split; [exact I|]. apply (time_on_iff scale sun e su day t NS).
        unfold uses_now in Un. destruct (de_time e); try discriminate; exact H. }
    unfold once_next. replace (is_monthday e) with false by (unfold is_monthday; rewrite Ed; reflexivity).
    cbn [andb]. unfold denote_dt. rewrite (denote_gen_ok scale sun e 0 0 now su OK). cbn [rbind]. rewrite Hsu. cbn [negb orb].
    rewrite andb_true_r. rewrite IV. set (c := tod_off scale e) in *.
    set (t0 := midnight (day_of now + 0) + c). set (k := (now - t0) / DAY + 1).
    assert (now < t0 + DAY * k /\ t0 + DAY * (k - 1) <= now) as (G1 & G2).
    { subst k. split; [apply grid_step_gt; reflexivity|].
      replace ((now - t0) / DAY + 1 - 1) with ((now - t0) / DAY) by lia. apply grid_step_le; reflexivity. }
    assert (exists x, (if negb (k =? 0) then denote_gen scale sun e 0 k now su else ROk (t0, false)) = ROk (t0 + DAY * k, x)) as (x & EQ).
    { destruct (k =? 0) eqn:Ek; cbn [negb].
      - apply Z.eqb_eq in Ek. exists false. f_equal. f_equal. lia.
      - rewrite (denote_gen_ok scale sun e 0 k now su OK), IV. eexists. f_equal. f_equal. subst t0. unfold midnight. lia. }
    rewrite EQ. cbn [rbind]. eexists. split; [reflexivity|]. clearbody k.
    unfold fires. replace (now <? t0 + DAY * k) with true by (symmetry; apply Z.ltb_lt; exact G1). cbn [orb].
    unfold successor_of. split; [left; exact G1|]. split.
    - apply IN. exists (day_of now + k). subst t0. unfold midnight. lia.
    - intros t' L1 L2 H. apply IN in H. destruct H as (day & ->). subst t0. clear EQ IN IV. unfold midnight, DAY in *. lia.
  Qed.

  (* ---- once(month/day ...): every year (conformant variant: deviation D61 off) ---- *)
  Lemma fires_cases now t su :
    (fires now t su = Some (t, t) /\ (now < t \/ (t = now /\ now = su))) \/ (fires now t su = None /\ t <= now).
  Proof.
    unfold fires, startup_eq. destruct ((now <? t) || ((now =? t) && (now =? su))) eqn:E.
    - left. split; [reflexivity|]. rewrite orb_true_iff, andb_true_iff, Z.ltb_lt, !Z.eqb_eq in E. lia.
    - right. split; [reflexivity|]. rewrite orb_false_iff, Z.ltb_ge in E. lia.
  Qed.

  Lemma once_monthday e now su m dd : expr_ok e = true -> de_date e = DMonthDay m dd ->
    - (365 * DAY) <= tod_off scale e <= 365 * DAY ->
    exists r, once_next scale sun cfg e now su = ROk r /\ successor_of (inst scale sun e true su now) now su r.
  Proof.
    intros OK Ed Hc.
    assert (no_sun e = true /\ valid_date 2023 m dd = true /\ now_ok e = true) as (NS & V & NO).
    { unfold expr_ok in OK. rewrite !andb_true_iff in OK. rewrite Ed in OK. cbn [date_ok] in OK. tauto. }
    assert (de_time e <> TNow) as NN by (unfold now_ok in NO; rewrite Ed in NO; destruct (de_time e); congruence).
    set (c := tod_off scale e) in *. set (y0 := year_of_day (day_of now)).
    set (f := fun y => midnight (days_from_civil y m dd) + c).
    assert (forall ys, inst_val scale e ys 0 now su = f (y0 + ys)) as IV.
    { intros ys. unfold inst_val. rewrite Ed. cbn [day_val]. destruct (de_time e); try congruence; reflexivity. }
    assert (forall t, inst scale sun e true su now t <-> exists y, t = f y) as IN.
    { intros t. unfold inst. rewrite Ed. cbn [day_denoted]. split.
      - intros (day & (y & _ & -> & _) & H). exists y. apply (time_on_iff scale sun e su _ t NS) in H.
        destruct (de_time e); try congruence; exact H.
      - intros (y & ->). exists (days_from_civil y m dd). split.
        + exists y. split; [apply valid_common_year_all; exact V|]. split; [reflexivity|discriminate].
        + apply (time_on_iff scale sun e su _ _ NS). destruct (de_time e); try congruence; reflexivity. }
    pose proof (valid_date_month _ _ _ V) as Hm.
    assert (forall a b, a <= b -> f a <= f b) as MONO.
    { intros a b L. pose proof (dfc_year_mono_le a b m dd Hm L). subst f. cbv beta. unfold midnight, DAY. lia. }
    assert (forall a, f a < f (a + 1)) as STEP.
    { intros a. pose proof (dfc_next_year a m dd Hm). subst f. cbv beta. unfold midnight, DAY. lia. }
    assert (f (y0 - 2) <= now /\ now < f (y0 + 2)) as (LO & HI).
    { pose proof (year_of_day_spec (day_of now)) as YS. fold y0 in YS.
      pose proof (day_tod now) as (EN & BN).
      pose proof (dfc_in_year (y0 - 2) m dd (valid_common_year_all _ _ _ V)) as I1.
      pose proof (dfc_in_year (y0 + 2) m dd (valid_common_year_all _ _ _ V)) as I2.
      replace (y0 - 2 + 1) with (y0 - 1) in I1 by lia.
      assert (forall y, jan1 y + 365 <= jan1 (y + 1)) as JS by (intros y; rewrite jan1_succ; destruct (is_leap y); lia).
      pose proof (JS (y0 - 1)) as J1. replace (y0 - 1 + 1) with y0 in J1 by lia.
      pose proof (JS (y0 + 1)) as J2. replace (y0 + 1 + 1) with (y0 + 2) in J2 by lia.
      subst f. cbv beta. clear IV IN MONO STEP JS. subst c. 
      generalize dependent (tod_off scale e). intros c Hc.
      generalize dependent (days_from_civil (y0 - 2) m dd). generalize dependent (days_from_civil (y0 + 2) m dd).
      generalize dependent (jan1 (y0 - 1)). generalize dependent (jan1 (y0 + 1)). generalize dependent (jan1 (y0 + 2)).
      generalize dependent (jan1 y0). generalize dependent (tod_of now). generalize dependent (day_of now).
      intros. unfold midnight, DAY in *. lia. }
    unfold once_next. replace (is_monthday e) with true by (unfold is_monthday; rewrite Ed; reflexivity).
    rewrite Hmd. cbn [negb andb]. unfold year_shifts. cbn [first_year].
    rewrite !(denote_gen_ok scale sun e _ 0 now su OK), !IV. cbn [rbind].
    replace (y0 + -1) with (y0 - 1) by lia. replace (y0 + 0) with y0 by lia.
    pose proof (STEP (y0 - 2)) as S0. replace (y0 - 2 + 1) with (y0 - 1) in S0 by lia.
    pose proof (STEP (y0 - 1)) as S1. replace (y0 - 1 + 1) with y0 in S1 by lia.
    pose proof (STEP y0) as S2. pose proof (STEP (y0 + 1)) as S3. replace (y0 + 1 + 1) with (y0 + 2) in S3 by lia.
    assert (forall ystar, (forall y, y < ystar -> f y <= now) -> (now < f ystar \/ (f ystar = now /\ now = su)) ->
                          successor_of (inst scale sun e true su now) now su (Some (f ystar, f ystar))) as FIN.
    { intros ystar Hbelow Hf. unfold successor_of. split; [exact Hf|]. split; [apply IN; eexists; reflexivity|].
      intros t' L1 L2 H. apply IN in H. destruct H as (y & ->).
      destruct (Z_lt_ge_dec y ystar) as [L|G]; [pose proof (Hbelow y L); lia|pose proof (MONO ystar y ltac:(lia)); lia]. }
    assert (forall y, y <= y0 - 2 -> f y <= now) as B0 by (intros y L; pose proof (MONO y (y0 - 2) L); lia).
    destruct (fires_cases now (f (y0 - 1)) su) as [(-> & F)|(-> & N1)].
    { eexists. split; [reflexivity|]. apply FIN; [|exact F]. intros y L. apply B0. lia. }
    destruct (fires_cases now (f y0) su) as [(-> & F)|(-> & N2)].
    { eexists. split; [reflexivity|]. apply FIN; [|exact F]. intros y L.
      destruct (Z.eq_dec y (y0 - 1)) as [->|NE]; [exact N1|apply B0; lia]. }
    destruct (fires_cases now (f (y0 + 1)) su) as [(-> & F)|(-> & N3)].
    { eexists. split; [reflexivity|]. apply FIN; [|exact F]. intros y L.
      destruct (Z.eq_dec y (y0 - 1)) as [->|NE]; [exact N1|]. destruct (Z.eq_dec y y0) as [->|NE2]; [exact N2|apply B0; lia]. }
    destruct (fires_cases now (f (y0 + 2)) su) as [(-> & F)|(-> & N4)]; [|lia].
    eexists. split; [reflexivity|]. apply FIN; [|exact F]. intros y L.
    destruct (Z.eq_dec y (y0 - 1)) as [->|NE]; [exact N1|]. destruct (Z.eq_dec y y0) as [->|NE2]; [exact N2|].
    destruct (Z.eq_dec y (y0 + 1)) as [->|NE3]; [exact N3|apply B0; lia].
  Qed.
End Once.
